#!/bin/bash
# usage: tools/mutant_matrix.sh [ids...]  -- runs every seeded change against the check of its own property
# (quick tier, private scratch worktrees) and writes seeded/MATRIX.txt
cd /verif
ids=${@:-$(ls seeded | grep '^C')}
tmp=$(mktemp -d /tmp/mutmatrix.XXXX)
for id in $ids; do
  ( tools/try_mutant.sh $id $id 2>&1 | grep "^mutant=" > $tmp/$id ) &
  while [ $(jobs -r | wc -l) -ge 4 ]; do sleep 1; done
done
wait
cat $tmp/* | sed 's#replay=/verif/replays/##g' > seeded/MATRIX.txt
rm -rf $tmp
cat seeded/MATRIX.txt
