#!/bin/bash
# usage: tools/mutant_matrix.sh [ids...]  -- runs every seeded change (rounds A, b, c) against the check of the
# property it breaks (quick tier, private scratch worktrees of /repo) and writes seeded/MATRIX_RUN.txt: one line
# per seeded change with the exit status of the check and whether the VIOLATION line carries a concrete replay.
# (seeded/MATRIX.txt is the annotated history of how each change came to be detected.)
cd /verif
ids=${@:-$(ls seeded | grep '^C')}
tmp=$(mktemp -d /tmp/mutmatrix.XXXX)
for id in $ids; do
  chk=${id:0:3}
  ( out=$(tools/try_mutant.sh $id $chk 2>&1 | grep "^mutant=\|PATCH-DOES-NOT-APPLY")
    if echo "$out" | grep -q "PATCH-DOES-NOT-APPLY"; then echo "mutant=$id check=$chk PATCH-DOES-NOT-APPLY" > $tmp/$id
    else
      rc=$(echo "$out" | sed -n 's/.* rc=\([0-9]*\) .*/\1/p')
      if echo "$out" | grep -q "VIOLATION property=$chk replay=[^ ]*violation"; then kind="concrete replay"
      elif echo "$out" | grep -q "no-failing-input-found"; then kind="no-failing-input-found"
      else kind="NOT DETECTED"; fi
      echo "mutant=$id check=$chk rc=$rc :: $kind" > $tmp/$id
    fi ) &
  while [ $(jobs -r | wc -l) -ge 5 ]; do sleep 1; done
done
wait
cat $tmp/* > seeded/MATRIX_RUN.txt
rm -rf $tmp
cat seeded/MATRIX_RUN.txt
