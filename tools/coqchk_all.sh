#!/bin/bash
# usage: tools/coqchk_all.sh  -- re-checks every compiled property module and everything it depends on with
# Coq's independent checker and prints the axioms / unsafe features they rely on (expected: none).
# Takes a few minutes; run after a full build.  Output: coqchk_report.txt
cd /verif/coq
mods=$(ls Properties/C*.v | sed 's#Properties/\(.*\)\.v#DoitV.Properties.\1#')
( date; timeout 7200 coqchk -o -silent -Q . DoitV $mods 2>&1 | tail -20 ) > /verif/coqchk_report.txt
cat /verif/coqchk_report.txt
