#!/usr/bin/env python3
"""Regenerates /verif/MANIFEST.json from the table below (single source of truth for the interface)."""
import json, os
HERE = os.path.dirname(os.path.dirname(os.path.abspath(__file__)))
BASE = json.load(open('/root/.vp/BASELINE.json')) if os.path.exists('/root/.vp/BASELINE.json') else {}
BASELINE_CMD = "cd /repo && /venv/bin/python -m pytest -ra -q -p no:cacheprovider --timeout=900 --continue-on-collection-errors"

# id -> (technique, level text, level note, design ref)
CLAIMED = {
 'C17': ('Coq theorems over Model/Action.v (classification total over tags and all Z exit statuses; Task.execute by induction over the action list; stream restoration by induction over nested executions) + correspondence by vm_compute against PythonAction/CmdAction/Task.execute',
         'proof: classification, Task.execute stop-at-first-failure/result/values, and restoration of the global stream for every properly nested execution are theorems (closed under the global context); the overlapping-threads case is refuted by a witness and recorded as known finding K1; byte-level capture through pipes/StringIO is exercised only (partial)',
         'trusted: Coq kernel incl. vm_compute; hand model Model/Action.v tied by the correspondence run (432 cases quick); mapping of Python values to return tags; subprocess/StringIO/inspect are oracles',
         'DESIGN.md 5-C17'),
}
CLAIMED['C07'] = ('Coq refinement proofs (simulation relation per backend, induction over the operation list) of Model/Backends.v to an abstract map + exhaustive/random correspondence against JsonDB/DbmDB/SqliteDB',
         'proof: each backend model answers exactly as the abstract map task->{key->value} for EVERY finite sequence of set/get/in_/remove/remove_all/close-and-reopen; corollaries: removed tasks never reappear, reopen preserves contents, the three backends are observationally equal; the two pre-repair behaviours are kept as legacy-refuted witnesses',
         'trusted: Coq kernel; hand model Model/Backends.v tied by exhaustive op sequences (len<=3 quick, <=4 thorough) + sampled/random ones against the real classes; JSON codec round-trip is a hypothesis (codec_ok) exercised on unicode/nested values; dbm.dumb, sqlite3, the file system are oracles',
         'DESIGN.md 5-C07')
CLAIMED['C16'] = ('Coq theorems over Model/CmdParse.v (a concrete model of getopt.getopt and of CmdOption/CmdParse/DefaultUpdate with the parser state threaded explicitly): round-trip of rendered command lines by induction over the unit list, rejection, precedence, purity + correspondence against the real classes',
         'proof: for every well-formed option spec and every sequence of rendered units (clusters, -sV, -s V, --l=V, --l V, flags, inverse flags) followed by positionals, parse returns exactly the written values (last wins, lists accumulate after the configured value), the positionals unchanged, and leaves the parser state unchanged; unknown options / missing or ill-typed values / invalid choices (also items of list options) give a parse error; precedence cmd line > env > DOIT_CONFIG > config file > default; legacy-refuted witnesses for the repaired defects.  Abbreviated long options are covered by the correspondence only',
         'trusted: Coq kernel; hand model Model/CmdParse.v tied by random specs/argv/env/config (644 quick, 9484 thorough cases) against CmdParse/TaskParse/DefaultUpdate/getopt; int()/custom type conversion is an oracle (Section variable conv) checked against Python int(); non-ASCII lower/strip not modelled',
         'DESIGN.md 5-C16')
CLAIMED['C14'] = ('Coq theorems over Model/Clean.v (CleanDepTree, Clean._execute selection, clean_tasks, clean_targets over an abstract file system): permutation/once by induction over the node list, dependents-first order by an invariant of _get_leafs, exact set / forget / dry-run frame + correspondence through the real clean command',
         'proof: for every task table, selection and flag combination the cleaned list is exactly the specified set (named + sub-tasks; closure with --clean-dep / no positional; all with --clean-all), each task once, and for an acyclic table every dependent is cleaned before what it depends on whenever dependencies are included; --dry-run leaves fs and DB unchanged; --forget erases exactly the cleaned records; clean: True removes only existing target files and emptied directories, children first.  Effects of user clean-actions on files are outside the model',
         'trusted: Coq kernel; hand model Model/Clean.v tied by 343 (quick) / 3023 (thorough) cases through Clean._execute and DoitMain.run([clean ...]) incl. the 13 cases of tests/test_cmd_clean.py; fnmatch is an oracle; the task table is taken as TaskControl.__init__ leaves it',
         'DESIGN.md 5-C14')
CLAIMED['C12'] = ('Coq theorems over Model/Select.v (TaskControl.__init__ dep expansion, _process_filter/_filter_tasks, default_tasks fallback, --single) by induction over the selection list and the task table + correspondence against TaskControl.process and DoitMain.run',
         'proof: for every task table and selection list _filter_tasks returns exactly, in order, the named task / all glob matches in definition order / the producer of a target / the placeholders for delayed creators, and fails with InvalidCommand iff some element is none of these (so nothing is dispatched); default_tasks / all-tasks fallback; exact effect of --single; implicit task_dep complete after __init__.  NOT proved: the order in which the serial runner starts selected tasks (C12_serial_order) - checked on real runs only; two known findings (delayed sub-task never created; --single on a delayed sub-task)',
         'trusted: Coq kernel; hand model Model/Select.v tied by 671 (quick) / 7511 (thorough) cases against TaskControl(...).process and in-process DoitMain runs; fnmatch / re.match / str.split are oracles tabulated per case',
         'DESIGN.md 5-C12')
CLAIMED['C15'] = ('Coq theorems over Model/Delayed.v (dispatcher with a growing task table, DelayedLoader copies, regex groups, serial runner) by invariants over the run + correspondence against load_tasks/TaskControl/Runner',
         'proof: every creator is evaluated at most once in any run (any table, selection, fuel) and only after a final event of its `executed` task; created tasks become ordinary table entries; regex-target selection / found / missing cases (partial: progress and exactness of the executed set are checked by the oracle only); K3 (unknown delayed sub-task accepted) refuted by witness and recorded as known finding',
         'trusted: Coq kernel; hand model Model/Delayed.v tied by 210 (quick) / 2400 (thorough) cases against the real loader, TaskControl.process and serial Runner (+ MThreadRunner and DoitMain samples judged by the oracle); creators are data (result of generate_tasks), string operations and Dependency are oracles; init_ok of the selected state is evaluated per case rather than proved in general',
         'DESIGN.md 5-C15')
CLAIMED['C03'] = ('Coq invariant proof over ALL operation histories of Model/Status.v + History.v (db_reflects_ghost: every DB record encodes what the last successful execution saw) => up-to-date soundness + correspondence against the real Dependency on json/dbm/sqlite3 with both checkers',
         'proof: for every finite history over {write, touch, delete, change definition, change checker, successful execution, failure/forget, ignore, reset-dep, forget-all, check} (fresh mtimes), whenever get_status answers up-to-date the task has a last successful execution whose file_dep set, checker and per-file state (by the configured checker rule) equal the present ones, all targets exist, no uptodate item is false and it has a file_dep or an evaluated item; same in get_log mode; FS-fresh shown necessary by a refuted companion; the two repaired defects kept as legacy-refuted witnesses',
         'trusted: Coq kernel; hand model tied by 1032 (quick) / 7896 (thorough) cases: random histories x 3 backends x 2 checkers against Dependency.get_status/save_success/remove_success + end-to-end DoitMain sample; md5 and file sizes are oracles (no injectivity assumed); uptodate callables/shell commands are opaque oracle values; hypothesis FS-fresh (a write never keeps the mtime)',
         'DESIGN.md 5-C03')
CLAIMED['C04'] = ('Coq proofs over Model/Status.v + History.v: converse of C03 (completeness of up-to-date), idempotent re-run, md5 insensitivity to touch/same-content rewrite + correspondence (shared with C03)',
         'proof: if since its last successful execution nothing listed in the documented conditions changed, get_status answers up-to-date and the runner model does not execute the task; after run_all of any task list from any history a second run executes exactly the tasks with a false uptodate item or without file_dep and evaluated item; under md5 a touch or same-content rewrite leaves get_status unchanged; FS-fresh necessity witnessed',
         'trusted: as C03 (same models, same correspondence run); serial runner decision modelled by run_task (select_task + result processing, no setup-tasks)',
         'DESIGN.md 5-C04')
CLAIMED['C01'] = ('Coq invariant proofs over Model/Dispatch.v + Runner.v + Parallel.v: accounting invariant of the dispatcher (every dependency is pending / being iterated / waited for / finished), queue discipline, statuses frame, and for the parallel runners an invariant over main-thread state, job queue, busy workers and result queue => whenever a task is started every declared dependency has a final report earlier in the trace, under every schedule; correspondence event-for-event against the real dispatcher and runners under a deterministic scheduler',
         'proof: for every task table, selection, --continue/--always, set-iteration oracle and fuel (= every prefix of every run): the serial runner emits EExecute t only after a final report of every task in t.task_dep (explicit, wild-card, file_dep on a target, result_dep, delayed trigger), t.calc_dep and t.setup (incl. getargs) [C01_serial_dep_order]; MRunner (process flavour) and MThreadRunner with ANY number of workers and under EVERY schedule of the model start the actions of t in a worker (PStart) only after those final reports [C01_parallel_dep_order] - hence dependency-related tasks never overlap.  Dependencies returned by calc_dep tasks at run time are covered by the dispatcher invariant (deps_final over n_all_task/n_all_calc) and by the oracle on implementation traces, not yet by a trace-level theorem; real multiprocessing is sampled',
         'trusted: Coq kernel; hand models tied by 732 (quick) cases incl. all DAGs <= 3 tasks x all schedules k=2 for thread and process flavour, random graphs to 10 tasks with calc_dep/setup/getargs/failures; Dependency is a fake at the runner seam (status per task is an input); scheduler granularity assumption (main-thread segments and worker steps commute except through the queues); process flavour simulated in threads with per-worker runner copies',
         'DESIGN.md 5-C01')
CLAIMED['C02'] = ('Coq invariant proof (a node that passed its last `yield this_task` is spent and never handed to the runner again; executed => spent) over Model/Dispatch.v + Runner.v + correspondence of all runners + oracle',
         'proof: in every serial run (any table, selection, flags, oracle, fuel) no task is executed twice [C02_exec_once_serial].  NOT yet proved: exactly one final report per closure task and nothing outside the closure (needs the progress invariant); both are checked on every implementation trace by the oracle, for all runners',
         'trusted: as C01 (same models and correspondence harness); closure computed independently from the real Task objects after the run',
         'DESIGN.md 5-C02')
CLAIMED['C05'] = ('Coq trace-shape proof over Model/Runner.v (every failure report immediately preceded by remove_success) + correspondence of all runners with failure injection + real-backend failure histories',
         'proof: in every serial run every failure report (TaskFailed, TaskError, unmet dependency, dependency error before or after execution) is immediately preceded by remove_success of that task [C05_failure_removed_serial].  Containment (no dependent of a failed task starts; --continue processes the rest; serial stops) is checked by the oracle on every implementation trace of all runners and by the correspondence; on the real Dependency (3 backends x 2 checkers x 6 failure kinds) a failed task is re-executed on the next run',
         'trusted: as C01; the real-backend part uses the real Runner/MThreadRunner + Dependency',
         'DESIGN.md 5-C05')
CLAIMED['C11'] = ('Coq proofs over Model/Runner.v: teardown discipline by a trace invariant (teardown list = executed tasks with teardown), setup-before-task from the C01 invariant + correspondence/oracle for all runners',
         'proof: serial runner - after the DB is closed the teardown reports are exactly the executed tasks with teardown, once each, in reverse order of execution, however the loop ended, and nothing else follows [C11_teardown_serial]; a task starts only after all its setup-tasks finished [C11_setup_before_task].  Laziness of setup-tasks and the per-worker teardown order of the parallel runners are checked by the oracle on every implementation trace',
         'trusted: as C01', 'DESIGN.md 5-C11')
CLAIMED['C19'] = ('Coq trace-shape proof over Model/Runner.v (exit code = function of the failure reports; body ++ close ++ teardowns ++ marker) + correspondence/oracle for all runners',
         'proof: serial runner - the exit code is 0 iff no failure was reported, 1 iff only TaskFailed failures, 2 iff some error kind, 3 when a cycle is diagnosed; success reports are preceded by save_success and failure reports by remove_success [C19_serial_outcome, C19_exit_code_table].  One-final-report-per-task and report truthfulness for all runners (incl. reports forwarded from worker processes) are checked by the oracle on every implementation trace.  The built-in reporters text/JSON output is not modelled yet',
         'trusted: as C01', 'DESIGN.md 5-C19')
CLAIMED['C18'] = ('Coq theorems over Model/Loader.v (load_tasks/generate_tasks/flat_generator, dict_to_task, Task.__init__ validation over type-tagged values, TaskControl.__init__ checks) by induction over the item structure + exhaustive single/pair-fault correspondence against load_tasks + TaskControl + DoitMain',
         'proof: for every list of task-creators (any nesting, any attribute subset, any top-level type tag, Task objects, delayed creators) loading never ends in an internal exception [C18_total]; on success names are unique and in definition/yield order, sub-tasks are attached to their group which lists them in yield order, targets unique, every task_dep/setup/calc_dep/getargs reference names a task of the set; unknown fields, wrong types (documented table), duplicates, command-name clashes, missing actions/name, dangling references are rejected.  Seven defect families found by the faithful model were repaired in /repo (fix: commits) and are kept as legacy-refuted witnesses',
         'trusted: Coq kernel; hand model Model/Loader.v tied by 6767 (quick) / 33843 (thorough) cases: every attribute x every type tag x 4 item positions, element faults, rule cases, random namespaces, sample through DoitMain; creator ordering is an input; @task_params, result_dep objects, BaseAction instances, set iteration order of file_dep not modelled; fnmatch oracle',
         'DESIGN.md 5-C18')
CLAIMED['C13'] = ('Coq theorems over Model/Commands.v (forget / ignore / reset-dep and the cmd_base helpers) on top of Status.v/History.v and Runner.v: exact removed set + frame, closure of tasks_and_deps_iter, ignore mark persistence, reset-dep record + correspondence through the real commands on 3 backends',
         'proof: for every task table, DB and argument form forget removes exactly the documented set (named + sub-tasks; (task_dep u setup)-closure with -s; everything with --all; defaults / all non-sub-tasks when none named) and leaves every other record unchanged; a forgotten task is not up-to-date next (constant-true-uptodate caveat witnessed); ignore marks exactly T and its sub-tasks, the mark persists over any runs until a forget covering the task, and no serial run ever starts a marked task; reset-dep records the state of the present files keeping values/result, or nothing when a file dep is missing.  PARTIAL: that no DEPENDENT of an ignored task is started is proved only locally (C13_ignore_dependents_partial) and checked by the oracle on every real run',
         'trusted: Coq kernel; hand model tied by 193 (quick) / 1672 (thorough) command applications through DoitMain on json/dbm/sqlite3 with DB dumps and a following recorded run; md5/callables oracles',
         'DESIGN.md 5-C13')
CLAIMED['C10'] = ('Coq theorems over Model/Inputs.v on top of Status.v/History.v (changed, getargs values = latest saved values by an invariant over all histories, dependencies/targets) and of the dispatcher invariants (getargs source finished first, calc results merged before hand-over) + correspondence through DoitMain with instrumented actions',
         'proof: whenever a task must run (other than through the uptodate-false early exit) `changed` contains every file dependency without saved state or modified w.r.t. the last successful execution by the checker rule; getargs values (single and group sources, key or whole dict) are exactly those of the source task\'s most recent successful execution after ANY history, errors included, and the source has finished before the consumer starts (from C01); dependencies/targets are the current ones; calc_dep results are merged into the dependent before it is handed to the runner.  PARTIAL: the trace-level ordering theorem for tasks returned by calc_dep results (C10_calc_dep_effective_partial).  KNOWN finding: changed == [] when an uptodate item is false (pinned by existing tests)',
         'trusted: Coq kernel; hand model tied by 752 (quick) / ~3700 (thorough) compared cases from real sessions (serial, -n 2, -n 2 -P thread; json/dbm/sqlite3); inspect-based kwargs binding, %-formatting, md5, set iteration order are oracles; task params/pos_arg and result_dep on group sources not modelled',
         'DESIGN.md 5-C10')
CLAIMED['C06'] = ('Coq theorems over Model/Crash.v: interrupt half on the serial runner model (flush-once-before-teardowns trace shape, DB effect through the C07 refinement), kill half on step models of JsonDB.dump / sqlite commit / CPython dbm.dumb (crash_after k for every k) + interrupt sweep and strace SIGKILL sweep over every DB syscall on the real code',
         'PARTIAL proof: (interrupt) if an action raises KeyboardInterrupt/SystemExit the trace is pre ++ [EExecute k; EClose; teardowns], every success in pre was saved before, k is neither saved nor reported, and on the abstract map exactly the saved tasks gain records; every non-fuel stop flushes the DB once; (kill) every crash state of JsonDB.dump is old / new / proper prefix (refused by _load under the J-prefix oracle), sqlite is old or new (atomic commit trusted), for the byte-level dbm.dumb model each key reads old / new / absent / torn / index unreadable and well-formedness is preserved across any number of killed sessions.  The on-disk behaviour of dbm.dumb/sqlite3/the kernel (syscall atomicity, journal recovery, undecodable records) is swept, not proved',
         'trusted: Coq kernel; models tied by 66 (quick) / 948 (thorough) interrupt runs compared with Runner.v, 202 / 543 strace kill points judged by the soundness oracle on the next run, simulated torn writes, dbm.dumb step model vs the real module; JSON decoder oracles (J_prefix, R_prefix, R_extra); each syscall atomic and in program order under SIGKILL',
         'DESIGN.md 5-C06')
CLAIMED['C09'] = ('Coq invariant proofs over Model/Dispatch.v + Runner.v (final reports follow the reachability order, hence nothing on a cycle is ever executed or finished; exit code 3 only through the two cycle diagnostics after close + teardowns) + correspondence on random and exhaustive small (cyclic) graphs under the deterministic scheduler + cyclic dodo modules through the CLI',
         'PARTIAL proof: (safety half, serial runner, any task table incl. dynamic calc_dep additions, any oracles/fuel) a task that reaches itself through task_dep / implicit file / calc_dep edges (setup edges: oracle only) is never executed and never reported done/skipped; a task is finished only after everything reachable from it; exit code 3 is returned exactly by the InvalidDodoFile paths (cycle found on the ancestor chain, or hold-on while nothing runs) and only after the DB was closed and teardowns ran.  NOT PROVED: the liveness half (a run over an acyclic finite closure ends with every task final within a fuel bound; every cycle is diagnosed rather than deadlocking) -- decided by correspondence + oracle only (hang = exit 98 under the deterministic scheduler, which detects a main thread blocked with nothing executing), and the parallel runners are covered by correspondence only',
         'trusted: Coq kernel; hand model tied by the run-family correspondence (runlib.py deterministic scheduler); fuel: StopFuel (exit 99) never observed on the implementation side is checked by the comparison itself',
         'DESIGN.md 5-C09')
CLAIMED['C20'] = ('Coq theorems over Model/Introspect.v on top of Status.v/History.v/Commands.v/Clean.v (frame theorems for list/info/status/clean --dry-run; list --status letter = the decision of run; info verdict/reasons) + correspondence through DoitMain on 3 backends with DB dumps and file-system snapshots before/after',
         'proof: list (with or without --status/--deps), info and clean --dry-run leave every DB record and every file unchanged for every task table/DB/file system (the one documented exception -- uptodate callables with side effects -- is witnessed); the letter of list --status and the verdict of info equal the decision the next run takes on the merged definition (calc_dep file_dep included) -- for info only when every file dependency exists (C20_info_agrees_refuted: KNOWN FINDING info-status-differs-missing-file-dep); info reasons are exactly the changed/missing items.  Only the file_dep part of calc_dep results is modelled',
         'trusted: Coq kernel; hand model tied by 548 (quick) / 4056 (thorough) command runs through DoitMain on json/dbm/sqlite3; md5/uptodate-callable oracles',
         'DESIGN.md 5-C20')
NOT_YET = {}

def main():
    props = [json.loads(l) for l in open(os.path.join(HERE, 'properties.jsonl'))]
    checks, na = [], []
    for p in props:
        pid = p['id']
        if pid in CLAIMED:
            tech, text, note, ref = CLAIMED[pid]
            checks.append({
                'property_id': pid,
                'quick_cmd': './check %s --tier quick' % pid,
                'thorough_cmd': './check %s --tier thorough' % pid,
                'evidence_file': 'evidence/%s.json' % pid,
                'replay_cmd_template': './check %s --replay {path}' % pid,
                'engine': 'coq-model+correspondence',
                'level_claimed': {'category': 'proof', 'text': text, 'design_ref': ref},
                'level_note': note,
                'technique': tech,
            })
        else:
            na.append({'property_id': pid, 'reason': NOT_YET.get(pid, 'machine-checked proof applies (see DESIGN.md section 5) but the model, theorems and correspondence for this property are not built yet in this round; not claimed until they are')})
    m = {
        'version': 1,
        'setup_cmd': 'cd /verif && /venv/bin/python tools/setup.py',
        'hooks': {'guard': 'PYDOIT_DOIT_VERIF',
                  'enable': 'checks import doit from /repo with PYDOIT_DOIT_VERIF=1 in the environment; no source hooks exist (all observation is from outside: reporter subclasses, instrumented actions, fake Queue/Child classes, a wrapper installed by the harness around TaskDispatcher._update_waiting)',
                  'baseline_off_cmd': BASELINE_CMD,
                  'source_commits': [],
                  'add_only': True},
        'engines': [{'name': 'coq-model+correspondence', 'path': 'coq/ + harness/ + check',
                     'serves_properties': sorted(CLAIMED),
                     'kind_free_text': 'hand-written executable Gallina model with Coq 8.16.1 theorems (coq/Model, coq/Proofs, coq/Properties); Python correspondence harness running the real doit classes and evaluating the model by vm_compute on the same inputs'}],
        'checks': checks,
        'not_applicable': na,
        'notes': 'fix: commits in /repo and known findings are listed in KNOWN_FINDINGS.json; see DESIGN.md',
    }
    json.dump(m, open(os.path.join(HERE, 'MANIFEST.json'), 'w'), indent=1)
    print('claimed', len(checks), 'not claimed', len(na))

if __name__ == '__main__':
    main()
