#!/bin/bash
# usage: tools/final_pass.sh  -- what is run before a hand-over: full build from clean, scan for forbidden constructs,
# independent re-check with coqchk, every quick check at seed 0 (evidence rewritten), schema validation.
cd /verif
echo "== full build from clean"
( flock coq/.build.lock bash -c 'cd coq && /venv/bin/python -c "import sys; sys.path.insert(0,\"/verif/harness\"); import common; common.coq_prepare()" && make clean >/dev/null 2>&1; timeout 6000 make -j12 2>&1 | grep -v "Closed under\|^COQ\|^make\|^CLEAN" | tail -5' )
echo "== forbidden constructs"
grep -rnE '\bAdmitted\b|\badmit\b|^\s*(Axiom|Parameter|Conjecture|Hypothesis|Variable)s?\b.*\.|Unset Guard|bypass_check|type-in-type|native_compute|Admit Obligations' coq --include=*.v | grep -v "^coq/.*:[0-9]*: *(\*" | python3 -c "
import sys,re
# Variable / Hypothesis are allowed inside Sections: report only top-level ones (crude: track Section/End per file)
import collections
hits=[l for l in sys.stdin]
files=collections.defaultdict(list)
for h in hits:
    f,n,_=h.split(':',2); files[f].append(int(n))
bad=[]
for f,ns in files.items():
    depth=0; lines=open(f).read().split('\n')
    secdepth=[]
    for i,l in enumerate(lines,1):
        if re.match(r'\s*Section\s+\w+\s*\.',l): depth+=1
        if re.match(r'\s*End\s+\w+\s*\.',l) and depth>0: depth-=1
        secdepth.append(depth)
    for n in ns:
        l=lines[n-1]
        if re.match(r'\s*(Variable|Hypothesis)s?\b',l) and secdepth[n-1]>0: continue
        if re.search(r'\(\*.*(Admitted|admit|Axiom|Parameter).*\*\)',l): continue
        bad.append('%s:%d:%s'%(f,n,l.strip()[:120]))
print('\n'.join(bad) if bad else 'none')
"
echo "== coqchk"
tools/coqchk_all.sh | tail -12
echo "== quick checks, seed 0"
for id in $(/venv/bin/python -c "import json;print(' '.join(c['property_id'] for c in json.load(open('MANIFEST.json'))['checks']))"); do
  VERIF_SEED=0 ./check $id --tier quick 2>&1 | grep -v "^KNOWN-FINDING" | grep " quick: \|^VIOLATION\|Error\|Traceback" | tail -3
done
echo "== schemas"
python3-vt - <<'PY'
import json, jsonschema, glob
jsonschema.validate(json.load(open('/verif/MANIFEST.json')), json.load(open('/root/.vp/MANIFEST.schema.json')))
es = json.load(open('/root/.vp/EVIDENCE.schema.json'))
n = 0
for f in sorted(glob.glob('/verif/evidence/C*.json')):
    jsonschema.validate(json.load(open(f)), es); n += 1
print('manifest ok, %d evidence files ok' % n)
PY
