#!/bin/bash
# usage: tools/try_mutant.sh <seeded id> <check id> [<check id> ...]   -- applies seeded/<id>/patch.diff to /repo, runs checks, reverts
m=$1; shift
cd /repo || exit 9
if ! git diff --quiet; then echo "/repo has uncommitted changes"; exit 9; fi
if ! git apply --check /verif/seeded/$m/patch.diff 2>/dev/null; then echo "PATCH-DOES-NOT-APPLY $m"; exit 8; fi
git apply /verif/seeded/$m/patch.diff
cd /verif
for c in "$@"; do
  out=$(timeout 900 ./check $c --tier quick 2>&1); rc=$?
  echo "mutant=$m check=$c rc=$rc :: $(echo "$out" | grep -c '^VIOLATION') violation line(s); $(echo "$out" | grep '^VIOLATION' | head -2 | tr '\n' ' ')"
  echo "$out" | tail -1
done
git -C /repo checkout -- . 
