#!/bin/bash
# usage: tools/try_mutant.sh <seeded id> <check id> [<check id> ...]
# applies seeded/<id>/patch.diff in a private scratch worktree of /repo (never in /repo itself), runs the
# checks against it through VERIF_REPO, and removes the worktree.  Safe to run concurrently.
m=$1; shift
wt=/tmp/mutwt_${m}_$$
git -C /repo worktree prune
git -C /repo worktree add -q --detach $wt HEAD || exit 9
if ! git -C $wt apply --check /verif/seeded/$m/patch.diff 2>/dev/null; then echo "PATCH-DOES-NOT-APPLY $m"; git -C /repo worktree remove --force $wt; exit 8; fi
git -C $wt apply /verif/seeded/$m/patch.diff
cd /verif
for c in "$@"; do
  out=$(VERIF_REPO=$wt timeout 1200 ./check $c --tier quick 2>&1); rc=$?
  echo "mutant=$m check=$c rc=$rc :: $(echo "$out" | grep -c '^VIOLATION') violation line(s); $(echo "$out" | grep '^VIOLATION' | head -2 | tr '\n' ' ')"
  echo "$out" | tail -1
done
git -C /repo worktree remove --force $wt
