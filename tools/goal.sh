#!/bin/bash
# usage: tools/goal.sh Proofs/X.v LINE  -- shows the goals after line LINE of the file (debug helper)
f=$1; n=$2
mkdir -p /tmp/dbg_goal
head -n $n /verif/coq/$f > /tmp/dbg_goal/Dbg.v
echo "Show." >> /tmp/dbg_goal/Dbg.v
cd /tmp/dbg_goal && timeout 300 coqc -Q /verif/coq DoitV Dbg.v 2>&1 | tail -${3:-40}
