#!/bin/bash
# usage: tools/verify_seeded.sh <id>  -- confirms a seeded change in a scratch worktree: applies, suite passes, demo fails with / passes without
id=$1
wt=/tmp/seedchk_$id
rm -rf $wt; git -C /repo worktree prune
git -C /repo worktree add -q --detach $wt HEAD || exit 9
cd $wt
res="id=$id"
if git apply --check /verif/seeded/$id/patch.diff 2>/dev/null; then
  git apply /verif/seeded/$id/patch.diff
  cp /verif/seeded/$id/demo_$id.py .
  sed -i "s#/tmp/mut_$id#$wt#g" demo_$id.py
  fails=$(PYTHONPATH=$wt /venv/bin/python -m pytest -q -p no:cacheprovider --timeout=900 2>&1 | grep "^FAILED" | sed 's/ - .*//' | sort | tr '\n' ' ')
  PYTHONPATH=$wt timeout 120 /venv/bin/python demo_$id.py >/tmp/seedchk_$id.with 2>&1; rc_with=$?
  git checkout -q -- doit
  PYTHONPATH=$wt timeout 120 /venv/bin/python demo_$id.py >/tmp/seedchk_$id.without 2>&1; rc_without=$?
  base=$(PYTHONPATH=$wt /venv/bin/python -m pytest -q -p no:cacheprovider --timeout=900 2>&1 | grep "^FAILED" | sed 's/ - .*//' | sort | tr '\n' ' ')
  new=$(comm -23 <(echo $fails | tr ' ' '\n' | sort) <(echo $base | tr ' ' '\n' | sort) | tr '\n' ' ')
  res="$res applies=yes new_test_failures=[$new] demo_with_change_rc=$rc_with demo_without_change_rc=$rc_without"
else
  res="$res applies=NO"
fi
cd /; git -C /repo worktree remove --force $wt
echo "$res"
