#!/bin/bash
# usage: tools/intake_seed.sh <prop id> <suffix> "<what needs to manifest>"
# takes a seeded change a sub-agent left in /tmp/mut<suffix>_<id> (worktree of /repo with patch.diff and
# demo_<id>.py), checks that patch.diff is exactly the worktree's diff and that the demo passes on the
# original code and fails on the changed code, stores it under seeded/<id><suffix>/ and removes the worktree.
id=$1; suf=$2; what=$3
wt=/tmp/mut${suf}_${id}
dst=/verif/seeded/${id}${suf}
[ -d $wt ] || { echo "no $wt"; exit 2; }
cd $wt
# make sure the change is applied
if git diff --quiet -- doit; then git apply patch.diff || { echo "patch does not apply"; exit 3; }; fi
if ! diff <(git diff -- doit) <(cat patch.diff) >/dev/null; then echo "WARNING: patch.diff differs from worktree diff; using worktree diff"; git diff -- doit > patch.diff; fi
demo=$(ls demo_${id}*.py 2>/dev/null | head -1)
PYTHONPATH=$wt PYTHONHASHSEED=0 timeout 600 /venv/bin/python $demo >/tmp/intake_$$.out 2>&1; rc_mut=$?
git apply -R patch.diff
PYTHONPATH=$wt PYTHONHASHSEED=0 timeout 600 /venv/bin/python $demo >/tmp/intake_$$.orig 2>&1; rc_orig=$?
echo "demo on original rc=$rc_orig ($(tail -1 /tmp/intake_$$.orig)); on changed rc=$rc_mut ($(head -1 /tmp/intake_$$.out))"
rm -f /tmp/intake_$$.out /tmp/intake_$$.orig
if [ $rc_orig -ne 0 ] || [ $rc_mut -eq 0 ]; then echo "DEMO DOES NOT DISCRIMINATE"; exit 4; fi
mkdir -p $dst
cp patch.diff $dst/patch.diff
cp $demo $dst/demo_${id}${suf}.py
/venv/bin/python - "$id" "$suf" "$what" > $dst/meta.json <<'EOF'
import json, sys
i, suf, what = sys.argv[1:4]
batch = {'b': 'B (second independent change for this property)', 'c': 'C (third independent change for this property)', 'd': 'D (fourth independent change for this property)', 'e': 'E (fifth independent change for this property)', 'f': 'F (sixth independent change for this property)', 'g': 'G (seventh independent change for this property)'}.get(suf, suf)
print(json.dumps({
 "breaks_property": i, "batch": batch, "needs_to_manifest": what,
 "produced_by": "independent sub-agent given only the property text, the descriptions of the earlier seeded changes to avoid, and a scratch worktree of /repo (nothing from /verif)",
 "confirmed_by_lead": {"patch_applies_to_HEAD": True,
   "how": "tools/intake_seed.sh: patch equals the sub-agent's working tree diff; demo exits 0 on the original code and non-zero on the changed code in the scratch worktree"},
 "files": ["patch.diff", "demo_%s%s.py" % (i, suf)]}, indent=1))
EOF
cd /verif
git -C /repo worktree remove --force $wt
echo "stored $dst"
