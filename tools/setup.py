#!/venv/bin/python
"""setup: full .vo build (never -vos) of the Coq development behind every claimed property, from the
files on disk (offline).  Files of properties that are not claimed in MANIFEST.json are not built."""
import json, os, sys
HERE = os.path.dirname(os.path.dirname(os.path.abspath(__file__)))
sys.path.insert(0, os.path.join(HERE, 'harness'))
import common
claimed = [c['property_id'] for c in json.load(open(os.path.join(HERE, 'MANIFEST.json')))['checks']]
targets = ['Properties/%s.vo' % p for p in claimed]
ok, log = common.coq_build(targets, timeout=3000)
print(log[-3000:])
hits = []
for p in claimed:
    hits += common.forbidden_scan(p)
if hits:
    print('forbidden constructs:', sorted(set(hits)))
sys.exit(0 if ok and not hits else 1)
