#!/venv/bin/python
"""setup: full .vo build of the Coq development from the files on disk (offline)."""
import os, sys
sys.path.insert(0, os.path.join(os.path.dirname(os.path.dirname(os.path.abspath(__file__))), 'harness'))
import common
ok, log = common.coq_build(None, timeout=3000)
print(log[-3000:])
hits = common.forbidden_scan()
if hits:
    print('forbidden constructs:', hits)
sys.exit(0 if ok and not hits else 1)
