#!/bin/bash
# usage: tools/all_thorough.sh [seed]  -- builds, then runs every claimed check in the thorough tier, 3 at a time; prints one line per check
cd "$(dirname "$0")/.."
export VERIF_SEED=${1:-0}
/venv/bin/python tools/setup.py >/dev/null 2>&1
ids=$(/venv/bin/python -c "import json;print(' '.join(c['property_id'] for c in json.load(open('MANIFEST.json'))['checks']))")
for id in $ids; do
  ( out=$(./check $id --tier thorough 2>&1); rc=$?; echo "rc=$rc $(echo "$out" | grep -c '^VIOLATION') viol :: $(echo "$out" | tail -1)" ) &
  while [ $(jobs -r | wc -l) -ge 3 ]; do sleep 2; done
done
wait
