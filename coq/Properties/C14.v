(* C14 -- `clean` acts on exactly the selected tasks, once, dependents first.
   Statements only; every proof is `exact <lemma of Proofs/CleanP.v>` (or a closed computation for
   the examples).  Model: Model/Clean.v (cmd_clean.py, task.py Task.clean / clean_targets).
   Conventions: [dep tb t d] = d is in setup_tasks + task_dep of t (the relation
   build_nodes_with_deps follows); [reach] its reflexive-transitive closure; [subdep tb n d] = d is
   a task_dep of n whose subtask_of is n; [before x y l] = x occurs in l strictly before y;
   [with_deps o] = --clean-all, or no positional argument, or --clean-dep.
   [clean_execute_rd .. rd ..] = the command when clean actions ask doit.Globals.dep_manager for saved
   state (doc/globals.rst): [rd t i] = the tasks whose record clean action i of task t looks up;
   [ERead t i u b] = that look-up in the trace, b = a record was found; [strip w] = w without the
   look-up entries of its trace. *)
From Coq Require Import Permutation Relations.
From DoitV Require Import Base Clean CleanP.
Local Open Scope nat_scope.

(* ---------------------------------------------------------------- CleanDepTree.flat *)
(* flat returns every built node exactly once *)
Theorem C14_flat_perm : forall fuel ns out,
  NoDup (keys ns) -> flat fuel ns = Ok out -> Permutation out (keys ns) /\ NoDup out.
Proof. exact T_flat_perm. Qed.
Print Assumptions C14_flat_perm.

(* the fuel the command passes (number of nodes) always suffices: flat is total *)
Theorem C14_flat_fuel_adequate : forall ns fuel, length ns <= fuel -> exists out, flat fuel ns = Ok out.
Proof. exact T_flat_fuel_adequate. Qed.
Print Assumptions C14_flat_fuel_adequate.

(* on any node table whose recorded "depends on" edges have no cycle, a node is emitted after all
   the nodes recorded as depending on it *)
Theorem C14_flat_order : forall fuel ns out,
  NoDup (keys ns) -> flat fuel ns = Ok out -> acyclic (fun c d => In c (children_of ns d)) ->
  forall d c, In c (children_of ns d) -> In c out -> In d out -> before c d out.
Proof. exact flat_order. Qed.
Print Assumptions C14_flat_order.

(* ---------------------------------------------------------------- which tasks, in which order *)
(* the command never runs out of fuel: the recursion of build_nodes_with_deps and _get_leafs is
   bounded by the number of tasks / nodes *)
Theorem C14_no_out_of_fuel : forall pat (fnmatch : name -> pat -> bool) tb o w,
  clean_order pat fnmatch tb o <> OutOfFuel /\ clean_execute pat fnmatch tb o w <> OutOfFuel.
Proof. exact T_no_out_of_fuel. Qed.
Print Assumptions C14_no_out_of_fuel.

(* the base list: every task (--clean-all, or nothing named and no default_tasks), the positional
   arguments, or DOIT_CONFIG['default_tasks']; a pattern selects the tasks fnmatch accepts *)
Theorem C14_selection : forall pat (fnmatch : name -> pat -> bool) tb o x,
  In x (snd (clean_list pat fnmatch tb o)) <->
  if o_cleanall o then In x (names tb)
  else if is_nil (o_pos o)
       then match o_sel o with Some s => selected pat fnmatch tb s x | None => In x (names tb) end
       else selected pat fnmatch tb (o_pos o) x.
Proof. exact clean_list_snd. Qed.
Print Assumptions C14_selection.

(* with dependencies: exactly the dependency closure of the base list *)
Theorem C14_set_with_deps : forall pat (fnmatch : name -> pat -> bool) tb o out,
  clean_order pat fnmatch tb o = Ok out -> with_deps pat o = true ->
  forall x, In x out <-> exists s, In s (snd (clean_list pat fnmatch tb o)) /\ reach tb s x.
Proof. exact clean_order_set_deps. Qed.
Print Assumptions C14_set_with_deps.

(* positional arguments without --clean-dep: exactly the named tasks and their own sub-tasks *)
Theorem C14_set_subtasks_only : forall pat (fnmatch : name -> pat -> bool) tb o out,
  clean_order pat fnmatch tb o = Ok out -> with_deps pat o = false ->
  forall x, In x out <-> In x (snd (clean_list pat fnmatch tb o)) \/
                         exists n, In n (snd (clean_list pat fnmatch tb o)) /\ subdep tb n x.
Proof. exact clean_order_set_sub. Qed.
Print Assumptions C14_set_subtasks_only.

(* --clean-all on a table whose dependencies all exist (TaskControl checks that): every task *)
Theorem C14_set_clean_all : forall pat (fnmatch : name -> pat -> bool) tb o out,
  clean_order pat fnmatch tb o = Ok out -> o_cleanall o = true -> closed tb ->
  forall x, In x out <-> In x (names tb).
Proof. exact T_set_clean_all. Qed.
Print Assumptions C14_set_clean_all.

(* whenever dependencies are included and the table is acyclic, a task is never cleaned before a
   task that depends on it *)
Theorem C14_order : forall pat (fnmatch : name -> pat -> bool) tb o out,
  clean_order pat fnmatch tb o = Ok out -> with_deps pat o = true -> acyclic (dep tb) ->
  forall t d, dep tb t d -> In t out -> In d out -> before t d out.
Proof. exact clean_order_before. Qed.
Print Assumptions C14_order.

(* each task at most once: Task.clean runs for exactly the tasks of the computed order, in that
   order, and that list has no duplicates; [cleans] reads the Task.clean entries off the trace *)
Theorem C14_once : forall pat (fnmatch : name -> pat -> bool) tb o w l w',
  clean_execute pat fnmatch tb o w = Ok (l, w') ->
  clean_order pat fnmatch tb o = Ok l /\ NoDup l /\ cleans (w_ev w') = cleans (w_ev w) ++ l.
Proof. exact T_once. Qed.
Print Assumptions C14_once.

(* clean_tasks de-duplicates whatever list it is given *)
Theorem C14_clean_tasks_dedup : forall dry forget ts w l w',
  clean_tasks dry forget ts [] w = (l, w') -> NoDup l /\ forall x, In x l <-> In x (map t_name ts).
Proof. exact T_clean_tasks_dedup. Qed.
Print Assumptions C14_clean_tasks_dedup.

(* ---------------------------------------------------------------- --dry-run, --forget *)
Theorem C14_dryrun_frame : forall pat (fnmatch : name -> pat -> bool) tb o w l w',
  clean_execute pat fnmatch tb o w = Ok (l, w') -> o_dryrun o = true ->
  w_fs w' = w_fs w /\ forall x, In x (w_db w') <-> In x (w_db w).
Proof. exact T_dryrun_frame. Qed.
Print Assumptions C14_dryrun_frame.

(* the DB afterwards: a record disappears iff --forget (without --dry-run) and its task was cleaned *)
Theorem C14_forget_exact : forall pat (fnmatch : name -> pat -> bool) tb o w l w',
  clean_execute pat fnmatch tb o w = Ok (l, w') ->
  forall x, In x (w_db w') <->
            In x (w_db w) /\ ~ (o_forget o = true /\ o_dryrun o = false /\ In x l).
Proof. exact T_forget_exact. Qed.
Print Assumptions C14_forget_exact.

(* ---------------------------------------------------------------- clean actions that look at the DB *)
(* whatever the clean actions look up (every [rd]), the command is the same command: same error or same
   cleaned list, same files, same DB, same trace up to the look-up entries.  So every theorem of this
   file about clean_execute holds for clean_execute_rd; the three about the trace and the DB are
   restated below *)
Theorem C14_lookups_transparent : forall pat (fnmatch : name -> pat -> bool) rd tb o w,
  clean_execute pat fnmatch tb o (strip w) =
  match clean_execute_rd pat fnmatch rd tb o w with
  | Ok (l, w') => Ok (l, strip w')
  | KeyErr => KeyErr | InvalidCmd => InvalidCmd | OutOfFuel => OutOfFuel
  end.
Proof. exact T_lookups_transparent. Qed.
Print Assumptions C14_lookups_transparent.

Theorem C14_once_with_lookups : forall pat (fnmatch : name -> pat -> bool) rd tb o w l w',
  clean_execute_rd pat fnmatch rd tb o w = Ok (l, w') ->
  clean_order pat fnmatch tb o = Ok l /\ NoDup l /\ cleans (w_ev w') = cleans (w_ev w) ++ l.
Proof. exact T_once_rd. Qed.
Print Assumptions C14_once_with_lookups.

Theorem C14_dryrun_frame_with_lookups : forall pat (fnmatch : name -> pat -> bool) rd tb o w l w',
  clean_execute_rd pat fnmatch rd tb o w = Ok (l, w') -> o_dryrun o = true ->
  w_fs w' = w_fs w /\ forall x, In x (w_db w') <-> In x (w_db w).
Proof. exact T_dryrun_frame_rd. Qed.
Print Assumptions C14_dryrun_frame_with_lookups.

(* --forget erases the saved state of exactly the cleaned tasks, whether or not a clean action (of the
   task itself or of another one) looked at that state first *)
Theorem C14_forget_exact_with_lookups : forall pat (fnmatch : name -> pat -> bool) rd tb o w l w',
  clean_execute_rd pat fnmatch rd tb o w = Ok (l, w') ->
  forall x, In x (w_db w') <->
            In x (w_db w) /\ ~ (o_forget o = true /\ o_dryrun o = false /\ In x l).
Proof. exact T_forget_exact_rd. Qed.
Print Assumptions C14_forget_exact_with_lookups.

(* a look-up finds a record iff one was saved before the command and it has not been forgotten by then:
   with --forget (and no --dry-run) the record of a task cleaned earlier in the same command is gone --
   exactly those -- while the record of the task being cleaned is still there for its own clean
   actions.  [pre] = the trace before the look-up; [cleans pre] = the tasks whose Task.clean was
   entered by then *)
Theorem C14_lookup_sees_exactly_unforgotten : forall pat (fnmatch : name -> pat -> bool) rd tb o w l w',
  clean_execute_rd pat fnmatch rd tb o w = Ok (l, w') ->
  exists tr, w_ev w' = w_ev w ++ tr /\
  forall pre t i u b post, tr = pre ++ ERead t i u b :: post ->
    (b = true <-> In u (w_db w) /\
                  ~ (o_forget o = true /\ o_dryrun o = false /\ In u (cleans pre) /\ u <> t)).
Proof. exact T_reads. Qed.
Print Assumptions C14_lookup_sees_exactly_unforgotten.

(* one Task.clean: after its own entry, only look-ups by this task, each finding what is saved when
   the task starts; no other Task.clean entry; the DB is not touched by it *)
Theorem C14_task_clean_lookups : forall rd t dry w,
  exists tr, w_ev (task_clean_rd rd t dry w) = w_ev w ++ EClean (t_name t) :: tr /\
             Forall (quiet (t_name t) (w_db w)) tr /\ w_db (task_clean_rd rd t dry w) = w_db w.
Proof.
  intros rd t dry w. destruct (task_clean_tr rd t dry w) as (tr & E & Q). exists tr.
  split; [exact E|]. split; [exact Q|]. exact (task_clean_rd_db rd t dry w).
Qed.
Print Assumptions C14_task_clean_lookups.

(* ---------------------------------------------------------------- files *)
(* the command only removes; what it removes is a target of a cleaned `clean: True` task, and was
   a file, or a directory all of whose entries are gone as well (it was empty when removed) *)
Theorem C14_fs_frame : forall pat (fnmatch : name -> pat -> bool) tb o w l w',
  clean_execute pat fnmatch tb o w = Ok (l, w') ->
  (forall q, fs_get (w_fs w') q = fs_get (w_fs w) q \/ fs_get (w_fs w') q = None) /\
  (forall q, fs_get (w_fs w) q <> None -> fs_get (w_fs w') q = None ->
     exists t, lookup tb (t_name t) = Some t /\ In (t_name t) l /\ t_clean t = None /\ In q (t_targets t) /\
               o_dryrun o = false /\
               (fs_get (w_fs w) q = Some KFile \/
                (fs_get (w_fs w) q = Some KDir /\ forall c, is_child q c = true -> fs_get (w_fs w') c = None))).
Proof. exact T_fs_frame. Qed.
Print Assumptions C14_fs_frame.

(* clean_targets of one task: only removals; only targets; only files and directories that were
   empty at that moment; and nothing at all under --dry-run *)
Theorem C14_clean_targets : forall t dry w,
  let w' := clean_targets t dry w in
  w_db w' = w_db w /\ (dry = true -> w_fs w' = w_fs w) /\
  (forall q, fs_get (w_fs w') q = fs_get (w_fs w) q \/ fs_get (w_fs w') q = None) /\
  (forall q, fs_get (w_fs w) q <> None -> fs_get (w_fs w') q = None ->
     In q (t_targets t) /\ dry = false /\
     (fs_get (w_fs w) q = Some KFile \/
      (fs_get (w_fs w) q = Some KDir /\ forall c, is_child q c = true -> fs_get (w_fs w') c = None))).
Proof. exact T_clean_targets. Qed.
Print Assumptions C14_clean_targets.

(* the targets are handled in reverse lexical order: a permutation of the targets in which
   everything inside a directory comes before the directory *)
Theorem C14_clean_targets_children_first : forall l,
  Permutation (sort_desc l) l /\
  forall p q r, r <> [] -> q = p ++ r -> In p l -> In q l -> before q p (sort_desc l).
Proof. exact T_clean_targets_children_first. Qed.
Print Assumptions C14_clean_targets_children_first.

(* what the order buys: every existing target file is removed, and a target directory whose
   entries are all target files of the same task is removed too (without --dry-run) *)
Theorem C14_clean_targets_complete : forall t w,
  let w' := clean_targets t false w in
  (forall q, In q (t_targets t) -> fs_get (w_fs w) q = Some KFile -> fs_get (w_fs w') q = None) /\
  (forall p, In p (t_targets t) -> fs_get (w_fs w) p = Some KDir ->
     (forall c, is_child p c = true -> fs_get (w_fs w) c <> None ->
                fs_get (w_fs w) c = Some KFile /\ In c (t_targets t)) ->
     fs_get (w_fs w') p = None).
Proof. exact T_clean_targets_complete. Qed.
Print Assumptions C14_clean_targets_complete.

(* ---------------------------------------------------------------- totality *)
(* on a table whose dependencies exist (what TaskControl guarantees), with positional names and
   default_tasks that exist, the command succeeds: the hypotheses `... = Ok ...` of the theorems
   above are always met.  [sel_ok] = check_tasks_exist passes for the positional arguments and
   would pass for default_tasks *)
Theorem C14_total : forall tb, closed tb ->
  forall pat (fnmatch : name -> pat -> bool) (o : opts pat) (w : world), sel_ok tb pat o ->
  exists l w', clean_execute pat fnmatch tb o w = Ok (l, w').
Proof. exact clean_execute_total. Qed.
Print Assumptions C14_total.

(* ---------------------------------------------------------------- non-vacuity, boundaries *)
(* the sample of tests/test_cmd_clean.py (ex_tb; t1..t4 = 1,2,3,5; t3:a = 4): same orders as the
   test-suite expects *)
Example C14_example_orders :
  clean_order unit no_match ex_tb (ex_opts false false true false [] None) = Ok [5; 1; 2; 3; 4]%N /\
  clean_order unit no_match ex_tb (ex_opts false false false false [SName 3%N] None) = Ok [3; 4]%N /\
  clean_order unit no_match ex_tb (ex_opts false true false false [SName 5%N] None) = Ok [5; 1; 2]%N.
Proof. vm_compute. auto. Qed.

(* the hypotheses of C14_order / C14_set_* / C14_set_clean_all hold together on it *)
Example C14_order_nonvacuous :
  exists out, clean_order unit no_match ex_tb (ex_opts false false true false [] None) = Ok out /\
              with_deps unit (ex_opts false false true false [] None) = true /\
              acyclic (dep ex_tb) /\ closed ex_tb /\ dep ex_tb 5%N 1%N /\ In 5%N out /\ In 1%N out.
Proof.
  exists [5; 1; 2; 3; 4]%N. split; [vm_compute; reflexivity|]. split; [reflexivity|].
  split; [exact ex_tb_acyclic|]. split; [exact ex_tb_closed|].
  split; [|simpl; tauto].
  eexists. split; [vm_compute; reflexivity|]. simpl. tauto.
Qed.

(* --forget / --dry-run on a DB holding records of 1,2,5 and a stale one (9) *)
Example C14_forget_dryrun_example :
  (exists w', clean_execute unit no_match ex_tb (ex_opts false true false true [SName 5%N] None) ex_world
              = Ok ([5; 1; 2]%N, w') /\ w_db w' = [9%N] /\ w_fs w' = w_fs ex_world) /\
  (exists w', clean_execute unit no_match ex_tb (ex_opts true true false true [SName 5%N] None) ex_world
              = Ok ([5; 1; 2]%N, w') /\ w_db w' = w_db ex_world /\ w_fs w' = w_fs ex_world).
Proof. split; eexists; vm_compute; auto. Qed.

(* look-ups (ex_rd: the clean action of 5 looks up 1; that of 1 looks up 5, 1 and 2; that of 2 looks
   up 1 and 2) during `clean --forget -c 5` (order 5, 1, 2; records of 1, 2, 5 and 9 saved): 5 finds
   1; then 1 no longer finds 5, finds itself and 2; then 2 no longer finds 1 and still finds itself.
   With --dry-run only the dryrun-aware action of 5 runs, and nothing is forgotten *)
Example C14_lookup_example :
  (exists w', clean_execute_rd unit no_match ex_rd ex_tb (ex_opts false true false true [SName 5%N] None) ex_world
              = Ok ([5; 1; 2]%N, w') /\ w_db w' = [9%N] /\
     filter is_read (w_ev w') = [ERead 5%N 0 1%N true;
                                 ERead 1%N 0 5%N false; ERead 1%N 0 1%N true; ERead 1%N 0 2%N true;
                                 ERead 2%N 0 1%N false; ERead 2%N 0 2%N true]) /\
  (exists w', clean_execute_rd unit no_match ex_rd ex_tb (ex_opts true true false true [SName 5%N] None) ex_world
              = Ok ([5; 1; 2]%N, w') /\ w_db w' = w_db ex_world /\ filter is_read (w_ev w') = [ERead 5%N 0 1%N true]).
Proof. split; eexists; vm_compute; auto. Qed.

(* clean_targets: directory 1 and its two files go (files first), directory 4 stays (a file in it
   is not a target), the missing path 8 is skipped *)
Example C14_clean_targets_example :
  sort_desc (t_targets ex_rm) = [[8]; [4]; [1; 3]; [1; 2]; [1]]%N /\
  w_fs (clean_targets ex_rm false ex_world) = [([4%N], KDir); ([4; 0]%N, KFile)] /\
  w_ev (clean_targets ex_rm false ex_world) =
    [EMsgNotEmpty 6%N [4%N]; EMsgFile 6%N [1; 3]%N; EMsgFile 6%N [1; 2]%N; EMsgDir 6%N [1%N]].
Proof. vm_compute. auto. Qed.

(* boundary 1: with a dependency cycle no order can satisfy the statement; the command still
   terminates and cleans each task once (1 depends on 2 and 2 on 1: 2 is cleaned first) *)
Theorem C14_order_cyclic_refuted :
  exists tb o out t d,
    clean_order unit no_match tb o = Ok out /\ with_deps unit o = true /\
    dep tb t d /\ In t out /\ In d out /\ ~ before t d out.
Proof.
  exists cyc_tb, (ex_opts false true false false [SName 1%N] None), [2; 1]%N, 1%N, 2%N.
  split; [vm_compute; reflexivity|]. split; [reflexivity|].
  split; [eexists; split; [vm_compute; reflexivity|simpl; tauto]|].
  split; [simpl; tauto|]. split; [simpl; tauto|]. apply not_before_2. discriminate.
Qed.
Print Assumptions C14_order_cyclic_refuted.

(* boundary 2: the order guarantee is only about runs that include dependencies.  Naming tasks
   without --clean-dep cleans them in command-line order: `clean t2 t1` cleans t2 before t1 although
   t1 depends on t2 (acyclic table) *)
Theorem C14_order_without_deps_refuted :
  exists tb o out t d,
    clean_order unit no_match tb o = Ok out /\ with_deps unit o = false /\ acyclic (dep tb) /\
    dep tb t d /\ In t out /\ In d out /\ ~ before t d out.
Proof.
  exists ex_tb, (ex_opts false false false false [SName 2%N; SName 1%N] None), [2; 1]%N, 1%N, 2%N.
  split; [vm_compute; reflexivity|]. split; [reflexivity|]. split; [exact ex_tb_acyclic|].
  split; [eexists; split; [vm_compute; reflexivity|simpl; tauto]|].
  split; [simpl; tauto|]. split; [simpl; tauto|]. apply not_before_2. discriminate.
Qed.
Print Assumptions C14_order_without_deps_refuted.

Example C14_total_nonvacuous :
  closed ex_tb /\ sel_ok ex_tb unit (ex_opts false true false true [SName 5%N] (Some [SName 1%N])).
Proof. split; [exact ex_tb_closed|]. split; reflexivity. Qed.

(* boundary 3 (robustness, not part of C14's claim): names given on the command line are checked
   (InvalidCommand) but DOIT_CONFIG['default_tasks'] is not: an unknown default task is a KeyError *)
Example C14_unknown_names :
  clean_order unit no_match ex_tb (ex_opts false false false false [SName 8%N] None) = InvalidCmd /\
  clean_order unit no_match ex_tb (ex_opts false false false false [] (Some [SName 8%N])) = KeyErr.
Proof. vm_compute. auto. Qed.
