(* C09 -- Every run terminates; dependency cycles are diagnosed, never hung on.
   Statements only.  Proofs: Proofs/CycleP.v (on top of RunnerP.v / DispatchInv.v), Proofs/RunnerTr.v.

   What is proved here concerns SAFETY around cycles and the exit protocol of the serial runner.
   The liveness half (an acyclic closure never ends in the "hold on with nothing running" state, the
   fuel of the model always suffices, the parallel main loop never blocks for ever) is NOT proved:
   it is covered by the correspondence (all digraphs <= 3 tasks x all runners, sampled beyond) and by
   the oracle on implementation runs (exact hang detection by the deterministic scheduler). *)
From DoitV Require Import Base Dispatch Runner Parallel DispatchP DispatchInv RunnerTr RunnerP ParallelP CycleP AncP HoldP HoldG CompleteP ParHoldP TermP.
From DoitV Require Import ParStepP ParLiveP ParTermP ParOutcomeLiveP ParLiveEx.
Open Scope N_scope.

(* a task lying on a dependency cycle through task_dep (explicit, wild-card, implicit file
   dependency) and calc_dep edges is never executed and never gets any final report (it is not even
   reported up-to-date, ignored or failed), in any serial run *)
Theorem C09_cycle_never_runs :
  forall tasks wake_rank calc_rank continue_ always fuel selection k,
  reach12 tasks k k ->
  let tr := fst (run_serial tasks wake_rank calc_rank continue_ always fuel selection) in
  (forall pre post, tr <> pre ++ EExecute k :: post) /\
  (forall pre e post, tr = pre ++ e :: post -> is_final_ev k e = false).
Proof. exact serial_cycle_never_runs. Qed.
Print Assumptions C09_cycle_never_runs.

(* every final report respects the declared dependencies: a task is reported (executed or not) only
   after everything it reaches through task_dep / calc_dep got its final report *)
Theorem C09_final_reports_follow_dependencies :
  forall tasks wake_rank calc_rank continue_ always fuel selection pre e post k y,
  fst (run_serial tasks wake_rank calc_rank continue_ always fuel selection) = pre ++ e :: post ->
  is_final_ev k e = true -> reach12 tasks k y -> finished_in pre y.
Proof.
  intros tasks wake_rank calc_rank continue_ always fuel selection pre e post k y E He Hr.
  exact (final_reach tasks _ (serial_final_order tasks wake_rank calc_rank continue_ always fuel selection) k y Hr pre e post E He).
Qed.
Print Assumptions C09_final_reports_follow_dependencies.

(* exit protocol of the serial runner: exit code 3 is produced exactly by the two cyclic-dependency
   diagnostics -- the dispatcher found the task among its own ancestors, or it told the runner to hold
   on while nothing can be running (the waiting tasks wait for each other) -- and in both cases the DB
   was closed and the teardowns ran before the error reaches the caller (last event of the trace) *)
Theorem C09_exit_code_3_is_cycle_diagnostic :
  forall tasks wake_rank calc_rank continue_ always fuel selection,
  let res := run_serial tasks wake_rank calc_rank continue_ always fuel selection in
  snd res = 3 ->
  exists body tds, (forall e, In e tds -> exists k, e = ETeardown k) /\
    ((exists p, fst res = body ++ EClose :: tds ++ [ECycleError p]) \/ fst res = body ++ EClose :: tds ++ [EHoldError]).
Proof.
  intros tasks wake_rank calc_rank continue_ always fuel selection res H3.
  destruct (serial_shape tasks wake_rank calc_rank continue_ always fuel selection) as (b & s & _ & _ & [(_ & _ & C)|(Hs & E & C)]);
    fold res in C; try fold res in E.
  - rewrite C in H3. discriminate.
  - exists b, (map ETeardown (rev (filter (has_td tasks) (execs b)))). split.
    + intros e Hin. apply in_map_iff in Hin. destruct Hin as [k [<- _]]. eauto.
    + destruct s; rewrite C in H3; try discriminate.
      * exfalso. unfold code_of in H3. destruct (fail_kinds b); [discriminate|].
        destruct (forallb (N.eqb 0) (n :: l)); discriminate.
      * left. exists path. exact E.
      * right. exact E.
Qed.
Print Assumptions C09_exit_code_3_is_cycle_diagnostic.

(* no false alarm: when a serial run raises the "Cyclic/Invalid task dependency" error (a task found among
   the ancestors of the node that asks for it) the task graph really has a cycle through effective
   dependencies -- declared task_dep / implicit / calc_dep / setup edges and everything calc_dep tasks
   returned [eff_dep] -- whatever the table, selection, flags, set-order oracles and fuel.
   (Invariant of Proofs/AncP.v: ExecNode.ancestors is a chain of effective dependencies ending at the
   node; a node's dependency lists only contain effective dependencies of its task.)
   The other diagnostic ("hold on" with nothing running, EHoldError) is C09_hold_error_never_false_serial
   below; termination is C09_serial_run_terminates at the end of this file. *)
Theorem C09_cycle_error_never_false_serial :
  forall tasks wake_rank calc_rank continue_ always fuel selection p,
    In (ECycleError p) (fst (run_serial tasks wake_rank calc_rank continue_ always fuel selection)) ->
    exists k, reach tasks k k.
Proof. exact serial_cycle_error_is_real. Qed.
Print Assumptions C09_cycle_error_never_false_serial.

(* no false alarm, second diagnostic: when the dispatcher answers "hold on" to the serial runner -- every node
   that is left waits for another one, nothing is ready, nothing is executing -- and the runner raises the
   "tasks waiting for each other" error, the task graph really has a cycle through effective dependencies.
   (Proofs/HoldP.v: wait-graph invariant -- every waiting node waits for at least one node, every node
   somebody waits for exists, is unfinished and sits in ready / waiting / is the current node, waiting_me
   mirrors the wait lists, a finished task is removed from every wait list by _update_waiting; at "hold on"
   every waiting node therefore has a successor among the waiting nodes, and a finite graph in which every
   vertex has a successor has a cycle -- pigeonhole.)  Together with the previous theorem: over an acyclic
   task graph a serial run never ends with exit code 3 -- it is either complete, stopped by a failure, or
   out of fuel (which C09_serial_run_terminates excludes for an explicit fuel bound). *)
Theorem C09_hold_error_never_false_serial :
  forall tasks wake_rank calc_rank continue_ always fuel selection,
    In EHoldError (fst (run_serial tasks wake_rank calc_rank continue_ always fuel selection)) ->
    exists k, reach tasks k k.
Proof. exact serial_hold_error_is_real. Qed.
Print Assumptions C09_hold_error_never_false_serial.

Theorem C09_acyclic_never_diagnosed_serial :
  forall tasks wake_rank calc_rank continue_ always fuel selection,
    (forall k, ~ reach tasks k k) ->
    let tr := fst (run_serial tasks wake_rank calc_rank continue_ always fuel selection) in
    ~ In EHoldError tr /\ forall p, ~ In (ECycleError p) tr.
Proof. exact serial_acyclic_no_diagnostic. Qed.
Print Assumptions C09_acyclic_never_diagnosed_serial.

(* non-vacuity: a cycle that is not on one ancestor chain (a -> [b, c], b -> [c], c -> [b]) is
   diagnosed through the hold-on path, nothing on it runs *)
Definition ex09 (n : name) : option task :=
  match n with
  | 0 => Some (Build_task [1; 2] [] [] false false CkRun false OOk [] [] [])
  | 1 => Some (Build_task [2] [] [] false false CkRun false OOk [] [] [])
  | 2 => Some (Build_task [1] [] [] false false CkRun false OOk [] [] [])
  | _ => None end.
Example C09_nonvacuous :
  run_serial ex09 (fun _ _ => 0) (fun _ => 0) false false 100 [0] = ([EClose; EHoldError], 3) /\ reach12 ex09 1 1.
Proof. split; [vm_compute; reflexivity|]. apply (r_trans ex09 1 2 1); [simpl; auto|apply r_step; simpl; auto]. Qed.

(* LIVENESS: a serial run over a FINITE task table terminates -- with enough fuel the model never answers
   "out of fuel" -- whatever the graph (a cyclic one ends through one of the two diagnostics), the selection,
   the flags and the set-order oracles, dependencies added at run time by calc_dep results included.
   finite_table tasks univ: only names of univ have a task (other names are leaf tasks).  The bound
   enough_fuel is an explicit computable polynomial in the sizes of the table (Proofs/TermP.v: potential =
   per node 12|pending task_dep| + (12M+12)|pending calc_dep| + 4|wait run| + (12M+4)|wait calc| + credits
   for what calc results can still add + a program-counter term, plus 4|ready| + 4|tasks_to_run| + 3[current];
   every recursive call of the generator step, of the dispatcher loop and every runner iteration decreases it).
   Hence: every cycle is diagnosed rather than looping, and over an acyclic finite table the run ends normally
   or by an interrupting action. *)
Theorem C09_serial_run_terminates :
  forall tasks univ selection, finite_table tasks univ ->
  exists N : nat, forall wake_rank calc_rank continue_ always fuel, (N <= fuel)%nat ->
    snd (serial tasks wake_rank calc_rank continue_ always fuel (r_init selection) None) <> StopFuel.
Proof. exact serial_terminates. Qed.
Print Assumptions C09_serial_run_terminates.

Theorem C09_serial_exit_code_never_out_of_fuel :
  forall tasks univ selection, finite_table tasks univ ->
  forall wake_rank calc_rank continue_ always fuel, (enough_fuel tasks univ selection <= fuel)%nat ->
  snd (run_serial tasks wake_rank calc_rank continue_ always fuel selection) <> 99.
Proof. exact run_serial_exit_code_not_99. Qed.
Print Assumptions C09_serial_exit_code_never_out_of_fuel.

Theorem C09_acyclic_serial_run_completes :
  forall tasks univ selection, finite_table tasks univ -> (forall k, ~ reach tasks k k) ->
  forall wake_rank calc_rank continue_ always fuel, (enough_fuel tasks univ selection <= fuel)%nat ->
  let s := snd (serial tasks wake_rank calc_rank continue_ always fuel (r_init selection) None) in
  s = StopNormal \/ exists k, s = StopInterrupt k.
Proof. exact serial_acyclic_completes. Qed.
Print Assumptions C09_acyclic_serial_run_completes.

(* non-vacuity: a table whose dependencies grow at run time (0 has calc_dep 1; 1 returns task_dep [2;2],
   an implicit dep 3 and a further calc_dep 4; 4 returns task_dep [0]: a cycle through a calc result) is a
   finite table, the bound is a concrete number, and with that fuel the run ends through the cycle diagnostic *)
Definition ex09t (n : name) : option task :=
  match n with
  | 0 => Some (Build_task [] [] [1] false false CkRun false OOk [] [] [])
  | 1 => Some (Build_task [] [] [] false false CkRun false OOk [2; 2] [3] [4])
  | 2 => Some (Build_task [] [5] [] true false CkRun false OOk [] [] [])
  | 3 => Some (Build_task [] [] [] false false CkUpToDate false OOk [] [] [])
  | 4 => Some (Build_task [] [] [] false false CkRun false OOk [0] [] [])
  | _ => None end.
(* the same table without the edge back (4 returns nothing): acyclic, the run completes with exit code 0 *)
Definition ex09u (n : name) : option task :=
  match n with
  | 4 => Some (Build_task [] [] [] false false CkRun false OOk [] [] [])
  | _ => ex09t n end.
Lemma ex09t_finite : finite_table ex09t [0; 1; 2; 3; 4].
Proof.
  intros k Hk. destruct k as [|p]; [exfalso; apply Hk; simpl; auto|].
  repeat (destruct p as [p|p|]; try reflexivity; try (exfalso; apply Hk; simpl; tauto)).
Qed.
Example C09_terminates_nonvacuous :
  finite_table ex09t [0; 1; 2; 3; 4] /\ finite_table ex09 [0; 1; 2] /\
  enough_fuel ex09t [0; 1; 2; 3; 4] [0] = 2225%nat /\
  snd (run_serial ex09t (fun _ _ => 0) (fun _ => 0) false false (enough_fuel ex09t [0; 1; 2; 3; 4] [0]) [0]) = 3 /\
  snd (run_serial ex09 (fun _ _ => 0) (fun _ => 0) false false (enough_fuel ex09 [0; 1; 2] [0]) [0]) = 3 /\
  finite_table ex09u [0; 1; 2; 3; 4] /\
  (let res := run_serial ex09u (fun _ _ => 0) (fun _ => 0) false false (enough_fuel ex09u [0; 1; 2; 3; 4] [0]) [0] in
   snd res = 0 /\ execs (fst res) = [1; 4; 5; 2; 0]).
Proof.
  split; [exact ex09t_finite|]. split.
  { intros k Hk. destruct k as [|p]; [exfalso; apply Hk; simpl; auto|].
    repeat (destruct p as [p|p|]; try reflexivity; try (exfalso; apply Hk; simpl; tauto)). }
  split; [vm_compute; reflexivity|]. split; [vm_compute; reflexivity|]. split; [vm_compute; reflexivity|]. split.
  { intros k Hk. destruct k as [|p]; [exfalso; apply Hk; simpl; auto|].
    repeat (destruct p as [p|p|]; try reflexivity; try (exfalso; apply Hk; simpl; tauto)). }
  split; vm_compute; reflexivity.
Qed.

(* the parallel runners (MRunner with processes: proc = true; MThreadRunner: proc = false), every number of
   workers, EVERY schedule: neither diagnostic is a false alarm.  When run_tasks raises "tasks waiting for each
   other" -- free_proc >= proc_count right after the start-up loop or after a result was handled -- the task
   graph has a cycle through effective dependencies.  (Proofs/HoldG.v: the wait-graph invariant of HoldP.v
   relative to the set of tasks IN FLIGHT -- queued jobs, tasks a worker executes, results / interrupt notices
   not dequeued yet: such a task is unfinished but neither ready, waiting nor current once its generator was
   resumed.  Proofs/ParHoldP.v: counting invariant proc_count = free_proc + |in flight| + slots still to fill,
   so the deadlock test implies nothing is in flight; a slot is on hold only if the dispatcher is in a hold
   state (nothing current/ready/new, somebody waiting), which persists while nothing completes.) *)
Theorem C09_hold_error_never_false_parallel :
  forall tasks wake_rank calc_rank continue_ always proc fuel nprocs sched selection,
    In (PE EHoldError) (fst (run_parallel tasks wake_rank calc_rank continue_ always proc fuel nprocs sched selection)) ->
    exists k, reach tasks k k.
Proof. exact parallel_hold_error_is_real. Qed.
Print Assumptions C09_hold_error_never_false_parallel.

Theorem C09_cycle_error_never_false_parallel :
  forall tasks wake_rank calc_rank continue_ always proc fuel nprocs sched selection p,
    In (PE (ECycleError p)) (fst (run_parallel tasks wake_rank calc_rank continue_ always proc fuel nprocs sched selection)) ->
    exists k, reach tasks k k.
Proof. exact parallel_cycle_error_is_real. Qed.
Print Assumptions C09_cycle_error_never_false_parallel.

Theorem C09_acyclic_never_diagnosed_parallel :
  forall tasks wake_rank calc_rank continue_ always proc fuel nprocs sched selection,
    (forall k, ~ reach tasks k k) ->
    let log := fst (run_parallel tasks wake_rank calc_rank continue_ always proc fuel nprocs sched selection) in
    ~ In (PE EHoldError) log /\ forall p, ~ In (PE (ECycleError p)) log.
Proof. exact parallel_acyclic_no_diagnostic. Qed.
Print Assumptions C09_acyclic_never_diagnosed_parallel.

(* non-vacuity: the same cyclic table as C09_nonvacuous; an independent task (3) is executed by a worker first,
   then the hold-on diagnostic fires (thread flavour, 2 workers); a cycle on one ancestor chain gives the other *)
Definition ex09c (n : name) : option task :=
  match n with
  | 0 => Some (Build_task [1] [] [] false false CkRun false OOk [] [] [])
  | 1 => Some (Build_task [0] [] [] false false CkRun false OOk [] [] [])
  | _ => None end.
Example C09_parallel_nonvacuous :
  run_parallel ex09 (fun _ _ => 0) (fun _ => 0) false false false 100 2 [1;0;1;1;0;0;1]%nat [3; 0] =
    ([PE (EGetStatus 3); PE (EExecute 3); PStart 3 1; PEnd 3 1; PE (ESave 3); PE (ESuccess 3); PE EClose; PE EHoldError], 3) /\
  run_parallel ex09c (fun _ _ => 0) (fun _ => 0) false false true 100 2 []%nat [0] = ([PE EClose; PE (ECycleError [0; 1; 0])], 3).
Proof. split; vm_compute; reflexivity. Qed.

(* ===== liveness of the parallel runner models (Proofs/ParStepP.v, ParLiveP.v, ParTermP.v, ParOutcomeLiveP.v, by sub-agent) ===== *)
(* NO HANG.  The main thread of MRunner / MThreadRunner is never blocked for ever in result_q.get(): whatever the
   table (cyclic or not, finite or not), the flavour, the number of workers, the schedule, the fuel, the model
   never logs PHang ("nothing to dequeue and no worker can step").  Invariant (Proofs/ParLiveP.v):
   #workers not exited + #interrupt notices queued = proc_count + #None jobs queued; with
   proc_count = free_proc + |in flight| (ParHoldP) and proc_count > free_proc after the deadlock test, a result or
   notice is queued, or a worker is busy, or a task is queued and an idle worker exists. *)
Theorem C09_parallel_never_hangs :
  forall tasks wake_rank calc_rank continue_ always proc fuel nprocs sched selection,
  ~ In PHang (fst (run_parallel tasks wake_rank calc_rank continue_ always proc fuel nprocs sched selection)).
Proof. exact parallel_never_hangs. Qed.
Print Assumptions C09_parallel_never_hangs.

(* the blocking point itself: in a state K (the counting invariant WI, proc_count > 0, something in flight) some
   step is enabled; K is kept by every worker step, so this stays true until the main thread dequeues; every
   worker step decreases mu = 2 |job_q| + #busy, so with more than mu scheduler steps main_get DOES dequeue *)
Theorem C09_parallel_blocked_main_can_step :
  forall p, K p -> p_results p <> [] \/ exists w, worker_enabled p w = true.
Proof.
  intros p HK. destruct (p_results p) eqn:E; [right; apply (K_enabled p HK E)|left; discriminate].
Qed.
Theorem C09_parallel_worker_step_keeps_K :
  forall tasks proc p w, worker_enabled p w = true -> K p ->
  K (worker_step tasks proc p w) /\ (mu (worker_step tasks proc p w) + 1 <= mu p)%nat.
Proof. intros tasks proc p w He HK. split; [apply worker_step_K; auto|apply worker_step_mu; auto]. Qed.
Theorem C09_parallel_main_get_dequeues :
  forall tasks proc fuel p, K p -> (mu p < fuel)%nat -> exists m p', main_get tasks proc fuel p = (Some m, p').
Proof. exact main_get_some. Qed.
Print Assumptions C09_parallel_blocked_main_can_step.
Print Assumptions C09_parallel_worker_step_keeps_K.
Print Assumptions C09_parallel_main_get_dequeues.

(* TERMINATION.  Over a finite task table there is a bound N (par_enough_fuel: from the table, the selection and
   nprocs) such that with fuel >= N a parallel run never ends with the model's "did not finish" codes 99 (out of
   fuel) and 98 (hung / main_get out of its 4*fuel scheduler steps): every graph (cycles end through the two
   diagnostics), flavour, schedule, flags, oracles *)
Theorem C09_parallel_terminates :
  forall tasks univ selection nprocs, finite_table tasks univ ->
  exists N : nat, forall wake_rank calc_rank continue_ always proc sched fuel, (N <= fuel)%nat ->
    snd (run_parallel tasks wake_rank calc_rank continue_ always proc fuel nprocs sched selection) <> 99 /\
    snd (run_parallel tasks wake_rank calc_rank continue_ always proc fuel nprocs sched selection) <> 98.
Proof. exact parallel_terminates. Qed.
Theorem C09_parallel_terminates_explicit :
  forall tasks univ selection, finite_table tasks univ ->
  forall wake_rank calc_rank continue_ always proc nprocs sched fuel,
  (par_enough_fuel tasks univ selection nprocs <= fuel)%nat ->
  snd (run_parallel tasks wake_rank calc_rank continue_ always proc fuel nprocs sched selection) <> 99 /\
  snd (run_parallel tasks wake_rank calc_rank continue_ always proc fuel nprocs sched selection) <> 98.
Proof. exact parallel_terminates_explicit. Qed.
Print Assumptions C09_parallel_terminates.
Print Assumptions C09_parallel_terminates_explicit.

(* "exit code 98 is unreachable for EVERY fuel" is refuted by the model: below the bound main_get can run out of
   its own 4*fuel steps (12 workers, fuel 5: 24 worker steps are enabled before the first dequeue) *)
Theorem C09_parallel_no_98_for_every_fuel_refuted :
  exists tasks wake_rank calc_rank continue_ always proc fuel nprocs sched selection,
    snd (run_parallel tasks wake_rank calc_rank continue_ always proc fuel nprocs sched selection) = 98.
Proof. exact exit_code_98_below_the_fuel_bound. Qed.
Print Assumptions C09_parallel_no_98_for_every_fuel_refuted.

(* finite acyclic table, enough fuel: run_tasks returns (exit code 0, 1, 2) or an action interrupted it (4) *)
Theorem C09_parallel_acyclic_completes :
  forall tasks univ selection, finite_table tasks univ -> (forall k, ~ reach tasks k k) ->
  forall wake_rank calc_rank continue_ always proc nprocs sched fuel,
  (par_enough_fuel tasks univ selection nprocs <= fuel)%nat ->
  let c := snd (run_parallel tasks wake_rank calc_rank continue_ always proc fuel nprocs sched selection) in
  c <= 2 \/ c = 4.
Proof. exact parallel_acyclic_completes. Qed.
Print Assumptions C09_parallel_acyclic_completes.

(* Child.join() / drain: when run_tasks returns normally every worker has exited, proc_count = 0, result_q empty *)
Theorem C09_parallel_normal_end_all_joined :
  forall tasks univ selection, finite_table tasks univ ->
  forall wake_rank calc_rank continue_ always proc nprocs sched fuel p2,
  (par_enough_fuel tasks univ selection nprocs <= fuel)%nat ->
  run_core tasks wake_rank calc_rank continue_ always proc fuel nprocs sched selection = (PNormal, p2) ->
  alive (p_workers p2) = 0%nat /\ p_results p2 = [] /\ p_count p2 = 0%nat.
Proof. exact parallel_normal_end_all_joined. Qed.
Print Assumptions C09_parallel_normal_end_all_joined.

Example C09_parallel_liveness_nonvacuous :
  finite_table exl [0; 1; 2; 3; 4; 5] /\
  N.of_nat (exl_fuel 2) = 6809 /\ N.of_nat (exl_fuel 3) = 8171 /\
  (let res := run_parallel exl (fun _ _ => 0) (fun _ => 0) true false true (exl_fuel 2) 2 [1;1;0;1;1;1;0;1]%nat [0; 3] in
   snd res = 2 /\ pfinished (fst res) 0 /\ pfinished (fst res) 3 /\ ~ In PHang (fst res)) /\
  (let res := run_parallel exl (fun _ _ => 0) (fun _ => 0) true false false (exl_fuel 3) 3 [2;0;1;3;1;0;2;2;1]%nat [0; 3] in
   snd res = 2 /\ pfinished (fst res) 0 /\ pfinished (fst res) 3).
Proof. split; [exact exl_finite|exact par_liveness_nonvacuous]. Qed.

(* ---- the declaration as the dodo file writes it (round G) -------------------------------------------------
   Model/DeclTable.v: [decl_table dd] is the task table TaskControl hands to the dispatcher for the declaration
   [dd] (per task: task_dep, setup, calc_dep, producers of file_dep, getargs sources, result_dep tasks, values the
   actions return); its row for task k is computed from the declaration of k alone -- which container objects the
   dodo file uses to write the lists (one module-level list shared by several tasks, a tuple, a literal) is not
   an input of it.  The harness (harness/c09_decl.py) checks that the real loader / Task / TaskControl agree with
   that: generated dodo modules with shared list / tuple / dict objects behave as [decl_table] says. *)
From DoitV Require Import DeclTable DeclTableP.

(* the row of task k holds exactly the edges k itself declares: nothing another task declares leaks into it
   (a getargs source becomes a setup-task of THAT task only, an implicit file dependency / result_dep a task_dep
   of THAT task only) *)
Theorem C09_declared_row_has_own_edges_only :
  forall dd k y,
    In y (static_deps (decl_table dd) k) <->
    In y (d_task_dep (get_dtask dd k) ++ d_result_dep (get_dtask dd k) ++ d_file_dep (get_dtask dd k) ++
          d_calc_dep (get_dtask dd k) ++ d_setup (get_dtask dd k) ++ d_getargs (get_dtask dd k)).
Proof. exact decl_row_edges. Qed.
Print Assumptions C09_declared_row_has_own_edges_only.

(* the effective dependency graph of the table (static edges and everything calc_dep tasks return) IS the
   declared graph, so are its paths *)
Theorem C09_declared_graph_is_effective_graph :
  forall dd x y, (eff_dep (decl_table dd) x y <-> decl_dep dd x y) /\ (reach (decl_table dd) x y <-> decl_reach dd x y).
Proof. intros dd x y. split; [apply decl_eff_dep_iff|apply decl_reach_iff]. Qed.
Print Assumptions C09_declared_graph_is_effective_graph.

(* over a declaration whose graph has no cycle a serial run never raises either cycle diagnostic (so it never
   exits with 3 for that reason), whatever the selection, flags, set-order oracles and fuel; and conversely a
   diagnostic means that the DECLARED graph has a cycle *)
Theorem C09_declared_acyclic_never_diagnosed_serial :
  forall dd wake_rank calc_rank continue_ always fuel selection,
    (forall k, ~ decl_reach dd k k) ->
    let tr := fst (run_serial (decl_table dd) wake_rank calc_rank continue_ always fuel selection) in
    ~ In EHoldError tr /\ forall p, ~ In (ECycleError p) tr.
Proof. exact decl_acyclic_no_diagnostic. Qed.
Print Assumptions C09_declared_acyclic_never_diagnosed_serial.

Theorem C09_declared_diagnostic_means_declared_cycle :
  forall dd wake_rank calc_rank continue_ always fuel selection,
    let tr := fst (run_serial (decl_table dd) wake_rank calc_rank continue_ always fuel selection) in
    (In EHoldError tr \/ exists p, In (ECycleError p) tr) -> exists k, decl_reach dd k k.
Proof. exact decl_diagnostic_real. Qed.
Print Assumptions C09_declared_diagnostic_means_declared_cycle.

(* non-vacuity: the dodo file of the seeded change (init = 2; produce = 1: setup [init]; consume = 0: setup [init],
   getargs from produce) declares an acyclic graph; the run executes all three tasks and exits with 0.  With an
   edge produce -> produce (what a shared, mutated `setup` list would amount to) the declaration is cyclic and
   the run exits with 3 without executing produce. *)
Definition ex09d (n : name) : option dtask :=
  match n with
  | 0 => Some (Build_dtask [] [2] [] [] [1] [] [] [])
  | 1 => Some (Build_dtask [] [2] [] [] [] [] [] [])
  | 2 => Some (Build_dtask [] [] [] [] [] [] [] [])
  | _ => None end.
Definition ex09d_leak (n : name) : option dtask :=
  match n with
  | 1 => Some (Build_dtask [] [2; 1] [] [] [] [] [] [])
  | _ => ex09d n end.
Example C09_declared_nonvacuous :
  t_setup (get_task (decl_table ex09d) 0) = [2; 1] /\ t_setup (get_task (decl_table ex09d) 1) = [2] /\
  decl_verdict ex09d 200 [2; 1; 0] 3 = [0; 0; 1; 2]%Z /\
  decl_verdict ex09d_leak 200 [2; 1; 0] 3 = [3]%Z /\ decl_reach ex09d_leak 1 1 /\
  ~ In 1 (executed (fst (run_serial (decl_table ex09d_leak) (fun _ _ => 0) (fun x => x) false false 200 [2; 1; 0]))).
Proof.
  split; [reflexivity|]. split; [reflexivity|]. split; [vm_compute; reflexivity|]. split; [vm_compute; reflexivity|].
  split; [apply dr_step; apply dd_direct; vm_compute; auto|].
  vm_compute. intuition discriminate.
Qed.
