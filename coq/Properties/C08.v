(* C08 -- parallel runs are outcome-equivalent to the serial run.  Statements only. *)
From Coq Require Import Permutation.
From DoitV Require Import Base Dispatch Runner Parallel DispatchP DispatchInv RunnerTr RunnerP ParallelP OutcomeP.
From DoitV Require Import AncP HoldP CompleteP TermP LiveP OutcomeSpec OutcomeFunP OutcomeInvP OutcomeSerialP OutcomeParP OutcomeLiveP.
From DoitV Require Import ParStepP ParLiveP ParTermP ParOutcomeLiveP ParLiveEx.
From DoitV Require Import WholeOutcomeP WholeOutcomeEx.
Open Scope N_scope.

(* The exit code is a function of the multiset of failure kinds that were reported: whatever order
   the results of the workers arrive in, the same per-task outcomes give the same exit code. *)
Theorem C08_exit_code_order_independent :
  forall tr tr', Permutation (fail_kinds tr) (fail_kinds tr') -> code_of tr = code_of tr'.
Proof. exact code_of_perm. Qed.
Print Assumptions C08_exit_code_order_independent.

(* Runner._handle_task_error (shared by Runner, MRunner, MThreadRunner: the parallel runners call it
   from _process_result in completion order) keeps final_result equal to that function: it is
   sticky on ERROR. *)
Theorem C08_final_result_sticky :
  forall tasks continue_ st r k kind,
    r_final (handle_error_gen tasks continue_ st r k kind) = bump (r_final r) kind.
Proof. reflexivity. Qed.
Print Assumptions C08_final_result_sticky.

Theorem C08_final_result_is_code_of_kinds :
  forall ks, fold_left bump ks 0 = code_of_kinds ks.
Proof. exact final_result_is_code. Qed.
Print Assumptions C08_final_result_is_code_of_kinds.

(* Hence: a serial run and a parallel run (any flavour, worker count, schedule -- also two parallel runs)
   that both end normally and made the same failure reports up to order -- in particular runs with the
   same per-task outcomes -- end with the same exit code. *)
Theorem C08_same_reports_same_exit_code :
  forall tasks wr1 cr1 wr2 cr2 continue_ always proc fuel1 fuel2 nprocs sched selection,
  let rs := run_serial tasks wr1 cr1 continue_ always fuel1 selection in
  let rp := run_parallel tasks wr2 cr2 continue_ always proc fuel2 nprocs sched selection in
  snd rs < 3 -> snd rp < 3 ->
  Permutation (fail_kinds (fst rs)) (fail_kinds (proj (fst rp))) ->
  snd rs = snd rp.
Proof.
  intros tasks wr1 cr1 wr2 cr2 continue_ always proc fuel1 fuel2 nprocs sched selection rs rp Hs Hp Hperm.
  assert (Es : snd rs = code_of (fst rs)).
  { destruct (serial_shape tasks wr1 cr1 continue_ always fuel1 selection) as (body & s & _ & _ & [(_ & _ & C)|(Hne & E & C)]);
      fold rs in C; try fold rs in E.
    - rewrite C in Hs. discriminate.
    - destruct s; rewrite C in *; try discriminate; try contradiction.
      rewrite E. symmetry. apply code_of_noFail.
      change (EClose :: map ETeardown (rev (filter (has_td tasks) (execs body))) ++ stop_marker StopNormal)
        with ([EClose] ++ map ETeardown (rev (filter (has_td tasks) (execs body))) ++ []).
      rewrite !fail_kinds_app. simpl. rewrite app_nil_r.
      generalize (rev (filter (has_td tasks) (execs body))) as l. induction l as [|a l IH]; auto. }
  assert (Ep : snd rp = code_of (proj (fst rp))).
  { destruct (parallel_exit_code tasks wr2 cr2 continue_ always proc fuel2 nprocs sched selection) as [H|H]; [exact H|].
    fold rp in H. simpl in H. destruct H as [H|[H|[H|[H|[]]]]]; rewrite <- H in Hp; discriminate. }
  rewrite Es, Ep. apply code_of_perm. exact Hperm.
Qed.
Print Assumptions C08_same_reports_same_exit_code.

(* The parallel runners start a task's actions under exactly the serial conditions: once, after every
   declared dependency ended well (C02_exec_once_parallel, C05_contained_parallel), and report each task
   at most once (C02_one_final_report_parallel); every failure is removed from the DB before it is
   reported (C05_failure_removed_parallel).  That the SET of per-task outcomes of a parallel run
   EQUALS that of the serial run when neither is cut short is proved at the end of this file
   (C08_parallel_serial_same_whole_outcome). *)

Example C08_nonvacuous :
  code_of [EFailure 1 0; EFailure 2 2; EFailure 3 0] = 2 /\ code_of [EFailure 3 0; EFailure 1 0; EFailure 2 2] = 2 /\
  fold_left bump [2; 0] 0 = 2 /\ fold_left bump [0; 2] 0 = 2.
Proof. vm_compute. auto. Qed.

(* THE PER-TASK OUTCOME IS A FUNCTION OF THE TASK TABLE (and --always) ALONE.
   [fin tasks always k r] (Proofs/OutcomeSpec.v) is a declarative specification of the final report r of
   task k -- FIgnore / FUpToDate / FSuccess / FFail values kind -- by the rules of Runner.select_task /
   process_task_result over the outcomes of the task's effective dependencies; no dispatcher, runner,
   schedule, oracle or fuel occurs in it.  It is a partial function (no hypothesis on the table:
   a task on a dependency cycle has no derivation): *)
Theorem C08_outcome_spec_functional :
  forall tasks always k r1 r2, fin tasks always k r1 -> fin tasks always k r2 -> r1 = r2.
Proof. intros tasks always k r1 r2 H1 H2. exact (fin_functional tasks always k r1 H1 r2 H2). Qed.
Print Assumptions C08_outcome_spec_functional.

(* ... every final report of a SERIAL run is the report of the specified outcome ... *)
Theorem C08_outcome_sound_serial :
  forall tasks wake_rank calc_rank continue_ always fuel selection k e,
    In e (fst (run_serial tasks wake_rank calc_rank continue_ always fuel selection)) -> is_final_ev k e = true ->
    exists r, fin tasks always k r /\ e = ev_of k r.
Proof. exact serial_outcome_sound. Qed.
Print Assumptions C08_outcome_sound_serial.

(* ... and so is every final report of a PARALLEL run: threads or processes, any number of workers,
   EVERY schedule *)
Theorem C08_outcome_sound_parallel :
  forall tasks wake_rank calc_rank continue_ always proc fuel nprocs sched selection k e,
    In (PE e) (fst (run_parallel tasks wake_rank calc_rank continue_ always proc fuel nprocs sched selection)) ->
    is_final_ev k e = true ->
    exists r, fin tasks always k r /\ e = ev_of k r.
Proof. exact parallel_outcome_sound. Qed.
Print Assumptions C08_outcome_sound_parallel.

(* Hence a task that gets a final report in a serial run and in a parallel run over the same task table
   gets the SAME report in both: same reporter call (success / up-to-date / ignored / failure), same
   failure kind (TaskFailed / TaskError / UnmetDependency / DependencyError) -- whatever the selections,
   the worker count, the schedule, the flavour, the set-iteration oracles, --continue, the fuel *)
Theorem C08_serial_parallel_same_report :
  forall tasks always wr1 cr1 co1 fuel1 sel1 wr2 cr2 co2 proc fuel2 nprocs sched sel2 k e1 e2,
    In e1 (fst (run_serial tasks wr1 cr1 co1 always fuel1 sel1)) ->
    In (PE e2) (fst (run_parallel tasks wr2 cr2 co2 always proc fuel2 nprocs sched sel2)) ->
    is_final_ev k e1 = true -> is_final_ev k e2 = true -> e1 = e2.
Proof.
  intros tasks always wr1 cr1 co1 fuel1 sel1 wr2 cr2 co2 proc fuel2 nprocs sched sel2 k e1 e2 H1 H2 F1 F2.
  destruct (serial_outcome_sound tasks wr1 cr1 co1 always fuel1 sel1 k e1 H1 F1) as (r1 & A1 & ->).
  destruct (parallel_outcome_sound tasks wr2 cr2 co2 always proc fuel2 nprocs sched sel2 k e2 H2 F2) as (r2 & A2 & ->).
  exact (fin_same_report tasks always k r1 r2 A1 A2).
Qed.
Print Assumptions C08_serial_parallel_same_report.

(* the same for ANY two runs ([run_cfg]: serial or parallel with all their parameters) *)
Theorem C08_same_outcome_any_two_runs :
  forall tasks always (c1 c2 : run_cfg) k e1 e2,
    In e1 (run_events tasks always c1) -> In e2 (run_events tasks always c2) ->
    is_final_ev k e1 = true -> is_final_ev k e2 = true -> e1 = e2.
Proof. exact same_outcome_any_two_runs. Qed.
Print Assumptions C08_same_outcome_any_two_runs.

(* With completeness of the serial runner (C02): a serial --continue run that ends normally reports
   every selected task; whatever another run (serial, parallel) reports about such a task, the
   serial run reports the very same event *)
Theorem C08_complete_serial_vs_any_run :
  forall tasks wake_rank calc_rank always fuel selection (c : run_cfg) x e,
    let res := run_serial tasks wake_rank calc_rank true always fuel selection in
    snd res <= 2 -> In x selection ->
    In e (run_events tasks always c) -> is_final_ev x e = true -> In e (fst res).
Proof. exact complete_serial_vs_any_run. Qed.
Print Assumptions C08_complete_serial_vs_any_run.

(* two serial --continue runs over a finite acyclic table (enough fuel, any oracles, any selection order):
   unless an action interrupts one of them, every task selected in both gets the same report in both *)
Theorem C08_acyclic_serial_runs_same_outcome :
  forall tasks univ sel1 sel2, finite_table tasks univ -> (forall k, ~ reach tasks k k) ->
  forall wr1 cr1 wr2 cr2 always fuel1 fuel2,
  (enough_fuel tasks univ sel1 <= fuel1)%nat -> (enough_fuel tasks univ sel2 <= fuel2)%nat ->
  let res1 := run_serial tasks wr1 cr1 true always fuel1 sel1 in
  let res2 := run_serial tasks wr2 cr2 true always fuel2 sel2 in
  snd res1 = 4 \/ snd res2 = 4 \/
  forall x, In x sel1 -> In x sel2 -> exists e, is_final_ev x e = true /\ In e (fst res1) /\ In e (fst res2).
Proof. exact acyclic_serial_runs_same_outcome. Qed.
Print Assumptions C08_acyclic_serial_runs_same_outcome.

(* the executable form of the specification (validated against run_serial / run_parallel on 36 tables
   in Proofs/OutcomeSpecEx.v) only returns derivable outcomes *)
Theorem C08_outcome_function_sound :
  forall tasks always cfuel fuel k r, fin_fun tasks always cfuel fuel k = Some r -> fin tasks always k r.
Proof. exact fin_fun_sound. Qed.
Print Assumptions C08_outcome_function_sound.

(* liveness of the PARALLEL runners and the equality of the whole outcome: further down
   (C08_parallel_acyclic_right_outcome, C08_parallel_serial_same_final_reports, C08_parallel_serial_same_whole_outcome). *)

(* non-vacuity: calc_dep task 1 fails in save_success (values visible), the task_dep it returns is ignored:
   task 0 is reported ignored -- by the serial run and by a 2-worker parallel run *)
Definition ex08 (n : name) : option task :=
  match n with
  | 0 => Some (Build_task [] [] [1] false false CkRun false OOk [] [] [])
  | 1 => Some (Build_task [] [] [] false false CkRun false OSaveErr [2] [] [])
  | 2 => Some (Build_task [] [] [] false true CkRun false OOk [] [] [])
  | _ => None end.
Example C08_outcome_nonvacuous :
  In (ESkipIgnore 0) (fst (run_serial ex08 (fun _ _ => 0) (fun _ => 0) true false 100 [0])) /\
  In (PE (ESkipIgnore 0)) (fst (run_parallel ex08 (fun _ _ => 0) (fun _ => 0) true false true 100 2 [1; 0; 1]%nat [0])) /\
  In (EFailure 1 kind_dep) (fst (run_serial ex08 (fun _ _ => 0) (fun _ => 0) true false 100 [0])) /\
  fin_fun ex08 false 20 10 0 = Some FIgnore /\ fin_fun ex08 false 20 10 1 = Some (FFail true kind_dep).
Proof. vm_compute. tauto. Qed.

(* ===== liveness of the parallel runner models (Proofs/ParStepP.v, ParLiveP.v, ParTermP.v, ParOutcomeLiveP.v, by sub-agent) ===== *)
(* a parallel --continue run over a finite acyclic table that is not interrupted reports every selected task with
   the outcome of the specification *)
Theorem C08_parallel_acyclic_right_outcome :
  forall tasks univ sel, finite_table tasks univ -> (forall k, ~ reach tasks k k) ->
  forall wake_rank calc_rank always proc nprocs sched fuel,
  (0 < nprocs)%nat -> (par_enough_fuel tasks univ sel nprocs <= fuel)%nat ->
  let res := run_parallel tasks wake_rank calc_rank true always proc fuel nprocs sched sel in
  snd res = 4 \/ forall x, In x sel -> exists r, fin tasks always x r /\ In (PE (ev_of x r)) (fst res).
Proof. exact parallel_acyclic_right_outcome. Qed.
Print Assumptions C08_parallel_acyclic_right_outcome.

(* WHOLE OUTCOME for the selected tasks, parallel = serial: same finite acyclic table and selection, --continue,
   enough fuel, >= 1 worker, every schedule / flavour / oracles: unless an action interrupts one of the runs,
   every selected task is reported in both, and the final reports of selected tasks are the same events *)
Theorem C08_parallel_serial_same_final_reports :
  forall tasks univ sel, finite_table tasks univ -> (forall k, ~ reach tasks k k) ->
  forall wr1 cr1 wr2 cr2 always proc nprocs sched fuel1 fuel2,
  (0 < nprocs)%nat -> (par_enough_fuel tasks univ sel nprocs <= fuel1)%nat -> (enough_fuel tasks univ sel <= fuel2)%nat ->
  let par := run_parallel tasks wr1 cr1 true always proc fuel1 nprocs sched sel in
  let ser := run_serial tasks wr2 cr2 true always fuel2 sel in
  snd par = 4 \/ snd ser = 4 \/
  ((forall x, In x sel -> exists e, is_final_ev x e = true /\ In (PE e) (fst par) /\ In e (fst ser)) /\
   (forall x e, In x sel -> is_final_ev x e = true -> (In (PE e) (fst par) <-> In e (fst ser)))).
Proof. exact parallel_serial_same_final_reports. Qed.
Print Assumptions C08_parallel_serial_same_final_reports.

Theorem C08_parallel_runs_same_final_reports :
  forall tasks univ sel, finite_table tasks univ -> (forall k, ~ reach tasks k k) ->
  forall wr1 cr1 wr2 cr2 always proc1 proc2 np1 np2 sched1 sched2 fuel1 fuel2,
  (0 < np1)%nat -> (0 < np2)%nat ->
  (par_enough_fuel tasks univ sel np1 <= fuel1)%nat -> (par_enough_fuel tasks univ sel np2 <= fuel2)%nat ->
  let r1 := run_parallel tasks wr1 cr1 true always proc1 fuel1 np1 sched1 sel in
  let r2 := run_parallel tasks wr2 cr2 true always proc2 fuel2 np2 sched2 sel in
  snd r1 = 4 \/ snd r2 = 4 \/
  forall x e, In x sel -> is_final_ev x e = true -> (In (PE e) (fst r1) <-> In (PE e) (fst r2)).
Proof. exact parallel_runs_same_final_reports. Qed.
Print Assumptions C08_parallel_runs_same_final_reports.

Example C08_parallel_whole_outcome_nonvacuous :
  let par := run_parallel exl (fun _ _ => 0) (fun _ => 0) true false true (exl_fuel 2) 2 [1;1;0;1;1;1;0;1]%nat [0; 3] in
  let ser := run_serial exl (fun _ _ => 0) (fun _ => 0) true false (enough_fuel exl [0; 1; 2; 3; 4; 5] [0; 3]) [0; 3] in
  snd par = 2 /\ snd ser = 2 /\
  In (PE (EFailure 0 kind_unmet)) (fst par) /\ In (EFailure 0 kind_unmet) (fst ser) /\
  In (PE (EFailure 3 kind_unmet)) (fst par) /\ In (EFailure 3 kind_unmet) (fst ser).
Proof. exact par_outcome_nonvacuous. Qed.

(* ===== the WHOLE outcome (Proofs/WholeOutcomeP.v) ===== *)
(* WHICH tasks a run reports is specified by the task table alone.  [active tasks always selection x]
   (Proofs/WholeOutcomeP.v; no dispatcher, runner, schedule, oracle or fuel occurs in it):
     x is selected, or
     x is an effective task_dep / calc_dep of an active task t -- OutcomeSpec.vdep under an assignment that gives
       every effective dependency of t its specified outcome [fin]: what a calc_dep task returns counts only if
       its values are visible --, or
     x is a setup-task of an active task whose first-selection verdict (OutcomeSpec.first) is `run`.
   In ANY serial run that reported every selected task -- any table, cyclic or not, any fuel, any oracles,
   --continue or not -- a task has a final report IF AND ONLY IF it is active ... *)
Theorem C08_serial_reported_iff_active :
  forall tasks always selection wake_rank calc_rank continue_ fuel,
  let res := run_serial tasks wake_rank calc_rank continue_ always fuel selection in
  (forall x, In x selection -> finished_in (fst res) x) ->
  forall x, finished_in (fst res) x <-> active tasks always selection x.
Proof. exact serial_reported_iff_active. Qed.
Print Assumptions C08_serial_reported_iff_active.

(* ... and so it is in any parallel run (threads or processes, any worker count, EVERY schedule) *)
Theorem C08_parallel_reported_iff_active :
  forall tasks always selection wake_rank calc_rank continue_ proc fuel nprocs sched,
  let res := run_parallel tasks wake_rank calc_rank continue_ always proc fuel nprocs sched selection in
  (forall x, In x selection -> pfinished (fst res) x) ->
  forall x, pfinished (fst res) x <-> active tasks always selection x.
Proof. exact parallel_reported_iff_active. Qed.
Print Assumptions C08_parallel_reported_iff_active.

(* Hence: a parallel and a serial run over the same table and selection that both reported every selected task
   made the same final reports about EVERY task, selected or not (same reporter call, same failure kind), the
   reported tasks being exactly the active ones; and if both ended normally (exit code 0, 1, 2) the exit codes
   are equal (the exit code is a function of the SET of failure reports) *)
Theorem C08_parallel_serial_whole_outcome_gen :
  forall tasks always selection wr1 cr1 co1 proc fuel1 nprocs sched wr2 cr2 co2 fuel2,
  let par := run_parallel tasks wr1 cr1 co1 always proc fuel1 nprocs sched selection in
  let ser := run_serial tasks wr2 cr2 co2 always fuel2 selection in
  (forall x, In x selection -> pfinished (fst par) x) -> (forall x, In x selection -> finished_in (fst ser) x) ->
  (forall x e, is_final_ev x e = true -> (In (PE e) (fst par) <-> In e (fst ser))) /\
  (forall x, active tasks always selection x <-> exists e, is_final_ev x e = true /\ In (PE e) (fst par) /\ In e (fst ser)) /\
  (snd par <= 2 -> snd ser <= 2 -> snd par = snd ser).
Proof. exact parallel_serial_whole_outcome_gen. Qed.
Print Assumptions C08_parallel_serial_whole_outcome_gen.

(* C08, THE WHOLE OUTCOME, parallel = serial: same finite acyclic table and selection, --continue, enough fuel,
   >= 1 worker, every schedule / flavour / set-iteration oracles: unless an action interrupts one of the runs
   (exit code 4), the final reports are the same events for EVERY task (selected or not), the tasks reported are
   in both runs exactly the active ones, and the exit codes are equal (0, 1 or 2) *)
Theorem C08_parallel_serial_same_whole_outcome :
  forall tasks univ sel, finite_table tasks univ -> (forall k, ~ reach tasks k k) ->
  forall wr1 cr1 wr2 cr2 always proc nprocs sched fuel1 fuel2,
  (0 < nprocs)%nat -> (par_enough_fuel tasks univ sel nprocs <= fuel1)%nat -> (enough_fuel tasks univ sel <= fuel2)%nat ->
  let par := run_parallel tasks wr1 cr1 true always proc fuel1 nprocs sched sel in
  let ser := run_serial tasks wr2 cr2 true always fuel2 sel in
  snd par = 4 \/ snd ser = 4 \/
  ((forall x e, is_final_ev x e = true -> (In (PE e) (fst par) <-> In e (fst ser))) /\
   (forall x, active tasks always sel x <-> exists e, is_final_ev x e = true /\ In (PE e) (fst par) /\ In e (fst ser)) /\
   snd par = snd ser /\ snd ser <= 2).
Proof. exact parallel_serial_same_whole_outcome. Qed.
Print Assumptions C08_parallel_serial_same_whole_outcome.

(* non-vacuity (ParLiveEx.exl, selection [0; 3]; 0 depends on 1 and 2, 1 FAILS and is not selected; 3 has the
   setup-task 4 and the calc_dep 5 whose values add the task_dep 1): the table is finite and acyclic; both runs end
   with exit code 2; the failure of the non-selected task 1 and the successes of the non-selected 2 and 5 are in
   both; the setup-task 4 is reported in neither (3's first verdict is `unmet dependency`, not `run`) *)
Example C08_whole_outcome_nonvacuous :
  finite_table exl [0; 1; 2; 3; 4; 5] /\ (forall k, ~ reach exl k k) /\
  snd exl_par = 2 /\ snd exl_ser = 2 /\
  In (PE (EFailure 1 kind_failed)) (fst exl_par) /\ In (EFailure 1 kind_failed) (fst exl_ser) /\
  In (PE (ESuccess 2)) (fst exl_par) /\ In (ESuccess 2) (fst exl_ser) /\
  In (PE (ESuccess 5)) (fst exl_par) /\ In (ESuccess 5) (fst exl_ser) /\
  existsb (pfinal 4) (fst exl_par) = false /\ existsb (is_final_ev 4) (fst exl_ser) = false.
Proof. exact whole_outcome_nonvacuous. Qed.
(* ... and what the theorem makes of it: 1 and 5 are active, 4 is not -- a statement about the table alone *)
Example C08_whole_outcome_active :
  active exl false [0; 3] 1 /\ active exl false [0; 3] 5 /\ ~ active exl false [0; 3] 4.
Proof. exact whole_outcome_active. Qed.

(* STILL NOT COVERED: the order of the reports and the non-final events (execute / teardown / DB writes) are not
   compared (they differ between runs by design); runs that are cut short -- no --continue and a failure, an
   interrupt (exit code 4), a cyclic table -- are only covered by C08_*_reported_iff_active when they happen to
   have reported every selected task; delayed task creation is not part of this dispatcher model. *)
