(* C08 -- parallel runs are outcome-equivalent to the serial run.  Statements only. *)
From Coq Require Import Permutation.
From DoitV Require Import Base Dispatch Runner RunnerTr OutcomeP.
Open Scope N_scope.

(* The exit code is a function of the multiset of failure kinds that were reported: whatever order
   the results of the workers arrive in, the same per-task outcomes give the same exit code. *)
Theorem C08_exit_code_order_independent :
  forall tr tr', Permutation (fail_kinds tr) (fail_kinds tr') -> code_of tr = code_of tr'.
Proof. exact code_of_perm. Qed.
Print Assumptions C08_exit_code_order_independent.

(* Runner._handle_task_error (shared by Runner, MRunner, MThreadRunner: the parallel runners call it
   from _process_result in completion order) keeps final_result equal to that function: it is
   sticky on ERROR. *)
Theorem C08_final_result_sticky :
  forall tasks continue_ st r k kind,
    r_final (handle_error_gen tasks continue_ st r k kind) = bump (r_final r) kind.
Proof. reflexivity. Qed.
Print Assumptions C08_final_result_sticky.

Theorem C08_final_result_is_code_of_kinds :
  forall ks, fold_left bump ks 0 = code_of_kinds ks.
Proof. exact final_result_is_code. Qed.
Print Assumptions C08_final_result_is_code_of_kinds.

Example C08_nonvacuous :
  code_of [EFailure 1 0; EFailure 2 2; EFailure 3 0] = 2 /\ code_of [EFailure 3 0; EFailure 1 0; EFailure 2 2] = 2 /\
  fold_left bump [2; 0] 0 = 2 /\ fold_left bump [0; 2] 0 = 2.
Proof. vm_compute. auto. Qed.
