(* C08 -- parallel runs are outcome-equivalent to the serial run.  Statements only. *)
From Coq Require Import Permutation.
From DoitV Require Import Base Dispatch Runner Parallel DispatchP DispatchInv RunnerTr RunnerP ParallelP OutcomeP.
Open Scope N_scope.

(* The exit code is a function of the multiset of failure kinds that were reported: whatever order
   the results of the workers arrive in, the same per-task outcomes give the same exit code. *)
Theorem C08_exit_code_order_independent :
  forall tr tr', Permutation (fail_kinds tr) (fail_kinds tr') -> code_of tr = code_of tr'.
Proof. exact code_of_perm. Qed.
Print Assumptions C08_exit_code_order_independent.

(* Runner._handle_task_error (shared by Runner, MRunner, MThreadRunner: the parallel runners call it
   from _process_result in completion order) keeps final_result equal to that function: it is
   sticky on ERROR. *)
Theorem C08_final_result_sticky :
  forall tasks continue_ st r k kind,
    r_final (handle_error_gen tasks continue_ st r k kind) = bump (r_final r) kind.
Proof. reflexivity. Qed.
Print Assumptions C08_final_result_sticky.

Theorem C08_final_result_is_code_of_kinds :
  forall ks, fold_left bump ks 0 = code_of_kinds ks.
Proof. exact final_result_is_code. Qed.
Print Assumptions C08_final_result_is_code_of_kinds.

(* Hence: a serial run and a parallel run (any flavour, worker count, schedule -- also two parallel runs)
   that both end normally and made the same failure reports up to order -- in particular runs with the
   same per-task outcomes -- end with the same exit code. *)
Theorem C08_same_reports_same_exit_code :
  forall tasks wr1 cr1 wr2 cr2 continue_ always proc fuel1 fuel2 nprocs sched selection,
  let rs := run_serial tasks wr1 cr1 continue_ always fuel1 selection in
  let rp := run_parallel tasks wr2 cr2 continue_ always proc fuel2 nprocs sched selection in
  snd rs < 3 -> snd rp < 3 ->
  Permutation (fail_kinds (fst rs)) (fail_kinds (proj (fst rp))) ->
  snd rs = snd rp.
Proof.
  intros tasks wr1 cr1 wr2 cr2 continue_ always proc fuel1 fuel2 nprocs sched selection rs rp Hs Hp Hperm.
  assert (Es : snd rs = code_of (fst rs)).
  { destruct (serial_shape tasks wr1 cr1 continue_ always fuel1 selection) as (body & s & _ & _ & [(_ & _ & C)|(Hne & E & C)]);
      fold rs in C; try fold rs in E.
    - rewrite C in Hs. discriminate.
    - destruct s; rewrite C in *; try discriminate; try contradiction.
      rewrite E. symmetry. apply code_of_noFail.
      change (EClose :: map ETeardown (rev (filter (has_td tasks) (execs body))) ++ stop_marker StopNormal)
        with ([EClose] ++ map ETeardown (rev (filter (has_td tasks) (execs body))) ++ []).
      rewrite !fail_kinds_app. simpl. rewrite app_nil_r.
      generalize (rev (filter (has_td tasks) (execs body))) as l. induction l as [|a l IH]; auto. }
  assert (Ep : snd rp = code_of (proj (fst rp))).
  { destruct (parallel_exit_code tasks wr2 cr2 continue_ always proc fuel2 nprocs sched selection) as [H|H]; [exact H|].
    fold rp in H. simpl in H. destruct H as [H|[H|[H|[H|[]]]]]; rewrite <- H in Hp; discriminate. }
  rewrite Es, Ep. apply code_of_perm. exact Hperm.
Qed.
Print Assumptions C08_same_reports_same_exit_code.

(* The parallel runners start a task's actions under exactly the serial conditions: once, after every
   declared dependency ended well (C02_exec_once_parallel, C05_contained_parallel), and report each task
   at most once (C02_one_final_report_parallel); every failure is removed from the DB before it is
   reported (C05_failure_removed_parallel).  NOT PROVED: that the SET of per-task outcomes of a
   parallel run equals that of the serial run when neither is cut short (needs liveness, C09, and the
   converse of the `recd` invariant); decided by harness/c08.py on real runs. *)

Example C08_nonvacuous :
  code_of [EFailure 1 0; EFailure 2 2; EFailure 3 0] = 2 /\ code_of [EFailure 3 0; EFailure 1 0; EFailure 2 2] = 2 /\
  fold_left bump [2; 0] 0 = 2 /\ fold_left bump [0; 2] 0 = 2.
Proof. vm_compute. auto. Qed.
