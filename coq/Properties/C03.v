(* C03 -- A stale task is never skipped (up-to-date soundness over histories).
   Statements only; proofs are `exact <lemma of Proofs/HistoryP.v>` or closed computations.

   Model: Model/Status.v (doit/dependency.py: checkers, get_status, save_success, ...) and
   Model/History.v (all finite histories over Write/Touch/Delete file, change of a task definition,
   change of the checker, successful execution recorded, failure/forget, ignore, reset-dep,
   forget --all, status queries).  [current] = the code in /repo (HEAD); [legacy] = the code before
   the two repairs this property led to (6d84766, f6ac8a0).  Writes may carry ANY mtime, older or
   newer than anything recorded (WriteAt/TouchAt; Write/Touch take it from a forward clock).
   Hypothesis FS-fresh = [hist_ok]: in the history, one file never carries the same mtime with two
   different contents (not monotonicity; C03_forward_clock_is_fresh: forward-clock histories satisfy
   it; C03_mtime_reuse_refuted: "every write changes the mtime" is not enough for md5).
   [md5] and [size_of] are oracles
   (any functions; injectivity of md5 is not assumed).  [s_last_ok] is the ghost: what the last
   successful execution / reset-dep of the task observed (definition, checker, file system).
   DB backends enter through C07 (each is the same map); the runners through run_task_ops
   (History.v): what a runner does with a task is a list of these operations.
   Histories treat an uptodate item as a value evaluated on its declared input NOW.  Where the dodo
   namespace outlives one run (several DoitMain.run / doit.api.run_tasks calls of one program, %doit) the
   same item INSTANCE is evaluated in many runs while its input is edited in place: Model/ItemObj.v is the
   object (tools.config_changed, the only item of the model with an attribute that survives a call) and the
   last section states that instances in ANY state answer and save what the item values of Status.v do. *)
From DoitV Require Import Base Status History StatusP HistoryP ItemObj ItemObjP.
Open Scope Z_scope.

(* histories that only use the forward-clock writes satisfy FS-fresh by construction *)
Theorem C03_forward_clock_is_fresh : forall (md5 : N -> N) (size_of : N -> Z) (ops : list op),
  fs_fresh ops = true -> hist_ok md5 size_of current ops = true.
Proof. intros md5 size_of. exact (fresh_hist_ok md5 size_of current eq_refl eq_refl). Qed.
Print Assumptions C03_forward_clock_is_fresh.

(* the invariant: after any FS-fresh history, every record of the DB is absent, or written by
   `ignore` only, or the encoding of what the task's last successful execution observed (deps,
   checker, state of every file dep), every md5 entry -- also of files that left the dep set -- is
   the true (size, digest) of the version of its file that carried the recorded mtime, every entry has the
   type of the record's checker, and no operation ended in a TypeError *)
Theorem C03_db_reflects_ghost : forall (md5 : N -> N) (size_of : N -> Z) (ops : list op),
  hist_ok md5 size_of current ops = true -> db_reflects_ghost md5 (run md5 size_of current ops).
Proof. intros md5 size_of ops. exact (run_inv md5 size_of current eq_refl ops). Qed.
Print Assumptions C03_db_reflects_ghost.

(* full statement: in the state reached by ANY history, if get_status answers up-to-date for t then
   no uptodate item is false, t has a file_dep or an evaluated item, every target and every file
   dep exists, t has a last successful execution (or no file_dep), and relative to it: same
   checker, same set of file_dep, every file dep unmodified by the configured checker's rule
   (timestamp: equal mtime; md5: equal mtime, or equal size and digest) *)
Theorem C03_uptodate_sound : forall (md5 : N -> N) (size_of : N -> Z) (ops : list op) (t : name),
  hist_ok md5 size_of current ops = true ->
  let s := run md5 size_of current ops in
  g_status (check md5 current s t) = UpToDate ->
  let df := s_defs s t in
  (forall u, In u (uptodate df) -> eval_utd (s_db s) t u <> Some false) /\
  (file_dep df <> [] \/ exists u b, In u (uptodate df) /\ eval_utd (s_db s) t u = Some b) /\
  (forall x, In x (targets df) -> exists_ (s_fs s) x = true) /\
  (forall f, In f (file_dep df) -> exists_ (s_fs s) f = true) /\
  (file_dep df = [] \/ exists g, s_last_ok s t = Some g) /\
  (forall g, s_last_ok s t = Some g ->
     g_ck g = s_ck s /\ same_set (file_dep df) (file_dep (g_def g)) /\
     forall f, In f (file_dep df) ->
       exists then_ now, g_fs g f = Some then_ /\ s_fs s f = Some now /\ unmodified md5 (s_ck s) then_ now).
Proof.
  intros md5 size_of ops t Hf.
  exact (sound_at md5 current eq_refl _ t (run_inv md5 size_of current eq_refl ops Hf)).
Qed.
Print Assumptions C03_uptodate_sound.

(* the same for one step of a runner: a task that run_task skips as up-to-date satisfies the above
   (executes = false, not ignored, verdict not an error  <->  verdict up-to-date) *)
Theorem C03_skipped_is_uptodate : forall (md5 : N -> N) (size_of : N -> Z) (ops : list op) (t : name),
  let s := run md5 size_of current ops in
  executes md5 current s t false = false -> status_is_ignore (s_db s) t = false ->
  g_status (check md5 current s t) <> Error -> g_status (check md5 current s t) <> Crash ->
  g_status (check md5 current s t) = UpToDate.
Proof. intros md5 size_of ops t. exact (skipped_is_uptodate md5 current _ t). Qed.
Print Assumptions C03_skipped_is_uptodate.

(* the repaired code never raises the TypeError of a state saved by the other checker: in NO history
   at all (FS-fresh not needed), in neither mode of get_status, nor in save_success / reset-dep *)
Theorem C03_no_typeerror : forall (md5 : N -> N) (size_of : N -> Z) (ops : list op) (t : name) (get_log : bool),
  let s := run md5 size_of current ops in
  s_crashed s = false /\
  g_status (get_status md5 current (s_ck s) (s_fs s) (s_db s) t (s_defs s t) get_log) <> Crash.
Proof. intros md5 size_of ops t gl. exact (no_typeerror_run md5 size_of current eq_refl ops t gl). Qed.
Print Assumptions C03_no_typeerror.

(* the accumulate-all mode of get_status (get_log=True: `info`, `list --status`) answers up-to-date in
   exactly the same states, so C03_uptodate_sound covers that verdict as well *)
Theorem C03_get_log_agrees : forall (md5 : N -> N) (v : ver) (c : ck) (fs : fsys) (d : db) (t : name) (df : tdef),
  g_status (get_status md5 v c fs d t df true) = UpToDate <-> g_status (get_status md5 v c fs d t df false) = UpToDate.
Proof. exact get_status_modes_agree_uptodate. Qed.
Print Assumptions C03_get_log_agrees.

(* since the repair of DependencyStatus (fixL of Model/Status.v: the first reason decides the status) the two modes give
   the same verdict in EVERY case -- up-to-date, run, error -- in the state reached by any history, whatever
   definition is asked about (outside histories: up to the TypeError of ill-typed records, Properties/C20.v,
   C20_info_agrees) *)
Theorem C03_get_log_agrees_every_verdict : forall (md5 : N -> N) (size_of : N -> Z) (ops : list op) (t : name),
  let s := run md5 size_of current ops in
  g_status (get_status md5 current (s_ck s) (s_fs s) (s_db s) t (s_defs s t) true) =
  g_status (get_status md5 current (s_ck s) (s_fs s) (s_db s) t (s_defs s t) false).
Proof.
  intros md5 size_of ops t. cbv zeta. apply get_status_modes_agree_fixL; [reflexivity|].
  exact (proj2 (no_typeerror_run md5 size_of current eq_refl ops t true)).
Qed.
Print Assumptions C03_get_log_agrees_every_verdict.

(* ---- non-vacuity: a history (with an edit, a failed run, a re-added dep) after which the verdict IS up-to-date ---- *)
Definition d01 : tdef := {| file_dep := [0; 1]%N; targets := [2%N]; uptodate := [URunOnce; UNone]; act_values := []; act_result := None |}.
Definition d0 : tdef := {| file_dep := [0%N]; targets := []; uptodate := []; act_values := []; act_result := None |}.
Example C03_sound_nonvacuous :
  let ops := [WriteAt 0 0 50; Write 1 1; Write 2 2; SetDef 7 d01; SaveOk 7; WriteAt 1 3 (-5); Check 7; Remove 7; SetDef 7 d0; SaveOk 7;
              SetDef 7 d01; SaveOk 7; TouchAt 0 20; WriteAt 1 1 2; WriteAt 1 3 (-5); Check 7]%N in
  hist_ok (fun c => c) (fun _ => 4) current ops = true /\ fs_fresh ops = false /\
  let s := run (fun c => c) (fun _ => 4) current ops in
  g_status (check (fun c => c) current s 7%N) = UpToDate /\ file_dep (s_defs s 7%N) <> [] /\
  exists g, s_last_ok s 7%N = Some g.
Proof. vm_compute. split; [reflexivity|]. split; [reflexivity|]. split; [reflexivity|]. split; [discriminate|]. eexists; reflexivity. Qed.

(* ---- FS-fresh cannot be dropped for the md5 checker (doit's documented optimisation: "if the
   timestamp is the same it considers that the file has the same content").  A write that keeps
   the mtime, then a successful run (save_success keeps the old (mtime,size,md5) because the mtime
   is the recorded one), then the old content again: up-to-date, although the file differs -- by
   the md5 rule itself -- from what the last successful execution saw. ---- *)
Theorem C03_md5_same_mtime_refuted :
  exists (ops : list op) (t : name) (f : file),
    hist_ok (fun c => c) (fun _ => 4) current ops = false /\
    let s := run (fun c => c) (fun _ => 4) current ops in
    g_status (check (fun c => c) current s t) = UpToDate /\ In f (file_dep (s_defs s t)) /\
    exists g then_ now, s_last_ok s t = Some g /\ g_fs g f = Some then_ /\ s_fs s f = Some now /\
                        ~ unmodified (fun c => c) (s_ck s) then_ now.
Proof.
  exists [Write 0 0; SetDef 7 d0; SaveOk 7; WriteSameMtime 0 1; SaveOk 7; Write 0 0]%N, 7%N, 0%N.
  split; [vm_compute; reflexivity|]. cbv zeta. split; [vm_compute; reflexivity|]. split; [vm_compute; auto|].
  eexists. eexists. eexists. split; [vm_compute; reflexivity|]. split; [vm_compute; reflexivity|].
  split; [vm_compute; reflexivity|]. vm_compute. intros [H|[_ H]]; discriminate.
Qed.
Print Assumptions C03_md5_same_mtime_refuted.

(* the weaker reading of FS-fresh -- "a write never leaves the mtime unchanged" -- is not enough for
   md5: every write below changes the file's mtime, but content 2 comes back under the mtime (5) that
   content 0 had; save_success keeps the entry (5, size, md5 of content 0); restoring content 0 under a
   new mtime is then answered up-to-date although it differs from what the last success saw *)
Theorem C03_mtime_reuse_refuted :
  exists (ops : list op) (t : name) (f : file),
    hist_changes_mtime (fun c => c) (fun _ => 4) current ops = true /\ hist_ok (fun c => c) (fun _ => 4) current ops = false /\
    let s := run (fun c => c) (fun _ => 4) current ops in
    g_status (check (fun c => c) current s t) = UpToDate /\ In f (file_dep (s_defs s t)) /\
    exists g then_ now, s_last_ok s t = Some g /\ g_fs g f = Some then_ /\ s_fs s f = Some now /\
                        ~ unmodified (fun c => c) (s_ck s) then_ now.
Proof.
  exists [WriteAt 0 0 5; SetDef 7 d0; SaveOk 7; WriteAt 0 1 7; WriteAt 0 2 5; SaveOk 7; WriteAt 0 0 9]%N, 7%N, 0%N.
  split; [vm_compute; reflexivity|]. split; [vm_compute; reflexivity|].
  cbv zeta. split; [vm_compute; reflexivity|]. split; [vm_compute; auto|].
  eexists. eexists. eexists. split; [vm_compute; reflexivity|]. split; [vm_compute; reflexivity|].
  split; [vm_compute; reflexivity|]. vm_compute. intros [H|[_ H]]; discriminate.
Qed.
Print Assumptions C03_mtime_reuse_refuted.

(* ---- the two defects of the code before the repairs (kept stated on [legacy]) ---- *)
Definition d0t : tdef := {| file_dep := [0%N]; targets := []; uptodate := [UBool true]; act_values := []; act_result := None |}.
Definition dnt : tdef := {| file_dep := []; targets := []; uptodate := [UBool true]; act_values := []; act_result := None |}.
(* 6d84766: an empty saved 'deps:' skipped the dep-set comparison and the stale entry of a file that
   had left the dep set was reused: up-to-date although the dep set differs from the last success's *)
Theorem C03_depset_empty_deps_legacy_refuted :
  exists (ops : list op) (t : name),
    fs_fresh ops = true /\
    let s := run (fun c => c) (fun _ => 4) legacy ops in
    g_status (check (fun c => c) legacy s t) = UpToDate /\
    exists g, s_last_ok s t = Some g /\ file_dep (g_def g) = [] /\ file_dep (s_defs s t) <> [].
Proof.
  exists [Write 0 0; SetDef 7 d0t; SaveOk 7; SetDef 7 dnt; SaveOk 7; SetDef 7 d0t]%N, 7%N.
  split; [reflexivity|]. cbv zeta. split; [vm_compute; reflexivity|].
  eexists. split; [vm_compute; reflexivity|]. split; [reflexivity | vm_compute; discriminate].
Qed.
Print Assumptions C03_depset_empty_deps_legacy_refuted.
(* ... and the same history on the current code is answered `run` *)
Example C03_depset_empty_deps_current :
  g_status (check (fun c => c) current
              (run (fun c => c) (fun _ => 4) current [Write 0 0; SetDef 7 d0t; SaveOk 7; SetDef 7 dnt; SaveOk 7; SetDef 7 d0t]%N) 7%N) = Run.
Proof. vm_compute. reflexivity. Qed.

Definition d0g : tdef := {| file_dep := [0%N]; targets := [1%N]; uptodate := []; act_values := []; act_result := None |}.
(* f6ac8a0: checker switched timestamp -> md5 while get_status leaves before its checker test (missing
   target): save_success handed the float to MD5Checker.get_state (TypeError), the half-written
   record stayed, and every later get_status raised TypeError as well *)
Theorem C03_checker_switch_legacy_refuted :
  exists (ops : list op) (t : name),
    fs_fresh ops = true /\
    let s := run (fun c => c) (fun _ => 4) legacy ops in
    s_crashed s = true /\ g_status (check (fun c => c) legacy s t) = Crash.
Proof.
  exists [SetChecker TS; Write 0 0; SetDef 7 d0g; SaveOk 7; SetChecker MD5; Check 7; SaveOk 7; Write 1 0]%N, 7%N.
  split; [reflexivity|]. cbv zeta. split; vm_compute; reflexivity.
Qed.
Print Assumptions C03_checker_switch_legacy_refuted.

(* ---- item INSTANCES that outlive a run (Model/ItemObj.v) ---- *)
(* a config_changed instance that was used before -- any number of calls, for any task, under any earlier
   configuration: any state [o] -- answers exactly what the item value of Status.v answers for the digest the
   configuration has NOW, and its saver then records that digest *)
Theorem C03_config_instance_has_no_memory : forall (o : ccobj) (now : N) (d : db) (t : name),
  snd (cc_call CCcurrent o now (get_values d t)) = eval_utd d t (UConfig now) /\
  cc_saver (fst (cc_call CCcurrent o now (get_values d t))) = saver d (UConfig now).
Proof. intros o now d t. split; [exact (f_equal snd (cc_call_current o now d t)) | exact (cc_saver_after_call o now (get_values d t) d)]. Qed.
Print Assumptions C03_config_instance_has_no_memory.

(* the whole life of one instance in a process (calls under changing configurations and DB values, runs of its
   saver) is observed exactly as if every call had been made on an instance created for it *)
Theorem C03_config_instance_life_as_fresh : forall (o : ccobj) (evs : list cev),
  cc_life CCcurrent o evs = cc_life_fresh CCcurrent o evs.
Proof. intros o evs. exact (cc_life_current_fresh evs o). Qed.
Print Assumptions C03_config_instance_life_as_fresh.

(* get_status + save_extra_values of one task on instances in ANY state [os] (one per item): the list of item
   verdicts is the [map (eval_utd d t)] that get_status of Status.v decides on, and the values saved after the
   execution are [save_extra_values] -- so every theorem above also speaks about runs that share instances *)
Theorem C03_items_on_persistent_instances : forall (d : db) (t : name) (df : tdef) (os : list ccobj),
  length os = length (uptodate df) ->
  snd (eval_items_obj CCcurrent d t (uptodate df) os) = map (eval_utd d t) (uptodate df) /\
  save_extra_values_obj d df (fst (eval_items_obj CCcurrent d t (uptodate df) os)) = save_extra_values d df.
Proof.
  intros d t df os H. pose proof (items_on_instances d t df os H) as P.
  destruct (eval_items_obj CCcurrent d t (uptodate df) os) as [os' bs]. exact (conj (proj1 P) (proj2 P)).
Qed.
Print Assumptions C03_items_on_persistent_instances.

(* non-vacuity: an instance first used under configuration 1, then asked under configuration 2 with 1 recorded *)
Example C03_config_instance_nonvacuous :
  let o := fst (cc_call CCcurrent cc_new 1%N []) in
  cc_digest o = Some 1%N /\ snd (cc_call CCcurrent o 2%N [(k_config, Some 1%N)]) = Some false /\
  snd (cc_call CCcurrent o 1%N [(k_config, Some 1%N)]) = Some true.
Proof. vm_compute. repeat split. Qed.

(* an instance that keeps the digest it computed first (`if self.config_digest is None: ...`) is refuted: used in a
   first run under configuration [last] (recorded), it answers "unchanged" under another configuration [now] ... *)
Theorem C03_config_instance_cached_refuted :
  exists (o : ccobj) (now last : N),
    now <> last /\ snd (cc_call CCcached o now [(k_config, Some last)]) = Some true /\
    snd (cc_call CCcurrent o now [(k_config, Some last)]) = Some false /\
    o = fst (cc_call CCcached cc_new last []).
Proof. exact cc_cached_stale. Qed.
Print Assumptions C03_config_instance_cached_refuted.
(* ... and after an execution under [now] it records the digest of the FIRST configuration *)
Theorem C03_config_instance_cached_saves_stale_refuted :
  exists (now first : N), now <> first /\
    cc_saver (fst (cc_call CCcached (fst (cc_call CCcached cc_new first [])) now [])) = [(k_config, Some first)].
Proof. exact cc_cached_saves_stale. Qed.
Print Assumptions C03_config_instance_cached_saves_stale_refuted.
