(* C01 -- Dependency-ordered execution under every schedule.
   Statements only; proofs are `exact <lemma>` from Proofs/RunnerP.v (serial runner) and
   Proofs/ParallelP.v (MRunner / MThreadRunner under every schedule of the model).

   Vocabulary: [run_serial tasks wake_rank calc_rank continue always fuel selection] is the event
   trace and exit code of the serial runner of Model/Runner.v on the task table [tasks]
   (as TaskControl.__init__ leaves it) -- for every oracle [wake_rank]/[calc_rank] (iteration order
   of Python sets), every flag combination, every amount of fuel (so every prefix of a run).
   [EExecute t] = the actions of t start.  A task is finished once one of
   ESuccess / ESkipUpToDate / ESkipIgnore / EFailure was reported for it. *)
From DoitV Require Import Base Dispatch Runner Parallel DispatchP DispatchInv RunnerTr RunnerP ParallelP.
Open Scope N_scope.

(* serial runner: whenever the actions of t start, every task t declares a dependency on --
   task_dep (explicit, wild-card, file_dep on another task's target, result_dep, delayed-loader
   trigger), calc_dep, setup (explicit or through getargs) -- has already finished in this run *)
Theorem C01_serial_dep_order :
  forall tasks wake_rank calc_rank continue_ always fuel selection pre t post x,
    fst (run_serial tasks wake_rank calc_rank continue_ always fuel selection) = pre ++ EExecute t :: post ->
    In x (static_deps tasks t) ->
    finished_in pre x.
Proof.
  intros tasks wake_rank calc_rank continue_ always fuel selection pre t post x E Hx.
  exact (ordered_split tasks _ (serial_dep_order tasks wake_rank calc_rank continue_ always fuel selection) pre t post E x Hx).
Qed.
Print Assumptions C01_serial_dep_order.

(* parallel runners (MRunner with processes: proc = true; MThreadRunner: proc = false), every
   number of workers, EVERY schedule (oracle [sched]: which enabled step -- "main dequeues a
   result" or "worker w takes the next job / finishes its task" -- happens at each blocking point
   of the main thread), every fuel: whenever the actions of t start in some worker ([PStart t w]),
   every declared dependency of t has already got its final report in the merged log.
   Consequently two tasks related by a dependency never execute concurrently: the dependency's final
   report (issued by the main thread after its [PEnd]) precedes the dependent's [PStart]. *)
Theorem C01_parallel_dep_order :
  forall tasks wake_rank calc_rank continue_ always proc fuel nprocs sched selection pre t w post x,
    fst (run_parallel tasks wake_rank calc_rank continue_ always proc fuel nprocs sched selection)
      = pre ++ PStart t w :: post ->
    In x (static_deps tasks t) ->
    pfinished pre x.
Proof.
  intros tasks wake_rank calc_rank continue_ always proc fuel nprocs sched selection pre t w post x E Hx.
  exact (pordered_split tasks _ (parallel_dep_order tasks wake_rank calc_rank continue_ always proc fuel nprocs sched selection)
                        pre t w post E x Hx).
Qed.
Print Assumptions C01_parallel_dep_order.

(* the same for the dependencies a task only acquires at run time: everything returned by its calc_dep
   tasks (task_dep, producers of returned file_dep, further calc_dep -- transitively) [eff_dep] has
   finished (indeed: was reported successful or up-to-date) before the task's actions start *)
Theorem C01_serial_effective_dep_order :
  forall tasks wake_rank calc_rank continue_ always fuel selection pre t post x,
    fst (run_serial tasks wake_rank calc_rank continue_ always fuel selection) = pre ++ EExecute t :: post ->
    eff_dep tasks t x -> finished_in pre x.
Proof.
  intros tasks wake_rank calc_rank continue_ always fuel selection pre t post x E Hx.
  apply good_in_finished.
  exact (cordered_split tasks _ (serial_contained tasks wake_rank calc_rank continue_ always fuel selection) pre t post E x Hx).
Qed.
Print Assumptions C01_serial_effective_dep_order.

Theorem C01_parallel_effective_dep_order :
  forall tasks wake_rank calc_rank continue_ always proc fuel nprocs sched selection pre t w post x,
    fst (run_parallel tasks wake_rank calc_rank continue_ always proc fuel nprocs sched selection)
      = pre ++ PStart t w :: post ->
    eff_dep tasks t x -> pgood pre x.
Proof.
  intros tasks wake_rank calc_rank continue_ always proc fuel nprocs sched selection pre t w post x E Hx.
  exact (pcordered_split tasks _ (parallel_contained tasks wake_rank calc_rank continue_ always proc fuel nprocs sched selection) pre t w post E x Hx).
Qed.
Print Assumptions C01_parallel_effective_dep_order.

(* non-vacuity: a diamond with a setup-task and a calc_dep really executes, in dependency order *)
Definition ex_tasks (n : name) : option task :=
  match n with
  | 0 => Some (Build_task [1; 2] [4] [] false false CkRun false OOk [] [] [])
  | 1 => Some (Build_task [3] [] [5] false false CkRun false OOk [] [] [])
  | 2 => Some (Build_task [3] [] [] false false CkRun false OOk [] [] [])
  | 3 => Some (Build_task [] [] [] false false CkRun false OOk [] [] [])
  | 4 => Some (Build_task [] [] [] false false CkRun false OOk [] [] [])
  | 5 => Some (Build_task [] [] [] false false CkRun false OOk [2] [] [])
  | _ => None end.
Example C01_serial_nonvacuous :
  map (fun e => match e with EExecute k => k | _ => 99 end)
      (filter is_exec (fst (run_serial ex_tasks (fun _ _ => 0) (fun _ => 0) false false 200 [0])))
  = [5; 3; 2; 1; 4; 0].
Proof. vm_compute. reflexivity. Qed.

Example C01_parallel_nonvacuous :
  map (fun e => match e with PStart k w => (k, w) | _ => (99, 0%nat) end)
      (filter is_pstart (fst (run_parallel ex_tasks (fun _ _ => 0) (fun _ => 0) false false false 200 3 [1;0;2;1;0;1;1;2]%nat [0])))
  = [(5, 1%nat); (3, 0%nat); (2, 2%nat); (1, 0%nat); (4, 0%nat); (0, 0%nat)].
Proof. vm_compute. reflexivity. Qed.
