(* C01 -- Dependency-ordered execution under every schedule.
   Statements only; proofs are `exact <lemma>` from Proofs/RunnerP.v (serial runner) and
   Proofs/ParallelP.v (MRunner / MThreadRunner under every schedule of the model).

   Vocabulary: [run_serial tasks wake_rank calc_rank continue always fuel selection] is the event
   trace and exit code of the serial runner of Model/Runner.v on the task table [tasks]
   (as TaskControl.__init__ leaves it) -- for every oracle [wake_rank]/[calc_rank] (iteration order
   of Python sets), every flag combination, every amount of fuel (so every prefix of a run).
   [EExecute t] = the actions of t start.  A task is finished once one of
   ESuccess / ESkipUpToDate / ESkipIgnore / EFailure was reported for it. *)
From DoitV Require Import Base Dispatch Runner Parallel DispatchP DispatchInv RunnerTr RunnerP ParallelP Implicit ImplicitP ImplicitRunP.
Open Scope N_scope.

(* serial runner: whenever the actions of t start, every task t declares a dependency on --
   task_dep (explicit, wild-card, file_dep on another task's target, result_dep, delayed-loader
   trigger), calc_dep, setup (explicit or through getargs) -- has already finished in this run *)
Theorem C01_serial_dep_order :
  forall tasks wake_rank calc_rank continue_ always fuel selection pre t post x,
    fst (run_serial tasks wake_rank calc_rank continue_ always fuel selection) = pre ++ EExecute t :: post ->
    In x (static_deps tasks t) ->
    finished_in pre x.
Proof.
  intros tasks wake_rank calc_rank continue_ always fuel selection pre t post x E Hx.
  exact (ordered_split tasks _ (serial_dep_order tasks wake_rank calc_rank continue_ always fuel selection) pre t post E x Hx).
Qed.
Print Assumptions C01_serial_dep_order.

(* parallel runners (MRunner with processes: proc = true; MThreadRunner: proc = false), every
   number of workers, EVERY schedule (oracle [sched]: which enabled step -- "main dequeues a
   result" or "worker w takes the next job / finishes its task" -- happens at each blocking point
   of the main thread), every fuel: whenever the actions of t start in some worker ([PStart t w]),
   every declared dependency of t has already got its final report in the merged log.
   Consequently two tasks related by a dependency never execute concurrently: the dependency's final
   report (issued by the main thread after its [PEnd]) precedes the dependent's [PStart]. *)
Theorem C01_parallel_dep_order :
  forall tasks wake_rank calc_rank continue_ always proc fuel nprocs sched selection pre t w post x,
    fst (run_parallel tasks wake_rank calc_rank continue_ always proc fuel nprocs sched selection)
      = pre ++ PStart t w :: post ->
    In x (static_deps tasks t) ->
    pfinished pre x.
Proof.
  intros tasks wake_rank calc_rank continue_ always proc fuel nprocs sched selection pre t w post x E Hx.
  exact (pordered_split tasks _ (parallel_dep_order tasks wake_rank calc_rank continue_ always proc fuel nprocs sched selection)
                        pre t w post E x Hx).
Qed.
Print Assumptions C01_parallel_dep_order.

(* the same for the dependencies a task only acquires at run time: everything returned by its calc_dep
   tasks (task_dep, producers of returned file_dep, further calc_dep -- transitively) [eff_dep] has
   finished (indeed: was reported successful or up-to-date) before the task's actions start *)
Theorem C01_serial_effective_dep_order :
  forall tasks wake_rank calc_rank continue_ always fuel selection pre t post x,
    fst (run_serial tasks wake_rank calc_rank continue_ always fuel selection) = pre ++ EExecute t :: post ->
    eff_dep tasks t x -> finished_in pre x.
Proof.
  intros tasks wake_rank calc_rank continue_ always fuel selection pre t post x E Hx.
  apply good_in_finished.
  exact (cordered_split tasks _ (serial_contained tasks wake_rank calc_rank continue_ always fuel selection) pre t post E x Hx).
Qed.
Print Assumptions C01_serial_effective_dep_order.

Theorem C01_parallel_effective_dep_order :
  forall tasks wake_rank calc_rank continue_ always proc fuel nprocs sched selection pre t w post x,
    fst (run_parallel tasks wake_rank calc_rank continue_ always proc fuel nprocs sched selection)
      = pre ++ PStart t w :: post ->
    eff_dep tasks t x -> pgood pre x.
Proof.
  intros tasks wake_rank calc_rank continue_ always proc fuel nprocs sched selection pre t w post x E Hx.
  exact (pcordered_split tasks _ (parallel_contained tasks wake_rank calc_rank continue_ always proc fuel nprocs sched selection) pre t w post E x Hx).
Qed.
Print Assumptions C01_parallel_effective_dep_order.

(* non-vacuity: a diamond with a setup-task and a calc_dep really executes, in dependency order *)
Definition ex_tasks (n : name) : option task :=
  match n with
  | 0 => Some (Build_task [1; 2] [4] [] false false CkRun false OOk [] [] [])
  | 1 => Some (Build_task [3] [] [5] false false CkRun false OOk [] [] [])
  | 2 => Some (Build_task [3] [] [] false false CkRun false OOk [] [] [])
  | 3 => Some (Build_task [] [] [] false false CkRun false OOk [] [] [])
  | 4 => Some (Build_task [] [] [] false false CkRun false OOk [] [] [])
  | 5 => Some (Build_task [] [] [] false false CkRun false OOk [2] [] [])
  | _ => None end.
Example C01_serial_nonvacuous :
  map (fun e => match e with EExecute k => k | _ => 99 end)
      (filter is_exec (fst (run_serial ex_tasks (fun _ _ => 0) (fun _ => 0) false false 200 [0])))
  = [5; 3; 2; 1; 4; 0].
Proof. vm_compute. reflexivity. Qed.

Example C01_parallel_nonvacuous :
  map (fun e => match e with PStart k w => (k, w) | _ => (99, 0%nat) end)
      (filter is_pstart (fst (run_parallel ex_tasks (fun _ _ => 0) (fun _ => 0) false false false 200 3 [1;0;2;1;0;1;1;2]%nat [0])))
  = [(5, 1%nat); (3, 0%nat); (2, 2%nat); (1, 0%nat); (4, 0%nat); (0, 0%nat)].
Proof. vm_compute. reflexivity. Qed.

(* ---- from the dodo file's spelling to the table (Model/Implicit.v) ----
   The theorems above speak about the task table "as TaskControl.__init__ leaves it".  The next ones start one
   step earlier, at the declarations: [dl] lists the tasks in definition order with `targets` and `file_dep`
   AS WRITTEN ([SStr text]: a str, kept character for character; [SPath text]: a pathlib object, replaced by
   str(path) = [path_str text], an oracle), [control_init path_str dl] is TaskControl.__init__ (unique names,
   existing dependency names, the targets dictionary, add_implicit_task_dep).
   [declared_dep path_str dl c x]: c names x in task_dep / setup / calc_dep, or some file_dep of c and some
   target of x have the same key -- whatever the spelling ('./build/out.txt', 'build//out.txt', a Path ...)
   and whatever the definition order and the iteration order of the file_dep set (field dc_fd_order, an
   unconstrained oracle).  Whenever the actions of c start, x has finished. *)
Theorem C01_serial_declared_dep_order :
  forall path_str dl tasks wake_rank calc_rank continue_ always fuel selection pre c post x,
    control_init path_str dl = inr tasks ->
    declared_dep path_str dl c x ->
    fst (run_serial tasks wake_rank calc_rank continue_ always fuel selection) = pre ++ EExecute c :: post ->
    finished_in pre x.
Proof.
  intros path_str dl tasks wake_rank calc_rank continue_ always fuel selection pre c post x H D E.
  exact (serial_declared_dep_order path_str dl tasks H wake_rank calc_rank continue_ always fuel selection pre c post x D E).
Qed.
Print Assumptions C01_serial_declared_dep_order.

Theorem C01_parallel_declared_dep_order :
  forall path_str dl tasks wake_rank calc_rank continue_ always proc fuel nprocs sched selection pre c w post x,
    control_init path_str dl = inr tasks ->
    declared_dep path_str dl c x ->
    fst (run_parallel tasks wake_rank calc_rank continue_ always proc fuel nprocs sched selection) = pre ++ PStart c w :: post ->
    pfinished pre x.
Proof.
  intros path_str dl tasks wake_rank calc_rank continue_ always proc fuel nprocs sched selection pre c w post x H D E.
  exact (parallel_declared_dep_order path_str dl tasks H wake_rank calc_rank continue_ always proc fuel nprocs sched selection pre c w post x D E).
Qed.
Print Assumptions C01_parallel_declared_dep_order.

(* a file_dep RETURNED by a calc_dep task cc of t (directly or through further returned calc_dep: [eff_calc])
   whose key is the key of a target of p: p was reported successful / up-to-date before the actions of t start *)
Theorem C01_serial_returned_file_dep_order :
  forall path_str dl tasks wake_rank calc_rank continue_ always fuel selection pre t post cc p,
    control_init path_str dl = inr tasks ->
    eff_calc tasks t cc -> returned_file_on_target path_str dl cc p ->
    fst (run_serial tasks wake_rank calc_rank continue_ always fuel selection) = pre ++ EExecute t :: post ->
    good_in pre p.
Proof.
  intros path_str dl tasks wake_rank calc_rank continue_ always fuel selection pre t post cc p H C R E.
  exact (serial_returned_file_order path_str dl tasks H wake_rank calc_rank continue_ always fuel selection pre t post cc p C R E).
Qed.
Print Assumptions C01_serial_returned_file_dep_order.

Theorem C01_parallel_returned_file_dep_order :
  forall path_str dl tasks wake_rank calc_rank continue_ always proc fuel nprocs sched selection pre t w post cc p,
    control_init path_str dl = inr tasks ->
    eff_calc tasks t cc -> returned_file_on_target path_str dl cc p ->
    fst (run_parallel tasks wake_rank calc_rank continue_ always proc fuel nprocs sched selection) = pre ++ PStart t w :: post ->
    pgood pre p.
Proof.
  intros path_str dl tasks wake_rank calc_rank continue_ always proc fuel nprocs sched selection pre t w post cc p H C R E.
  exact (parallel_returned_file_order path_str dl tasks H wake_rank calc_rank continue_ always proc fuel nprocs sched selection pre t w post cc p C R E).
Qed.
Print Assumptions C01_parallel_returned_file_dep_order.

(* the table contains no invented task_dep: each one was written, or is the producer (by key) of a file_dep *)
Theorem C01_table_task_dep_only :
  forall path_str dl tb c dc x,
    control_init path_str dl = inr tb -> In (c, dc) dl ->
    (exists T, tb c = Some T /\ In x (t_task_dep T)) ->
    In x (t_task_dep (dc_task dc)) \/
    exists tg f, add_targets path_str (fun _ => None) dl = Some tg /\ In f (dc_file_dep dc) /\ tg (key path_str f) = Some x.
Proof. exact table_task_dep_only. Qed.
Print Assumptions C01_table_task_dep_only.

(* non-vacuity: texts 7 = './build/out.txt', 8 = 'build/out.txt', 9 = 'src.txt'; str(PurePath(7)) = 8.
   Task 0 (consumer, defined first) has file_dep './build/out.txt' and 'src.txt', task 1 (producer) has the
   target './build/out.txt', both written as str with the same non-canonical spelling: task 1 runs first *)
Definition ex_ps (x : name) : name := match x with 7 => 8 | _ => x end.
Definition ex_decl : list (name * decl) :=
  [ (0, Build_decl empty_task [] [SStr 7; SStr 9] [9; 7] []);
    (1, Build_decl empty_task [SStr 7] [SStr 9] [] []) ].
Example C01_declared_nonvacuous :
  match control_init ex_ps ex_decl with
  | inr tb => map (fun e => match e with EExecute k => k | _ => 99 end)
                  (filter is_exec (fst (run_serial tb (fun _ _ => 0) (fun _ => 0) false false 200 [0; 1])))
  | inl _ => [] end = [1; 0]
  /\ declared_dep ex_ps ex_decl 0 1.
Proof.
  split. - vm_compute. reflexivity.
  - apply dd_file. exists (Build_decl empty_task [] [SStr 7; SStr 9] [9; 7] []), (Build_decl empty_task [SStr 7] [SStr 9] [] []), (SStr 7), (SStr 7).
    simpl. intuition.
Qed.

(* the same file written as a Path on one side and as the non-canonical str on the other has two different
   keys ('build/out.txt' vs './build/out.txt'): doit sees no dependency there, and neither does [declared_dep] *)
Example C01_declared_different_keys_no_edge :
  match control_init ex_ps [ (0, Build_decl empty_task [] [SPath 7] [] []); (1, Build_decl empty_task [SStr 7] [] [] []) ] with
  | inr tb => match tb 0 with Some T => t_task_dep T | None => [99] end
  | inl _ => [98] end = [].
Proof. vm_compute. reflexivity. Qed.

(* ---- related tasks never execute concurrently (Proofs/NoOverlapP.v) ----
   The sentence "two tasks related by a dependency never execute concurrently" as theorems about the merged log
   of the parallel runners -- every table, oracle, flag combination, flavour (proc = true: MRunner with processes,
   false: MThreadRunner), number of workers, EVERY schedule, every fuel (so every prefix of a run), every selection.
   [PStart k w] / [PEnd k w]: the actions of k start / have ended in worker w; the execution interval of k is the
   part of the log between the two. *)
From DoitV Require Import NoOverlapP.

(* the main thread reports the result of an executed task only after the worker delivered it: between the start
   of k in worker w and any final report of k (ESuccess / EFailure / ESkipUpToDate / ESkipIgnore) lies [PEnd k w] *)
Theorem C01_parallel_end_before_report :
  forall tasks wake_rank calc_rank continue_ always proc fuel nprocs sched selection l1 k w l2 e l3,
    fst (run_parallel tasks wake_rank calc_rank continue_ always proc fuel nprocs sched selection)
      = l1 ++ PStart k w :: l2 ++ PE e :: l3 ->
    is_final_ev k e = true ->
    In (PEnd k w) l2.
Proof. exact parallel_end_before_report. Qed.
Print Assumptions C01_parallel_end_before_report.

(* a task that already has its final report is never started (with C02_exec_once_parallel: no task is started twice) *)
Theorem C01_parallel_no_start_after_report :
  forall tasks wake_rank calc_rank continue_ always proc fuel nprocs sched selection pre k w post,
    fst (run_parallel tasks wake_rank calc_rank continue_ always proc fuel nprocs sched selection)
      = pre ++ PStart k w :: post ->
    ~ pfinished pre k.
Proof. exact parallel_no_start_after_report. Qed.
Print Assumptions C01_parallel_no_start_after_report.

(* a task that effectively depends on itself is never started, by any worker *)
Theorem C01_parallel_self_dep_never_starts :
  forall tasks wake_rank calc_rank continue_ always proc fuel nprocs sched selection a w,
    eff_dep tasks a a ->
    ~ In (PStart a w) (fst (run_parallel tasks wake_rank calc_rank continue_ always proc fuel nprocs sched selection)).
Proof. exact parallel_self_dep_never_starts. Qed.
Print Assumptions C01_parallel_self_dep_never_starts.

(* the execution intervals of two tasks related by an effective dependency -- in EITHER direction, no other
   hypothesis, not even a <> b -- are disjoint: whenever a starts (in worker wa) and later b starts (in any
   worker), the actions of a have ended in wa in between.  (If the later one is the dependency, the situation is
   impossible: it had its final report before the earlier one started and is not started afterwards.) *)
Theorem C01_parallel_no_overlap :
  forall tasks wake_rank calc_rank continue_ always proc fuel nprocs sched selection l1 a wa l2 b wb l3,
    fst (run_parallel tasks wake_rank calc_rank continue_ always proc fuel nprocs sched selection)
      = l1 ++ PStart a wa :: l2 ++ PStart b wb :: l3 ->
    eff_dep tasks a b \/ eff_dep tasks b a ->
    In (PEnd a wa) l2.
Proof. exact parallel_no_overlap. Qed.
Print Assumptions C01_parallel_no_overlap.

(* the declared dependencies (task_dep, calc_dep, setup -- as in C01_parallel_dep_order) are the special case *)
Theorem C01_parallel_no_overlap_static :
  forall tasks wake_rank calc_rank continue_ always proc fuel nprocs sched selection l1 a wa l2 b wb l3,
    fst (run_parallel tasks wake_rank calc_rank continue_ always proc fuel nprocs sched selection)
      = l1 ++ PStart a wa :: l2 ++ PStart b wb :: l3 ->
    In a (static_deps tasks b) \/ In b (static_deps tasks a) ->
    In (PEnd a wa) l2.
Proof. exact parallel_no_overlap_static. Qed.
Print Assumptions C01_parallel_no_overlap_static.

(* interval form.  [running_at p k]: at the end of the log prefix p the actions of k are executing -- p contains
   [PStart k w] with no [PEnd k w] after it.  At no point of any run are two related tasks both executing
   (for a = b: a task depending on itself is never executing) *)
Theorem C01_parallel_never_concurrent :
  forall tasks wake_rank calc_rank continue_ always proc fuel nprocs sched selection p rest a b,
    fst (run_parallel tasks wake_rank calc_rank continue_ always proc fuel nprocs sched selection) = p ++ rest ->
    eff_dep tasks a b \/ eff_dep tasks b a ->
    ~ ((exists l1 w l2, p = l1 ++ PStart a w :: l2 /\ ~ In (PEnd a w) l2) /\
       (exists l1 w l2, p = l1 ++ PStart b w :: l2 /\ ~ In (PEnd b w) l2)).
Proof. exact parallel_never_concurrent. Qed.
Print Assumptions C01_parallel_never_concurrent.

Theorem C01_parallel_never_concurrent_static :
  forall tasks wake_rank calc_rank continue_ always proc fuel nprocs sched selection p rest a b,
    fst (run_parallel tasks wake_rank calc_rank continue_ always proc fuel nprocs sched selection) = p ++ rest ->
    In a (static_deps tasks b) \/ In b (static_deps tasks a) ->
    ~ (running_at p a /\ running_at p b).
Proof. exact parallel_never_concurrent_static. Qed.
Print Assumptions C01_parallel_never_concurrent_static.

(* non-vacuity: tasks DO overlap when nothing relates them.  Tasks 1 and 2 are independent, 3 has task_dep 1.
   Process flavour, 2 workers, schedule [0;0;1;1]: 1 starts in worker 0, 2 starts in worker 1 while 1 is executing;
   1 ends and is reported; 3 starts in worker 0 -- after [PEnd 1 0] -- and runs to its end while 2 is STILL
   executing in worker 1.  So 2 overlaps both 1 and 3; the related pair 1, 3 does not overlap.
   View: (0,k,w) = PStart k w, (1,k,w) = PEnd k w, (2,k,_) = ESuccess k *)
Definition ov_tasks (n : name) : option task :=
  match n with
  | 1 => Some empty_task
  | 2 => Some empty_task
  | 3 => Some (Build_task [1] [] [] false false CkRun false OOk [] [] [])
  | _ => None end.
Definition ov_view (e : pevent) : list (N * name * nat) :=
  match e with PStart k w => [(0, k, w)] | PEnd k w => [(1, k, w)] | PE (ESuccess k) => [(2, k, 0%nat)] | _ => [] end.
Example C01_overlap_nonvacuous :
  flat_map ov_view (fst (run_parallel ov_tasks (fun _ _ => 0) (fun _ => 0) false false true 200 2 [0;0;1;1]%nat [1;2;3]))
  = [(0, 1, 0%nat); (0, 2, 1%nat); (1, 1, 0%nat); (2, 1, 0%nat);
     (0, 3, 0%nat); (1, 3, 0%nat); (2, 3, 0%nat); (1, 2, 1%nat); (2, 2, 0%nat)].
Proof. vm_compute. reflexivity. Qed.

(* the same in the vocabulary of C01_parallel_never_concurrent: a prefix of that log at whose end the unrelated
   tasks 1 and 2 are both executing, and a later one at whose end 2 and 3 are *)
Example C01_unrelated_tasks_run_concurrently :
  let log := fst (run_parallel ov_tasks (fun _ _ => 0) (fun _ => 0) false false true 200 2 [0;0;1;1]%nat [1;2;3]) in
  (exists p rest, log = p ++ rest /\ running_at p 1 /\ running_at p 2) /\
  (exists p rest, log = p ++ rest /\ running_at p 2 /\ running_at p 3) /\
  ~ (eff_dep ov_tasks 1 2 \/ eff_dep ov_tasks 2 1) /\ ~ (eff_dep ov_tasks 2 3 \/ eff_dep ov_tasks 3 2) /\
  eff_dep ov_tasks 3 1.
Proof.
  assert (NC : forall t c, t = 1 \/ t = 2 \/ t = 3 -> ~ eff_calc ov_tasks t c).
  { intros t c Ht H. induction H as [c H|c c' _ IH _]; [|exact IH].
    destruct Ht as [-> | [-> | ->]]; exact H. }
  assert (ND : forall t y, t = 1 \/ t = 2 \/ t = 3 -> eff_dep ov_tasks t y -> In y (static_deps ov_tasks t)).
  { intros t y Ht [H|c H _]; [exact H|]. exfalso. exact (NC t c Ht H). }
  cbv zeta. split; [|split; [|split; [|split]]].
  - eexists (firstn 5 _), (skipn 5 _). split; [symmetry; apply firstn_skipn|]. vm_compute. split.
    + exists [PE (EGetStatus 1); PE (EGetStatus 2)], 0%nat, [PE (EExecute 1); PStart 2 1].
      split; [reflexivity|]. simpl. intuition discriminate.
    + exists [PE (EGetStatus 1); PE (EGetStatus 2); PStart 1 0; PE (EExecute 1)], 1%nat, [].
      split; [reflexivity|]. simpl. tauto.
  - eexists (firstn 11 _), (skipn 11 _). split; [symmetry; apply firstn_skipn|]. vm_compute. split.
    + exists [PE (EGetStatus 1); PE (EGetStatus 2); PStart 1 0; PE (EExecute 1)], 1%nat,
             [PEnd 1 0; PE (EExecute 2); PE (ESave 1); PE (ESuccess 1); PE (EGetStatus 3); PStart 3 0].
      split; [reflexivity|]. simpl. intuition discriminate.
    + exists [PE (EGetStatus 1); PE (EGetStatus 2); PStart 1 0; PE (EExecute 1); PStart 2 1; PEnd 1 0;
              PE (EExecute 2); PE (ESave 1); PE (ESuccess 1); PE (EGetStatus 3)], 0%nat, [].
      split; [reflexivity|]. simpl. tauto.
  - intros [H|H]; apply ND in H; auto; vm_compute in H; tauto.
  - intros [H|H]; apply ND in H; auto; vm_compute in H; intuition discriminate.
  - apply ed_static. vm_compute. auto.
Qed.
