(* C13 -- forget, ignore and reset-dep have exactly their documented effect.
   Statements only; every proof is `exact <lemma of Proofs/CommandsP.v>` or a closed computation.

   Model: Model/Commands.v (cmd_forget.py, cmd_ignore.py, cmd_resetdep.py, the helpers of cmd_base.py:
   sel_tasks, check_tasks_exist, tasks_and_deps_iter, subtasks_iter) over the DB of Model/Status.v
   (`name -> option rec`), the histories of Model/History.v and the runner of Model/Runner.v.
   Quantified over ALL task tables (list of (name, task_dep, setup, calc_dep, subtask_of, definition)),
   all DBs, all argument forms.  [closed tb]: every name in a task_dep / setup is a task (TaskControl
   checks that for `run`; the three commands do not -- on a table that is not closed they die from a
   KeyError, outcome CKeyError, DB untouched).  [md5] is an oracle (any function). *)
From DoitV Require Import Base Status History StatusP HistoryP Commands CommandsP Inspect InspectP.
From DoitV Require Dispatch Runner Parallel RunnerP ParallelP IgnParP Introspect.
From Coq Require Import Relations.
Open Scope Z_scope.

(* ---- the lists the commands compute ---- *)

(* tasks_and_deps_iter (--follow-sub): yields exactly the tasks reachable from the selection through
   task_dep / setup edges (calc_dep is not followed: the FIXME of cmd_base.py), never runs out of
   fuel and never raises on a closed table *)
Theorem C13_follow_sub_closure : forall tb sel dup,
  (forall l, tasks_and_deps_iter tb sel dup = IOk l -> forall x, In x l <-> reach_from tb sel x) /\
  (closed tb -> (forall x, In x sel -> known tb x) -> exists l, tasks_and_deps_iter tb sel dup = IOk l).
Proof.
  intros tb sel dup.
  exact (conj (tasks_and_deps_iter_spec tb sel dup) (tasks_and_deps_iter_total tb sel dup)).
Qed.
Print Assumptions C13_follow_sub_closure.

(* a named task with its sub-tasks (forget without -s, ignore, reset-dep with names) *)
Theorem C13_named_with_subtasks : forall tb l r,
  named_with_subs tb l = Some r ->
  forall x, In x r <-> exists n, In n l /\
    (x = n \/ exists c, lookup tb n = Some c /\ In x (c_task_dep c) /\
                        exists cx, lookup tb x = Some cx /\ c_subtask_of cx = Some n).
Proof. intros tb l r H. exact (proj1 (named_with_subs_spec tb l r H)). Qed.
Print Assumptions C13_named_with_subtasks.

(* ---- forget ---- *)

(* whatever the code version, table, arguments, options and DB: --all empties the DB; otherwise, if
   the command runs to its end, the records removed are EXACTLY those of forget_set -- each task of
   the list (command line, else default_tasks, else all tasks that are not sub-tasks) with its
   sub-tasks, under --follow-sub everything reachable through task_dep / setup -- and every other
   record (also of names that are no tasks any more) is untouched; in every other outcome
   (message only, unknown name, KeyError) the DB is untouched *)
Theorem C13_forget_exact : forall fixF tb args dflt o d,
  let out := forget_v fixF tb args dflt o d in
  match co_res out with
  | COk => if fo_all o then forall x, co_db out x = None
           else (forall x, In x (map fst (co_log out)) <-> forget_set tb args dflt (fo_sub o) x) /\
                (forall x, In x (map fst (co_log out)) -> co_db out x = None) /\
                (forall x, ~ In x (map fst (co_log out)) -> co_db out x = d x)
  | _ => co_db out = d
  end.
Proof. exact forget_exact. Qed.
Print Assumptions C13_forget_exact.

(* the list forget starts from *)
Theorem C13_forget_list : forall tb args dflt,
  (args <> [] -> forget_list tb args dflt = args) /\
  (forall l, args = [] -> dflt = Some l -> forget_list tb args dflt = l) /\
  (args = [] -> dflt = None ->
     forall x, In x (forget_list tb args dflt) <-> exists c, In (x, c) tb /\ c_subtask_of c = None).
Proof.
  intros tb args dflt. split; [|split].
  - destruct args; [congruence | reflexivity].
  - intros l -> ->. reflexivity.
  - intros -> ->. exact (top_level_spec tb).
Qed.
Print Assumptions C13_forget_list.

(* which outcome (current code): --all always works; no name + --disable-default only prints;
   an unknown name (on the command line or in default_tasks) is refused, the first one is named;
   otherwise, on a closed table, the command runs to its end -- in particular with no task named and
   no default_tasks (the repaired F2) *)
Theorem C13_forget_outcome : forall tb args dflt o d,
  let out := forget tb args dflt o d in
  if fo_all o then co_res out = COk
  else if is_nil args && fo_disable_default o then co_res out = CNoTask
  else match check_tasks_exist tb (sel_tasks args dflt) with
       | Some bad => co_res out = CInvalid bad
       | None => closed tb -> co_res out = COk
       end.
Proof. exact forget_outcome. Qed.
Print Assumptions C13_forget_outcome.

(* the code before d496796: with no task named and no default_tasks it raised TypeError *)
Theorem C13_forget_no_default_legacy_refuted :
  exists tb d, closed tb /\
    co_res (forget_v false tb [] None {| fo_sub := false; fo_disable_default := false; fo_all := false |} d) = CCrash.
Proof.
  exists [(0%N, {| c_task_dep := []; c_setup := []; c_calc_dep := []; c_subtask_of := None; c_def := empty_def |})], empty_db.
  split; [|reflexivity]. intros n c H m Hm. apply lookup_In in H. destruct H as [E|[]].
  inversion E; subst. destruct Hm.
Qed.
Print Assumptions C13_forget_no_default_legacy_refuted.

(* a forgotten task at the next status query: it is not ignored, and it is up-to-date exactly in the
   documented corner (no file_dep to compare, items that all hold without saved values, targets
   there); with a file_dep, all of them present, the verdict is `run` *)
Theorem C13_forget_then_runs : forall (md5 : N -> N) v c fs d t df,
  d t = None ->
  status_is_ignore d t = false /\
  (g_status (get_status md5 v c fs d t df false) = UpToDate <->
     file_dep df = [] /\ items_ok d t df /\ some_dep d t df /\ targets_ok fs df) /\
  (file_dep df <> [] -> (forall f, In f (file_dep df) -> exists_ fs f = true) ->
     g_status (get_status md5 v c fs d t df false) = Run).
Proof.
  intros md5 v c fs d t df H.
  exact (conj (status_is_ignore_none d t H)
          (conj (forgotten_uptodate_iff md5 v c fs d t df H) (forgotten_runs md5 v c fs d t df H))).
Qed.
Print Assumptions C13_forget_then_runs.

(* "executes on the next run" cannot be claimed of every forgotten task: one whose only dependency
   is a constant-true uptodate item is up-to-date with no record at all *)
Theorem C13_forget_then_runs_refuted :
  exists tb d t df,
    let out := forget tb [t] None {| fo_sub := false; fo_disable_default := false; fo_all := false |} d in
    lookup tb t = Some {| c_task_dep := []; c_setup := []; c_calc_dep := []; c_subtask_of := None; c_def := df |} /\
    d t <> None /\ co_res out = COk /\ co_db out t = None /\
    g_status (get_status (fun x => x) current MD5 (fun _ => None) (co_db out) t df false) = UpToDate.
Proof.
  exists [(0%N, {| c_task_dep := []; c_setup := []; c_calc_dep := []; c_subtask_of := None;
                   c_def := {| file_dep := []; targets := []; uptodate := [UBool true]; act_values := []; act_result := None |} |})],
         (db_of [(0%N, empty_rec)]), 0%N,
         {| file_dep := []; targets := []; uptodate := [UBool true]; act_values := []; act_result := None |}.
  vm_compute. repeat split; discriminate.
Qed.
Print Assumptions C13_forget_then_runs_refuted.

(* ---- ignore ---- *)

(* if the command runs to its end, exactly the named tasks and their sub-tasks get the mark, nothing
   else of their records changes (saved state, values, result), no other record changes; otherwise
   the DB is untouched *)
Theorem C13_ignore : forall tb args d,
  let out := ignore_cmd tb args d in
  match co_res out with
  | COk => (forall x, In x (map fst (co_log out)) <-> exists n, In n args /\ self_or_sub tb n x) /\
           (forall x, In x (map fst (co_log out)) ->
              co_db out x = Some (set_ignore (getrec d x) true) /\ status_is_ignore (co_db out) x = true /\
              get_values (co_db out) x = get_values d x /\ get_result (co_db out) x = get_result d x) /\
           (forall x, ~ In x (map fst (co_log out)) -> co_db out x = d x)
  | _ => co_db out = d
  end.
Proof.
  intros tb args d. pose proof (ignore_exact tb args d) as H. cbv zeta in *.
  destruct (co_res (ignore_cmd tb args d)); auto.
  destruct H as (A & B & C). split; [exact A|]. split; [|exact C].
  intros x Hx. specialize (B x Hx). split; [exact B|].
  unfold status_is_ignore, get_values, get_result.
  assert (E : getrec (co_db (ignore_cmd tb args d)) x = set_ignore (getrec d x) true)
    by (unfold getrec at 1; rewrite B; reflexivity).
  rewrite E. repeat split.
Qed.
Print Assumptions C13_ignore.

Theorem C13_ignore_outcome : forall tb args d,
  let out := ignore_cmd tb args d in
  match args with
  | [] => co_res out = CNoTask
  | _ => match first_unknown tb args with
         | Some bad => co_res out = CInvalid bad
         | None => closed tb -> co_res out = COk
         end
  end.
Proof. exact ignore_outcome. Qed.
Print Assumptions C13_ignore_outcome.

(* "on every later run": over the histories of History.v -- whatever tasks the later runs go through,
   with or without --always, whether their actions fail or not -- the mark stays where it is, the
   record keeps its content, and the task is not executed *)
Theorem C13_ignore_persists : forall (md5 : N -> N) (size_of : N -> Z) v s T l,
  status_is_ignore (s_db s) T = true ->
  let s' := runs md5 size_of v s l in
  s_db s' T = s_db s T /\ status_is_ignore (s_db s') T = true /\ forall a, executes md5 v s' T a = false.
Proof.
  intros md5 size_of v s T l H. cbv zeta.
  pose proof (runs_keep_ignored md5 size_of v l s T H) as E.
  assert (H' : status_is_ignore (s_db (runs md5 size_of v s l)) T = true)
    by (unfold status_is_ignore, getrec in *; rewrite E; exact H).
  exact (conj E (conj H' (fun a => ignored_not_executed md5 v _ T a H'))).
Qed.
Print Assumptions C13_ignore_persists.

(* "until forgotten": any forget that covers the task removes the mark with the record *)
Theorem C13_ignore_until_forget : forall fixF tb args dflt o d T,
  let out := forget_v fixF tb args dflt o d in
  co_res out = COk -> (fo_all o = true \/ forget_set tb args dflt (fo_sub o) T) ->
  co_db out T = None /\ status_is_ignore (co_db out) T = false.
Proof.
  intros fixF tb args dflt o d T out Hok Hin. pose proof (forget_exact fixF tb args dflt o d) as H.
  cbv zeta in H. fold out in H. rewrite Hok in H.
  assert (E : co_db out T = None).
  { destruct (fo_all o); [apply H|]. destruct Hin as [Hin|Hin]; [discriminate|].
    destruct H as (A & B & _). apply B, A, Hin. }
  exact (conj E (status_is_ignore_none _ _ E)).
Qed.
Print Assumptions C13_ignore_until_forget.

(* the next run (Runner.select_task on the table read from the DB): a task met with the mark, or
   with an ignored dependency noted in its node, is reported skip_ignore, gets status `ignore` and is
   not started -- on its first selection and on the one after its setup-tasks (1c36a4d) *)
Theorem C13_ignore_select : forall (md5 : N -> N) v c fs d rt cont always r k ct,
  lookup rt k = Some ct ->
  let tasks := run_table md5 v c fs d rt in
  (Dispatch.n_st (Dispatch.node_of tasks (Runner.r_d r) k) = Dispatch.SNone ->
   status_is_ignore d k = true \/ Dispatch.n_ign (Dispatch.node_of tasks (Runner.r_d r) k) <> [] ->
   exists r', Runner.select_task tasks cont always r k = (false, r') /\
              Runner.r_tr r' = Runner.r_tr r ++ [Runner.EGetStatus k; Runner.ESkipIgnore k] /\
              Dispatch.st_of tasks (Runner.r_d r') k = Dispatch.SIgnore /\ Runner.r_td r' = Runner.r_td r) /\
  (Dispatch.n_st (Dispatch.node_of tasks (Runner.r_d r) k) <> Dispatch.SNone ->
   Dispatch.n_ign (Dispatch.node_of tasks (Runner.r_d r) k) <> [] ->
   exists r', Runner.select_task tasks cont always r k = (false, r') /\
              Runner.r_tr r' = Runner.r_tr r ++ [Runner.ESkipIgnore k] /\
              Dispatch.st_of tasks (Runner.r_d r') k = Dispatch.SIgnore).
Proof.
  intros md5 v c fs d rt cont always r k ct Hl tasks. split.
  - intros Hs Hi. apply select_ignored_first; auto.
    unfold tasks. rewrite (run_table_dbignore md5 v c fs d rt k ct Hl). exact Hi.
  - apply select_ignored_second.
Qed.
Print Assumptions C13_ignore_select.

(* ... and globally: NO run on the DB `ignore` left -- any selection, --continue or not, --always or
   not, any fuel, any scheduling oracle, any table for the run -- starts one of the tasks it marked
   (the named tasks and their sub-tasks).  More generally no run starts a task the DB marks. *)
Theorem C13_ignore_never_started : forall (md5 : N -> N) v wake_rank calc_rank c fs d rt cont always fuel sel T ct,
  lookup rt T = Some ct -> status_is_ignore d T = true ->
  ~ In (Runner.EExecute T) (fst (next_run md5 v wake_rank calc_rank c fs d rt cont always fuel sel)).
Proof. exact next_run_never_starts_ignored. Qed.
Print Assumptions C13_ignore_never_started.

Theorem C13_ignore_then_never_started : forall (md5 : N -> N) v wake_rank calc_rank c fs tb args d rt cont always fuel sel x ct,
  let out := ignore_cmd tb args d in
  co_res out = COk -> In x (map fst (co_log out)) -> lookup rt x = Some ct ->
  ~ In (Runner.EExecute x) (fst (next_run md5 v wake_rank calc_rank c fs (co_db out) rt cont always fuel sel)).
Proof.
  intros md5 v wake_rank calc_rank c fs tb args d rt cont always fuel sel x ct out Hok Hx Hl.
  apply (next_run_never_starts_ignored md5 v wake_rank calc_rank c fs (co_db out) rt cont always fuel sel x ct Hl).
  pose proof (ignore_exact tb args d) as H. cbv zeta in H. fold out in H. rewrite Hok in H.
  destruct H as (_ & B & _). unfold status_is_ignore, getrec. rewrite (B x Hx). reflexivity.
Qed.
Print Assumptions C13_ignore_then_never_started.

(* PARTIAL.  Proved: the three places where the status `ignore` of a dependency (task_dep, calc_dep
   or setup-task alike) enters ignored_deps of the dependent -- _node_add_wait_run for a dependency
   that finished earlier, _update_waiting for one that finishes later -- which with
   C13_ignore_select gives: a dependent selected with that entry is skipped, with status `ignore`
   itself (so the mark travels on).
   With C13_ignore_never_started the marked tasks themselves are covered in every run.
   Missing (for the DEPENDENTS only): the invariant of the whole dispatcher loop that every dependency with status `ignore`
   IS in ignored_deps of each dependent by the time the dependent is handed to the runner (the
   accounting invariant of Proofs/DispatchInv.v tracks finished dependencies but not this list), hence
   the statement "no trace of run_serial contains EExecute of a task that depends on an ignored one".
   That statement is checked on the real runner by harness/c13.py (oracle `ignore_oracle`, every run). *)
Theorem C13_ignore_dependents_partial : forall tasks d me x calc nd,
  (Dispatch.st_of tasks d x = Dispatch.SIgnore ->
   In x (Dispatch.n_ign (Dispatch.node_of tasks (Dispatch.add_wait_one tasks d me x calc) me))) /\
  In x (Dispatch.n_ign (Dispatch.wake_node tasks nd x Dispatch.SIgnore)).
Proof.
  intros tasks d me x calc nd.
  exact (conj (add_wait_one_ignored tasks d me x calc) (wake_node_ignored tasks nd x)).
Qed.
Print Assumptions C13_ignore_dependents_partial.

(* THE FULL STATEMENT for dependents (added once the dispatcher invariant `recd` of Proofs/DispatchInv.v
   was available: every finished dependency's outcome is recorded in the dependent's bad_deps /
   ignored_deps before the dependent is handed to the runner): in EVERY run -- serial, or parallel
   under any schedule, worker count and flavour -- a task that effectively depends (task_dep, implicit file
   dependency, calc_dep, setup-task, or anything returned by its calc_dep tasks) on a task that was reported as ignored in that run is never executed. *)
Theorem C13_ignored_dependency_never_started_serial :
  forall tasks wake_rank calc_rank continue_ always fuel selection t x,
    let tr := fst (Runner.run_serial tasks wake_rank calc_rank continue_ always fuel selection) in
    RunnerP.eff_dep tasks t x -> In (Runner.ESkipIgnore x) tr -> ~ In (Runner.EExecute t) tr.
Proof.
  intros tasks wake_rank calc_rank continue_ always fuel selection t x tr Hx Hi.
  apply (RunnerP.serial_bad_dep_never_runs tasks wake_rank calc_rank continue_ always fuel selection t x (Runner.ESkipIgnore x)); auto.
  simpl. apply N.eqb_refl.
Qed.
Print Assumptions C13_ignored_dependency_never_started_serial.

Theorem C13_ignored_dependency_never_started_parallel :
  forall tasks wake_rank calc_rank continue_ always proc fuel nprocs sched selection t w x,
    let log := fst (Parallel.run_parallel tasks wake_rank calc_rank continue_ always proc fuel nprocs sched selection) in
    RunnerP.eff_dep tasks t x -> In (Parallel.PE (Runner.ESkipIgnore x)) log -> ~ In (Parallel.PStart t w) log.
Proof.
  intros tasks wake_rank calc_rank continue_ always proc fuel nprocs sched selection t w x log Hx Hi.
  apply (ParallelP.parallel_bad_dep_never_runs tasks wake_rank calc_rank continue_ always proc fuel nprocs sched selection t w x (Runner.ESkipIgnore x)); auto.
  simpl. apply N.eqb_refl.
Qed.
Print Assumptions C13_ignored_dependency_never_started_parallel.

(* IGNORE WINS OVER THE OPTIONS OF THE RUN, --always-execute included.  [ignored_by d rt]: the tasks the
   mark reaches in the table of the run: marked in the DB `ignore` left (the named tasks and their
   sub-tasks: C13_ignore_exact), or with a task_dep (for a group: its sub-tasks; implicit dependencies
   through targets) or calc_dep on a task the mark reaches.  In EVERY serial run on that DB -- any
   selection (tasks named on the command line), --continue or not, --always-execute or not, any
   set-iteration oracle, any fuel -- such a task is never executed and every final report it gets is
   skip_ignore (never success / failure / up-to-date); and a task that has one of them as a setup-task
   is never executed.  (Runner.select_task tests node.ignored_deps / status_is_ignore BEFORE
   always_execute; in Proofs/OutcomeSpec.v rule f_ignore does not mention [always].) *)
Theorem C13_ignore_wins_over_always : forall (md5 : N -> N) v wake_rank calc_rank c fs d rt cont always fuel sel k,
  ignored_by d rt k ->
  let tr := fst (next_run md5 v wake_rank calc_rank c fs d rt cont always fuel sel) in
  ~ In (Runner.EExecute k) tr /\
  (forall e, In e tr -> RunnerP.is_final_ev k e = true -> e = Runner.ESkipIgnore k) /\
  (forall t, setup_ignored_by d rt t -> ~ In (Runner.EExecute t) tr).
Proof. exact next_run_ignore_wins. Qed.
Print Assumptions C13_ignore_wins_over_always.

(* the same right after the command: every task `ignore` wrote a line for, and everything that depends on one *)
Theorem C13_ignore_then_wins_over_always : forall (md5 : N -> N) v wake_rank calc_rank c fs tb args d rt cont always fuel sel x ct,
  let out := ignore_cmd tb args d in
  co_res out = COk -> In x (map fst (co_log out)) -> lookup rt x = Some ct ->
  forall k, clos_refl_trans name (fun a b => exists ca, lookup rt a = Some ca /\ In b (c_task_dep ca ++ c_calc_dep ca)) k x ->
  let tr := fst (next_run md5 v wake_rank calc_rank c fs (co_db out) rt cont always fuel sel) in
  ~ In (Runner.EExecute k) tr /\ (forall e, In e tr -> RunnerP.is_final_ev k e = true -> e = Runner.ESkipIgnore k).
Proof.
  intros md5 v wake_rank calc_rank c fs tb args d rt cont always fuel sel x ct out Hok Hx Hl k Hk.
  assert (Hm : ignored_by (co_db out) rt x).
  { apply (ib_mark _ _ x ct Hl). pose proof (ignore_exact tb args d) as H. cbv zeta in H. fold out in H. rewrite Hok in H.
    destruct H as (_ & B & _). unfold status_is_ignore, getrec. rewrite (B x Hx). reflexivity. }
  assert (Hi : ignored_by (co_db out) rt k).
  { clear Hx Hl. apply clos_rt_rt1n in Hk. induction Hk as [|a b z (ca & Ha & Hb) _ IH]; [exact Hm|].
    exact (ib_dep _ _ a ca b Ha Hb (IH Hm)). }
  destruct (next_run_ignore_wins md5 v wake_rank calc_rank c fs (co_db out) rt cont always fuel sel k Hi) as (A & B & _).
  exact (conj A B).
Qed.
Print Assumptions C13_ignore_then_wins_over_always.

(* ... and the PARALLEL runners (MRunner / MThreadRunner model of Model/Parallel.v): under any worker count,
   any schedule, both flavours (processes / threads), any selection, --continue or not, --always-execute
   or not, any set-iteration oracle, any fuel (runs cut short by an error, an interrupt, a hang or the
   fuel included) -- a task the mark reaches is never STARTED in any worker (no PStart event: neither a
   task marked in the DB itself nor one that reaches a marked task through task_dep / calc_dep), every
   final report it gets is skip_ignore, and no task with a task_dep / calc_dep / setup on such a task is
   started in a worker either.
   (Proofs/IgnParP.v: invariant NS of the job-queue loop next to PI / PO -- a task is only put on the job
   queue with status `run`, which select_task sets after the test of ignored_deps / status_is_ignore and
   before it looks at always_execute; a worker only starts what it takes from that queue.  Formerly
   C13_ignore_wins_over_always_parallel_partial, which lacked the first conjunct.) *)
Theorem C13_ignore_wins_over_always_parallel :
  forall (md5 : N -> N) v wake_rank calc_rank c fs d rt cont always proc fuel nprocs sched sel k,
  ignored_by d rt k ->
  let log := fst (Parallel.run_parallel (run_table md5 v c fs d rt) wake_rank calc_rank cont always proc fuel nprocs sched sel) in
  (forall w, ~ In (Parallel.PStart k w) log) /\
  (forall e, In (Parallel.PE e) log -> RunnerP.is_final_ev k e = true -> e = Runner.ESkipIgnore k) /\
  (forall t ct w, lookup rt t = Some ct -> In k (c_task_dep ct ++ c_calc_dep ct ++ c_setup ct) -> ~ In (Parallel.PStart t w) log).
Proof. exact IgnParP.next_run_parallel_ignore_wins_full. Qed.
Print Assumptions C13_ignore_wins_over_always_parallel.

(* the same right after the command, in a parallel run: every task `ignore` wrote a line for, and everything
   that depends on one, is never started in a worker and is only ever reported skip_ignore *)
Theorem C13_ignore_then_wins_over_always_parallel :
  forall (md5 : N -> N) v wake_rank calc_rank c fs tb args d rt cont always proc fuel nprocs sched sel x ct,
  let out := ignore_cmd tb args d in
  co_res out = COk -> In x (map fst (co_log out)) -> lookup rt x = Some ct ->
  forall k, clos_refl_trans name (fun a b => exists ca, lookup rt a = Some ca /\ In b (c_task_dep ca ++ c_calc_dep ca)) k x ->
  let log := fst (Parallel.run_parallel (run_table md5 v c fs (co_db out) rt) wake_rank calc_rank cont always proc fuel nprocs sched sel) in
  (forall w, ~ In (Parallel.PStart k w) log) /\
  (forall e, In (Parallel.PE e) log -> RunnerP.is_final_ev k e = true -> e = Runner.ESkipIgnore k).
Proof.
  intros md5 v wake_rank calc_rank c fs tb args d rt cont always proc fuel nprocs sched sel x ct out Hok Hx Hl k Hk.
  assert (Hm : ignored_by (co_db out) rt x).
  { apply (ib_mark _ _ x ct Hl). pose proof (ignore_exact tb args d) as H. cbv zeta in H. fold out in H. rewrite Hok in H.
    destruct H as (_ & B & _). unfold status_is_ignore, getrec. rewrite (B x Hx). reflexivity. }
  assert (Hi : ignored_by (co_db out) rt k).
  { clear Hx Hl. apply clos_rt_rt1n in Hk. induction Hk as [|a b z (ca & Ha & Hb) _ IH]; [exact Hm|].
    exact (ib_dep _ _ a ca b Ha Hb (IH Hm)). }
  destruct (IgnParP.next_run_parallel_ignore_wins_full md5 v wake_rank calc_rank c fs (co_db out) rt cont always proc fuel nprocs sched sel k Hi) as (A & B & _).
  exact (conj A B).
Qed.
Print Assumptions C13_ignore_then_wins_over_always_parallel.

(* ---- "until forgotten": the commands that only look (Model/Inspect.v) ----
   Between `ignore T` and a later run the user gives commands that are not `forget`: `doit list` (any of --all, --status,
   --deps, --sort, names), `doit info` (with or without --no-status), `doit clean` (no --forget) -- each in a process of its own,
   on any backend [b], each with ITS OWN task table (the dodo file may have changed), options, file system and FILE CHECKER
   (--check_file_uptodate on its command line or in the configuration: possibly not the one that wrote the records, possibly
   not the one of the run that follows).  [insp_steps b l d]: the DB on disk after the sequence [l] of such commands.
   (Seeded change C13f: List._print_task asking get_status BEFORE looking at the mark, under another checker: get_status
   drops the record of the other checker (dependency.py 680-689) and the mark with it; with the dbm backend that reaches the
   file although `list` never closes the dependency manager, and the next run executes T.)

   Whatever the sequence: the record of a task that carries the mark is afterwards what it was -- the mark, the saved state,
   values and result -- so every statement above about "the DB `ignore` left" (C13_ignore_persists,
   C13_ignore_never_started, C13_ignore_wins_over_always, C13_ignore_mark_survives_reset_dep, C13_ignore_until_forget)
   applies unchanged after it. *)
Theorem C13_ignore_survives_inspection : forall (md5 : N -> N) v (name_ltb : name -> name -> bool) b l d T,
  status_is_ignore d T = true ->
  insp_steps md5 v name_ltb b l d T = d T /\ status_is_ignore (insp_steps md5 v name_ltb b l d) T = true.
Proof. exact insp_steps_keep_ignored. Qed.
Print Assumptions C13_ignore_survives_inspection.

(* one command, as the correspondence check evaluates it (harness/c13.py): outcome, lines, DB afterwards *)
Theorem C13_ignore_survives_list_info_clean : forall (md5 : N -> N) v (name_ltb : name -> name -> bool) b tb o pos hide c fs d T,
  status_is_ignore d T = true ->
  co_db (list_step md5 v name_ltb b tb o c fs d) T = d T /\
  co_db (info_step md5 v b tb pos hide c fs d) T = d T /\
  co_db (clean_step d) T = d T.
Proof.
  intros md5 v name_ltb b tb o pos hide c fs d T Hi.
  exact (conj (list_step_ign_kept md5 v name_ltb b tb o c fs d T Hi)
          (conj (info_step_ign_kept md5 v b tb pos hide c fs d T Hi) eq_refl)).
Qed.
Print Assumptions C13_ignore_survives_list_info_clean.

(* ... and the run after them (serial; any selection, --continue or not, --always-execute or not, any checker [c] of its
   own, any set-iteration oracle, any fuel): a task the mark reached BEFORE the commands -- marked, or with a task_dep /
   calc_dep path to a marked task -- is never executed and every final report it gets is skip_ignore; a task with one
   of them as a setup-task is never executed *)
Theorem C13_ignore_survives_inspection_then_run :
  forall (md5 : N -> N) v (name_ltb : name -> name -> bool) b l d wake_rank calc_rank c fs rt cont always fuel sel k,
  ignored_by d rt k ->
  let tr := fst (next_run md5 v wake_rank calc_rank c fs (insp_steps md5 v name_ltb b l d) rt cont always fuel sel) in
  ~ In (Runner.EExecute k) tr /\
  (forall e, In e tr -> RunnerP.is_final_ev k e = true -> e = Runner.ESkipIgnore k) /\
  (forall t, setup_ignored_by d rt t -> ~ In (Runner.EExecute t) tr).
Proof. exact insp_steps_then_run. Qed.
Print Assumptions C13_ignore_survives_inspection_then_run.

(* ---- reset-dep ---- *)

(* on every DB of the kind FS-fresh histories reach (db_ok: [sn] is every version each file ever had,
   the md5 entries of the records are true of those versions; see C13_resetdep_reachable), table with
   unique names: the command never dies from the TypeError; tasks it does not select keep their
   records; saved values and result of EVERY task are kept; a selected task whose file dependencies
   all exist is left `settled`: up-to-date unless an uptodate item is false, a target is missing, or
   it has nothing to depend on; a selected task with a missing file dependency keeps its record as it
   was (nothing is recorded).  Unknown name / KeyError: DB untouched *)
Theorem C13_resetdep : forall (md5 : N -> N) v c fs sn tb args d,
  fixB v = true -> NoDup (names tb) -> db_ok md5 fs sn d ->
  let out := resetdep_cmd md5 v c fs tb args d in
  match co_res out with
  | COk => db_ok md5 fs sn (co_db out) /\
           (forall x, ~ resetdep_selected tb args x -> co_db out x = d x) /\
           (forall x, get_values (co_db out) x = get_values d x /\ get_result (co_db out) x = get_result d x) /\
           (forall n ct, resetdep_selected tb args n -> lookup tb n = Some ct ->
              if forallb (exists_ fs) (file_dep (c_def ct))
              then (g_status (get_status md5 v c fs (co_db out) n (c_def ct) false) = UpToDate <->
                      items_ok (co_db out) n (c_def ct) /\ some_dep (co_db out) n (c_def ct) /\ targets_ok fs (c_def ct))
              else co_db out n = d n)
  | CCrash | CFuel => False
  | _ => co_db out = d
  end.
Proof. intros md5 v c fs sn tb args d HB. exact (resetdep_cmd_spec md5 v HB c fs sn tb args d). Qed.
Print Assumptions C13_resetdep.

(* one task: what "processed" writes -- deps = the present file_dep, the configured checker, for
   every file dep the state of the file as it is now; values and result kept (the ignore mark too,
   unless the record belonged to another checker); "skip" and "failed" write nothing *)
Theorem C13_resetdep_record : forall (md5 : N -> N) v c fs sn d n df d' code,
  fixB v = true -> db_ok md5 fs sn d -> reset_dep md5 v c fs d n df = (d', code) ->
  (forall x, x <> n -> d' x = d x) /\
  (forall x, get_values d' x = get_values d x /\ get_result d' x = get_result d x) /\
  if forallb (exists_ fs) (file_dep df)
  then (code = 1 \/ code = 2) /\ (code = 1 -> d' = d) /\
       (code = 2 -> exists r', d' n = Some r' /\ r_deps r' = Some (file_dep df) /\ r_checker r' = Some c /\
                    (forall f, In f (file_dep df) -> exists st, fs f = Some st /\ r_saved r' f = Some (state_of md5 c st)) /\
                    r_ignore r' = (if ck_changed c (getrec d n) then false else r_ignore (getrec d n)))
  else code = 0 /\ d' = d.
Proof.
  intros md5 v c fs sn d n df d' code HB Hok H.
  destruct (reset_dep_spec md5 v HB c fs sn d n df d' code Hok H) as (_ & A & B & C).
  split; [exact A|]. split; [exact B|].
  destruct (forallb (exists_ fs) (file_dep df)); [|exact C].
  destruct C as (C1 & C2 & C3 & _). exact (conj C1 (conj C2 C3)).
Qed.
Print Assumptions C13_resetdep_record.

(* "until forgotten" over reset-dep: the mark lives in the record reset-dep rewrites.  A task that carries it in a
   record written by the configured checker -- or in a record with no checker entry, which is what `ignore` of a task
   without saved state leaves -- still carries it after `reset-dep` in every argument form, whether the command
   left the task alone, reported failed / skip, or processed it; and the record is again of that kind (so the
   statement iterates over any number of reset-dep applications, and C13_ignore_persists / C13_ignore_wins_over_always
   apply to the runs that follow) *)
Theorem C13_ignore_mark_survives_reset_dep : forall (md5 : N -> N) v c fs sn tb args d T,
  fixB v = true -> db_ok md5 fs sn d ->
  status_is_ignore d T = true -> ck_changed c (getrec d T) = false ->
  let out := resetdep_cmd md5 v c fs tb args d in
  status_is_ignore (co_db out) T = true /\ ck_changed c (getrec (co_db out) T) = false.
Proof.
  intros md5 v c fs sn tb args d T HB Hok Hi Hc.
  exact (resetdep_cmd_keeps_mark md5 v HB c fs sn tb args d T Hok (conj Hi Hc)).
Qed.
Print Assumptions C13_ignore_mark_survives_reset_dep.

(* without the hypothesis on the checker the statement is false of the code as it is: reset-dep under the timestamp
   checker of an ignored task whose record the md5 checker wrote (file dependency present, task not up-to-date)
   reports "processed" and the record, mark included, is replaced -- the task is no longer ignored although it was
   never forgotten (dependency.py 680-689: get_status removes the record of another checker; save_success f6ac8a0) *)
Theorem C13_ignore_mark_reset_dep_other_checker_refuted :
  exists (md5 : N -> N) c fs tb args d T,
    status_is_ignore d T = true /\
    let out := resetdep_cmd md5 current c fs tb args d in
    co_res out = COk /\ co_log out = [(T, 2)] /\ status_is_ignore (co_db out) T = false.
Proof.
  exists (fun x => x), TS, (fs_of [(0%N, {| mtime := 2; size := 4; content := 1%N |})]),
         [(0%N, {| c_task_dep := []; c_setup := []; c_calc_dep := []; c_subtask_of := None;
                   c_def := {| file_dep := [0%N]; targets := []; uptodate := []; act_values := []; act_result := None |} |})],
         [0%N],
         (db_of [(0%N, {| r_deps := Some [0%N]; r_checker := Some MD5; r_saved := saved_of [(0%N, MD5state 1 4 0%N)];
                          r_values := []; r_result := None; r_ignore := true |})]), 0%N.
  vm_compute. repeat split.
Qed.
Print Assumptions C13_ignore_mark_reset_dep_other_checker_refuted.

(* the hypothesis db_ok holds in every state a history of History.v reaches in which no file ever
   carried one mtime with two contents (hist_ok; writes with arbitrary mtimes included) -- C03 *)
Theorem C13_resetdep_reachable : forall (md5 : N -> N) (size_of : N -> Z) ops,
  hist_ok md5 size_of current ops = true ->
  let s := run md5 size_of current ops in db_ok md5 (s_fs s) (s_seen s) (s_db s).
Proof.
  intros md5 size_of ops Hf. cbv zeta.
  apply (db_ok_of_state md5 size_of). apply run_inv; try reflexivity; exact Hf.
Qed.
Print Assumptions C13_resetdep_reachable.

(* ---- non-vacuity ---- *)
Definition mk (td su : list name) (sub : option name) (fd tg : list file) (u : list utd) : ctask :=
  {| c_task_dep := td; c_setup := su; c_calc_dep := []; c_subtask_of := sub;
     c_def := {| file_dep := fd; targets := tg; uptodate := u; act_values := []; act_result := None |} |}.
(* a(0) -> b(3) ; group g(1) = { g:x(2) -> c(4) } ; c(4) setup s(5) *)
Definition tb0 : table :=
  [(0, mk [3] [] None [0] [] []); (1, mk [2] [] None [] [] []); (2, mk [4] [] (Some 1) [1] [] []);
   (3, mk [] [] None [0] [] []); (4, mk [] [5] None [] [] [URunOnce]); (5, mk [] [] None [] [] [UBool true])]%N.
Definition rec0 : rec :=
  {| r_deps := Some [0%N]; r_checker := Some MD5; r_saved := saved_of [(0%N, MD5state 1 4 0%N)];
     r_values := [(2%N, Some 3%N)]; r_result := Some 1%N; r_ignore := false |}.
Definition db0 : db := db_of [(0%N, rec0); (1%N, empty_rec); (2%N, rec0); (3%N, rec0); (4%N, rec0); (5%N, rec0); (9%N, rec0)].
Definition fs0 : fsys := fs_of [(0%N, {| mtime := 2; size := 4; content := 1%N |}); (1%N, {| mtime := 1; size := 4; content := 0%N |})].
Definition none_set (d : db) (l : list name) : list bool := map (fun x => match d x with None => true | Some _ => false end) l.

Example C13_closed_nonvacuous : closed tb0 /\ NoDup (names tb0).
Proof.
  split.
  - intros n c H m Hm. unfold known.
    assert (In n [0;1;2;3;4;5]%N) by (apply lookup_some_name in H; exact H).
    simpl in H0. destruct H0 as [<-|[<-|[<-|[<-|[<-|[<-|[]]]]]]]; vm_compute in H; inversion H; subst; simpl in Hm;
      repeat (destruct Hm as [<-|Hm]; [vm_compute; discriminate|]); destruct Hm.
  - vm_compute. repeat constructor; simpl; intuition discriminate.
Qed.

(* forget g: g and g:x go; forget -s g: also c and its setup-task s; forget (no name, no
   default_tasks): every task, the stale record 9 stays; --all: that one too *)
Example C13_forget_nonvacuous :
  let o s a := {| fo_sub := s; fo_disable_default := false; fo_all := a |} in
  let q out := (cres_z (co_res out), none_set (co_db out) [0;1;2;3;4;5;9]%N) in
  q (forget tb0 [1%N] None (o false false) db0) = (0, [false; true; true; false; false; false; false]) /\
  q (forget tb0 [1%N] None (o true false) db0) = (0, [false; true; true; false; true; true; false]) /\
  q (forget tb0 [] None (o false false) db0) = (0, [true; true; true; true; true; true; false]) /\
  q (forget tb0 [] (Some [0%N]) (o false false) db0) = (0, [true; false; false; false; false; false; false]) /\
  q (forget tb0 [] None (o false true) db0) = (0, [true; true; true; true; true; true; true]) /\
  q (forget tb0 [0; 7]%N None (o false false) db0) = (107, [false; false; false; false; false; false; false]).
Proof. vm_compute. repeat split. Qed.

Example C13_ignore_nonvacuous :
  let out := ignore_cmd tb0 [1%N] db0 in
  co_res out = COk /\ map fst (co_log out) = [1; 2]%N /\
  map (status_is_ignore (co_db out)) [0;1;2;3]%N = [false; true; true; false] /\
  get_values (co_db out) 2%N = [(2%N, Some 3%N)] /\
  status_is_ignore (co_db (forget tb0 [1%N] None {| fo_sub := false; fo_disable_default := false; fo_all := false |} (co_db out))) 2%N = false.
Proof. vm_compute. repeat split. Qed.

(* reset-dep of a (file 0 changed: processed, up-to-date afterwards, values/result kept), of g:x (file
   dep 1 present, no record state: processed) and of a task whose file dep is missing (failed) *)
Example C13_resetdep_nonvacuous :
  let out := resetdep_cmd (fun x => x) current MD5 fs0 tb0 [0; 2]%N db0 in
  co_res out = COk /\ co_log out = [(0%N, 2); (2%N, 2)] /\
  g_status (get_status (fun x => x) current MD5 fs0 db0 0%N (c_def (mk [3%N] [] None [0%N] [] [])) false) = Run /\
  g_status (get_status (fun x => x) current MD5 fs0 (co_db out) 0%N (c_def (mk [3%N] [] None [0%N] [] [])) false) = UpToDate /\
  get_values (co_db out) 0%N = [(2%N, Some 3%N)] /\ get_result (co_db out) 0%N = Some 1%N /\
  co_log (resetdep_cmd (fun x => x) current MD5 (fun _ => None) tb0 [0%N] db0) = [(0%N, 0)] /\
  co_db (resetdep_cmd (fun x => x) current MD5 (fun _ => None) tb0 [0%N] db0) 0%N = db0 0%N.
Proof. vm_compute. repeat split. Qed.

(* `ignore a` (0), then reset-dep of every task under the checker that wrote the records: a (file 0 changed) is processed,
   the hypotheses of C13_ignore_mark_survives_reset_dep hold before and the mark is there afterwards; so it is for g (1),
   whose record is empty_rec + the mark (no checker entry).  Under the other checker a's mark goes, g's stays. *)
Example C13_ignore_reset_dep_nonvacuous :
  let d := co_db (ignore_cmd tb0 [0; 1]%N db0) in
  let out c := resetdep_cmd (fun x => x) current c fs0 tb0 [] d in
  map (status_is_ignore d) [0; 1; 2]%N = [true; true; true] /\
  map (fun t => ck_changed MD5 (getrec d t)) [0; 1]%N = [false; false] /\
  co_res (out MD5) = COk /\ co_log (out MD5) = [(0%N, 2); (1%N, 2); (2%N, 2); (3%N, 2); (4%N, 2); (5%N, 2)] /\
  map (status_is_ignore (co_db (out MD5))) [0; 1; 2; 3]%N = [true; true; true; false] /\
  map (fun t => ck_changed TS (getrec d t)) [0; 1]%N = [true; false] /\
  map (status_is_ignore (co_db (out TS))) [0; 1; 2; 3]%N = [false; true; false; false].
Proof. vm_compute. repeat split. Qed.

(* the next run after `ignore s` (5): s is skipped, and so is c (4), which reaches s only through
   setup, and g:x (2) and g (1), which depend on c; a and b run *)
Example C13_next_run_nonvacuous :
  let d := co_db (ignore_cmd tb0 [5%N] (remove_list db0 [4%N])) in
  let tr := fst (next_run (fun x => x) current (fun _ _ => 0%N) (fun _ => 0%N) MD5 fs0 d tb0 true false 400 [0; 1; 4; 5]%N) in
  map (outcome_z tr) [0;1;2;3;4;5]%N = [17; 4; 4; 17; 4; 4].
Proof. vm_compute. reflexivity. Qed.

(* `ignore b` (3), then `run -a` of every task: b is reported ignored (4) and so is a (0), which
   depends on it; the others are executed (17 = executed + success), c (4) although it is up-to-date --
   without -a c is skipped as up-to-date (2), b and a are reported ignored all the same.
   `run -a a` alone: b and a are reported ignored, nothing is executed. *)
Example C13_always_nonvacuous :
  let d := co_db (ignore_cmd tb0 [3%N] (remove_list db0 [])) in
  let fs := fs_of [(0%N, {| mtime := 1; size := 4; content := 0%N |}); (1%N, {| mtime := 1; size := 4; content := 0%N |})] in
  let d1 := upd d 4%N (Some {| r_deps := Some []; r_checker := Some MD5; r_saved := saved_of []; r_values := [(0%N, Some 1%N)];
                               r_result := None; r_ignore := false |}) in
  let run always sel := fst (next_run (fun x => x) current (fun _ _ => 0%N) (fun _ => 0%N) MD5 fs d1 tb0 true always 400 sel) in
  ignored_by d1 tb0 0%N /\
  map (outcome_z (run true [0; 1; 4; 5]%N)) [0;1;2;3;4;5]%N = [4; 17; 17; 4; 17; 17] /\
  map (outcome_z (run false [0; 1; 4; 5]%N)) [0;1;2;3;4;5]%N = [4; 17; 17; 4; 2; 17] /\
  map (outcome_z (run true [0%N])) [0;1;2;3;4;5]%N = [4; 0; 0; 4; 0; 0].
Proof.
  split; [|vm_compute; repeat split].
  apply (ib_dep _ _ 0%N (mk [3%N] [] None [0%N] [] []) 3%N); [reflexivity|left; reflexivity|].
  apply (ib_mark _ _ 3%N (mk [] [] None [0%N] [] [])); reflexivity.
Qed.

(* the same DB (`ignore b`), PARALLEL runs with 2 workers of every task, threads and processes, with and
   without -a: the tasks started in a worker ([pstarts], in start order) never include b (3) nor a (0),
   both are reported ignored (4); with -a the up-to-date c (4) is started too *)
Example C13_always_parallel_nonvacuous :
  let d := co_db (ignore_cmd tb0 [3%N] (remove_list db0 [])) in
  let fs := fs_of [(0%N, {| mtime := 1; size := 4; content := 0%N |}); (1%N, {| mtime := 1; size := 4; content := 0%N |})] in
  let d1 := upd d 4%N (Some {| r_deps := Some []; r_checker := Some MD5; r_saved := saved_of []; r_values := [(0%N, Some 1%N)];
                               r_result := None; r_ignore := false |}) in
  let run always proc sched :=
    fst (Parallel.run_parallel (run_table (fun x => x) current MD5 fs d1 tb0) (fun _ _ => 0%N) (fun _ => 0%N)
           true always proc 400 2 sched [0; 1; 4; 5]%N) in
  let obs log := (ParallelP.pstarts log, map (outcome_z (ParallelP.proj log)) [0;1;2;3;4;5]%N) in
  ignored_by d1 tb0 0%N /\
  obs (run true false [1;0;2;1;0;3]%nat) = ([5; 4; 2; 1]%N, [4; 17; 17; 4; 17; 17]) /\
  obs (run true true [1;0;2;1;0;3]%nat) = ([5; 4; 2; 1]%N, [4; 17; 17; 4; 17; 17]) /\
  obs (run false true []) = ([2; 5; 1]%N, [4; 17; 17; 4; 2; 17]).
Proof.
  split; [|vm_compute; repeat split].
  apply (ib_dep _ _ 0%N (mk [3%N] [] None [0%N] [] []) 3%N); [reflexivity|left; reflexivity|].
  apply (ib_mark _ _ 3%N (mk [] [] None [0%N] [] [])); reflexivity.
Qed.

(* run (md5 records, db0); `ignore b` (3); file 0 changed (fs0); `list --status --all --check_file_uptodate timestamp` on the
   dbm backend; `info a`, `clean`; then `run --check_file_uptodate timestamp`.  The hypothesis of
   C13_ignore_survives_inspection holds for b although its record was written by the OTHER checker; the listing shows I for b
   (3, letter 1) and R (3) for the others; the record of a (0), not ignored, is dropped (the documented invalidation: so the
   commands of [l] do change the DB) while b's is what it was; on json the file is as before; the run reports b and a -- which
   depends on b -- ignored (4) and executes the rest (17; s (5), whose only dependency is a constant-true item, is up-to-date: 2);
   after `forget b` both run. *)
Example C13_inspection_nonvacuous :
  let d := co_db (ignore_cmd tb0 [3%N] db0) in
  let o := {| Introspect.o_subtasks := true; Introspect.o_status := true; Introspect.o_private := false;
              Introspect.o_list_deps := false; Introspect.o_sort_name := true; Introspect.o_pos := [] |} in
  let l := [IList tb0 o TS fs0; IInfo tb0 [0%N] false TS fs0; IClean] in
  let d' := insp_steps (fun x => x) current N.ltb Introspect.BDbm l d in
  let run dd := fst (next_run (fun x => x) current (fun _ _ => 0%N) (fun _ => 0%N) TS fs0 dd tb0 true false 400 [0; 1; 4; 5]%N) in
  status_is_ignore d 3%N = true /\ ck_changed TS (getrec d 3%N) = true /\
  co_log (list_step (fun x => x) current N.ltb Introspect.BDbm tb0 o TS fs0 d) = [(0%N, 3); (1%N, 3); (2%N, 3); (3%N, 1); (4%N, 3); (5%N, 3)] /\
  d' 3%N = d 3%N /\ status_is_ignore d' 3%N = true /\ d 0%N <> None /\ d' 0%N = None /\
  insp_steps (fun x => x) current N.ltb Introspect.BJson l d 0%N = d 0%N /\
  map (outcome_z (run d')) [0;1;2;3;4;5]%N = [4; 17; 17; 4; 17; 2] /\
  map (outcome_z (run (co_db (forget tb0 [3%N] None {| fo_sub := false; fo_disable_default := false; fo_all := false |} d'))))
      [0;1;2;3;4;5]%N = [17; 17; 17; 17; 17; 2].
Proof. vm_compute. repeat split; discriminate. Qed.
