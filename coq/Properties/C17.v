(* C17 -- Action outcomes are classified exactly and output is captured intact.
   Statements only; every proof is `exact <lemma of Proofs/ActionP.v>` or a closed computation. *)
From DoitV Require Import Base Action ActionP.
Open Scope Z_scope.

(* python-action: success iff True/None/str/dict, failure iff False/TaskFailed, error otherwise *)
Theorem C17_py_classify : forall t : rtag,
  (py_classify t = AOk <-> t = RTrue \/ t = RNone \/ t = RStr \/ t = RDict) /\
  (py_classify t = AFailed <-> t = RFalse \/ t = RTaskFailed) /\
  (py_classify t = AError <-> t = RRaises \/ t = RTaskError \/ t = ROther).
Proof. intro t. exact (conj (py_classify_ok t) (conj (py_classify_failed t) (py_classify_error t))). Qed.
Print Assumptions C17_py_classify.

(* cmd-action: every integer exit status, negative (signalled) ones included *)
Theorem C17_cmd_classify : forall rc : Z,
  (cmd_classify rc = AOk <-> rc = 0) /\
  (cmd_classify rc = AFailed <-> rc <> 0 /\ rc <= 125) /\
  (cmd_classify rc = AError <-> rc > 125).
Proof. exact cmd_classify_spec. Qed.
Print Assumptions C17_cmd_classify.

(* a task stops at its first unsuccessful action; result = result of the last action that
   succeeded (the previous one if none ran), values = left-to-right merge over those actions;
   exactly the successful prefix plus the failing action were executed *)
Theorem C17_task_execute : forall acts res vals,
  let x := task_execute acts res vals 0 in
  x_out x = match first_bad acts with None => AOk | Some a => a_out a end /\
  x_result x = last_result res (ok_prefix acts) /\
  x_values x = merged_values vals (ok_prefix acts) /\
  x_ran x = (0 + length (ok_prefix acts) + match first_bad acts with None => 0 | Some _ => 1 end)%nat.
Proof. intros acts res vals. exact (task_execute_spec acts res vals 0%nat). Qed.
Print Assumptions C17_task_execute.

Theorem C17_task_execute_prefix : forall acts,
  (forall a, In a (ok_prefix acts) -> a_out a = AOk) /\
  (forall a, first_bad acts = Some a -> a_out a <> AOk) /\
  exists rest, acts = ok_prefix acts ++ rest /\
               match first_bad acts with None => rest = [] | Some a => exists r, rest = a :: r end.
Proof. intro acts. exact (conj (ok_prefix_all_ok acts) (conj (first_bad_not_ok acts) (ok_prefix_is_prefix acts))). Qed.
Print Assumptions C17_task_execute_prefix.

(* capture (model of the Writer/StringIO discipline only; the byte-level behaviour of pipes and
   StringIO is exercised by the correspondence check, not proved): everything written is
   captured per stream, in order, whatever the verbosity; shown live only as verbosity dictates *)
Theorem C17_capture_partial : forall v ws,
  c_out (py_capture v ws) = chunks false ws /\ c_err (py_capture v ws) = chunks true ws /\
  c_live_out (py_capture v ws) = (if (v =? 0) || (v =? 1) then [] else chunks false ws) /\
  c_live_err (py_capture v ws) = (if v =? 0 then [] else chunks true ws).
Proof. exact capture_complete. Qed.
Print Assumptions C17_capture_partial.

(* process-wide stream: original again after any properly nested sequence of action executions
   (anything one thread can do, actions raising or failing in _prepare_kwargs included) *)
Theorem C17_restore_nested : forall ops, nested ops -> s_cell (srun false ops) = SOrig.
Proof. intros ops H. exact (nested_restores ops H s_init). Qed.
Print Assumptions C17_restore_nested.

Theorem C17_restore_sequential : forall ids, s_cell (srun false (sequential ids)) = SOrig.
Proof. intro ids. exact (nested_restores _ (sequential_nested ids) s_init). Qed.
Print Assumptions C17_restore_sequential.

Example C17_nested_nonvacuous :
  nested [Enter 1 false; Enter 2 false; Exit 2; Enter 3 true; Exit 1; Enter 4 false; Exit 4].
Proof.
  apply (n_app 1 [Enter 2 false; Exit 2; Enter 3 true] [Enter 4 false; Exit 4]).
  - apply (n_app 2 [] [Enter 3 true]); [constructor | repeat constructor | simpl; tauto].
  - apply (n_app 4 [] []); [constructor | constructor | simpl; tauto].
  - simpl. intros [H|[H|[H|H]]]; try discriminate; auto.
Qed.

(* two executions that overlap without being nested (two worker threads of the thread runner)
   leave a Writer installed: the statement cannot be extended to all interleavings (finding K1) *)
Theorem C17_restore_overlap_refuted :
  exists ops, s_cell (srun false ops) <> SOrig.
Proof. exists [Enter 1 false; Enter 2 false; Exit 1; Exit 2]. vm_compute. discriminate. Qed.
Print Assumptions C17_restore_overlap_refuted.

(* the code before the repair (legacy placement of _prepare_kwargs after the swap): one action
   whose kwargs cannot be prepared leaves the Writer installed even in sequential execution *)
Theorem C17_restore_kwargs_legacy_refuted :
  exists ids, s_cell (srun true (sequential ids)) <> SOrig.
Proof. exists [(1%nat, true)]. vm_compute. discriminate. Qed.
Print Assumptions C17_restore_kwargs_legacy_refuted.
