(* C17 -- Action outcomes are classified exactly, output is captured intact, and the process-wide
   sys.stdout / sys.stderr are the original objects again after every action and every run --
   also when a callable raises, exceptions that are not `Exception` subclasses (SystemExit,
   KeyboardInterrupt, ...) included.
   Statements only; every proof is `exact <lemma of Proofs/ActionP.v>` or a closed computation. *)
From DoitV Require Import Base Action ActionP.
Open Scope Z_scope.

(* python-action: success iff True/None/str/dict, failure iff False/TaskFailed, error otherwise;
   nothing is returned (the exception leaves execute) iff the callable raised a BaseException
   that is not an Exception *)
Theorem C17_py_classify : forall t : rtag,
  (py_classify t = AOk <-> t = RTrue \/ t = RNone \/ t = RStr \/ t = RDict) /\
  (py_classify t = AFailed <-> t = RFalse \/ t = RTaskFailed) /\
  (py_classify t = AError <-> t = RRaises \/ t = RTaskError \/ t = ROther) /\
  (py_classify t = APropagates <-> t = RBaseExc).
Proof. intro t. exact (conj (py_classify_ok t) (conj (py_classify_failed t) (conj (py_classify_error t) (py_classify_propagates t)))). Qed.
Print Assumptions C17_py_classify.

(* cmd-action: every integer exit status, negative (signalled) ones included *)
Theorem C17_cmd_classify : forall rc : Z,
  (cmd_classify rc = AOk <-> rc = 0) /\
  (cmd_classify rc = AFailed <-> rc <> 0 /\ rc <= 125) /\
  (cmd_classify rc = AError <-> rc > 125).
Proof. exact cmd_classify_spec. Qed.
Print Assumptions C17_cmd_classify.

(* cmd-action whose command is computed by a callable: an exception leaves execute iff that
   callable raised a BaseException that is not an Exception; an Exception is a TaskError *)
Theorem C17_cmd_execute : forall x rc,
  (cmd_execute x rc = APropagates <-> x = XBaseExc) /\
  (x = XRaises -> cmd_execute x rc = AError) /\
  (x = XString -> cmd_execute x rc = cmd_classify rc).
Proof. exact cmd_execute_spec. Qed.
Print Assumptions C17_cmd_execute.

(* a task stops at its first unsuccessful action (one whose exception propagates included);
   result = result of the last action that succeeded (the previous one if none ran), values =
   left-to-right merge over those actions; exactly the successful prefix plus the failing action
   were executed *)
Theorem C17_task_execute : forall acts res vals,
  let x := task_execute acts res vals 0 in
  x_out x = match first_bad acts with None => AOk | Some a => a_out a end /\
  x_result x = last_result res (ok_prefix acts) /\
  x_values x = merged_values vals (ok_prefix acts) /\
  x_ran x = (0 + length (ok_prefix acts) + match first_bad acts with None => 0 | Some _ => 1 end)%nat.
Proof. intros acts res vals. exact (task_execute_spec acts res vals 0%nat). Qed.
Print Assumptions C17_task_execute.

Theorem C17_task_execute_prefix : forall acts,
  (forall a, In a (ok_prefix acts) -> a_out a = AOk) /\
  (forall a, first_bad acts = Some a -> a_out a <> AOk) /\
  exists rest, acts = ok_prefix acts ++ rest /\
               match first_bad acts with None => rest = [] | Some a => exists r, rest = a :: r end.
Proof. intro acts. exact (conj (ok_prefix_all_ok acts) (conj (first_bad_not_ok acts) (ok_prefix_is_prefix acts))). Qed.
Print Assumptions C17_task_execute_prefix.

Theorem C17_task_propagates : forall acts,
  task_outcome acts = APropagates <->
  exists pre a post, acts = pre ++ a :: post /\ (forall x, In x pre -> py_classify (as_tag x) = AOk) /\
                     as_tag a = RBaseExc.
Proof. exact task_outcome_propagates. Qed.
Print Assumptions C17_task_propagates.

(* capture (model of the Writer/StringIO discipline only; the byte-level behaviour of pipes and
   StringIO is exercised by the correspondence check, not proved).  One action run by Task.execute
   on the original streams, whatever way [e] its callable ends -- RBaseExc included:
   capture on: everything written is in self.out / self.err, per stream and in order, whatever
   the verbosity, and shown live only as verbosity dictates; capture off: self.out / self.err stay
   None and everything is shown; in all cases both cells hold the original streams afterwards *)
Theorem C17_capture_partial : forall cap v ws e,
  let c := py_capture cap v ws e in
  c_out c = (if cap then Some (chunks false ws) else None) /\
  c_err c = (if cap then Some (chunks true ws) else None) /\
  c_live_out c = (if cap && ((v =? 0) || (v =? 1)) then [] else chunks false ws) /\
  c_live_err c = (if cap && (v =? 0) then [] else chunks true ws) /\
  c_cell_out c = SOrig /\ c_cell_err c = SOrig.
Proof. exact capture_complete. Qed.
Print Assumptions C17_capture_partial.

(* one capturing execution started in ANY state (nested inside others, any stream installed, any
   live stream [f] that does not lead back to its own buffer), either channel [b], any outcome
   [e]: the cell is what it was before, self.out is exactly what was written, the original stream
   got it iff the live stream leads there, no other action's attribute changed *)
Theorem C17_capture_every_outcome : forall (b : bool) s i mo me f ws e,
  (if b then me else mo) = MCapture f -> ~ In i (writer_ids f) ->
  let s' := fold_left (sstep false b) (one_action i mo me ws e) s in
  s_cell s' = s_cell s /\ s_attr s' i = Some (chunks b ws) /\
  s_orig s' = s_orig s ++ (if reaches_orig f then chunks b ws else []) /\
  (forall j, j <> i -> s_attr s' j = s_attr s j).
Proof. intros b s i mo me f ws e. exact (action_capture false b s i mo me f ws e). Qed.
Print Assumptions C17_capture_every_outcome.

(* the same with capture off (stream redirected to the one given, or left alone) *)
Theorem C17_nocapture_every_outcome : forall (b : bool) s i mo me ws e,
  (exists t, (if b then me else mo) = MRedirect t) \/ (if b then me else mo) = MKeep ->
  let s' := fold_left (sstep false b) (one_action i mo me ws e) s in
  s_cell s' = s_cell s /\ s_attr s' = s_attr s /\
  s_orig s' = s_orig s ++ (if reaches_orig (match (if b then me else mo) with MRedirect t => t | _ => s_cell s end)
                           then chunks b ws else []).
Proof. intros b s i mo me ws e. exact (action_nocapture false b s i mo me ws e). Qed.
Print Assumptions C17_nocapture_every_outcome.

(* process-wide streams: original again after any properly nested sequence of action executions
   (anything one thread can do: actions writing, returning, raising Exceptions, raising
   BaseExceptions that escape -- the [e] of each Exit is arbitrary --, failing in
   _prepare_kwargs; capture on or off, with or without live streams) *)
Theorem C17_restore_nested : forall b ops, nested ops -> s_cell (srun false b ops) = SOrig.
Proof. intros b ops H. exact (nested_restores b ops H s_init). Qed.
Print Assumptions C17_restore_nested.

Theorem C17_restore_sequential : forall b xs, s_cell (srun false b (sequential xs)) = SOrig.
Proof. intros b xs. exact (nested_restores b _ (sequential_nested xs) s_init). Qed.
Print Assumptions C17_restore_sequential.

(* ... and every capturing execution in it has set self.out / self.err by then *)
Theorem C17_attr_set_nested : forall (b : bool) ops i mo me f,
  nested ops -> In (Enter i mo me) ops -> (if b then me else mo) = MCapture f ->
  s_attr (srun false b ops) i <> None.
Proof. intros b ops i mo me f H. exact (nested_attr_set b ops H s_init i mo me f). Qed.
Print Assumptions C17_attr_set_nested.

(* one task (Task.execute) and one run of a chain of tasks, teardown actions included (serial
   runner, thread runner with one worker, DoitMain.run): whatever the actions do, both cells hold
   the original streams when the task / the run is over -- also when it is over because an
   exception escaped *)
Theorem C17_restore_task : forall b cap v acts, s_cell (srun false b (task_ops cap v acts)) = SOrig.
Proof. intros b cap v acts. exact (nested_restores b _ (task_ops_nested cap v acts) s_init). Qed.
Print Assumptions C17_restore_task.

Theorem C17_restore_run : forall b v tasks, s_cell (srun false b (run_ops v tasks [])) = SOrig.
Proof. intros b v tasks. exact (nested_restores b _ (run_ops_nested v tasks [] n_nil) s_init). Qed.
Print Assumptions C17_restore_run.

(* every action the task started -- the one that ended it included, whatever its outcome -- holds
   exactly what it wrote (capture on; None with capture off); actions not started hold None *)
Theorem C17_capture_task : forall cap v b acts a,
  NoDup (map as_id acts) -> In a acts ->
  s_attr (srun false b (task_ops cap v acts)) (as_id a) =
  if existsb (fun x => Nat.eqb (as_id x) (as_id a)) (started acts) && cap
  then Some (chunks b (as_ws a)) else None.
Proof. intros cap v b acts a Hnd Hin. exact (task_capture cap v b acts s_init Hnd a Hin). Qed.
Print Assumptions C17_capture_task.

(* ---- which verbosity a task is executed with (Stream, Task.overwrite_verbosity, Runner.select_task,
   the `run` command) ---- *)
(* priority: a forced global value, then the task's own value, then the global value *)
Theorem C17_effective_verbosity : forall st tv,
  (vs_force st = true -> effective_verbosity st tv = vs_verbosity st) /\
  (vs_force st = false -> forall v, tv = Some v -> effective_verbosity st tv = v) /\
  (vs_force st = false -> tv = None -> effective_verbosity st tv = vs_verbosity st).
Proof. exact effective_verbosity_spec. Qed.
Print Assumptions C17_effective_verbosity.

(* the `run` command: -v on the command line, then the task's value, then the configuration, then 1 *)
Theorem C17_cmd_verbosity_priority : forall cli cfg tv,
  effective_verbosity (cmd_stream cli cfg) tv =
  match cli with
  | Some c => c
  | None => match tv with Some t => t | None => match cfg with Some g => g | None => 1 end end
  end.
Proof. exact cmd_stream_priority. Qed.
Print Assumptions C17_cmd_verbosity_priority.

(* the attribute Task.execute / execute_teardown read is the effective verbosity of the task's own
   value: a function of (own value, global value, forced) only -- it does not depend on whether
   the task has setup tasks (is selected twice); and a second overwrite would change nothing *)
Theorem C17_verbosity_setup_independent : forall st hs raw,
  attr_at_execute st hs raw = Some (effective_verbosity st raw).
Proof. exact attr_at_execute_spec. Qed.
Print Assumptions C17_verbosity_setup_independent.

Theorem C17_overwrite_idempotent : forall st tv,
  effective_verbosity st (Some (effective_verbosity st tv)) = effective_verbosity st tv.
Proof. exact effective_verbosity_idem. Qed.
Print Assumptions C17_overwrite_idempotent.

(* a whole run: which tasks have setup tasks is irrelevant for what is captured / shown (given the
   execution order), and when no task has a say (forced, or none gives a value) it is the run at
   the global verbosity of C17_restore_run *)
Theorem C17_run_setup_independent : forall st us tds,
  vrun_ops st us tds = vrun_ops st (map (fun u => (false, snd u)) us) tds.
Proof. intros st us tds. exact (vrun_ops_flags st us tds). Qed.
Print Assumptions C17_run_setup_independent.

Theorem C17_run_global_verbosity : forall st ts tds,
  vs_force st = true \/ (forall t, In t ts -> st_verb t = None) ->
  vrun_ops st (map (fun t => (false, t)) ts) tds =
  run_ops (vs_verbosity st) (map (fun t => {| t_capture := st_capture t; t_acts := st_acts t; t_teardown := st_teardown t |}) ts) tds.
Proof. intros st ts tds. exact (vrun_ops_uniform st ts tds). Qed.
Print Assumptions C17_run_global_verbosity.

Theorem C17_restore_vrun : forall b st ts, s_cell (srun false b (vrun_ops st (units_of ts) [])) = SOrig.
Proof. intros b st ts. exact (nested_restores b _ (vrun_ops_nested st (units_of ts) [] n_nil) s_init). Qed.
Print Assumptions C17_restore_vrun.

(* a run that executes nothing -- `doit run` ended with a user error before any task was started
   (a name on the command line that is no task / target, a task_dep or setup naming a task that
   does not exist, two tasks with one target, an invalid option value, an unknown reporter), or no
   task was selected: it is the empty sequence of events, and whatever state it is started in (the
   embedding program may have installed streams of its own) that state, both cells included, is
   untouched.  An instance of C17_restore_run / C17_restore_vrun (tasks = []), stated explicitly.
   NOT in this model: what the `run` command itself does to the cells outside action executions.
   JsonReporter.__init__ (reporter.py 228-233) replaces sys.stdout / sys.stderr by StringIO objects
   and only complete_run (276-280, called by Runner.finish) puts them back; that swap is modelled in
   Model/Report.v (C19: field w_swapped of `world`, set by `init`, cleared by `unswap` at
   CComplete), where it decides what reaches the real stdout -- here it is EXERCISED: part H of
   harness/c17.py ends runs with every kind of user error under every reporter and runner option,
   in-process and through the command line, and demands the original objects in both cells, the
   error text on the original stderr and that what is written after the run arrives
   (C17_after_run_writes is the model side of that last demand). *)
Theorem C17_restore_empty_run : forall lg b v st s,
  run_ops v [] [] = [] /\ vrun_ops st (units_of []) [] = [] /\
  fold_left (sstep lg b) (run_ops v [] []) s = s /\
  fold_left (sstep lg b) (vrun_ops st (units_of []) []) s = s.
Proof.
  intros lg b v st s.
  exact (conj (empty_run_ops v) (conj (empty_vrun_ops st) (empty_run_untouched lg b v st s))).
Qed.
Print Assumptions C17_restore_empty_run.

(* what the program that called the run writes afterwards goes to the original streams,
   completely and in order, and leaves them installed -- after every run, whatever its actions did;
   after the run that executed nothing the original stream holds exactly that and no action holds
   anything *)
Theorem C17_after_run_writes : forall b v tasks st ts ws,
  (let s' := srun false b (run_ops v tasks [] ++ wops ws) in
   s_cell s' = SOrig /\ s_orig s' = s_orig (srun false b (run_ops v tasks [])) ++ chunks b ws) /\
  (let s' := srun false b (vrun_ops st (units_of ts) [] ++ wops ws) in
   s_cell s' = SOrig /\ s_orig s' = s_orig (srun false b (vrun_ops st (units_of ts) [])) ++ chunks b ws) /\
  (let s' := srun false b (run_ops v [] [] ++ wops ws) in
   s_cell s' = SOrig /\ s_orig s' = chunks b ws /\ (forall i, s_attr s' i = None)).
Proof.
  intros b v tasks st ts ws.
  exact (conj (after_run_writes b v tasks ws) (conj (after_vrun_writes b st ts ws) (after_empty_run_writes b v ws))).
Qed.
Print Assumptions C17_after_run_writes.

(* one action of a task executed by a runner: captured whatever the verbosity, shown live as the
   EFFECTIVE verbosity dictates (0 nothing, 1 stderr, otherwise both), with or without setup tasks *)
Theorem C17_live_follows_effective_partial : forall st hs raw cap ws e,
  let v := effective_verbosity st raw in
  let c := py_capture cap (verb_arg (attr_at_execute st hs raw)) ws e in
  c_out c = (if cap then Some (chunks false ws) else None) /\
  c_err c = (if cap then Some (chunks true ws) else None) /\
  c_live_out c = (if cap && ((v =? 0) || (v =? 1)) then [] else chunks false ws) /\
  c_live_err c = (if cap && (v =? 0) then [] else chunks true ws) /\
  c_cell_out c = SOrig /\ c_cell_err c = SOrig.
Proof. exact capture_effective. Qed.
Print Assumptions C17_live_follows_effective_partial.

Example C17_nested_nonvacuous :
  nested [Enter 1 (MCapture SOrig) (MCapture SNone); Write false 7; Enter 2 (MCapture SNone) (MCapture SNone);
          Write true 8; Exit 2 RBaseExc; Enter 3 MFail MFail; Exit 1 RBaseExc;
          Enter 4 MKeep (MRedirect (SLive 0)); Exit 4 RRaises].
Proof.
  apply (n_app 1 _ _ RBaseExc
               [Write false 7; Enter 2 (MCapture SNone) (MCapture SNone); Write true 8; Exit 2 RBaseExc; Enter 3 MFail MFail]
               [Enter 4 MKeep (MRedirect (SLive 0)); Exit 4 RRaises]); try discriminate.
  - constructor.
    apply (n_app 2 _ _ RBaseExc [Write true 8] [Enter 3 MFail MFail]); try discriminate; [repeat constructor | repeat constructor | simpl; tauto].
  - apply (n_app 4 _ _ RRaises [] []); try discriminate; [constructor | constructor | simpl; tauto].
  - simpl. intros [H|[H|[H|H]]]; try discriminate; auto.
Qed.

(* sys.exit() after writing, verbosity 2, capture on: both streams back, everything captured and shown *)
Example C17_capture_nonvacuous :
  py_capture true 2 [(false, 1); (true, 2); (false, 3)] RBaseExc =
  {| c_out := Some [1; 3]; c_err := Some [2]; c_live_out := [1; 3]; c_live_err := [2];
     c_cell_out := SOrig; c_cell_err := SOrig |}.
Proof. vm_compute. reflexivity. Qed.

(* a task whose second action raises SystemExit: the third is not started *)
Example C17_task_nonvacuous :
  let acts := [ {| as_id := 1; as_ws := [(false, 1)]; as_tag := RNone |};
                {| as_id := 2; as_ws := [(false, 2); (true, 3)]; as_tag := RBaseExc |};
                {| as_id := 3; as_ws := [(false, 4)]; as_tag := RNone |} ] in
  task_outcome acts = APropagates /\ map as_id (started acts) = [1; 2]%nat /\
  observe [1; 2; 3]%nat [] (srun false false (task_ops true 0 acts)) = [0; -2; 1; -2; 2; -1; -3].
Proof. vm_compute. auto. Qed.

(* -v 0 on the command line, configuration says 2: a task with setup tasks and verbosity 2 of its
   own shows nothing live, its setup task (no value of its own) neither; without -v the task's own
   value wins and the setup task gets the configuration's *)
Example C17_verbosity_nonvacuous :
  let main := {| st_verb := Some 2; st_capture := true; st_acts := [ {| as_id := 2; as_ws := [(false, 3); (true, 4)]; as_tag := RNone |} ]; st_teardown := [] |} in
  let prep := {| st_verb := None; st_capture := true; st_acts := [ {| as_id := 1; as_ws := [(false, 1); (true, 2)]; as_tag := RNone |} ]; st_teardown := [] |} in
  let ts := [ {| vt_task := main; vt_setup := [prep] |} ] in
  map fst (units_of ts) = [false; true] /\
  observe [1; 2]%nat [] (srun false false (vrun_ops (cmd_stream (Some 0) (Some 2)) (units_of ts) [])) = [0; -2; 1; -2; 3; -3] /\
  observe [1; 2]%nat [] (srun false true (vrun_ops (cmd_stream (Some 0) (Some 2)) (units_of ts) [])) = [0; -2; 2; -2; 4; -3] /\
  observe [1; 2]%nat [] (srun false false (vrun_ops (cmd_stream None (Some 1)) (units_of ts) [])) = [0; -2; 1; -2; 3; -3; 3] /\
  observe [1; 2]%nat [] (srun false true (vrun_ops (cmd_stream None (Some 1)) (units_of ts) [])) = [0; -2; 2; -2; 4; -3; 2; 4].
Proof. vm_compute. auto 6. Qed.

(* `doit run nosuch`: nothing is executed; what the caller writes afterwards (chunk 1 to stdout,
   chunk 2 to stderr) is on the original streams, which are still installed *)
Example C17_empty_run_nonvacuous :
  observe [] [] (srun false false (run_ops 1 [] [] ++ wops [(false, 1); (true, 2)])) = [0; -3; 1] /\
  observe [] [] (srun false true (run_ops 1 [] [] ++ wops [(false, 1); (true, 2)])) = [0; -3; 2].
Proof. vm_compute. auto. Qed.

(* two executions that overlap without being nested (two worker threads of the thread runner)
   leave a Writer installed: the statement cannot be extended to all interleavings (finding K1) *)
Theorem C17_restore_overlap_refuted :
  exists ops, s_cell (srun false false ops) <> SOrig.
Proof.
  exists [Enter 1 (MCapture SNone) (MCapture SNone); Enter 2 (MCapture SNone) (MCapture SNone); Exit 1 RNone; Exit 2 RNone].
  vm_compute. discriminate.
Qed.
Print Assumptions C17_restore_overlap_refuted.

(* the code before the repair (legacy placement of _prepare_kwargs after the swap): one action
   whose kwargs cannot be prepared leaves the Writer installed even in sequential execution *)
Theorem C17_restore_kwargs_legacy_refuted :
  exists xs, s_cell (srun true false (sequential xs)) <> SOrig.
Proof. exists [SFail 1]. vm_compute. discriminate. Qed.
Print Assumptions C17_restore_kwargs_legacy_refuted.
