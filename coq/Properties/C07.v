(* C07 -- All DB backends behave as the same persistent key-value map.
   Statements only; every proof is `exact <lemma of Proofs/BackendsP.v>` or a closed computation.

   Vocabulary (Model/Backends.v): [op] = set | get | in_ | remove | remove_all | reopen (= dump() followed
   by the constructor on the same file); [run_json / run_dbm / run_sqlite] = what a caller observes, one
   [obs] per operation ([OExc] = the call raised), starting from a file that does not exist yet;
   [run_spec] = the same for an in-memory map task -> {key -> value} on which reopen does nothing.
   The boolean arguments select the code before the repairs 4c264d2 / 8dbdf07 ([false] = the current code).
   The codec is any pair of functions with decode (encode d) = d (pointwise): [codec_ok], [dbcodec_ok]. *)
From DoitV Require Import Base Backends BackendsP.

(* ---- each backend answers exactly as the map, for every finite operation sequence ---- *)
Theorem C07_refines_map_json : forall (F : Type) (encdb : tmap -> F) (decdb : F -> tmap),
  dbcodec_ok F encdb decdb ->
  forall ops : list op, run_json F encdb decdb ops = run_spec ops.
Proof. exact json_refines. Qed.
Print Assumptions C07_refines_map_json.

Theorem C07_refines_map_dbm : forall (E : Type) (enc : trec -> E) (dec : E -> trec),
  codec_ok E enc dec ->
  forall ops : list op, run_dbm E enc dec false ops = run_spec ops.
Proof. exact dbm_refines. Qed.
Print Assumptions C07_refines_map_dbm.

Theorem C07_refines_map_sqlite : forall (E : Type) (enc : trec -> E) (dec : E -> trec),
  codec_ok E enc dec ->
  forall ops : list op, run_sqlite E enc dec false false ops = run_spec ops.
Proof. exact sqlite_refines. Qed.
Print Assumptions C07_refines_map_sqlite.

(* in particular no operation ever raises (a dirty id always has a cache entry when dump runs) *)
Theorem C07_no_exception : forall (E F : Type) enc dec encdb decdb,
  codec_ok E enc dec -> dbcodec_ok F encdb decdb ->
  forall ops,
    ~ In OExc (run_json F encdb decdb ops) /\ ~ In OExc (run_dbm E enc dec false ops) /\
    ~ In OExc (run_sqlite E enc dec false false ops).
Proof. exact no_exception. Qed.
Print Assumptions C07_no_exception.

(* ---- the three backends are observationally indistinguishable ---- *)
Theorem C07_backends_indistinguishable : forall (E F : Type) enc dec encdb decdb,
  codec_ok E enc dec -> dbcodec_ok F encdb decdb ->
  forall ops,
    run_json F encdb decdb ops = run_dbm E enc dec false ops /\
    run_dbm E enc dec false ops = run_sqlite E enc dec false false ops.
Proof. exact backends_indistinguishable. Qed.
Print Assumptions C07_backends_indistinguishable.

(* ---- removed tasks never reappear: after remove t (or remove_all), as long as no set names t -- whatever
   else happens, closing and reopening any number of times included -- get answers None and in_ False ---- *)
Theorem C07_removed_never_reappears : forall (E F : Type) enc dec encdb decdb,
  codec_ok E enc dec -> dbcodec_ok F encdb decdb ->
  forall pre mid t k, no_set t mid ->
    let after_remove := pre ++ Remove t :: mid in
    let after_remove_all := pre ++ RemoveAll :: mid in
    let absent := [OVal None; OBool false] in
    (run_json F encdb decdb (pre ++ Remove t :: mid ++ [Get t k; In_ t]) = run_json F encdb decdb after_remove ++ absent /\
     run_dbm E enc dec false (pre ++ Remove t :: mid ++ [Get t k; In_ t]) = run_dbm E enc dec false after_remove ++ absent /\
     run_sqlite E enc dec false false (pre ++ Remove t :: mid ++ [Get t k; In_ t]) = run_sqlite E enc dec false false after_remove ++ absent) /\
    (run_json F encdb decdb (pre ++ RemoveAll :: mid ++ [Get t k; In_ t]) = run_json F encdb decdb after_remove_all ++ absent /\
     run_dbm E enc dec false (pre ++ RemoveAll :: mid ++ [Get t k; In_ t]) = run_dbm E enc dec false after_remove_all ++ absent /\
     run_sqlite E enc dec false false (pre ++ RemoveAll :: mid ++ [Get t k; In_ t]) = run_sqlite E enc dec false false after_remove_all ++ absent).
Proof. exact removed_never_reappears. Qed.
Print Assumptions C07_removed_never_reappears.

(* ---- after reopening the DB holds exactly what it held at close: inserting a close-and-reopen anywhere
   changes no answer of anything that follows (a = answers before that point, b = answers after it) ---- *)
Theorem C07_reopen_preserves_contents : forall (E F : Type) enc dec encdb decdb,
  codec_ok E enc dec -> dbcodec_ok F encdb decdb ->
  forall ops rest,
    (exists a b, run_json F encdb decdb (ops ++ rest) = a ++ b /\
                 run_json F encdb decdb (ops ++ Reopen :: rest) = a ++ OUnit :: b /\ length a = length ops) /\
    (exists a b, run_dbm E enc dec false (ops ++ rest) = a ++ b /\
                 run_dbm E enc dec false (ops ++ Reopen :: rest) = a ++ OUnit :: b /\ length a = length ops) /\
    (exists a b, run_sqlite E enc dec false false (ops ++ rest) = a ++ b /\
                 run_sqlite E enc dec false false (ops ++ Reopen :: rest) = a ++ OUnit :: b /\ length a = length ops).
Proof. exact reopen_preserves_contents. Qed.
Print Assumptions C07_reopen_preserves_contents.

(* ---- non-vacuity: the hypotheses on the codec are satisfiable, and the runs are not trivial ---- *)
Example C07_codec_nonvacuous : codec_ok trec idr idr /\ dbcodec_ok tmap idm idm.
Proof. exact (conj id_codec_ok id_dbcodec_ok). Qed.

Example C07_no_set_nonvacuous : no_set 1 [Set_ 2 0 7; Get 1 0; Reopen; Remove 2; In_ 1].
Proof. intros o H. simpl in H. repeat (destruct H as [<-|H]; [reflexivity|]). contradiction. Qed.

(* two sessions, two tasks: a record updated after reopen keeps its other key, a removed task stays removed
   across reopen, remove_all empties; all three backend models produce exactly these answers *)
Example C07_run_nonvacuous :
  let ops := [Set_ 1 0 100; Set_ 1 1 101; Set_ 2 0 102; Reopen; Set_ 1 1 103; Get 1 0; Get 1 1; Remove 2; In_ 2;
              Reopen; In_ 1; In_ 2; Get 2 0; Get 1 1; RemoveAll; In_ 1; Reopen; Get 1 0]%Z in
  let expected := [-2; -2; -2; -2; -2; 100; 103; -2; 0; -2; 1; 0; -1; 103; -2; 0; -2; -1]%Z in
  jrun ops = expected /\ drun false ops = expected /\ qrun false false ops = expected /\ srun_ ops = expected.
Proof. vm_compute. repeat split; reflexivity. Qed.

(* ---- the code before the repairs diverged from the map (identity codec, so the codec is not to blame) ---- *)
(* before 4c264d2: SqliteDB.get cached a miss as {} and in_ answered True for a task never stored *)
Theorem C07_sqlite_in_after_get_legacy_refuted :
  exists ops, run_sqlite trec idr idr true true ops <> run_spec ops /\
              run_sqlite trec idr idr true true ops = [OVal None; OBool true].
Proof. exists [Get 0 0; In_ 0]. vm_compute. split; [discriminate | reflexivity]. Qed.
Print Assumptions C07_sqlite_in_after_get_legacy_refuted.

(* before 8dbdf07: DbmDB.set / SqliteDB.set on a task saved in an earlier session started from {} and dump
   replaced the saved record: the task's other keys were lost *)
Theorem C07_set_drops_keys_legacy_refuted :
  exists ops, run_spec ops = [OUnit; OUnit; OUnit; OUnit; OVal (Some 100%Z)] /\
              run_dbm trec idr idr true ops = [OUnit; OUnit; OUnit; OUnit; OVal None] /\
              run_sqlite trec idr idr false true ops = [OUnit; OUnit; OUnit; OUnit; OVal None].
Proof. exists [Set_ 0 0 100%Z; Reopen; Set_ 0 1 101%Z; Reopen; Get 0 0]. vm_compute. repeat split; reflexivity. Qed.
Print Assumptions C07_set_drops_keys_legacy_refuted.

(* ---- JsonDB keeps its document in a TEXT file opened without encoding=: the bytes on disk depend on the
   locale of the process of each session ([run_json_text], sessions n = 0, 1, .. under the locales [locs n]).
   If every document the codec produces can be written under any locale and is read back as the same text
   under any locale ([text_ok]: true of an all-ASCII document), the backend still answers exactly as the map
   and no close / open ever raises, whatever locale each session runs under ---- *)
Theorem C07_json_locale_independent : forall (F B L : Type) (encdb : tmap -> F) (decdb : F -> tmap)
    (tenc : L -> F -> option B) (tdec : L -> B -> option F) (trunc : B),
  dbcodec_ok F encdb decdb -> text_ok F encdb B L tenc tdec ->
  forall (locs : nat -> L) (ops : list op),
    run_json_text F encdb decdb B L tenc tdec trunc locs ops = run_spec ops /\
    ~ In OExc (run_json_text F encdb decdb B L tenc tdec trunc locs ops).
Proof. exact json_text_refines. Qed.
Print Assumptions C07_json_locale_independent.

Example C07_text_nonvacuous : text_ok tmap idm tmap unit (fun _ f => Some f) (fun _ b => Some b).
Proof. exact id_text_ok. Qed.

(* ---- [text_ok] cannot be dropped: with a codec that writes a non-ASCII task id raw (identity codec, so
   decode (encode d) = d holds) and an ASCII-only locale ([raw_tenc] / [raw_tdec], locale false),
   (1) every session under the ASCII locale: the close after storing task 1 raises (and has emptied the file);
   (2) first session under UTF-8, second under ASCII: the close succeeds, the open of the next session raises.
   The map answers [OUnit] in both places.  This is the shape of the seeded change C07f
   (JSONEncoder(ensure_ascii=False)); the current code is outside it as long as [text_ok] holds, which
   harness/c07.py part D checks on the real classes in a process running under LC_ALL=C ---- *)
Theorem C07_json_raw_text_refuted :
  dbcodec_ok tmap idm idm /\
  (let ops := [Set_ 0 0 100%Z; Reopen; Set_ 1 0 101%Z; Reopen; Get 0 0] in
   jrun_raw (fun _ => false) ops = [-2; -2; -2; 98; 100]%Z /\ srun_ ops = [-2; -2; -2; -2; 100]%Z) /\
  (let ops := [Set_ 1 0 101%Z; Reopen; Get 1 0] in
   jrun_raw (fun n => Nat.eqb n 0) ops = [-2; 98; 101]%Z /\ srun_ ops = [-2; -2; 101]%Z).
Proof. split; [exact id_dbcodec_ok | vm_compute; repeat split; reflexivity]. Qed.
Print Assumptions C07_json_raw_text_refuted.
