(* C04 -- An unchanged task is never re-executed (minimal rebuild).
   Statements only; proofs are `exact <lemma of Proofs/HistoryP.v>` or closed computations.
   Same model as C03 (Model/Status.v, Model/History.v); [current] = the code in /repo.
   Writes may carry ANY mtime (WriteAt/TouchAt), older or newer than what is recorded; the hypothesis
   FS-fresh is [hist_ok]: one file never carries the same mtime with two different contents
   (forward-clock histories satisfy it: C03_forward_clock_is_fresh).
   The theorems C04_getargs_* are about whole runs over tasks that take values from other tasks
   (getargs / result_dep; Model/Getargs.v).
   The last part (C04_second_run_noop, C04_getargs_second_run_noop; Proofs/RerunP.v, RerunGP.v) is about the WHOLE repeated run:
   every decision of the 2nd, 3rd, ... run, and the DB they leave.
   The theorems C04_calcdep_* (end of the file; Model/CalcDep.v, Proofs/CalcDepP.v) are about whole runs over tasks that get
   dependencies from the values of other tasks (calc_dep), read when the task is dispatched.
   The theorems C04_group_* (very end; Model/GroupRes.v, Proofs/GroupResP.v) are about result_dep / getargs on a GROUP task: the compared
   result of a group is the dict of its SUB-TASKS' results. *)
From DoitV Require Import Base Status History Getargs StatusP HistoryP GetargsP RerunP RerunGP CalcDep CalcDepP GroupRes GroupResP.
Open Scope Z_scope.

(* converse of C03_uptodate_sound: in the state reached by ANY history, if no uptodate item is
   false, the task has a file_dep or an evaluated item, every target exists and -- relative to the
   task's last successful execution (reset-dep included) -- the checker and the set of file_dep are
   the same and every file dep exists and is unmodified by the checker's rule (no last success:
   no file_dep), then get_status answers up-to-date: select_task skips the task (absent --always) *)
Theorem C04_uptodate_complete : forall (md5 : N -> N) (size_of : N -> Z) (ops : list op) (t : name),
  hist_ok md5 size_of current ops = true ->
  let s := run md5 size_of current ops in
  let df := s_defs s t in
  (forall u, In u (uptodate df) -> eval_utd (s_db s) t u <> Some false) ->
  (file_dep df <> [] \/ exists u b, In u (uptodate df) /\ eval_utd (s_db s) t u = Some b) ->
  (forall x, In x (targets df) -> exists_ (s_fs s) x = true) ->
  match s_last_ok s t with
  | Some g => g_ck g = s_ck s /\ same_set (file_dep df) (file_dep (g_def g)) /\
              forall f, In f (file_dep df) ->
                exists then_ now, g_fs g f = Some then_ /\ s_fs s f = Some now /\ unmodified md5 (s_ck s) then_ now
  | None => file_dep df = []
  end ->
  g_status (check md5 current s t) = UpToDate.
Proof.
  intros md5 size_of ops t Hf.
  exact (complete_at md5 current _ t (run_inv md5 size_of current eq_refl ops Hf)).
Qed.
Print Assumptions C04_uptodate_complete.

(* ... and then the runner does not execute it *)
Theorem C04_uptodate_not_executed : forall (md5 : N -> N) (s : state) (t : name),
  g_status (check md5 current s t) = UpToDate -> executes md5 current s t false = false.
Proof. intros md5 s t. exact (uptodate_not_executed md5 current s t). Qed.
Print Assumptions C04_uptodate_not_executed.

(* after any history, a run over the tasks ts in which nothing fails (every file dep of these tasks
   exists; run_all processes them in order: ignore test, get_status, save on `run`), followed
   immediately by another look at a task t of ts that is not ignored and whose targets exist:
   t is NOT executed again  <->  no uptodate item of t is false and t has a file_dep or an
   evaluated item.  (ts may repeat tasks: taking ts = first run ++ prefix of the second run, the
   statement covers every decision of the second run, including result_dep items that changed
   because another task was re-executed.) *)
Theorem C04_rerun_idempotent : forall (md5 : N -> N) (size_of : N -> Z) (ops : list op) (ts : list name) (t : name),
  hist_ok md5 size_of current ops = true ->
  let s0 := run md5 size_of current ops in
  (forall t f, In t ts -> In f (file_dep (s_defs s0 t)) -> exists_ (s_fs s0) f = true) ->
  let s1 := run_all md5 size_of current s0 ts in
  In t ts -> status_is_ignore (s_db s1) t = false ->
  (forall x, In x (targets (s_defs s1 t)) -> exists_ (s_fs s1) x = true) ->
  (executes md5 current s1 t false = false <->
     (forall u, In u (uptodate (s_defs s1 t)) -> eval_utd (s_db s1) t u <> Some false) /\
     (file_dep (s_defs s1 t) <> [] \/ exists u b, In u (uptodate (s_defs s1 t)) /\ eval_utd (s_db s1) t u = Some b)).
Proof.
  intros md5 size_of ops ts t Hf.
  exact (rerun_at md5 size_of current eq_refl eq_refl _ ts t (run_inv md5 size_of current eq_refl ops Hf)).
Qed.
Print Assumptions C04_rerun_idempotent.

(* md5 checker: giving a file ANOTHER mtime -- newer or older, any value that respects FS-fresh -- while
   it keeps its content changes no verdict (status, dep_changed and DB effect of get_status are all
   the same), in any state reached by a history *)
Theorem C04_touch_md5 : forall (md5 : N -> N) (size_of : N -> Z) (ops : list op) (f : file) (m : Z) (t : name),
  hist_ok md5 size_of current (ops ++ [TouchAt f m]) = true ->
  s_ck (run md5 size_of current ops) = MD5 ->
  check md5 current (run md5 size_of current (ops ++ [TouchAt f m])) t = check md5 current (run md5 size_of current ops) t.
Proof. intros md5 size_of. exact (touch_md5_run md5 size_of current eq_refl). Qed.
Print Assumptions C04_touch_md5.

(* ... in particular a touch that takes the mtime from the forward clock *)
Theorem C04_touch_clock_md5 : forall (md5 : N -> N) (size_of : N -> Z) (ops : list op) (f : file) (t : name),
  hist_ok md5 size_of current (ops ++ [Touch f]) = true ->
  s_ck (run md5 size_of current ops) = MD5 ->
  check md5 current (run md5 size_of current (ops ++ [Touch f])) t = check md5 current (run md5 size_of current ops) t.
Proof. intros md5 size_of. exact (touch_clock_md5_run md5 size_of current eq_refl). Qed.
Print Assumptions C04_touch_clock_md5.

(* md5 checker: rewriting a file with the content it has, under any mtime, changes no verdict either *)
Theorem C04_rewrite_same_content_md5 : forall (md5 : N -> N) (size_of : N -> Z) (ops : list op) (f : file) (c : N) (m : Z) (now : meta) (t : name),
  hist_ok md5 size_of current (ops ++ [WriteAt f c m]) = true ->
  let s := run md5 size_of current ops in
  s_ck s = MD5 -> s_fs s f = Some now -> content now = c -> size now = size_of c ->
  check md5 current (run md5 size_of current (ops ++ [WriteAt f c m])) t = check md5 current s t.
Proof. intros md5 size_of. exact (rewrite_md5_run md5 size_of current eq_refl). Qed.
Print Assumptions C04_rewrite_same_content_md5.

(* ---- non-vacuity ---- *)
Definition e01 : tdef := {| file_dep := [0; 1]%N; targets := [2%N]; uptodate := [URunOnce; UConfig 3]; act_values := []; act_result := Some 1%N |}.
Definition e_res : tdef := {| file_dep := []; targets := []; uptodate := [UResultDep 7%N]; act_values := []; act_result := None |}.
Definition e_never : tdef := {| file_dep := []; targets := []; uptodate := [UNone]; act_values := []; act_result := None |}.
Definition e_ops : list op := [Write 0 0; Write 1 1; Write 2 2; SetDef 7 e01; SetDef 8 e_res; SetDef 9 e_never; SaveOk 7; Write 1 3]%N.

(* the hypotheses of C04_uptodate_complete are satisfiable by a task with file deps, a target and items *)
Example C04_complete_nonvacuous :
  let ops := (e_ops ++ [SaveOk 7; TouchAt 0 (-3); WriteAt 1 3 100; TouchAt 0 40])%N in
  let s := run (fun c => c) (fun _ => 4) current ops in
  hist_ok (fun c => c) (fun _ => 4) current ops = true /\ file_dep (s_defs s 7%N) <> [] /\ (exists g, s_last_ok s 7%N = Some g) /\
  g_status (check (fun c => c) current s 7%N) = UpToDate.
Proof. vm_compute. split; [reflexivity|]. split; [discriminate|]. split; [eexists; reflexivity | reflexivity]. Qed.

(* a run over three tasks, then the second look: 7 and 8 (result_dep on 7) are skipped, 9 (no file_dep, no
   evaluated item) is executed again *)
Example C04_rerun_nonvacuous :
  let s0 := run (fun c => c) (fun _ => 4) current e_ops in
  let s1 := run_all (fun c => c) (fun _ => 4) current s0 [7; 8; 9]%N in
  (forall t f, In t [7; 8; 9]%N -> In f (file_dep (s_defs s0 t)) -> exists_ (s_fs s0) f = true) /\
  map (fun t => executes (fun c => c) current s0 t false) [7; 8; 9]%N = [true; true; true] /\
  map (fun t => status_is_ignore (s_db s1) t) [7; 8; 9]%N = [false; false; false] /\
  map (fun t => executes (fun c => c) current s1 t false) [7; 8; 9]%N = [false; false; true].
Proof.
  cbv zeta. split.
  - intros t f [<-|[<-|[<-|[]]]]; vm_compute; intros H; repeat (destruct H as [<-|H]; [reflexivity|]); destruct H.
  - vm_compute. repeat split.
Qed.

Example C04_touch_nonvacuous :
  let ops := (e_ops ++ [SaveOk 7])%N in
  s_ck (run (fun c => c) (fun _ => 4) current ops) = MD5 /\
  hist_ok (fun c => c) (fun _ => 4) current (ops ++ [TouchAt 0 (-9)]%N) = true /\
  g_status (check (fun c => c) current (run (fun c => c) (fun _ => 4) current (ops ++ [TouchAt 0 (-9)]%N)) 7%N) = UpToDate /\
  g_status (check (fun c => c) current (run (fun c => c) (fun _ => 4) current (ops ++ [Touch 0]%N)) 7%N) = UpToDate /\
  (* under the timestamp checker the same touch does cause a rebuild *)
  g_status (check (fun c => c) current (run (fun c => c) (fun _ => 4) current (SetChecker TS :: ops ++ [TouchAt 0 (-9)]%N)) 7%N) = Run.
Proof. vm_compute. repeat split. Qed.

(* a file dep replaced by OTHER content carrying an OLDER mtime than the recorded one (cp -p, tar, rsync -t):
   the run after the replacement executes and records the new state; the runs after that are up-to-date *)
Example C04_older_mtime_replacement :
  let ops := [WriteAt 0 1 200; SetDef 7 {| file_dep := [0%N]; targets := []; uptodate := []; act_values := []; act_result := None |}]%N in
  let s1 := run_all (fun c => c) (fun _ => 4) current (run (fun c => c) (fun _ => 4) current ops) [7%N] in
  let s2 := step (fun c => c) (fun _ => 4) current s1 (WriteAt 0%N 0 100) in
  let s3 := run_all (fun c => c) (fun _ => 4) current s2 [7%N] in
  hist_ok (fun c => c) (fun _ => 4) current (ops ++ [Check 7; SaveOk 7; WriteAt 0 0 100])%N = true /\
  executes (fun c => c) current s1 7%N false = false /\
  executes (fun c => c) current s2 7%N false = true /\
  executes (fun c => c) current s3 7%N false = false /\
  r_saved (getrec (s_db s3) 7%N) 0%N = Some (MD5state 100 4 0).
Proof. vm_compute. repeat split. Qed.

(* ---- FS-fresh is needed for completeness as well (md5): after a write that kept the mtime, the
   successful run keeps the OLD (mtime,size,md5); a later touch then makes the task `run` although
   the file is unmodified -- by the md5 rule -- w.r.t. what that successful run saw ---- *)
Theorem C04_md5_same_mtime_refuted :
  exists (ops : list op) (t : name) (f : file),
    hist_ok (fun c => c) (fun _ => 4) current ops = false /\
    let s := run (fun c => c) (fun _ => 4) current ops in
    g_status (check (fun c => c) current s t) = Run /\ file_dep (s_defs s t) = [f] /\
    uptodate (s_defs s t) = [] /\ targets (s_defs s t) = [] /\
    exists g then_ now, s_last_ok s t = Some g /\ g_ck g = s_ck s /\ file_dep (g_def g) = [f] /\
                        g_fs g f = Some then_ /\ s_fs s f = Some now /\ unmodified (fun c => c) (s_ck s) then_ now.
Proof.
  exists [Write 0 0; SetDef 7 {| file_dep := [0%N]; targets := []; uptodate := []; act_values := []; act_result := None |};
          SaveOk 7; WriteSameMtime 0 1; SaveOk 7; Touch 0]%N, 7%N, 0%N.
  split; [vm_compute; reflexivity|]. cbv zeta. split; [vm_compute; reflexivity|]. split; [reflexivity|]. split; [reflexivity|]. split; [reflexivity|].
  eexists. eexists. eexists. split; [vm_compute; reflexivity|]. split; [reflexivity|]. split; [reflexivity|].
  split; [vm_compute; reflexivity|]. split; [vm_compute; reflexivity|]. vm_compute. right. split; reflexivity.
Qed.
Print Assumptions C04_md5_same_mtime_refuted.

(* ================= values taken from other tasks: getargs / result_dep (Model/Getargs.v) ================= *)

(* one recording step, in ANY state: the value saver of a result_dep item (explicit, or implicit through getargs) stores the result
   the provider's record holds at the moment of the SaveOk -- not what the item saw when the task was checked; so right after it the
   saved `_result:<src>` equals the provider's current result *)
Theorem C04_getargs_saveok_reads_latest : forall (md5 : N -> N) (size_of : N -> Z) (s : state) (t src : name),
  let s' := step md5 size_of current s (SaveOk t) in
  (match s_log s' with OSave _ SaveDone :: _ => True | _ => False end) ->
  In (UResultDep src) (uptodate (s_defs s t)) -> src <> t ->
  vget (get_values (s_db s') t) (k_result src) = Some (get_result (s_db s') src).
Proof. intros md5 size_of s t src. exact (saveok_reads_latest md5 size_of current s t src). Qed.
Print Assumptions C04_getargs_saveok_reads_latest.

(* a whole run of the serial runner (`doit run --continue sel`, the actions of `failing` fail) after ANY run-level history that respects
   FS-fresh, over any task set without cyclic dependencies (the run ends with both flags clear): every task t the run executed and saved
   (final code 0) holds, for EVERY result_dep item -- providers that ran before t was checked (task_dep), between its check and its
   execution (setup-task of getargs), or not at all -- the result the provider's record holds at the END of the run.  The item is then
   true unless the provider has no result at all. *)
Theorem C04_getargs_saved_result_current : forall (md5 : N -> N) (size_of : N -> Z) (l : list gop) (sel failing : list name) (t src : name),
  ghist_ok md5 size_of current l = true ->
  let a := run_after md5 size_of current l sel failing in
  ra_cyc a = false -> ra_fuel a = false -> fin_of (ra_fin a) t = Some 0 ->
  In (UResultDep src) (uptodate (eff (gs_defs (grun md5 size_of current l) t))) ->
  vget (get_values (s_db (ra_s a)) t) (k_result src) = Some (get_result (s_db (ra_s a)) src) /\
  eval_utd (s_db (ra_s a)) t (UResultDep src) = Some (match get_result (s_db (ra_s a)) src with Some _ => true | None => false end).
Proof.
  intros md5 size_of l sel failing t src Hok.
  destruct (grun_inv md5 size_of current eq_refl eq_refl l Hok) as [Hg Hd].
  exact (run_result_current md5 size_of current eq_refl eq_refl _ _ run_fuel _ sel t src Hg Hd).
Qed.
Print Assumptions C04_getargs_saved_result_current.

(* ... and the second look at such a task (what the immediately repeated run asks first): t is NOT executed again  <->  no item other
   than result_dep is false, every provider's record holds a result, and t has a file_dep or an evaluated item.  In particular a
   consumer whose provider was (re-)executed as its setup-task, with whatever new result, is not executed a second time. *)
Theorem C04_getargs_rerun : forall (md5 : N -> N) (size_of : N -> Z) (l : list gop) (sel failing : list name) (t : name),
  ghist_ok md5 size_of current l = true ->
  let g := grun md5 size_of current l in
  let a := run_after md5 size_of current l sel failing in
  ra_cyc a = false -> ra_fuel a = false -> fin_of (ra_fin a) t = Some 0 ->
  status_is_ignore (s_db (ra_s a)) t = false ->
  (forall x, In x (targets (eff (gs_defs g t))) -> exists_ (s_fs (gs_s g)) x = true) ->
  (executes md5 current (ra_s a) t false = false <->
     (forall u, In u (uptodate (eff (gs_defs g t))) ->
        match u with
        | UResultDep src => get_result (s_db (ra_s a)) src <> None
        | _ => eval_utd (s_db (ra_s a)) t u <> Some false
        end) /\
     (file_dep (eff (gs_defs g t)) <> [] \/ exists u b, In u (uptodate (eff (gs_defs g t))) /\ eval_utd (s_db (ra_s a)) t u = Some b)).
Proof.
  intros md5 size_of l sel failing t Hok.
  destruct (grun_inv md5 size_of current eq_refl eq_refl l Hok) as [Hg Hd].
  exact (run_second_look md5 size_of current eq_refl eq_refl _ _ run_fuel _ sel t Hg Hd).
Qed.
Print Assumptions C04_getargs_rerun.

(* ---- non-vacuity: the consumer T0 (file dep 0, getargs from T1) is defined first, T1 (file dep 1) produces the value and a result ---- *)
Definition e_cons : rdef := {| rd_def := {| file_dep := [0%N]; targets := []; uptodate := []; act_values := []; act_result := None |}; rd_getargs := [(1, 0)]%N |}.
Definition e_prov (r : N) : rdef :=
  {| rd_def := {| file_dep := [1%N]; targets := []; uptodate := []; act_values := [(2%N, Some 5%N)]; act_result := Some r |}; rd_getargs := [] |}.
Definition e_gl : list gop := [GP (Write 0 0); GP (Write 1 1); GSetDef 0 e_cons; GSetDef 1 (e_prov 1)]%N.

(* plain `doit`, three times: the first run checks T0, runs T1 as its setup-task, then T0; the other two execute nothing that has a dependency
   (T2 has no dependency at all: it runs every time) *)
Example C04_getargs_nonvacuous :
  let a := run_after (fun c => c) (fun _ => 4) current e_gl [0; 1; 2]%N [] in
  ghist_ok (fun c => c) (fun _ => 4) current e_gl = true /\ ra_cyc a = false /\ ra_fuel a = false /\
  ra_fin a = [(1%N, 0); (0%N, 0); (2%N, 0)] /\
  In (UResultDep 1%N) (uptodate (eff (gs_defs (grun (fun c => c) (fun _ => 4) current e_gl) 0%N))) /\
  get_result (s_db (ra_s a)) 1%N = Some 1%N /\ executes (fun c => c) current (ra_s a) 0%N false = false /\
  gs_out (grun (fun c => c) (fun _ => 4) current (e_gl ++ [GRun [0; 1; 2] []; GRun [0; 1; 2] []; GRun [0; 1; 2] []])%N)
    = [1; 0; 0; 0; 2; 0; -8;  0; 2; 1; 2; 2; 0; -8;  0; 2; 1; 2; 2; 0; -8].
Proof. vm_compute. repeat split; auto. Qed.

(* only the consumer selected; later its file AND the provider (file and result) change: the provider re-executes as the setup-task with the
   new result 2, the consumer saves 2 and the repeated run executes nothing *)
Example C04_getargs_provider_reexecuted :
  let l := (e_gl ++ [GRun [0] []; GP (Write 0 3); GP (Write 1 3); GSetDef 1 (e_prov 2)])%N in
  let a := run_after (fun c => c) (fun _ => 4) current l [0%N] [] in
  ghist_ok (fun c => c) (fun _ => 4) current l = true /\ ra_cyc a = false /\ ra_fuel a = false /\
  ra_fin a = [(1%N, 0); (0%N, 0)] /\
  vget (get_values (s_db (ra_s a)) 0%N) (k_result 1%N) = Some (Some 2%N) /\
  gs_out (grun (fun c => c) (fun _ => 4) current (l ++ [GRun [0] []; GRun [0] []])%N) = [1; 0; 0; 0; -8;  1; 0; 0; 0; -8;  0; 2; -8].
Proof. vm_compute. repeat split; auto. Qed.

(* ================= the WHOLE repeated run is a no-op (Proofs/RerunP.v, Proofs/RerunGP.v) =================

   A DB record holds a function (file -> saved state), so "the same record" is extensional: [rec_eq] = every field equal, the saved
   states pointwise; [db_equiv] = the same keys with [rec_eq] records.  Equivalent DBs have the same observation [db_z] (what the
   harness compares).  For the tasks that are NOT executed the record is literally the same (Leibniz).
   In these models what an execution writes is a function of the definition (act_values / act_result) and of the providers'
   results at that moment: an always-running task rewrites the same values and the same result, so even ITS record is equivalent
   after every repeated run, and no later task of the same run sees anything new.  That is the hypothesis "the always-running tasks
   produce the same results as before", built into Model/Status.v. *)

(* run_all of History.v (no setup-tasks).  After ANY FS-fresh history, over ANY list ts of distinct tasks in which a result_dep
   provider comes before its consumers or is not listed ([providers_first]: doit runs a task_dep first), every file dep and target of
   these tasks exists (nothing fails, no task is `error`): let s1 be the state after the first run and sn the state after n more runs.
   (a) every decision of run n+2 (task t reached after the prefix pre was processed) is the decision `executes` makes in s1, and for a
       task that is not ignored that is: NOT executed <-> no item false and a file_dep or an evaluated item (C04_rerun_idempotent);
   (b) the records of the tasks that are not executed (and of all tasks outside ts) are literally those of s1;
   (c) the whole DB after n more runs is equivalent to the one of s1, with the same observation: the state after the first run is a
       fixed point. *)
Theorem C04_second_run_noop : forall (md5 : N -> N) (size_of : N -> Z) (ops : list op) (ts : list name),
  hist_ok md5 size_of current ops = true ->
  let s0 := run md5 size_of current ops in
  NoDup ts -> providers_first (s_defs s0) ts ->
  (forall t f, In t ts -> In f (file_dep (s_defs s0 t)) -> exists_ (s_fs s0) f = true) ->
  (forall t x, In t ts -> In x (targets (s_defs s0 t)) -> exists_ (s_fs s0) x = true) ->
  let s1 := run_all md5 size_of current s0 ts in
  forall n, let sn := Nat.iter n (fun s => run_all md5 size_of current s ts) s1 in
  (forall pre t post, ts = pre ++ t :: post ->
     executes md5 current (run_all md5 size_of current sn pre) t false = executes md5 current s1 t false /\
     (status_is_ignore (s_db s1) t = false ->
      (executes md5 current s1 t false = false <->
         (forall u, In u (uptodate (s_defs s1 t)) -> eval_utd (s_db s1) t u <> Some false) /\
         (file_dep (s_defs s1 t) <> [] \/ exists u b, In u (uptodate (s_defs s1 t)) /\ eval_utd (s_db s1) t u = Some b)))) /\
  (forall x, executes md5 current s1 x false = false \/ ~ In x ts -> s_db sn x = s_db s1 x) /\
  db_equiv (s_db sn) (s_db s1) /\
  (forall tasks files, db_z tasks files (s_db sn) = db_z tasks files (s_db s1)).
Proof.
  intros md5 size_of ops ts Hf.
  exact (rerun_whole md5 size_of current eq_refl eq_refl _ ts (run_inv md5 size_of current eq_refl ops Hf)).
Qed.
Print Assumptions C04_second_run_noop.

(* non-vacuity: a task with file deps and a target (7), a run_once + config_changed task (8), a task without any dependency (9: runs every
   time, produces a value and a result).  The first run executes all three; the second and the third execute 9 only; same DB observation *)
Definition e3_file : tdef := {| file_dep := [0; 1]%N; targets := [2%N]; uptodate := []; act_values := []; act_result := Some 1%N |}.
Definition e3_once : tdef := {| file_dep := []; targets := []; uptodate := [URunOnce; UConfig 3]; act_values := []; act_result := None |}.
Definition e3_always : tdef := {| file_dep := []; targets := []; uptodate := []; act_values := [(2%N, Some 5%N)]; act_result := Some 4%N |}.
Definition e3_ops : list op := [Write 0 0; Write 1 1; Write 2 2; SetDef 7 e3_file; SetDef 8 e3_once; SetDef 9 e3_always]%N.

Example C04_second_run_nonvacuous :
  let md5 := fun c : N => c in let size_of := fun _ : N => 4 in let ts := [7; 8; 9]%N in
  let s0 := run md5 size_of current e3_ops in
  let s1 := run_all md5 size_of current s0 ts in
  let s2 := run_all md5 size_of current s1 ts in
  hist_ok md5 size_of current e3_ops = true /\ NoDup ts /\ providers_first (s_defs s0) ts /\
  (forall t f, In t ts -> In f (file_dep (s_defs s0 t)) -> exists_ (s_fs s0) f = true) /\
  (forall t x, In t ts -> In x (targets (s_defs s0 t)) -> exists_ (s_fs s0) x = true) /\
  map (fun t => executes md5 current s0 t false) ts = [true; true; true] /\
  [executes md5 current s1 7%N false; executes md5 current (run_all md5 size_of current s1 [7%N]) 8%N false;
   executes md5 current (run_all md5 size_of current s1 [7; 8]%N) 9%N false] = [false; false; true] /\
  [executes md5 current s2 7%N false; executes md5 current (run_all md5 size_of current s2 [7%N]) 8%N false;
   executes md5 current (run_all md5 size_of current s2 [7; 8]%N) 9%N false] = [false; false; true] /\
  db_z ts [0; 1; 2]%N (s_db s2) = db_z ts [0; 1; 2]%N (s_db s1).
Proof.
  cbv zeta. split; [vm_compute; reflexivity|].
  split; [repeat (constructor; [simpl; intuition discriminate|]); constructor|].
  split; [simpl; repeat match goal with |- _ /\ _ => split end; try exact I; intros src H; simpl in H; repeat (destruct H as [H|H]; [discriminate|]); destruct H|].
  split; [intros t f [<-|[<-|[<-|[]]]]; vm_compute; intros H; repeat (destruct H as [<-|H]; [reflexivity|]); destruct H|].
  split; [intros t f [<-|[<-|[<-|[]]]]; vm_compute; intros H; repeat (destruct H as [<-|H]; [reflexivity|]); destruct H|].
  vm_compute. repeat split.
Qed.

(* [providers_first] is needed: with the consumer 8 (result_dep on 9) listed BEFORE its provider 9 (no dependency: always runs), the first
   run saves "9 has no result" for 8, the second run executes 8 again -- although in the state it leaves 8 is up-to-date -- and only the third
   run skips it.  In the order doit uses (task_dep first) the second run already skips it. *)
Definition e3_cons : tdef := {| file_dep := []; targets := []; uptodate := [UResultDep 9%N]; act_values := []; act_result := None |}.
Example C04_second_run_order_needed :
  let md5 := fun c : N => c in let size_of := fun _ : N => 4 in
  let s0 := run md5 size_of current [SetDef 8 e3_cons; SetDef 9 e3_always]%N in
  let s1 := run_all md5 size_of current s0 [8; 9]%N in
  let s2 := run_all md5 size_of current s1 [8; 9]%N in
  let s1' := run_all md5 size_of current s0 [9; 8]%N in
  ~ providers_first (s_defs s0) [8; 9]%N /\ providers_first (s_defs s0) [9; 8]%N /\
  executes md5 current s1 8%N false = true /\ executes md5 current s2 8%N false = false /\
  executes md5 current s1' 9%N false = true /\ executes md5 current (run_all md5 size_of current s1' [9%N]) 8%N false = false.
Proof.
  cbv zeta. split.
  { simpl. intros [H _]. destruct (H 9%N) as [_ H9]; [left; reflexivity|]. apply H9. left; reflexivity. }
  split.
  { simpl. repeat match goal with |- _ /\ _ => split end; try exact I; intros src H; simpl in H.
    - destruct H.
    - destruct H as [H|[]]. inversion H; subst. split; [discriminate | intros []]. }
  vm_compute. repeat split.
Qed.

(* the serial runner with getargs / setup-tasks / result_dep (Model/Getargs.v): `doit run --continue sel` after ANY FS-fresh run-level
   history l, then the same command again, any number of times.  Hypotheses on the FIRST run a1 (all decidable):
     - it ended with both flags clear (no cycle, fuel sufficed) and nothing failed: every final code is 0 (executed+saved) or 2 (up-to-date);
     - LAZY: every task it skipped as up-to-date is still up-to-date in the state it left.  This is the one restriction: a getargs provider
       is a SETUP-task, visited only when its consumer is not up-to-date; a consumer that was checked (and skipped) BEFORE its provider was
       executed later in the same run with another result is stale afterwards, and the next run executes it -- a chain of such consumers
       settles one level per run (C04_getargs_lazy_chain below).  The hypothesis holds e.g. when no task was skipped, or when providers
       are selected before their consumers;
     - no finished task is ignored, and the targets of the finished tasks exist.
   Then for every later run ak (k = 0: the second run):
     (a) a task it executes (code 0) was executed by the first run as well and `executes` says so in the state s1 the first run left --
         C04_getargs_rerun characterises that: an item other than result_dep is false, or a provider's record holds no result, or there is
         no file_dep and no evaluated item; every other task it reaches is skipped as up-to-date (code 2): nothing fails, nothing else runs;
     (b)+(c) the DB it leaves is equivalent to the one of s1 (same observation), and the next run reports exactly the same list of
         (task, code) with the same flags: s1 is a fixed point. *)
Theorem C04_getargs_second_run_noop : forall (md5 : N -> N) (size_of : N -> Z) (l : list gop) (sel : list name),
  ghist_ok md5 size_of current l = true ->
  let g := grun md5 size_of current l in
  let a1 := run_after md5 size_of current l sel [] in
  let s1 := ra_s a1 in
  ra_cyc a1 = false -> ra_fuel a1 = false ->
  (forall t c, fin_of (ra_fin a1) t = Some c -> c = 0 \/ c = 2) ->
  (forall t, fin_of (ra_fin a1) t = Some 2 -> g_status (check md5 current s1 t) = UpToDate) ->
  (forall t, fin_of (ra_fin a1) t <> None -> status_is_ignore (s_db s1) t = false) ->
  (forall t x, fin_of (ra_fin a1) t <> None -> In x (targets (eff (gs_defs g t))) -> exists_ (s_fs (gs_s g)) x = true) ->
  forall k,
  let ak := run_after md5 size_of current (l ++ repeat (GRun sel []) (S k)) sel [] in
  let ak' := run_after md5 size_of current (l ++ repeat (GRun sel []) (S (S k))) sel [] in
  (forall t c, fin_of (ra_fin ak) t = Some c ->
     (c = 0 /\ fin_of (ra_fin a1) t = Some 0 /\ executes md5 current s1 t false = true) \/
     (c = 2 /\ fin_of (ra_fin a1) t <> None /\ executes md5 current s1 t false = false)) /\
  db_equiv (s_db (ra_s ak)) (s_db s1) /\
  (forall tasks files, db_z tasks files (s_db (ra_s ak)) = db_z tasks files (s_db s1)) /\
  ra_fin ak' = ra_fin ak /\ ra_cyc ak' = ra_cyc ak /\ ra_fuel ak' = ra_fuel ak.
Proof. intros md5 size_of. exact (getargs_rerun_noop md5 size_of current eq_refl eq_refl). Qed.
Print Assumptions C04_getargs_second_run_noop.

Ltac fin_cases H := cbn [fin_of] in H; repeat match type of H with context [N.eqb ?a ?b] => destruct (N.eqb a b) end; try discriminate.

(* non-vacuity on e_gl (T0: file dep 0, getargs from T1; T1: file dep 1; T2: no dependency): the hypotheses hold for the first `doit`, the
   second and third runs skip T0 and T1 and execute T2 *)
Example C04_getargs_second_run_nonvacuous :
  let md5 := fun c : N => c in let size_of := fun _ : N => 4 in let sel := [0; 1; 2]%N in
  let a1 := run_after md5 size_of current e_gl sel [] in
  ghist_ok md5 size_of current e_gl = true /\ ra_cyc a1 = false /\ ra_fuel a1 = false /\
  (forall t c, fin_of (ra_fin a1) t = Some c -> c = 0 \/ c = 2) /\
  (forall t, fin_of (ra_fin a1) t = Some 2 -> g_status (check md5 current (ra_s a1) t) = UpToDate) /\
  (forall t, fin_of (ra_fin a1) t <> None -> status_is_ignore (s_db (ra_s a1)) t = false) /\
  ra_fin a1 = [(1%N, 0); (0%N, 0); (2%N, 0)] /\
  ra_fin (run_after md5 size_of current (e_gl ++ repeat (GRun sel []) 1) sel []) = [(0%N, 2); (1%N, 2); (2%N, 0)] /\
  ra_fin (run_after md5 size_of current (e_gl ++ repeat (GRun sel []) 2) sel []) = [(0%N, 2); (1%N, 2); (2%N, 0)].
Proof.
  intros md5 size_of sel a1.
  assert (E : ra_fin a1 = [(1%N, 0); (0%N, 0); (2%N, 0)]) by (vm_compute; reflexivity).
  assert (I0 : status_is_ignore (s_db (ra_s a1)) 0%N = false) by (vm_compute; reflexivity).
  assert (I1 : status_is_ignore (s_db (ra_s a1)) 1%N = false) by (vm_compute; reflexivity).
  assert (I2 : status_is_ignore (s_db (ra_s a1)) 2%N = false) by (vm_compute; reflexivity).
  split; [vm_compute; reflexivity|]. split; [vm_compute; reflexivity|]. split; [vm_compute; reflexivity|].
  clearbody a1.
  split. { intros t c H; rewrite E in H; fin_cases H; inversion H; subst; auto. }
  split. { intros t H; rewrite E in H; fin_cases H. }
  split.
  { intros t H. rewrite E in H. cbn [fin_of] in H.
    destruct (N.eqb_spec 1 t) as [Et|_]; [subst t; exact I1|].
    destruct (N.eqb_spec 0 t) as [Et|_]; [subst t; exact I0|].
    destruct (N.eqb_spec 2 t) as [Et|_]; [subst t; exact I2|]. congruence. }
  split; [exact E|]. vm_compute. split; reflexivity.
Qed.

(* the LAZY hypothesis is needed, and a chain of getargs consumers settles one level per run: T2 takes a value from T1, T1 from T0, the
   consumers are selected first (sel = [2;1;0]).  After a first run that executes all three, T0's file and the results the definitions of T0
   and T1 yield change.  Run A: T2 and T1 are checked first and skipped, then T0 executes (fully successful, but T1 is stale at its end:
   the hypothesis fails).  Run B executes T1 only, run C executes T2 only, runs D and E execute nothing.  From the history that ends with
   run B on, the hypothesis holds (run C is the first run of the theorem). *)
Definition ch_t0 (r : N) : rdef :=
  {| rd_def := {| file_dep := [0%N]; targets := []; uptodate := []; act_values := [(2%N, Some 5%N)]; act_result := Some r |}; rd_getargs := [] |}.
Definition ch_t1 (r : N) : rdef :=
  {| rd_def := {| file_dep := [1%N]; targets := []; uptodate := []; act_values := [(2%N, Some 6%N)]; act_result := Some r |}; rd_getargs := [(0, 0)]%N |}.
Definition ch_t2 : rdef :=
  {| rd_def := {| file_dep := [2%N]; targets := []; uptodate := []; act_values := []; act_result := None |}; rd_getargs := [(1, 0)]%N |}.
Definition ch_l : list gop :=
  [GP (Write 0 0); GP (Write 1 1); GP (Write 2 2); GSetDef 0 (ch_t0 1); GSetDef 1 (ch_t1 1); GSetDef 2 ch_t2; GRun [2; 1; 0] [];
   GP (Write 0 7); GSetDef 0 (ch_t0 2); GSetDef 1 (ch_t1 2)]%N.

Example C04_getargs_lazy_chain :
  let md5 := fun c : N => c in let size_of := fun _ : N => 4 in let sel := [2; 1; 0]%N in
  let aA := run_after md5 size_of current ch_l sel [] in
  ghist_ok md5 size_of current ch_l = true /\ ra_cyc aA = false /\ ra_fuel aA = false /\
  ra_fin aA = [(2%N, 2); (1%N, 2); (0%N, 0)] /\
  g_status (check md5 current (ra_s aA) 1%N) = Run /\
  gs_out (grun md5 size_of current (ch_l ++ repeat (GRun sel []) 5))
    = [0; 0; 1; 0; 2; 0; -8;   2; 2; 1; 2; 0; 0; -8;   2; 2; 0; 2; 1; 0; -8;   1; 2; 2; 0; 0; 2; -8;   2; 2; 1; 2; 0; 2; -8;   2; 2; 1; 2; 0; 2; -8] /\
  let aC := run_after md5 size_of current (ch_l ++ repeat (GRun sel []) 2) sel [] in
  ra_fin aC = [(1%N, 2); (2%N, 0); (0%N, 2)] /\
  map (fun t => g_status (check md5 current (ra_s aC) t)) [1; 0]%N = [UpToDate; UpToDate].
Proof. vm_compute. repeat split. Qed.


(* ================= calc_dep: dependencies taken from the values of other tasks (Model/CalcDep.v) =================
   A run-level history l (file operations, definitions with calc_dep / task_dep, forget / ignore, whole runs `doit run --continue sel`);
   [chist_ok]: FS-fresh; [cops_plain]: no result_dep items (that family is Getargs.v).  a = the run `doit run sel` makes after l. *)

(* what a task that was executed (0) or skipped as up-to-date (2) hands over to the tasks that name it in calc_dep -- its in-memory
   `task.values` -- is what its DB record holds at the end of the run: the dicts its actions returned when it ran, the saved values
   when it was skipped.  For every selection: whether the provider was dispatched before the consumer's node existed or was waited for. *)
Theorem C04_calcdep_values_handed_over : forall (md5 : N -> N) (size_of : N -> Z) (l : list cop) (sel failing : list name) (t : name),
  chist_ok md5 size_of current l = true -> cops_plain l = true ->
  let a := crun_after md5 size_of current l sel failing in
  (cfin_of (ca_fin a) t = Some 0 \/ cfin_of (ca_fin a) t = Some 2) -> ca_vals a t = get_values (s_db (ca_s a)) t.
Proof. intros md5 size_of. exact (calc_hist_handed_over md5 size_of current eq_refl eq_refl). Qed.
Print Assumptions C04_calcdep_values_handed_over.

(* the dependency set a task saved when it was executed is DECLARED + CALCULATED: the definition it was looked at with is the declared one
   merged with the values its calc_dep providers' records hold (file_dep added, uptodate extended), `deps:` is exactly its file_dep, the
   checker is the configured one, and every provider was executed or up-to-date in that run *)
Theorem C04_calcdep_saved_dep_set : forall (md5 : N -> N) (size_of : N -> Z) (l : list cop) (sel failing : list name) (t : name),
  chist_ok md5 size_of current l = true -> cops_plain l = true ->
  let g := crun md5 size_of current l in
  let a := crun_after md5 size_of current l sel failing in
  ca_cyc a = false -> ca_fuel a = false -> cfin_of (ca_fin a) t = Some 0 ->
  let db1 := s_db (ca_s a) in
  let df := merged_with (get_values db1) (cs_defs g t) in
  s_defs (ca_s a) t = df /\ r_deps (getrec db1 t) = Some (file_dep df) /\ r_checker (getrec db1 t) = Some (s_ck (cs_s g)) /\
  (forall x, In x (file_dep df) <->
             In x (file_dep (cd_def (cs_defs g t))) \/
             exists p, In p (cd_calc (cs_defs g t)) /\ In x (calc_files (get_values db1 p))) /\
  (forall p, In p (cd_calc (cs_defs g t)) -> cfin_of (ca_fin a) p = Some 0 \/ cfin_of (ca_fin a) p = Some 2).
Proof. intros md5 size_of. exact (calc_hist_saved_dep_set md5 size_of current eq_refl eq_refl). Qed.
Print Assumptions C04_calcdep_saved_dep_set.

(* the second look at a task the run executed or skipped, with the definition recomputed from the saved values of its providers (what the
   next run does): the recomputed definition IS the one in force (set_def changes nothing), and the task would be executed only if it can
   never be up-to-date: an uptodate item (declared or calculated) that is not true, or no file_dep and no evaluated item at all *)
Theorem C04_calcdep_second_look : forall (md5 : N -> N) (size_of : N -> Z) (l : list cop) (sel failing : list name) (t : name),
  chist_ok md5 size_of current l = true -> cops_plain l = true ->
  let g := crun md5 size_of current l in
  let a := crun_after md5 size_of current l sel failing in
  ca_cyc a = false -> ca_fuel a = false ->
  (cfin_of (ca_fin a) t = Some 0 \/ cfin_of (ca_fin a) t = Some 2) ->
  status_is_ignore (s_db (ca_s a)) t = false ->
  (forall x, In x (targets (cd_def (cs_defs g t))) -> exists_ (s_fs (cs_s g)) x = true) ->
  let s2 := set_def md5 size_of current (ca_s a) t (merged_with (get_values (s_db (ca_s a))) (cs_defs g t)) in
  s2 = ca_s a /\
  (executes md5 current s2 t false = false <-> items_ok (s_db s2) t (s_defs s2 t) /\ some_dep (s_db s2) t (s_defs s2 t)).
Proof. intros md5 size_of. exact (calc_hist_second_look md5 size_of current eq_refl eq_refl). Qed.
Print Assumptions C04_calcdep_second_look.

(* the WHOLE run repeated immediately (k+1 times) after a clean, fully successful one (every task executed or up-to-date, none ignored,
   targets exist): it reaches exactly the same tasks without cycle / fuel problem; a task it executes was executed by the first run and
   `executes` says so in the state s1 the first run left (C04_calcdep_second_look: it can never be up-to-date); every other task is skipped
   as up-to-date; the DB it leaves is equivalent to the one of s1 (same observation) *)
Theorem C04_calcdep_second_run_noop : forall (md5 : N -> N) (size_of : N -> Z) (l : list cop) (sel : list name),
  chist_ok md5 size_of current l = true -> cops_plain l = true ->
  let g := crun md5 size_of current l in
  let a1 := crun_after md5 size_of current l sel [] in
  let s1 := ca_s a1 in
  ca_cyc a1 = false -> ca_fuel a1 = false ->
  (forall t c, cfin_of (ca_fin a1) t = Some c -> c = 0 \/ c = 2) ->
  (forall t, cfin_of (ca_fin a1) t <> None -> status_is_ignore (s_db s1) t = false) ->
  (forall t x, cfin_of (ca_fin a1) t <> None -> In x (targets (cd_def (cs_defs g t))) -> exists_ (s_fs (cs_s g)) x = true) ->
  forall k,
  let ak := crun_after md5 size_of current (l ++ repeat (CRun sel []) (S k)) sel [] in
  (forall t c, cfin_of (ca_fin ak) t = Some c ->
     (c = 0 /\ cfin_of (ca_fin a1) t = Some 0 /\ executes md5 current s1 t false = true) \/
     (c = 2 /\ cfin_of (ca_fin a1) t <> None /\ executes md5 current s1 t false = false)) /\
  (forall t, cfin_of (ca_fin ak) t <> None <-> cfin_of (ca_fin a1) t <> None) /\
  ca_cyc ak = false /\ ca_fuel ak = false /\
  db_equiv (s_db (ca_s ak)) (s_db s1) /\
  (forall tasks files, db_z tasks files (s_db (ca_s ak)) = db_z tasks files (s_db s1)).
Proof. intros md5 size_of. exact (calc_hist_rerun_noop md5 size_of current eq_refl eq_refl). Qed.
Print Assumptions C04_calcdep_second_run_noop.

(* non-vacuity and the point of the family.  T0 (consumer): file_dep 0, calc_dep T1.  T1 (provider): its own file_dep 1 (it can be
   up-to-date), returns file_dep [2] (bitmask 4 under the key of 'file_dep').  For BOTH dispatch orders -- provider first ([1;0]: its node
   is done before the consumer's exists) and consumer first ([0;1]) -- the first run executes both and T0 saves the dep set {0, 2}; the
   second and third runs skip both; after an edit of the CALCULATED file 2 the consumer is executed again, the provider is not. *)
Definition e_ccons : cdef := {| cd_def := {| file_dep := [0%N]; targets := []; uptodate := []; act_values := []; act_result := None |};
                                cd_task_dep := []; cd_calc := [1%N] |}.
Definition e_cprov : cdef := {| cd_def := {| file_dep := [1%N]; targets := []; uptodate := []; act_values := [(k_cfd, Some 4%N)]; act_result := None |};
                                cd_task_dep := []; cd_calc := [] |}.
Definition e_cl : list cop := [CP (Write 0 0); CP (Write 1 1); CP (Write 2 2); CSetDef 0 e_ccons; CSetDef 1 e_cprov]%N.

Example C04_calcdep_nonvacuous :
  let md5 := fun c : N => c in let size_of := fun _ : N => 4 in
  forall sel, sel = [1; 0]%N \/ sel = [0; 1]%N ->
  let a1 := crun_after md5 size_of current e_cl sel [] in
  chist_ok md5 size_of current e_cl = true /\ cops_plain e_cl = true /\ ca_cyc a1 = false /\ ca_fuel a1 = false /\
  (forall t c, cfin_of (ca_fin a1) t = Some c -> c = 0 \/ c = 2) /\
  (forall t, cfin_of (ca_fin a1) t <> None -> status_is_ignore (s_db (ca_s a1)) t = false) /\
  ca_fin a1 = [(1%N, 0); (0%N, 0)] /\
  r_deps (getrec (s_db (ca_s a1)) 0%N) = Some [0; 2]%N /\
  ca_fin (crun_after md5 size_of current (e_cl ++ repeat (CRun sel []) 1) sel []) = [(1%N, 2); (0%N, 2)] /\
  ca_fin (crun_after md5 size_of current (e_cl ++ repeat (CRun sel []) 2) sel []) = [(1%N, 2); (0%N, 2)] /\
  ca_fin (crun_after md5 size_of current (e_cl ++ repeat (CRun sel []) 2 ++ [CP (Write 2%N 3%N)]) sel []) = [(1%N, 2); (0%N, 0)].
Proof.
  intros md5 size_of sel Hsel a1.
  assert (E : ca_fin a1 = [(1%N, 0); (0%N, 0)]) by (destruct Hsel; subst sel; vm_compute; reflexivity).
  assert (I0 : status_is_ignore (s_db (ca_s a1)) 0%N = false) by (destruct Hsel; subst sel; vm_compute; reflexivity).
  assert (I1 : status_is_ignore (s_db (ca_s a1)) 1%N = false) by (destruct Hsel; subst sel; vm_compute; reflexivity).
  split; [vm_compute; reflexivity|]. split; [vm_compute; reflexivity|].
  split; [destruct Hsel; subst sel; vm_compute; reflexivity|]. split; [destruct Hsel; subst sel; vm_compute; reflexivity|].
  split. { intros t c H. rewrite E in H. cbn [cfin_of] in H.
           repeat match type of H with context [N.eqb ?a ?b] => destruct (N.eqb a b) end; try discriminate; inversion H; auto. }
  split. { intros t H. rewrite E in H. cbn [cfin_of] in H.
           destruct (N.eqb_spec 1 t) as [Et|_]; [subst t; exact I1|].
           destruct (N.eqb_spec 0 t) as [Et|_]; [subst t; exact I0|]. congruence. }
  split; [exact E|].
  destruct Hsel; subst sel; vm_compute; repeat split; reflexivity.
Qed.

(* what the theorems exclude.  If an up-to-date provider handed over NOTHING when it is dispatched before its consumer (seeded change
   C04d: `task.values` loaded only for a provider some node already waits for), C04_calcdep_values_handed_over would fail; the model run
   below shows the consequence the harness looks for, computed by replacing what T1 hands over by [] in the merge: the consumer's dep
   set would be {0} instead of {0, 2} -- different from the saved one, so get_status answers run. *)
Example C04_calcdep_lost_values_would_rerun :
  let md5 := fun c : N => c in let size_of := fun _ : N => 4 in
  let a1 := crun_after md5 size_of current e_cl [1; 0]%N [] in
  let s1 := ca_s a1 in
  file_dep (merged_with (ca_vals a1) e_ccons) = [0; 2]%N /\ file_dep (merged_with (fun _ => []) e_ccons) = [0%N] /\
  g_status (check md5 current (set_def md5 size_of current s1 0%N (merged_with (ca_vals a1) e_ccons)) 0%N) = UpToDate /\
  g_status (check md5 current (set_def md5 size_of current s1 0%N (merged_with (fun _ => []) e_ccons)) 0%N) = Run.
Proof. vm_compute. repeat split. Qed.

(* ---- result_dep on a GROUP task (also the implicit one of `getargs` from a group): Model/GroupRes.v ----
   [is_sub g s] is the oracle `s.startswith(g + ":")`; tdeps / tdeps' = the task_dep list of the group when the consumer saved the
   result / when it is checked again (sub-tasks in yield order, plus whatever else the group depends on: a group-level `task_dep`,
   implicit task_dep through targets or a group-level result_dep); d / d' = the DB at those two moments.

   Exact characterisation of the second look ("it will check that the result of all subtasks did not change. And also the existing
   sub-tasks are the same", doc/uptodate.rst): the item is true IFF the sub-tasks among the task_dep are the same and the record of each
   one holds the result it held.  Nothing else is read: not the records of the other task_dep of the group, not the order. *)
Theorem C04_group_item_iff : forall (is_sub : name -> name -> bool) (d d' : db) (g : name) (tdeps tdeps' : list name),
  item_verdict is_sub (item_saver is_sub d true g tdeps) d' true g tdeps' = true <->
  (forall s, is_sub g s = true -> (In s tdeps <-> In s tdeps') /\ (In s tdeps -> get_result d' s = get_result d s)).
Proof. exact group_item_iff. Qed.
Print Assumptions C04_group_item_iff.

(* hence: the consumer's second look does not depend on the results of the task_dep of the group that are not its sub-tasks, nor on
   which such task_dep the group has *)
Theorem C04_group_second_look : forall (is_sub : name -> name -> bool) (d d' : db) (g : name) (tdeps tdeps' : list name),
  (forall s, is_sub g s = true -> (In s tdeps <-> In s tdeps')) ->
  (forall s, In s tdeps -> is_sub g s = true -> get_result d' s = get_result d s) ->
  item_verdict is_sub (item_saver is_sub d true g tdeps) d' true g tdeps' = true.
Proof. exact group_second_look. Qed.
Print Assumptions C04_group_second_look.

(* over histories (History.v): after ANY sequence of file operations, changes of definitions / of the checker, and get_status /
   recorded success / failure / forget of tasks that are NOT sub-tasks of g (the non-sub-task dependency X of the group re-executes
   with another result: SetDef X, Write, Check X, SaveOk X), the item of a consumer that saved the group's result in state s is true *)
Theorem C04_group_item_frame : forall (is_sub : name -> name -> bool) (md5 : N -> N) (size_of : N -> Z) (g : name)
    (tdeps tdeps' : list name) (ops : list op) (s : state),
  Forall (off_group is_sub g) ops ->
  (forall x, is_sub g x = true -> (In x tdeps <-> In x tdeps')) ->
  item_verdict is_sub (item_saver is_sub (s_db s) true g tdeps) (s_db (run_from md5 size_of current s ops)) true g tdeps' = true.
Proof. intros is_sub md5 size_of. exact (group_item_frame is_sub md5 size_of current). Qed.
Print Assumptions C04_group_item_frame.

(* non-vacuity, and what the theorems exclude.  Tasks: 5 = the group, 6 / 7 = its sub-tasks, 1 = a plain task the group depends on
   (group-level task_dep).  The consumer saved the group's result when 1 / 6 / 7 held the results 11 / 12 / 13; then task 1 re-executes
   (another file content, another result: 14): the item is still true; when sub-task 7 re-executes with another result it is false; when
   sub-task 7 leaves the group it is false.  If the loop of _result_group did not skip the other task_dep (seeded change C04e: the
   `startswith(prefix)` test dropped = an oracle is_sub that answers true for task 1 as well), the first answer would be false: the
   consumer would be re-executed although no sub-task changed. *)
Definition e_sub : name -> name -> bool := fun g s => N.eqb g 5 && (N.eqb s 6 || N.eqb s 7).
Definition e_sub_all : name -> name -> bool := fun g s => N.eqb g 5.
Definition e_xdef (r : N) : tdef := {| file_dep := [0%N]; targets := []; uptodate := []; act_values := []; act_result := Some r |}.
Definition e_sdef (f r : N) : tdef := {| file_dep := [f]; targets := []; uptodate := []; act_values := []; act_result := Some r |}.
Definition e_g0 : list op :=
  [Write 0 0; Write 1 1; Write 2 2; SetDef 1 (e_xdef 11); SetDef 6 (e_sdef 1 12); SetDef 7 (e_sdef 2 13);
   Check 1; SaveOk 1; Check 6; SaveOk 6; Check 7; SaveOk 7]%N.
Definition e_x_again : list op := [Write 0 3; SetDef 1 (e_xdef 14); Check 1; SaveOk 1]%N.
Definition e_sub_again : list op := [Write 2 4; SetDef 7 (e_sdef 2 15); Check 7; SaveOk 7]%N.
Example C04_group_nonvacuous :
  let md5 := fun c : N => c in let size_of := fun _ : N => 4 in
  let s0 := run md5 size_of current e_g0 in
  let tdeps := [1; 6; 7]%N in
  let look := fun is_sub ops tdeps' => item_verdict is_sub (item_saver is_sub (s_db s0) true 5%N tdeps)
                                                  (s_db (run_from md5 size_of current s0 ops)) true 5%N tdeps' in
  Forall (off_group e_sub 5%N) e_x_again /\
  item_saver e_sub (s_db s0) true 5%N tdeps = Some (RGroup [(6%N, Some 12%N); (7%N, Some 13%N)]) /\
  get_result (s_db (run_from md5 size_of current s0 e_x_again)) 1%N = Some 14%N /\
  look e_sub e_x_again tdeps = true /\
  look e_sub e_x_again [6; 7]%N = true /\          (* the group no longer depends on task 1: the sub-tasks are the same *)
  look e_sub e_sub_again tdeps = false /\
  look e_sub [] [1; 6]%N = false /\
  look e_sub_all e_x_again tdeps = false.
Proof. vm_compute. repeat split; repeat constructor. Qed.
