(* C20 -- Introspection commands are read-only and agree with run.
   Statements only; every proof is `exact <lemma of Proofs/IntrospectP.v, StatusP.v, HistoryP.v, CleanP.v>`
   or a closed computation.

   Model: Model/Introspect.v (cmd_list.py, cmd_info.py over Model/Status.v's get_status; the
   decision of Runner.select_task) -- quantified over ALL file systems / DB contents / task tables
   (so in particular over the states reached by the histories of Model/History.v, which is where
   the `_refuted` witnesses live).  [md5], [name_ltb] (string order of task names), [cv] (the
   file_dep / calc_dep / task_dep lists in the values a task saved) are oracles.  [icurrent] = the code in /repo (HEAD);
   [ilegacy] = the code before two of the repairs this property led to (a4fdc5e: list / info merge what
   the calc_dep tasks saved; 33e694f: info reports an ignored task as ignored); the third repair is in
   doit/dependency.py and so a flag of Model/Status.v's [ver]: [fixL] ([current] has it, [before_fixL] below does not).  help / dumpdb /
   tabcompletion are tied by the correspondence check only (harness/c20.py): no transition in the model.
   clean --dry-run: Model/Clean.v's command (C14; actions abstracted to their `takes dryrun` flag) and,
   over clean LISTS mixing clean_targets / python callables with and without `dryrun` / shell commands
   with their effect on files, [cclean_cmd] of Model/Introspect.v (C20_clean_action_invoked_iff ...
   C20_clean_cmd_cleaned_is_C14).

   Result: Proved: the frame (DB untouched up to the documented checker-change
   invalidation, which never reaches a task carrying the ignore mark (C20_list_status_ignored_after_checker_switch,
   C20_info_ignored_after_checker_switch); no other effect; clean --dry-run: per action of an arbitrary clean list, invoked iff it
   is a python-action taking `dryrun`, independently of its neighbours, no DB record and no file changed); `list --status` = the decision of `run` for every task (calc_dep
   included: both merge the values saved by the calc_dep tasks, those of the calc_dep tasks these values name,
   and so on: the merge is a fix-point that terminates and holds exactly the contributions of the calc_dep
   tasks reachable from the task, C20_merge_terminates / C20_merge_reaches / C20_merge_closed) an `uptodate` key in the
   values of a calc_dep task is not modelled); `info`'s status line = that decision in EVERY case -- ignored,
   up-to-date, run, error -- whatever file dependency is missing (C20_info_agrees, C20_info_cmd_agrees,
   C20_info_cmd_agrees_reachable: the repaired DependencyStatus, fixL of Model/Status.v: the first reason handed to
   add_reason / set_reason decides the status, as it does where get_log=False stops); `info`'s
   reasons are exactly the true ones and are empty iff the verdict is up-to-date.
   The three repaired defects stay stated on the code before each repair (`..._legacy_refuted`; the third one,
   C20_info_agrees_legacy_refuted, was the known finding `info-status-differs-missing-file-dep`: `info`'s verdict
   differed from `run`'s when a file dependency was missing). *)
From DoitV Require Import Base Status History StatusP HistoryP Introspect IntrospectP.
From DoitV Require Runner Clean CleanP.
Open Scope Z_scope.

(* ------------------------------------------------------------------ read-only *)
(* get_status, in both modes: the DB is returned unchanged, unless the record of the task was written
   under another checker than the configured one -- then exactly that record is dropped *)
Theorem C20_status_frame : forall (md5 : N -> N) (v : ver) (c : ck) (fs : fsys) (d : db) (t : name) (df : tdef) (get_log : bool),
  let d' := g_db (get_status md5 v c fs d t df get_log) in
  d' = d \/
  ((exists p, r_checker (getrec d t) = Some p /\ p <> c) /\ d' = remove d t).
Proof. exact T_status_frame. Qed.
Print Assumptions C20_status_frame.

(* `list` (any options, any outcome) and `info`: every record of the DB -- in memory and, whatever
   the backend, on disk -- is as before, or is gone and had been written under another checker.
   The file system, the task definitions and the configuration are inputs of the model only. *)
Theorem C20_list_frame : forall (md5 : N -> N) (v : ver) (name_ltb : name -> name -> bool) (iv : iver) (cv : name -> cvals)
    (tb : table) (o : lopts) (c : ck) (fs : fsys) (d : db) (b : backend) (x : name),
  let d' := persisted b d (lres_db d (list_cmd md5 v name_ltb iv cv tb o c fs d)) in
  d' x = d x \/ (d' x = None /\ exists p, r_checker (getrec d x) = Some p /\ p <> c).
Proof. exact T_list_frame. Qed.
Print Assumptions C20_list_frame.

Theorem C20_info_frame : forall (md5 : N -> N) (v : ver) (iv : iver) (cv : name -> cvals) (tb : table) (pos : list name) (hide : bool)
    (c : ck) (fs : fsys) (d : db) (b : backend) (x : name),
  let d' := persisted b d (ires_db d (info_cmd md5 v iv cv tb pos hide c fs d)) in
  d' x = d x \/ (d' x = None /\ exists p, r_checker (getrec d x) = Some p /\ p <> c).
Proof. exact T_info_frame. Qed.
Print Assumptions C20_info_frame.

(* without --status / with --no-status the dependency manager is not asked at all; and when no record
   was written under another checker, nothing changes whatever is asked *)
Theorem C20_no_query_no_change : forall (md5 : N -> N) (v : ver) (name_ltb : name -> name -> bool) (iv : iver) (cv : name -> cvals)
    (tb : table) (o : lopts) (pos : list name) (c : ck) (fs : fsys) (d : db),
  (o_status o = false -> lres_db d (list_cmd md5 v name_ltb iv cv tb o c fs d) = d) /\
  ires_db d (info_cmd md5 v iv cv tb pos true c fs d) = d /\
  (no_foreign c d -> forall hide x,
     lres_db d (list_cmd md5 v name_ltb iv cv tb o c fs d) x = d x /\ ires_db d (info_cmd md5 v iv cv tb pos hide c fs d) x = d x).
Proof. exact T_no_query_no_change. Qed.
Print Assumptions C20_no_query_no_change.

(* an ignore mark AND a changed file-checker setting (seeded change C20d: List._print_task asking get_status BEFORE looking at
   the ignore mark).  C20_list_frame / C20_info_frame allow the record of ANY task written under another checker to go; for a
   task that carries the ignore mark that would be wrong -- `run` tests the mark first (runner.py select_task) and never
   hands the task to get_status, so its record stays and it is skipped as ignored, whatever checker is configured.  No
   hypothesis on the checker: in particular after a switch.  `list` (any options, any outcome, both code versions): the
   record is as before -- in memory and on disk, on every backend --; the letter computed for the task is I and the DB is
   returned as it is; `run` decides "ignored" on any definition; and in the whole command every line of that task shows I,
   examined in a DB where its record is still the initial one. *)
Theorem C20_list_status_ignored_after_checker_switch : forall (md5 : N -> N) (v : ver) (name_ltb : name -> name -> bool) (iv : iver) (cv : name -> cvals)
    (tb : table) (o : lopts) (c : ck) (fs : fsys) (d : db) (b : backend) (x : name),
  status_is_ignore d x = true ->
  persisted b d (lres_db d (list_cmd md5 v name_ltb iv cv tb o c fs d)) x = d x /\
  (forall t, l_name t = x -> task_status md5 v iv cv tb c fs d t = (Some LtI, d)) /\
  (forall df, run_decision md5 v c fs d x df = DIgnore) /\
  (forall pl, print_list name_ltb tb o = POk pl ->
     forall l dk, In (x, l, dk) (status_letters md5 v iv cv tb c fs pl d) -> l = Some LtI /\ dk x = d x).
Proof. exact T_list_status_ignored. Qed.
Print Assumptions C20_list_status_ignored_after_checker_switch.

(* the same for `info` (HEAD, [fixIgn]: the mark is looked at first): whatever task is asked about, with or without
   --no-status, the record of an ignored task is as before; asked about the ignored task itself it answers "ignored",
   prints no reason, returns 0 and leaves the whole DB as it is *)
Theorem C20_info_ignored_after_checker_switch : forall (md5 : N -> N) (v : ver) (iv : iver) (cv : name -> cvals) (tb : table) (pos : list name) (hide : bool)
    (c : ck) (fs : fsys) (d : db) (b : backend) (x : name),
  fixIgn iv = true -> status_is_ignore d x = true ->
  persisted b d (ires_db d (info_cmd md5 v iv cv tb pos hide c fs d)) x = d x /\
  (forall t, lookup tb x = Some t -> info_cmd md5 v iv cv tb [x] false c fs d = IOk IIgnored [] 0 d).
Proof. exact T_info_ignored. Qed.
Print Assumptions C20_info_ignored_after_checker_switch.

(* the commands as histories (Model/History.v): the DB after `list` is the DB after the `Check`
   operations of the printed tasks that are not ignored, `info` is one `CheckLog`; these are status
   queries only (no SaveOk / Remove / Ignore / ResetDep / ForgetAll / file operation), and a status
   query leaves the file system, the clock, the definitions and the configured checker alone *)
Theorem C20_readonly_as_history : forall (md5 : N -> N) (size_of : N -> Z) (v : ver) (iv : iver) (cv : name -> cvals) (tb : table)
    (s : state) (o : lopts) (pl : list ltask) (lines : list lline) (d' : db),
  (forall t dk, In t pl -> shown_def iv cv tb dk t = s_defs s (l_name t)) ->
  print_tasks md5 v iv cv tb (s_ck s) (s_fs s) o pl (s_db s) = LOk lines d' ->
  let ops := list_ops (s_db s) (o_status o) pl in
  forallb query_op ops = true /\
  s_db (run_from md5 size_of v s ops) = d' /\
  same_world s (run_from md5 size_of v s ops) /\
  (forall hide n, forallb query_op (info_ops hide n) = true /\ same_world s (run_from md5 size_of v s (info_ops hide n))).
Proof. exact T_readonly_as_history. Qed.
Print Assumptions C20_readonly_as_history.

(* clean --dry-run (Model/Clean.v, C14): file system and DB untouched; the only actions executed
   are clean actions that asked for the `dryrun` flag, and they are handed dryrun=True *)
Theorem C20_clean_dryrun_frame : forall pat (fnmatch : name -> pat -> bool) tb o w l w',
  Clean.clean_execute pat fnmatch tb o w = Clean.Ok (l, w') -> Clean.o_dryrun o = true ->
  Clean.w_fs w' = Clean.w_fs w /\ (forall x, In x (Clean.w_db w') <-> In x (Clean.w_db w)) /\
  forall e, In e (Clean.w_ev w') -> In e (Clean.w_ev w) \/ harmless e.
Proof. exact T_clean_dryrun_frame. Qed.
Print Assumptions C20_clean_dryrun_frame.

(* targets that are DIRECTORIES (task.py 621-638: os.rmdir of a target that is an empty directory, "cannot
   remove" for one that holds something).  The file system of Model/Clean.v lists directories and files, so
   C20_clean_dryrun_frame above already says that no directory disappears on a dry-run; per target: whatever
   the target is at that moment -- regular file, empty directory, directory that holds something, nothing --
   the dry-run prints exactly what the real clean prints for it from the same state and every file, every
   directory and every DB record stay as they are *)
Theorem C20_clean_dryrun_target_frame : forall (t : name) (w : Clean.world) (p : Clean.path),
  Clean.w_fs (Clean.clean_target t true w p) = Clean.w_fs w /\
  Clean.w_db (Clean.clean_target t true w p) = Clean.w_db w /\
  Clean.w_ev (Clean.clean_target t true w p) = Clean.w_ev (Clean.clean_target t false w p).
Proof. exact T_clean_dryrun_target_frame. Qed.
Print Assumptions C20_clean_dryrun_target_frame.

(* all the targets of a task with `clean: True` *)
Theorem C20_clean_dryrun_targets_frame : forall (t : Clean.task) (w : Clean.world),
  Clean.w_fs (Clean.clean_targets t true w) = Clean.w_fs w /\
  Clean.w_db (Clean.clean_targets t true w) = Clean.w_db w.
Proof. exact T_clean_dryrun_targets_frame. Qed.
Print Assumptions C20_clean_dryrun_targets_frame.

(* a target that is an empty directory: the dry-run adds the message "removing dir" and nothing else; the
   real clean removes the directory (the state the seeded change C20g reached on the dry-run) *)
Theorem C20_clean_empty_dir_target : forall (t : name) (w : Clean.world) (p : Clean.path),
  Clean.fs_get (Clean.w_fs w) p = Some Clean.KDir -> Clean.fs_nonempty (Clean.w_fs w) p = false ->
  Clean.clean_target t true w p = Clean.emit w (Clean.EMsgDir t p) /\
  Clean.w_fs (Clean.clean_target t false w p) = Clean.fs_remove (Clean.w_fs w) p.
Proof. exact T_clean_empty_dir_target. Qed.
Print Assumptions C20_clean_empty_dir_target.

(* ---- clean over clean LISTS (Model/Introspect.v, last part): a task's `clean` is a list mixing
   clean_targets, python callables with / without a `dryrun` parameter and shell commands, in any
   order; actions written by the user carry what they do to files when really executed. ---- *)

(* action i of the list is invoked iff the run is not a dry-run or the action ITSELF is a python-action
   taking `dryrun`; it receives the flag iff it takes it.  Nothing about the other actions of the list
   (before or after it) enters the condition. *)
Theorem C20_clean_action_invoked_iff : forall (t : name) (tg : list file) (dry : bool) (acts : list cact) (w : cworld)
    (t' : name) (i : nat) (fl : option bool),
  In (VExec t' i fl) (c_ev (cclean_actions t tg dry 0 acts w)) <->
  In (VExec t' i fl) (c_ev w) \/
  (t' = t /\ exists a, nth_error acts i = Some a /\ (dry = false \/ takes_dryrun a = true) /\
                       fl = if takes_dryrun a then Some dry else None).
Proof. exact T_clean_action_invoked_iff. Qed.
Print Assumptions C20_clean_action_invoked_iff.

(* on a dry-run: exactly the actions taking `dryrun`, each handed dryrun=True *)
Theorem C20_clean_dryrun_invoked_iff : forall (t : name) (tg : list file) (acts : list cact) (fs : cfs) (d : db) (i : nat) (fl : option bool),
  In (VExec t i fl) (c_ev (cclean_actions t tg true 0 acts {| c_fs := fs; c_db := d; c_ev := [] |})) <->
  exists a, nth_error acts i = Some a /\ takes_dryrun a = true /\ fl = Some true.
Proof. exact T_clean_dryrun_invoked_iff. Qed.
Print Assumptions C20_clean_dryrun_invoked_iff.

(* what would be executed is printed: every action of the list is announced, executed or not *)
Theorem C20_clean_announces_all : forall (t : name) (tg : list file) (dry : bool) (acts : list cact) (w : cworld) (i : nat),
  (i < length acts)%nat -> In (VAnnounce t i) (c_ev (cclean_actions t tg dry 0 acts w)).
Proof. exact T_clean_announces_all. Qed.
Print Assumptions C20_clean_announces_all.

(* frame of one ARBITRARY clean list on a dry-run: the DB is untouched, only actions taking `dryrun`
   are invoked (with True), and no file is created or removed provided the user's dryrun-aware callables
   honour the flag they are given (clean_targets does, by its model) *)
Theorem C20_clean_list_dryrun_frame : forall (t : name) (tg : list file) (acts : list cact) (w : cworld),
  let w' := cclean_actions t tg true 0 acts w in
  c_db w' = c_db w /\
  ((forall a, In a acts -> honours a) -> c_fs w' = c_fs w) /\
  (forall t' i fl, In (VExec t' i fl) (c_ev w') -> In (VExec t' i fl) (c_ev w) \/
     (t' = t /\ fl = Some true /\ exists a, nth_error acts i = Some a /\ takes_dryrun a = true)).
Proof. exact T_clean_list_dryrun_frame. Qed.
Print Assumptions C20_clean_list_dryrun_frame.

(* the command `clean --dry-run` with any of --clean-dep / --clean-all / --forget / positional arguments,
   on any table of tasks with arbitrary clean lists (or `clean: True`): every DB record is as before
   (--forget included); every event added is harmless ([dry_ok]: an announcement, a message, Task.clean
   entered with dryrun=True, or the invocation with dryrun=True of an action that takes `dryrun` and
   belongs to the clean list of the task it is reported for); the set of existing files is as before when
   the dryrun-aware callables honour the flag *)
Theorem C20_clean_cmd_dryrun_frame : forall (pat : Type) (fnmatch : name -> pat -> bool) (tb : ctable) (o : Clean.opts pat) (w : cworld) l w',
  cclean_cmd pat fnmatch tb o w = Clean.Ok (l, w') -> Clean.o_dryrun o = true ->
  (forall x, c_db w' x = c_db w x) /\
  (forall e, In e (c_ev w') -> In e (c_ev w) \/ dry_ok tb e) /\
  ((forall t, In t tb -> honest t) -> c_fs w' = c_fs w).
Proof. exact T_cclean_dryrun_frame. Qed.
Print Assumptions C20_clean_cmd_dryrun_frame.

(* the tasks cleaned, in order, are those of Model/Clean.v's command on the same table (erasing the
   actions to their `takes dryrun` flags): the theorems of C14 about that list apply *)
Theorem C20_clean_cmd_cleaned_is_C14 : forall (pat : Type) (fnmatch : name -> pat -> bool) (tb : ctable) (o : Clean.opts pat) (w : cworld) l w',
  cclean_cmd pat fnmatch tb o w = Clean.Ok (l, w') ->
  exists cw', Clean.clean_execute pat fnmatch (map to_clean_task tb) o
                {| Clean.w_fs := []; Clean.w_db := []; Clean.w_ev := [] |} = Clean.Ok (l, cw').
Proof. exact T_cclean_cleaned_is_C14. Qed.
Print Assumptions C20_clean_cmd_cleaned_is_C14.

(* ------------------------------------------------------------------ list --status agrees with run *)
(* the task lines `list --status` prints are [status_letters]; every letter is the decision `run`
   takes for that task (I ignored / E dependency error / U up-to-date / R run) in the DB as it is
   when the task is examined -- the initial one up to the documented invalidation -- on the
   definition `run` uses: the task's own, plus the file_dep saved by its calc_dep tasks -- declared, or
   named in the values saved by another of its calc_dep tasks, to any depth (C20_merge_reaches) -- which is
   what `run` merges when those tasks are up-to-date.  Holds for the repaired code ([fixCalc]). *)
Theorem C20_list_agrees : forall (md5 : N -> N) (v : ver) (name_ltb : name -> name -> bool) (iv : iver) (cv : name -> cvals)
    (tb : table) (o : lopts) (c : ck) (fs : fsys) (d : db) (pl : list ltask) (lines : list lline) (d' : db),
  fixCalc iv = true ->
  print_list name_ltb tb o = POk pl -> o_status o = true ->
  list_cmd md5 v name_ltb iv cv tb o c fs d = LOk lines d' ->
  filter is_task_line lines = map (fun x => LTask (fst (fst x)) (snd (fst x))) (status_letters md5 v iv cv tb c fs pl d) /\
  forall n l dk, In (n, l, dk) (status_letters md5 v iv cv tb c fs pl d) ->
    (forall x, dk x = d x \/ (dk x = None /\ ck_changed c (getrec d x) = true)) /\
    exists t, In t pl /\ n = l_name t /\
              l = decision_letter (run_decision md5 v c fs dk n (run_def tb (saved_cv cv dk) t)).
Proof. exact T_list_agrees. Qed.
Print Assumptions C20_list_agrees.

(* one task asked about: the letter is the decision in the DB as it is *)
Theorem C20_list_agrees_one : forall (md5 : N -> N) (v : ver) (iv : iver) (cv : name -> cvals) (tb : table) (c : ck) (fs : fsys) (d : db) (t : ltask),
  fixCalc iv = true ->
  fst (task_status md5 v iv cv tb c fs d t) = decision_letter (run_decision md5 v c fs d (l_name t) (run_def tb (saved_cv cv d) t)).
Proof. exact T_list_agrees_one. Qed.
Print Assumptions C20_list_agrees_one.

(* [run_decision] IS what Runner.select_task (Model/Runner.v) does with a task selected for the first
   time whose dependencies are all up-to-date (node.bad_deps = node.ignored_deps = []), without
   --always: the events reported, whether the task is handed to execution, the node's status *)
Theorem C20_run_decision_is_select_task : forall (md5 : N -> N) (v : ver) (tasks : name -> option Dispatch.task) (continue_ : bool)
    (c : ck) (fs : fsys) (d : db) (n : name) (df : tdef) (r : Runner.rstate) (k : name),
  first_selection tasks r k ->
  Dispatch.t_dbignore (Dispatch.get_task tasks k) = status_is_ignore d n ->
  check_of (g_status (get_status md5 v c fs d n df false)) = Some (Dispatch.t_check (Dispatch.get_task tasks k)) ->
  let x := run_decision md5 v c fs d n df in
  let '(go, r') := Runner.select_task tasks continue_ false r k in
  Runner.r_tr r' = Runner.r_tr r ++ decision_events k x ++
                   (if go then [] else match x with
                                      | DRun => if is_nil (Dispatch.t_setup (Dispatch.get_task tasks k))
                                                then [Runner.ERemove k; Runner.EFailure k Runner.kind_dep] else []
                                      | _ => [] end) /\
  (go = true -> x = DRun) /\
  (x <> DRun -> Dispatch.n_st (Dispatch.node_of tasks (Runner.r_d r') k) = decision_node_status x).
Proof. intros md5 v tasks continue_. exact (select_task_decision md5 v tasks continue_). Qed.
Print Assumptions C20_run_decision_is_select_task.

(* ------------------------------------------------------------------ info: the verdict *)
(* `info` (get_log=True) answers up-to-date exactly when get_status(get_log=False) does (StatusP); as long
   as every file dependency exists it answers the same in every case, and that is the decision of
   `run` for a task that is not ignored.  For EVERY version [v] of dependency.py (also before fixL); the full
   statement for the code in /repo is C20_info_agrees below *)
Theorem C20_info_agrees_partial : forall (md5 : N -> N) (v : ver) (c : ck) (fs : fsys) (d : db) (t : name) (df : tdef),
  (g_status (get_status md5 v c fs d t df true) = UpToDate <-> g_status (get_status md5 v c fs d t df false) = UpToDate) /\
  ((forall f, In f (file_dep df) -> fs f <> None) ->
   g_status (get_status md5 v c fs d t df true) <> Crash ->
   g_status (get_status md5 v c fs d t df true) = g_status (get_status md5 v c fs d t df false) /\
   (status_is_ignore d t = false ->
    decision_of_status (g_status (get_status md5 v c fs d t df true)) = run_decision md5 v c fs d t df)).
Proof. exact T_info_agrees_partial. Qed.
Print Assumptions C20_info_agrees_partial.

(* the status line `info` prints (repaired code) against the decision of `run` on the merged definition:
   ignored iff `run` ignores; up-to-date iff `run` says up-to-date; the same in every case when every
   file dependency exists.  Holds for EVERY version [v] of dependency.py, also before fixL; for the code in /repo the
   restriction is gone: C20_info_cmd_agrees below *)
Theorem C20_info_cmd_agrees_partial : forall (md5 : N -> N) (v : ver) (iv : iver) (cv : name -> cvals) (tb : table)
    (n : name) (t : ltask) (c : ck) (fs : fsys) (d : db) (st : istatus) (lines : list iline) (rc : Z) (d' : db),
  fixCalc iv = true -> fixIgn iv = true ->
  lookup tb n = Some t ->
  info_cmd md5 v iv cv tb [n] false c fs d = IOk st lines rc d' ->
  let x := run_decision md5 v c fs d (l_name t) (run_def tb (saved_cv cv d) t) in
  (x = DIgnore <-> st = IIgnored) /\
  (x = DUpToDate <-> st = IStatus UpToDate) /\
  ((forall f, In f (file_dep (run_def tb (saved_cv cv d) t)) -> fs f <> None) -> istatus_decision st = Some x).
Proof. exact T_info_cmd_agrees_partial. Qed.
Print Assumptions C20_info_cmd_agrees_partial.

(* ------------------------------------------------------------------ info: the verdict, repaired code (fixL) *)
(* get_status of the code in /repo: get_log=True (`info`) answers what get_log=False (`run`, `list --status`)
   answers -- up-to-date, run or error; NO hypothesis on the files.  The TypeError of Model/Status.v ([Crash]: a
   state saved by the other checker handed to MD5Checker; an exception, not a status) is the one exception and is
   stated exactly: get_log=True compares every file dependency where get_log=False stops at the first reason, so
   it can raise where get_log=False answers (C20_info_typeerror_only_in_log_mode) -- never the other way round --,
   and neither raises on a well-typed record, i.e. in every state reached by a history (C20_reachable_no_typeerror).
   For a task that is not ignored that answer is the decision of `run`. *)
Theorem C20_info_agrees : forall (md5 : N -> N) (c : ck) (fs : fsys) (d : db) (t : name) (df : tdef),
  let gl := g_status (get_status md5 current c fs d t df true) in
  let gn := g_status (get_status md5 current c fs d t df false) in
  (gl <> Crash -> gl = gn) /\
  (gn = Crash -> gl = Crash) /\
  (rec_typed (getrec d t) -> gl = gn /\ gl <> Crash) /\
  (gl <> Crash -> status_is_ignore d t = false -> decision_of_status gl = run_decision md5 current c fs d t df).
Proof. intros md5 c fs d t df. exact (T_info_agrees md5 current c fs d t df eq_refl). Qed.
Print Assumptions C20_info_agrees.

(* the same for every code version that has the repair (whatever the other flags) *)
Theorem C20_info_agrees_fixL : forall (md5 : N -> N) (v : ver) (c : ck) (fs : fsys) (d : db) (t : name) (df : tdef),
  fixL v = true ->
  g_status (get_status md5 v c fs d t df true) <> Crash ->
  g_status (get_status md5 v c fs d t df true) = g_status (get_status md5 v c fs d t df false).
Proof. exact get_status_modes_agree_fixL. Qed.
Print Assumptions C20_info_agrees_fixL.

(* in every state reached by a history: unconditionally *)
Theorem C20_info_agrees_reachable : forall (md5 : N -> N) (size_of : N -> Z) (ops : list op) (t : name) (df : tdef),
  let s := run md5 size_of current ops in
  g_status (get_status md5 current (s_ck s) (s_fs s) (s_db s) t df true) =
  g_status (get_status md5 current (s_ck s) (s_fs s) (s_db s) t df false).
Proof.
  intros md5 size_of ops t df. cbv zeta. apply get_status_modes_agree_fixL; [reflexivity|].
  exact (T_reachable_no_typeerror md5 size_of ops t df true).
Qed.
Print Assumptions C20_info_agrees_reachable.

(* the repair is confined to the accumulate-all mode: the decision of `run` / `list --status` (get_log=False) is the
   same function with and without it, reasons, `changed` list and DB included *)
Theorem C20_fix_does_not_reach_run : forall (md5 : N -> N) (v : ver) (b : bool) (c : ck) (fs : fsys) (d : db) (t : name) (df : tdef),
  get_status md5 (with_fixL v b) c fs d t df false = get_status md5 v c fs d t df false.
Proof. exact get_status_nolog_fixL_irrelevant. Qed.
Print Assumptions C20_fix_does_not_reach_run.

(* the status line `info` prints (code in /repo) IS the decision of `run` on the merged definition -- ignored,
   up-to-date, run, error -- whenever `info` answers; no hypothesis on the file system (upgrade of
   C20_info_cmd_agrees_partial) *)
Theorem C20_info_cmd_agrees : forall (md5 : N -> N) (iv : iver) (cv : name -> cvals) (tb : table)
    (n : name) (t : ltask) (c : ck) (fs : fsys) (d : db) (st : istatus) (lines : list iline) (rc : Z) (d' : db),
  fixCalc iv = true -> fixIgn iv = true ->
  lookup tb n = Some t ->
  info_cmd md5 current iv cv tb [n] false c fs d = IOk st lines rc d' ->
  istatus_decision st = Some (run_decision md5 current c fs d (l_name t) (run_def tb (saved_cv cv d) t)).
Proof. intros md5 iv cv tb n t c fs d st lines rc d'. exact (T_info_cmd_agrees md5 current iv cv tb n t c fs d st lines rc d' eq_refl). Qed.
Print Assumptions C20_info_cmd_agrees.

(* the only other outcome of `info T` for a task of the table is the TypeError escaping get_status(get_log=True) ... *)
Theorem C20_info_cmd_answers : forall (md5 : N -> N) (v : ver) (iv : iver) (cv : name -> cvals) (tb : table)
    (n : name) (t : ltask) (c : ck) (fs : fsys) (d : db),
  lookup tb n = Some t ->
  (exists st lines rc d', info_cmd md5 v iv cv tb [n] false c fs d = IOk st lines rc d') \/
  (fixIgn iv && status_is_ignore d (l_name t) = false /\
   g_status (get_status md5 v c fs d (l_name t) (shown_def iv cv tb d t) true) = Crash /\
   exists d', info_cmd md5 v iv cv tb [n] false c fs d = ICrash d').
Proof. exact T_info_cmd_answers. Qed.
Print Assumptions C20_info_cmd_answers.

(* ... which does not exist in states reached by histories: there `info T` always answers, with the decision of `run` *)
Theorem C20_info_cmd_agrees_reachable : forall (md5 : N -> N) (size_of : N -> Z) (ops : list op) (iv : iver) (cv : name -> cvals) (tb : table)
    (n : name) (t : ltask),
  fixCalc iv = true -> fixIgn iv = true ->
  lookup tb n = Some t ->
  let s := run md5 size_of current ops in
  exists st lines rc d',
    info_cmd md5 current iv cv tb [n] false (s_ck s) (s_fs s) (s_db s) = IOk st lines rc d' /\
    istatus_decision st = Some (run_decision md5 current (s_ck s) (s_fs s) (s_db s) (l_name t) (run_def tb (saved_cv cv (s_db s)) t)).
Proof. exact T_info_cmd_agrees_reachable. Qed.
Print Assumptions C20_info_cmd_agrees_reachable.

(* the exception of C20_info_agrees is real on a DB that no history produces: a record whose 'checker:' says md5
   and that holds a float for file 0; an uptodate item is false.  get_log=False answers "run" without looking at
   the file, get_log=True compares it and raises *)
Definition bad_rec : rec :=
  {| r_deps := Some [0%N]; r_checker := Some MD5; r_saved := fun f => if N.eqb f 0 then Some (TSstate 5) else None;
     r_values := []; r_result := None; r_ignore := false |}.
Theorem C20_info_typeerror_only_in_log_mode :
  let fs : fsys := fun f => if N.eqb f 0 then Some {| mtime := 1; size := 4; content := 0%N |} else None in
  let d : db := fun t => if N.eqb t 7 then Some bad_rec else None in
  let df := {| file_dep := [0%N]; targets := []; uptodate := [UBool false]; act_values := []; act_result := None |} in
  ~ rec_typed (getrec d 7%N) /\
  g_status (get_status (fun x => x) current MD5 fs d 7%N df true) = Crash /\
  g_status (get_status (fun x => x) current MD5 fs d 7%N df false) = Run.
Proof.
  cbv zeta. split; [|split; vm_compute; reflexivity].
  intros H. specialize (H 0%N (TSstate 5) eq_refl). discriminate.
Qed.
Print Assumptions C20_info_typeerror_only_in_log_mode.

(* the code before the repair of DependencyStatus (was the known finding `info-status-differs-missing-file-dep`;
   [before_fixL] = the code in /repo without that commit): `info`'s verdict differed from `run`'s when a file
   dependency was missing.  After a successful run (a state reached by a history): (1) one dependency rewritten,
   another deleted: `run` reports a dependency error, `info` said "run" (the later `changed_file_dep` overwrote the
   status set by `missing_file_dep`); (2) a dependency deleted, an uptodate item false: `run` executes the task,
   `info` said "error".  In both states the repaired `info` says what `run` does. *)
Definition before_fixL : ver := {| fixA := true; fixB := true; fixC := true; fixL := false |}.
Definition nocf : name -> cvals := fun _ => no_cvals.
Definition i_tab (s : state) : table :=
  [{| l_name := 7%N; l_private := false; l_subtask_of := None; l_task_dep := []; l_calc_dep := []; l_def := s_defs s 7%N |}].
Definition d01 : tdef := {| file_dep := [0; 1]%N; targets := []; uptodate := []; act_values := []; act_result := None |}.
Definition d01f : tdef := {| file_dep := [0; 1]%N; targets := []; uptodate := [UBool false]; act_values := []; act_result := None |}.
Theorem C20_info_agrees_legacy_refuted :
  (exists ops, fs_fresh ops = true /\
     let s := run (fun x => x) (fun _ => 4) current ops in
     (exists lines d', info_cmd (fun x => x) before_fixL icurrent nocf (i_tab s) [7%N] false (s_ck s) (s_fs s) (s_db s) = IOk (IStatus Run) lines 1 d') /\
     run_decision (fun x => x) before_fixL (s_ck s) (s_fs s) (s_db s) 7%N (s_defs s 7%N) = DError /\
     run_decision (fun x => x) current (s_ck s) (s_fs s) (s_db s) 7%N (s_defs s 7%N) = DError /\
     (exists lines d', info_cmd (fun x => x) current icurrent nocf (i_tab s) [7%N] false (s_ck s) (s_fs s) (s_db s) = IOk (IStatus Error) lines 1 d'
                       /\ In (IItem KMissingDep 1%N) lines /\ In (IItem KChanged 0%N) lines)) /\
  (exists ops, fs_fresh ops = true /\
     let s := run (fun x => x) (fun _ => 4) current ops in
     (exists lines d', info_cmd (fun x => x) before_fixL icurrent nocf (i_tab s) [7%N] false (s_ck s) (s_fs s) (s_db s) = IOk (IStatus Error) lines 1 d') /\
     run_decision (fun x => x) before_fixL (s_ck s) (s_fs s) (s_db s) 7%N (s_defs s 7%N) = DRun /\
     run_decision (fun x => x) current (s_ck s) (s_fs s) (s_db s) 7%N (s_defs s 7%N) = DRun /\
     (exists lines d', info_cmd (fun x => x) current icurrent nocf (i_tab s) [7%N] false (s_ck s) (s_fs s) (s_db s) = IOk (IStatus Run) lines 1 d'
                       /\ In (IItem KMissingDep 1%N) lines /\ In (IUtdItem 0%nat) lines)).
Proof.
  split.
  - exists [Write 0 0; Write 1 1; SetDef 7 d01; SaveOk 7; Write 0 3; Delete 1]%N.
    split; [reflexivity|]. cbv zeta. split; [eexists; eexists; vm_compute; reflexivity |].
    split; [vm_compute; reflexivity|]. split; [vm_compute; reflexivity|].
    eexists; eexists; split; [vm_compute; reflexivity|]. split; simpl; auto 8.
  - exists [Write 0 0; Write 1 1; SetDef 7 d01f; SaveOk 7; Delete 1]%N.
    split; [reflexivity|]. cbv zeta. split; [eexists; eexists; vm_compute; reflexivity |].
    split; [vm_compute; reflexivity|]. split; [vm_compute; reflexivity|].
    eexists; eexists; split; [vm_compute; reflexivity|]. split; simpl; auto 8.
Qed.
Print Assumptions C20_info_agrees_legacy_refuted.

(* the code before 33e694f: `info` never looked at the ignore flag -- for an ignored task it answered
   up-to-date (or run) where `run` and `list --status` say ignored; the repaired code says ignored *)
Theorem C20_info_ignored_legacy_refuted :
  exists ops, fs_fresh ops = true /\
     let s := run (fun x => x) (fun _ => 4) current ops in
     run_decision (fun x => x) current (s_ck s) (s_fs s) (s_db s) 7%N (s_defs s 7%N) = DIgnore /\
     (exists d', info_cmd (fun x => x) current ilegacy nocf (i_tab s) [7%N] false (s_ck s) (s_fs s) (s_db s) = IOk (IStatus UpToDate) [] 0 d') /\
     (exists d', info_cmd (fun x => x) current icurrent nocf (i_tab s) [7%N] false (s_ck s) (s_fs s) (s_db s) = IOk IIgnored [] 0 d').
Proof.
  exists [Write 0 0; Write 1 1; SetDef 7 d01; SaveOk 7; Ignore 7]%N.
  split; [reflexivity|]. cbv zeta. split; [vm_compute; reflexivity|]. split; eexists; vm_compute; reflexivity.
Qed.
Print Assumptions C20_info_ignored_legacy_refuted.

(* ------------------------------------------------------------------ info: the reasons *)
(* every line `info` can print against the fact it states, for the repaired dep-set comparison
   (fixA; [current] has it), whenever get_status does not end in the TypeError of Status.v (never, in
   states reached by histories: C03_no_typeerror).  [rc] is the task's record after the
   invalidation: the stored one, or the empty record when the checker changed. *)
Theorem C20_info_reasons : forall (md5 : N -> N) (v : ver) (c : ck) (fs : fsys) (d : db) (t : name) (df : tdef),
  fixA v = true ->
  let g := get_status md5 v c fs d t df true in
  g_status g <> Crash ->
  let lines := get_reasons (g_reasons g) in
  let rc := getrec (g_db g) t in
  (ck_changed c (getrec d t) = false -> rc = getrec d t) /\
  (ck_changed c (getrec d t) = true -> rc = empty_rec) /\
  (In INoDeps lines <-> ~ some_dep d t df) /\
  (forall i, In (IUtdItem i) lines <-> nth_error (map (eval_utd d t) (uptodate df)) i = Some (Some false)) /\
  (forall p c', In (IChecker p c') lines <-> r_checker (getrec d t) = Some p /\ p <> c /\ c' = c) /\
  (forall x, In (IItem KMissingTarget x) lines <-> In x (targets df) /\ exists_ fs x = false) /\
  (forall f, In (IItem KMissingDep f) lines <-> In f (file_dep df) /\ fs f = None) /\
  (forall f, In (IItem KChanged f) lines <-> In f (file_dep df) /\ dep_verdict md5 v c fs rc f = FChanged) /\
  (forall f, In (IItem KAdded f) lines <-> In f (file_dep df) /\ exists p, r_deps rc = Some p /\ ~ In f p) /\
  (forall f, In (IItem KRemoved f) lines <-> ~ In f (file_dep df) /\ exists p, r_deps rc = Some p /\ In f p).
Proof. intros md5 v c fs d t df HA. exact (info_lines_true md5 v c fs d t df HA). Qed.
Print Assumptions C20_info_reasons.

(* "changed" means: the file exists and has no saved state, or (since the repair fixC of the loop over
   file_dep; [current] has it) it is not in the saved 'deps:' list -- then `info` lists it under
   "added" as well --, or the checker's rule says modified *)
Theorem C20_info_reasons_changed : forall (md5 : N -> N) (v : ver) (c : ck) (fs : fsys) (r : rec) (f : file),
  dep_verdict md5 v c fs r f = FChanged <->
  exists st, fs f = Some st /\
    (r_saved r f = None \/
     (r_saved r f <> None /\ fixC v = true /\ outside_saved_deps r f = true) \/
     (fixC v && outside_saved_deps r f = false /\ exists e, r_saved r f = Some e /\ check_modified md5 c st e = Some true)).
Proof. exact file_verdict_changed. Qed.
Theorem C20_info_reasons_outside : forall (r : rec) (f : file),
  outside_saved_deps r f = true <-> exists p, r_deps r = Some p /\ ~ In f p.
Proof. exact outside_saved_deps_iff. Qed.
Print Assumptions C20_info_reasons_outside.
Print Assumptions C20_info_reasons_changed.

(* no reason is printed exactly when the verdict is up-to-date: whenever `info` says run / error it
   says why, and it never gives a reason for an up-to-date task *)
Theorem C20_info_no_reason_iff_uptodate : forall (md5 : N -> N) (v : ver) (c : ck) (fs : fsys) (d : db) (t : name) (df : tdef),
  let g := get_status md5 v c fs d t df true in
  g_status g <> Crash ->
  (get_reasons (g_reasons g) = [] <-> g_status g = UpToDate).
Proof. exact info_no_reason_iff_uptodate. Qed.
Print Assumptions C20_info_no_reason_iff_uptodate.

(* in every state reached by a history the TypeError hypothesis holds, whatever definition is asked about *)
Theorem C20_reachable_no_typeerror : forall (md5 : N -> N) (size_of : N -> Z) (ops : list op) (t : name) (df : tdef) (gl : bool),
  let s := run md5 size_of current ops in
  g_status (get_status md5 current (s_ck s) (s_fs s) (s_db s) t df gl) <> Crash.
Proof. exact T_reachable_no_typeerror. Qed.
Print Assumptions C20_reachable_no_typeerror.

(* ------------------------------------------------------------------ calc_dep: the code before a4fdc5e *)
(* task 8 gets its only file_dep (file 0) from calc_dep task 7 (which saved it).  `run` merged it and
   recorded a successful execution; nothing changed since: `run` says up-to-date.  The old `list
   --status` printed R and the old `info` "The task has no dependencies." and "file dependencies
   were removed: 0"; the repaired commands say U / up-to-date *)
Definition dep0 : tdef := {| file_dep := [0%N]; targets := []; uptodate := []; act_values := []; act_result := None |}.
Definition dep1 : tdef := {| file_dep := [1%N]; targets := []; uptodate := []; act_values := []; act_result := None |}.
Definition t7 : ltask :=
  {| l_name := 7%N; l_private := false; l_subtask_of := None; l_task_dep := []; l_calc_dep := []; l_def := dep1 |}.
Definition t8 : ltask :=
  {| l_name := 8%N; l_private := false; l_subtask_of := None; l_task_dep := []; l_calc_dep := [7%N]; l_def := empty_def |}.
Definition cf7 : name -> cvals := fun c => if N.eqb c 7 then {| cv_file_dep := [0%N]; cv_calc_dep := []; cv_task_dep := [] |} else no_cvals.
Theorem C20_list_calc_dep_legacy_refuted :
  exists (ops : list op),
    fs_fresh ops = true /\
    let s := run (fun x => x) (fun _ => 4) current ops in
    let tb := [t7; t8] in
    s_defs s 8%N = l_def t8 /\
    run_decision (fun x => x) current (s_ck s) (s_fs s) (s_db s) 8%N (run_def tb (saved_cv cf7 (s_db s)) t8) = DUpToDate /\
    fst (task_status (fun x => x) current ilegacy cf7 tb (s_ck s) (s_fs s) (s_db s) t8) = Some LtR /\
    (exists lines d', info_cmd (fun x => x) current ilegacy cf7 tb [8%N] false (s_ck s) (s_fs s) (s_db s) = IOk (IStatus Run) lines 1 d' /\
                      In INoDeps lines /\ In (IItem KRemoved 0%N) lines) /\
    fst (task_status (fun x => x) current icurrent cf7 tb (s_ck s) (s_fs s) (s_db s) t8) = Some LtU /\
    (exists d', info_cmd (fun x => x) current icurrent cf7 tb [8%N] false (s_ck s) (s_fs s) (s_db s) = IOk (IStatus UpToDate) [] 0 d').
Proof.
  exists [Write 0 0; Write 1 1; SetDef 7 dep1; SaveOk 7; SetDef 8 dep0; SaveOk 8; SetDef 8 empty_def]%N.
  split; [reflexivity|]. cbv zeta. split; [reflexivity|]. split; [vm_compute; reflexivity|]. split; [vm_compute; reflexivity|].
  split; [eexists; eexists; split; [vm_compute; reflexivity|]; simpl; auto 6|].
  split; [vm_compute; reflexivity|]. eexists; vm_compute; reflexivity.
Qed.
Print Assumptions C20_list_calc_dep_legacy_refuted.

(* ------------------------------------------------------------------ calc_dep: the merge is a fix-point *)
(* [merged] runs the loop of cmd_base.merge_calc_dep (and of the dispatcher) with one more round than
   there are tasks: the out-of-fuel value never occurs, whatever the saved values say (chains, diamonds,
   values naming each other or themselves, names that are not tasks) *)
Theorem C20_merge_terminates : forall (tb : table) (vals : name -> cvals) (t : ltask), merged tb vals t <> None.
Proof. exact merged_some. Qed.
Print Assumptions C20_merge_terminates.

(* the Task object after the merge ([run_task]; its [m_def] is [run_def], the definition of C20_list_agrees
   and C20_info_cmd_agrees_partial) holds: as calc_dep exactly the names reachable from the task's own calc_dep
   through the 'calc_dep' lists saved by reachable names that are tasks ([creach]); as file_dep / task_dep its
   own plus exactly what those reachable tasks saved under 'file_dep' / 'task_dep'; nothing else changes *)
Theorem C20_merge_reaches : forall (tb : table) (vals : name -> cvals) (t : ltask),
  let m := run_task tb vals t in
  merged tb vals t = Some m /\
  (forall c, In c (m_calc m) <-> creach tb vals t c) /\
  (forall f, In f (file_dep (m_def m)) <->
     In f (file_dep (l_def t)) \/ exists c, creach tb vals t c /\ lookup tb c <> None /\ In f (cv_file_dep (vals c))) /\
  (forall x, In x (m_task_dep m) <->
     In x (l_task_dep t) \/ exists c, creach tb vals t c /\ lookup tb c <> None /\ In x (cv_task_dep (vals c))) /\
  targets (m_def m) = targets (l_def t) /\ uptodate (m_def m) = uptodate (l_def t) /\
  act_values (m_def m) = act_values (l_def t) /\ act_result (m_def m) = act_result (l_def t).
Proof. exact T_merge_reaches. Qed.
Print Assumptions C20_merge_reaches.

(* ... and is a fix-point of Task.update_deps: merging the values of any of its calc_dep tasks again adds nothing *)
Theorem C20_merge_closed : forall (tb : table) (vals : name -> cvals) (t : ltask) (c : name),
  let m := run_task tb vals t in
  In c (m_calc m) -> lookup tb c <> None ->
  (forall c', In c' (m_calc (update_deps m (vals c))) <-> In c' (m_calc m)) /\
  (forall f, In f (file_dep (m_def (update_deps m (vals c)))) <-> In f (file_dep (m_def m))) /\
  (forall x, In x (m_task_dep (update_deps m (vals c))) <-> In x (m_task_dep m)).
Proof. exact T_merge_closed. Qed.
Print Assumptions C20_merge_closed.

(* a chain with a repeat: task 8 declares calc_dep 7; 7 saved calc_dep [6; 7] and task_dep [5]; 6 saved file_dep [0]
   and calc_dep [7].  The merge needs two rounds (with fuel for one round and the final test it runs out), and
   the file_dep that decides the status of 8 is only found in the second: after a successful run with nothing
   changed since, `run`, `list --status` and `info` say up-to-date, where one pass over task 8's own calc_dep
   (the values of 7 only) gives a definition on which the verdict is "run" *)
Definition k6 : ltask :=
  {| l_name := 6%N; l_private := false; l_subtask_of := None; l_task_dep := []; l_calc_dep := []; l_def := dep1 |}.
Definition cvch : name -> cvals := fun c =>
  if N.eqb c 7 then {| cv_file_dep := []; cv_calc_dep := [6; 7]%N; cv_task_dep := [5%N] |}
  else if N.eqb c 6 then {| cv_file_dep := [0%N]; cv_calc_dep := [7%N]; cv_task_dep := [] |} else no_cvals.
Example C20_merge_chain_nonvacuous :
  let tb := [k6; t7; t8] in
  creach tb cvch t8 6%N /\
  merged tb cvch t8 = Some {| m_def := dep0; m_calc := [7; 6]%N; m_task_dep := [5%N] |} /\
  merge_loop 2 tb cvch [] (minit t8) = None /\
  exists (ops : list op),
    fs_fresh ops = true /\
    let s := run (fun x => x) (fun _ => 4) current ops in
    s_defs s 8%N = l_def t8 /\
    run_decision (fun x => x) current (s_ck s) (s_fs s) (s_db s) 8%N (run_def tb (saved_cv cvch (s_db s)) t8) = DUpToDate /\
    fst (task_status (fun x => x) current icurrent cvch tb (s_ck s) (s_fs s) (s_db s) t8) = Some LtU /\
    (exists d', info_cmd (fun x => x) current icurrent cvch tb [8%N] false (s_ck s) (s_fs s) (s_db s) = IOk (IStatus UpToDate) [] 0 d') /\
    run_decision (fun x => x) current (s_ck s) (s_fs s) (s_db s) 8%N
      (m_def (fold_left (fun m c => update_deps m (saved_cv cvch (s_db s) c)) (l_calc_dep t8) (minit t8))) = DRun.
Proof.
  cbv zeta. split; [eapply cr_step; [apply cr_own; left; reflexivity|vm_compute; discriminate|left; reflexivity]|].
  split; [vm_compute; reflexivity|]. split; [vm_compute; reflexivity|].
  exists [Write 0 0; Write 1 1; SetDef 6 dep1; SaveOk 6; SetDef 7 dep1; SaveOk 7; SetDef 8 dep0; SaveOk 8; SetDef 8 empty_def]%N.
  split; [reflexivity|]. cbv zeta. split; [reflexivity|]. split; [vm_compute; reflexivity|]. split; [vm_compute; reflexivity|].
  split; [eexists; vm_compute; reflexivity|]. vm_compute; reflexivity.
Qed.

(* ------------------------------------------------------------------ non-vacuity *)
(* a history after which `list --status --all -p --deps` prints I, U, R and E lines, leaves the DB as it
   is, and `info` has something to say *)
Definition dt : tdef := {| file_dep := [2%N]; targets := [5%N]; uptodate := [UBool true; UNone]; act_values := []; act_result := None |}.
Definition ex_ops : list op :=
  [Write 0 0; Write 1 1; Write 2 2; Write 5 2; SetDef 0 dt; SetDef 1 dep0; SetDef 2 d01; SetDef 3 dep0; SaveOk 0; SaveOk 1; SaveOk 2; SaveOk 3;
   Ignore 3; Touch 2; Write 0 3; Delete 1]%N.
Definition ex_tab : table :=
  map (fun n => {| l_name := n; l_private := N.eqb n 3; l_subtask_of := None; l_task_dep := []; l_calc_dep := [];
                   l_def := s_defs (run (fun x => x) (fun _ => 4) current ex_ops) n |}) [0; 1; 2; 3]%N.
Definition ex_opts : lopts :=
  {| o_subtasks := true; o_status := true; o_private := true; o_list_deps := true; o_sort_name := true; o_pos := [] |}.
Example C20_list_nonvacuous :
  let s := run (fun x => x) (fun _ => 4) current ex_ops in
  fs_fresh ex_ops = true /\
  exists lines d',
    list_cmd (fun x => x) current N.ltb icurrent nocf ex_tab ex_opts (s_ck s) (s_fs s) (s_db s) = LOk lines d' /\
    filter is_task_line lines = [LTask 0 (Some LtU); LTask 1 (Some LtR); LTask 2 (Some LtE); LTask 3 (Some LtI)]%N /\
    map (run_decision (fun x => x) current (s_ck s) (s_fs s) (s_db s) 2%N) [s_defs s 2%N] = [DError] /\
    no_foreign (s_ck s) (s_db s).
Proof.
  cbv zeta. split; [reflexivity|]. eexists. eexists. split; [vm_compute; reflexivity|].
  split; [vm_compute; reflexivity|]. split; [vm_compute; reflexivity|].
  intros x. unfold ck_changed, getrec. vm_compute.
  destruct x as [|[p|p|]]; try reflexivity; destruct p as [p|p|]; try reflexivity; destruct p; reflexivity.
Qed.

(* the documented exception does happen: checker switched after a successful run; `list --status`
   and `info` drop the record (in memory; on disk with the dbm backend only) *)
Example C20_frame_exception_nonvacuous :
  let s := run (fun x => x) (fun _ => 4) current [Write 0 0; SetDef 1 dep0; SaveOk 1; SetChecker TS]%N in
  s_db s 1%N <> None /\
  (exists lines d', info_cmd (fun x => x) current icurrent nocf [{| l_name := 1%N; l_private := false; l_subtask_of := None; l_task_dep := []; l_calc_dep := []; l_def := dep0 |}]
                      [1%N] false (s_ck s) (s_fs s) (s_db s) = IOk (IStatus Run) lines 1 d' /\ d' 1%N = None /\
                    In (IChecker MD5 TS) lines /\ In (IItem KChanged 0%N) lines /\
                    persisted BDbm (s_db s) d' 1%N = None /\ persisted BJson (s_db s) d' 1%N = s_db s 1%N).
Proof.
  cbv zeta. split; [vm_compute; discriminate|]. eexists. eexists. split; [vm_compute; reflexivity|].
  split; [reflexivity|]. split; [simpl; auto|]. split; [simpl; auto 6|]. split; reflexivity.
Qed.

(* ignore mark + checker switch: run t1 t2 (md5); `ignore t1`; check_file_uptodate = timestamp.  Both records were written under
   the other checker and t1 carries the mark: the hypotheses of C20_list_status_ignored_after_checker_switch hold where the
   exception of C20_list_frame applies.  `list --status` prints I for t1 and R for t2; t2's record goes (the documented
   invalidation), t1's stays -- also on disk with dbm --; `info t1` says ignored.  Asking get_status FIRST (what
   List._print_task must not do) would answer "run" and drop t1's record together with its mark. *)
Definition isw_tab : table :=
  [{| l_name := 1%N; l_private := false; l_subtask_of := None; l_task_dep := []; l_calc_dep := []; l_def := dep0 |};
   {| l_name := 2%N; l_private := false; l_subtask_of := None; l_task_dep := []; l_calc_dep := []; l_def := dep1 |}].
Example C20_ignored_after_checker_switch_nonvacuous :
  let s := run (fun x => x) (fun _ => 4) current [Write 0 0; Write 1 1; SetDef 1 dep0; SetDef 2 dep1; SaveOk 1; SaveOk 2; Ignore 1; SetChecker TS]%N in
  status_is_ignore (s_db s) 1%N = true /\ ck_changed (s_ck s) (getrec (s_db s) 1%N) = true /\ ck_changed (s_ck s) (getrec (s_db s) 2%N) = true /\
  (exists lines d',
     list_cmd (fun x => x) current N.ltb icurrent nocf isw_tab ex_opts (s_ck s) (s_fs s) (s_db s) = LOk lines d' /\
     filter is_task_line lines = [LTask 1 (Some LtI); LTask 2 (Some LtR)]%N /\
     d' 1%N = s_db s 1%N /\ d' 1%N <> None /\ d' 2%N = None /\
     persisted BDbm (s_db s) d' 1%N = s_db s 1%N /\ persisted BDbm (s_db s) d' 2%N = None /\ persisted BSqlite (s_db s) d' 2%N = s_db s 2%N) /\
  info_cmd (fun x => x) current icurrent nocf isw_tab [1%N] false (s_ck s) (s_fs s) (s_db s) = IOk IIgnored [] 0 (s_db s) /\
  run_decision (fun x => x) current (s_ck s) (s_fs s) (s_db s) 1%N dep0 = DIgnore /\
  (let g := get_status (fun x => x) current (s_ck s) (s_fs s) (s_db s) 1%N dep0 false in
   g_status g = Run /\ g_db g 1%N = None /\ status_is_ignore (g_db g) 1%N = false).
Proof.
  cbv zeta. split; [vm_compute; reflexivity|]. split; [vm_compute; reflexivity|]. split; [vm_compute; reflexivity|].
  split.
  - eexists. eexists. split; [vm_compute; reflexivity|].
    split; [vm_compute; reflexivity|]. split; [vm_compute; reflexivity|]. split; [vm_compute; discriminate|].
    split; [vm_compute; reflexivity|]. split; [vm_compute; reflexivity|]. split; vm_compute; reflexivity.
  - split; [vm_compute; reflexivity|]. split; [vm_compute; reflexivity|].
    split; [vm_compute; reflexivity|]. split; vm_compute; reflexivity.
Qed.

(* select_task's hypotheses are satisfiable: a fresh runner state, one task, up-to-date *)
Example C20_select_task_nonvacuous :
  let tasks := fun k : name => if N.eqb k 1 then Some (Dispatch.Build_task [] [] [] false false Dispatch.CkUpToDate false Dispatch.OOk [] [] []) else None in
  first_selection tasks (Runner.r_init [1%N]) 1%N /\
  Runner.r_tr (snd (Runner.select_task tasks false false (Runner.r_init [1%N]) 1%N)) = decision_events 1%N DUpToDate.
Proof. cbv zeta. split; [repeat split|]; vm_compute; reflexivity. Qed.

(* clean --dry-run: an execution the frame theorem speaks about (C14's table) *)
Example C20_clean_dryrun_nonvacuous :
  exists l w', Clean.clean_execute unit (fun _ _ => false)
                 [{| Clean.t_name := 1%N; Clean.t_task_dep := []; Clean.t_setup := []; Clean.t_subtask_of := None;
                     Clean.t_clean := Some [true; false]; Clean.t_targets := [[1%N]] |}]
                 {| Clean.o_dryrun := true; Clean.o_cleandep := false; Clean.o_cleanall := true; Clean.o_forget := true;
                    Clean.o_pos := []; Clean.o_sel := None |}
                 {| Clean.w_fs := [([1%N], Clean.KFile)]; Clean.w_db := [1%N]; Clean.w_ev := [] |} = Clean.Ok (l, w') /\
               In (Clean.EExec 1%N 0 (Some true)) (Clean.w_ev w') /\ ~ In (Clean.EExec 1%N 1 None) (Clean.w_ev w').
Proof.
  eexists. eexists. split; [vm_compute; reflexivity|]. split; [simpl; auto|].
  simpl. intros [H|[H|[H|[H|H]]]]; try discriminate; auto.
Qed.

(* directories as targets (the history of the demo of C20g): task 1 has `clean: True` and the targets
   [1] (a directory, EMPTY since the file [1;2] -- a target too -- was deleted after the run) and [1;2];
   task 2 has the nested directories [3] and [3;4], both targets, [3;4] empty; task 3 the directory [5]
   that holds a foreign file.  `clean -n -a --forget`: "removing dir [1]", "removing dir [3;4]", "cannot
   remove [3]" (it still holds [3;4]: nothing was removed), "cannot remove [5]"; tree and DB as before.
   The same command without -n removes [1], [3;4] and then [3], keeps [5], forgets the three tasks. *)
Definition dir_tab : Clean.table :=
  [{| Clean.t_name := 1%N; Clean.t_task_dep := []; Clean.t_setup := []; Clean.t_subtask_of := None; Clean.t_clean := None;
      Clean.t_targets := [[1; 2]; [1]]%N |};
   {| Clean.t_name := 2%N; Clean.t_task_dep := []; Clean.t_setup := []; Clean.t_subtask_of := None; Clean.t_clean := None;
      Clean.t_targets := [[3]; [3; 4]]%N |};
   {| Clean.t_name := 3%N; Clean.t_task_dep := []; Clean.t_setup := []; Clean.t_subtask_of := None; Clean.t_clean := None;
      Clean.t_targets := [[5]]%N |}].
Definition dir_fs : Clean.fsys :=
  [([1]%N, Clean.KDir); ([3]%N, Clean.KDir); ([3; 4]%N, Clean.KDir); ([5]%N, Clean.KDir); ([5; 6]%N, Clean.KFile)].
Definition dir_opts (dry : bool) : Clean.opts unit :=
  {| Clean.o_dryrun := dry; Clean.o_cleandep := false; Clean.o_cleanall := true; Clean.o_forget := true;
     Clean.o_pos := []; Clean.o_sel := None |}.
Definition dir_w0 : Clean.world := {| Clean.w_fs := dir_fs; Clean.w_db := [1; 2; 3]%N; Clean.w_ev := [] |}.
Example C20_clean_dryrun_dirs_nonvacuous :
  (exists w', Clean.clean_execute unit (fun _ _ => false) dir_tab (dir_opts true) dir_w0 = Clean.Ok ([1; 2; 3]%N, w') /\
     Clean.w_fs w' = dir_fs /\ Clean.w_db w' = [1; 2; 3]%N /\
     Clean.w_ev w' = [Clean.EClean 1%N; Clean.EMsgDir 1%N [1]%N;
                      Clean.EClean 2%N; Clean.EMsgDir 2%N [3; 4]%N; Clean.EMsgNotEmpty 2%N [3]%N;
                      Clean.EClean 3%N; Clean.EMsgNotEmpty 3%N [5]%N]) /\
  (exists w', Clean.clean_execute unit (fun _ _ => false) dir_tab (dir_opts false) dir_w0 = Clean.Ok ([1; 2; 3]%N, w') /\
     Clean.w_fs w' = [([5]%N, Clean.KDir); ([5; 6]%N, Clean.KFile)] /\ Clean.w_db w' = [] /\
     Clean.w_ev w' = [Clean.EClean 1%N; Clean.EMsgDir 1%N [1]%N;
                      Clean.EClean 2%N; Clean.EMsgDir 2%N [3; 4]%N; Clean.EMsgDir 2%N [3]%N;
                      Clean.EClean 3%N; Clean.EMsgNotEmpty 3%N [5]%N]).
Proof. split; eexists; (split; [vm_compute; reflexivity|]); repeat split. Qed.

(* clean lists: task 1 (targets 5, 6; depends on task 2) has the documented idiom
   [clean_targets; shell `rm 10`; python callable removing 11 (no dryrun parameter); python callable with
   `dryrun` creating 12 unless dry]; task 2 has `clean: True` (target 7).  `clean -n -a --forget`: both
   tasks are cleaned, actions 0 and 3 of task 1 are invoked with dryrun=True, 1 and 2 are announced only;
   files and DB as before.  The same command without -n removes 5 6 7 10 11, creates 12, forgets both. *)
Definition cl_tab : ctable :=
  [{| ct_name := 1%N; ct_task_dep := [2%N]; ct_setup := []; ct_subtask_of := None;
      ct_clean := Some [CTargets; CCmd [FRemove 10%N]; CPyPlain [FRemove 11%N]; CPyDry (fun d => if d then [] else [FCreate 12%N])];
      ct_targets := [5%N; 6%N] |};
   {| ct_name := 2%N; ct_task_dep := []; ct_setup := []; ct_subtask_of := None; ct_clean := None; ct_targets := [7%N] |}].
Definition cl_opts (dry : bool) : Clean.opts unit :=
  {| Clean.o_dryrun := dry; Clean.o_cleandep := false; Clean.o_cleanall := true; Clean.o_forget := true;
     Clean.o_pos := []; Clean.o_sel := None |}.
Definition cl_w0 : cworld :=
  {| c_fs := [5; 6; 7; 10; 11]%N; c_db := fun n => if N.leb n 2 then Some empty_rec else None; c_ev := [] |}.
Example C20_clean_lists_nonvacuous :
  (forall t, In t cl_tab -> honest t) /\
  (exists w', cclean_cmd unit (fun _ _ => false) cl_tab (cl_opts true) cl_w0 = Clean.Ok ([1; 2]%N, w') /\
     c_fs w' = [5; 6; 7; 10; 11]%N /\ c_db w' 1%N = Some empty_rec /\
     c_ev w' = [VClean 1%N true; VAnnounce 1%N 0%nat; VExec 1%N 0%nat (Some true); VMsg 1%N 6%N; VMsg 1%N 5%N; VAnnounce 1%N 1%nat; VAnnounce 1%N 2%nat;
                VAnnounce 1%N 3%nat; VExec 1%N 3%nat (Some true); VClean 2%N true; VMsg 2%N 7%N]) /\
  (exists w', cclean_cmd unit (fun _ _ => false) cl_tab (cl_opts false) cl_w0 = Clean.Ok ([1; 2]%N, w') /\
     c_fs w' = [12%N] /\ c_db w' 1%N = None /\ c_db w' 2%N = None /\
     In (VExec 1%N 1%nat None) (c_ev w') /\ In (VExec 1%N 2%nat None) (c_ev w')).
Proof.
  split.
  - intros t [<-|[<-|[]]] acts a E Ha; simpl in E; [|discriminate]. inversion E; subst.
    destruct Ha as [<-|[<-|[<-|[<-|[]]]]]; simpl; auto.
  - split; eexists; (split; [vm_compute; reflexivity|]); simpl; repeat split; auto 15.
Qed.

(* the hypothesis on the user's callables is needed, and is the only way a dry-run reaches the files: a
   callable that takes `dryrun` and ignores it is invoked (with True) and removes its file *)
Example C20_clean_honours_needed :
  let tb := [{| ct_name := 1%N; ct_task_dep := []; ct_setup := []; ct_subtask_of := None;
                ct_clean := Some [CPyDry (fun _ => [FRemove 10%N])]; ct_targets := [] |}] in
  exists w', cclean_cmd unit (fun _ _ => false) tb (cl_opts true) cl_w0 = Clean.Ok ([1%N], w') /\
             c_fs w' = [5; 6; 7; 11]%N /\ c_ev w' = [VClean 1%N true; VAnnounce 1%N 0%nat; VExec 1%N 0%nat (Some true)].
Proof. cbv zeta. eexists. split; [vm_compute; reflexivity|]. split; reflexivity. Qed.
