(* C02 -- Each needed task is processed exactly once; nothing else runs.
   Statements only.  Proofs: Proofs/RunnerP.v (on top of the dispatcher invariants of
   Proofs/DispatchInv.v: a node whose generator passed its last `yield this_task` is never handed
   to the runner again). *)
From DoitV Require Import Base Dispatch Runner Parallel DispatchP DispatchInv RunnerTr RunnerP ParallelP AncP HoldP HoldG CompleteP ParHoldP TermP LiveP OrderP.
From DoitV Require Import ParStepP ParLiveP ParTermP ParOutcomeLiveP ParLiveEx.
Open Scope N_scope.

(* serial runner, every task table / selection / flags / set-iteration oracle / fuel:
   no task's actions are started twice in a run (however many tasks depend on it, whether it is
   reached as task_dep, calc_dep, setup-task or selected several times) *)
Theorem C02_exec_once_serial :
  forall tasks wake_rank calc_rank continue_ always fuel selection,
    NoDup (execs (fst (run_serial tasks wake_rank calc_rank continue_ always fuel selection))).
Proof. exact serial_exec_once. Qed.
Print Assumptions C02_exec_once_serial.

(* non-vacuity: a shared dependency and a shared setup-task are executed once *)
Definition ex02 (n : name) : option task :=
  match n with
  | 0 => Some (Build_task [2] [3] [] false false CkRun false OOk [] [] [])
  | 1 => Some (Build_task [2] [3] [] false false CkRun false OOk [] [] [])
  | 2 => Some (Build_task [] [] [] false false CkRun false OOk [] [] [])
  | 3 => Some (Build_task [] [] [] false false CkRun false OOk [] [] [])
  | _ => None end.
Example C02_nonvacuous :
  execs (fst (run_serial ex02 (fun _ _ => 0) (fun _ => 0) false false 200 [0; 1; 2; 0])) = [2; 3; 0; 1].
Proof. vm_compute. reflexivity. Qed.

(* every task gets AT MOST ONE final report (success, failure, up-to-date, ignored) in a run: no other
   final report of the same task before or after it -- whatever the graph, flags, oracles, fuel *)
Theorem C02_one_final_report_serial :
  forall tasks wake_rank calc_rank continue_ always fuel selection pre e post x,
    fst (run_serial tasks wake_rank calc_rank continue_ always fuel selection) = pre ++ e :: post ->
    is_final_ev x e = true -> ~ finished_in pre x /\ ~ finished_in post x.
Proof.
  intros tasks wake_rank calc_rank continue_ always fuel selection pre e post x E Hx.
  exact (fonce_unique _ (serial_one_final tasks wake_rank calc_rank continue_ always fuel selection) pre e post x E Hx).
Qed.
Print Assumptions C02_one_final_report_serial.

Example C02_one_final_nonvacuous :
  exists pre post, fst (run_serial ex02 (fun _ _ => 0) (fun _ => 0) false false 200 [0; 1; 2; 0]) = pre ++ ESuccess 2 :: post /\
                   is_final_ev 2 (ESuccess 2) = true.
Proof. exists [EGetStatus 2; EExecute 2; ESave 2]. eexists. split; [vm_compute; reflexivity|reflexivity]. Qed.

(* ... and AT LEAST ONE when the run was not cut short (serial runner): if the exit code is 0 -- or, under
   --continue, 0, 1 or 2, i.e. anything but a cycle diagnostic (3), an interrupt (4) or the model's out-of-fuel
   (99) -- every selected task has a final report in the trace; with the theorem above: exactly one.
   (Proofs/CompleteP.v: run_tasks ends normally only when the dispatcher is exhausted; then nothing is ready,
   waiting or current, and by the wait-graph invariant of Proofs/HoldP.v every unfinished node sits in one of
   those; every name of the selection has a node once tasks_to_run is used up; a final status always comes with
   its report.)  The same holds for every task the run created a node for -- every dependency it looked at
   [CompleteP.serial_complete].  That a run does end (fuel bound) is not part of this statement. *)
Theorem C02_exit_0_every_selected_task_reported_serial :
  forall tasks wake_rank calc_rank continue_ always fuel selection,
    snd (run_serial tasks wake_rank calc_rank continue_ always fuel selection) = 0 ->
    forall x, In x selection ->
      finished_in (fst (run_serial tasks wake_rank calc_rank continue_ always fuel selection)) x.
Proof. exact run_serial_complete_success. Qed.
Print Assumptions C02_exit_0_every_selected_task_reported_serial.

Theorem C02_continue_every_selected_task_reported_serial :
  forall tasks wake_rank calc_rank always fuel selection,
    snd (run_serial tasks wake_rank calc_rank true always fuel selection) <= 2 ->
    forall x, In x selection ->
      finished_in (fst (run_serial tasks wake_rank calc_rank true always fuel selection)) x.
Proof.
  intros tasks wake_rank calc_rank always fuel selection.
  exact (run_serial_complete_continue tasks wake_rank calc_rank true always fuel selection eq_refl).
Qed.
Print Assumptions C02_continue_every_selected_task_reported_serial.

(* all together (termination: Proofs/TermP.v; no false cycle diagnostic: AncP.v, HoldP.v; completeness):
   over a FINITE ACYCLIC task table, with the explicit fuel bound, a serial run under --continue either is
   interrupted by an action (exit code 4) or exits 0/1/2 having reported every selected task -- exactly once,
   by C02_one_final_report_serial. *)
Theorem C02_acyclic_continue_every_selected_task_reported_serial :
  forall tasks univ selection, finite_table tasks univ -> (forall k, ~ reach tasks k k) ->
  forall wake_rank calc_rank always fuel, (enough_fuel tasks univ selection <= fuel)%nat ->
  let res := run_serial tasks wake_rank calc_rank true always fuel selection in
  snd res = 4 \/ (snd res <= 2 /\ forall x, In x selection -> finished_in (fst res) x).
Proof. exact serial_acyclic_continue_all_reported. Qed.
Print Assumptions C02_acyclic_continue_every_selected_task_reported_serial.

(* non-vacuity: a run with a failing task under --continue ends with exit code 1 and reports every selected task *)
Definition ex02f (n : name) : option task :=
  match n with
  | 0 => Some (Build_task [1] [] [] false false CkRun false OOk [] [] [])
  | 1 => Some (Build_task [] [] [] false false CkRun false OFail [] [] [])
  | 2 => Some (Build_task [] [] [] false false CkRun false OOk [] [] [])
  | _ => None end.
Example C02_complete_nonvacuous :
  snd (run_serial ex02f (fun _ _ => 0) (fun _ => 0) true false 200 [1; 2]) = 1 /\
  snd (run_serial ex02 (fun _ _ => 0) (fun _ => 0) false false 200 [0; 1; 2; 0]) = 0.
Proof. split; vm_compute; reflexivity. Qed.

(* the parallel runners (MRunner with processes: proc = true; MThreadRunner: proc = false), every number of
   workers, EVERY schedule (oracle [sched] resolves each choice between "main dequeues a result" and
   "worker w steps"): no task's actions are started twice, by any worker ... *)
Theorem C02_exec_once_parallel :
  forall tasks wake_rank calc_rank continue_ always proc fuel nprocs sched selection,
    NoDup (pstarts (fst (run_parallel tasks wake_rank calc_rank continue_ always proc fuel nprocs sched selection))).
Proof. exact parallel_exec_once. Qed.
Print Assumptions C02_exec_once_parallel.

(* ... and every task gets at most one final report from the main process/thread *)
Theorem C02_one_final_report_parallel :
  forall tasks wake_rank calc_rank continue_ always proc fuel nprocs sched selection pre e post x,
    proj (fst (run_parallel tasks wake_rank calc_rank continue_ always proc fuel nprocs sched selection)) = pre ++ e :: post ->
    is_final_ev x e = true -> ~ finished_in pre x /\ ~ finished_in post x.
Proof.
  intros tasks wake_rank calc_rank continue_ always proc fuel nprocs sched selection pre e post x E Hx.
  exact (fonce_unique _ (parallel_one_final tasks wake_rank calc_rank continue_ always proc fuel nprocs sched selection) pre e post x E Hx).
Qed.
Print Assumptions C02_one_final_report_parallel.

Example C02_parallel_nonvacuous :
  pstarts (fst (run_parallel ex02 (fun _ _ => 0) (fun _ => 0) false false true 200 2 [1; 0; 1; 1; 0]%nat [0; 1; 2; 0])) = [2; 3; 0; 1].
Proof. vm_compute. reflexivity. Qed.

(* NOT YET PROVED (checked by the correspondence + oracle only): AT LEAST one final report per task of
   the closure when the run is not cut short, and nothing outside the closure is processed
   (needs the progress invariant of C09). *)

(* AT LEAST ONE final report, parallel runners, every schedule, both flavours, at least one worker: if the exit
   code is 0 -- or, under --continue, 0, 1 or 2: anything but a diagnostic (3), an interrupt (4), a hang of the
   model (98) or out of fuel (99) -- every selected task has a final report in the merged log; with
   C02_one_final_report_parallel: exactly one.  (Proofs/ParHoldP.v: proc_count only reaches 0 through JNone
   jobs, issued when the run is being stopped or the dispatcher is exhausted; an exhausted dispatcher stays
   exhausted; at proc_count = 0 nothing is in flight (counting invariant), so by the wait-graph invariant
   relative to the tasks in flight every node is finished, and RI links a final status to its report.) *)
Theorem C02_exit_0_every_selected_task_reported_parallel :
  forall tasks wake_rank calc_rank continue_ always proc fuel nprocs sched selection,
    (0 < nprocs)%nat ->
    snd (run_parallel tasks wake_rank calc_rank continue_ always proc fuel nprocs sched selection) = 0 ->
    forall x, In x selection ->
      pfinished (fst (run_parallel tasks wake_rank calc_rank continue_ always proc fuel nprocs sched selection)) x.
Proof. exact parallel_complete_success. Qed.
Print Assumptions C02_exit_0_every_selected_task_reported_parallel.

Theorem C02_continue_every_selected_task_reported_parallel :
  forall tasks wake_rank calc_rank always proc fuel nprocs sched selection,
    (0 < nprocs)%nat ->
    snd (run_parallel tasks wake_rank calc_rank true always proc fuel nprocs sched selection) <= 2 ->
    forall x, In x selection ->
      pfinished (fst (run_parallel tasks wake_rank calc_rank true always proc fuel nprocs sched selection)) x.
Proof. exact parallel_complete_continue. Qed.
Print Assumptions C02_continue_every_selected_task_reported_parallel.

(* non-vacuity: a failing task under --continue, exit code 1, processes; and the hypothesis 0 < nprocs is needed:
   with no worker the model's run_tasks returns at once, exit code 0, nothing reported *)
Example C02_parallel_complete_nonvacuous :
  snd (run_parallel ex02f (fun _ _ => 0) (fun _ => 0) true false true 200 2 [1; 0; 1; 1; 0]%nat [1; 2]) = 1 /\
  snd (run_parallel ex02f (fun _ _ => 0) (fun _ => 0) true false false 200 3 [1; 0; 1; 1; 0]%nat [0; 2]) = 2 /\
  run_parallel ex02f (fun _ _ => 0) (fun _ => 0) false false false 200 0 []%nat [2] = ([PE EClose], 0).
Proof. repeat split; vm_compute; reflexivity. Qed.

(* nothing outside the closure is processed: every event of a serial run (get_status, skip, execute, success/failure,
   save/remove, teardown, interrupt) is about a selected task or a task reachable from one through effective
   dependencies; no node is ever created for another task; any table (cyclic or not), flags, oracles, fuel
   (Proofs/OrderP.v, by sub-agent; the converse -- every task of the closure is processed -- holds for selected
   tasks and tasks with a node, see above; in general the results of a FAILED calc_dep task never enter the closure) *)
Theorem C02_nothing_outside_closure_serial :
  forall tasks wake_rank calc_rank continue_ always fuel selection e k,
  In e (fst (run_serial tasks wake_rank calc_rank continue_ always fuel selection)) -> ev_task e = Some k ->
  needed tasks selection k.
Proof. exact serial_closure_events. Qed.
Print Assumptions C02_nothing_outside_closure_serial.

Theorem C02_no_node_outside_closure_serial :
  forall tasks wake_rank calc_rank continue_ always fuel selection r' s,
  serial tasks wake_rank calc_rank continue_ always fuel (r_init selection) None = (r', s) ->
  forall x, d_nodes (r_d r') x <> None -> needed tasks selection x.
Proof. exact serial_closure_nodes. Qed.
Print Assumptions C02_no_node_outside_closure_serial.

(* ===== liveness of the parallel runner models (Proofs/ParStepP.v, ParLiveP.v, ParTermP.v, ParOutcomeLiveP.v, by sub-agent) ===== *)
(* liveness half of "every selected task gets exactly one final report", parallel runners: finite acyclic table,
   enough fuel, at least one worker, --continue: the run is interrupted by an action (4) or ends with exit code
   <= 2 having a final report for EVERY selected task in the merged log (uniqueness: C02_parallel_one_final) *)
Theorem C02_parallel_acyclic_continue_all_reported :
  forall tasks univ selection, finite_table tasks univ -> (forall k, ~ reach tasks k k) ->
  forall wake_rank calc_rank always proc nprocs sched fuel,
  (0 < nprocs)%nat -> (par_enough_fuel tasks univ selection nprocs <= fuel)%nat ->
  let res := run_parallel tasks wake_rank calc_rank true always proc fuel nprocs sched selection in
  snd res = 4 \/ (snd res <= 2 /\ forall x, In x selection -> pfinished (fst res) x).
Proof. exact parallel_acyclic_continue_all_reported. Qed.
Print Assumptions C02_parallel_acyclic_continue_all_reported.
