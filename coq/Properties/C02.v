(* C02 -- Each needed task is processed exactly once; nothing else runs.
   Statements only.  Proofs: Proofs/RunnerP.v (on top of the dispatcher invariants of
   Proofs/DispatchInv.v: a node whose generator passed its last `yield this_task` is never handed
   to the runner again). *)
From DoitV Require Import Base Dispatch Runner Parallel DispatchP DispatchInv RunnerTr RunnerP ParallelP AncP HoldP HoldG CompleteP ParHoldP TermP LiveP OrderP.
From DoitV Require Import ParStepP ParLiveP ParTermP ParOutcomeLiveP ParLiveEx.
From DoitV Require Import Select SelectP ApiSelect ApiSelectP.
Open Scope N_scope.

(* serial runner, every task table / selection / flags / set-iteration oracle / fuel:
   no task's actions are started twice in a run (however many tasks depend on it, whether it is
   reached as task_dep, calc_dep, setup-task or selected several times) *)
Theorem C02_exec_once_serial :
  forall tasks wake_rank calc_rank continue_ always fuel selection,
    NoDup (execs (fst (run_serial tasks wake_rank calc_rank continue_ always fuel selection))).
Proof. exact serial_exec_once. Qed.
Print Assumptions C02_exec_once_serial.

(* non-vacuity: a shared dependency and a shared setup-task are executed once *)
Definition ex02 (n : name) : option task :=
  match n with
  | 0 => Some (Build_task [2] [3] [] false false CkRun false OOk [] [] [])
  | 1 => Some (Build_task [2] [3] [] false false CkRun false OOk [] [] [])
  | 2 => Some (Build_task [] [] [] false false CkRun false OOk [] [] [])
  | 3 => Some (Build_task [] [] [] false false CkRun false OOk [] [] [])
  | _ => None end.
Example C02_nonvacuous :
  execs (fst (run_serial ex02 (fun _ _ => 0) (fun _ => 0) false false 200 [0; 1; 2; 0])) = [2; 3; 0; 1].
Proof. vm_compute. reflexivity. Qed.

(* every task gets AT MOST ONE final report (success, failure, up-to-date, ignored) in a run: no other
   final report of the same task before or after it -- whatever the graph, flags, oracles, fuel *)
Theorem C02_one_final_report_serial :
  forall tasks wake_rank calc_rank continue_ always fuel selection pre e post x,
    fst (run_serial tasks wake_rank calc_rank continue_ always fuel selection) = pre ++ e :: post ->
    is_final_ev x e = true -> ~ finished_in pre x /\ ~ finished_in post x.
Proof.
  intros tasks wake_rank calc_rank continue_ always fuel selection pre e post x E Hx.
  exact (fonce_unique _ (serial_one_final tasks wake_rank calc_rank continue_ always fuel selection) pre e post x E Hx).
Qed.
Print Assumptions C02_one_final_report_serial.

Example C02_one_final_nonvacuous :
  exists pre post, fst (run_serial ex02 (fun _ _ => 0) (fun _ => 0) false false 200 [0; 1; 2; 0]) = pre ++ ESuccess 2 :: post /\
                   is_final_ev 2 (ESuccess 2) = true.
Proof. exists [EGetStatus 2; EExecute 2; ESave 2]. eexists. split; [vm_compute; reflexivity|reflexivity]. Qed.

(* ... and AT LEAST ONE when the run was not cut short (serial runner): if the exit code is 0 -- or, under
   --continue, 0, 1 or 2, i.e. anything but a cycle diagnostic (3), an interrupt (4) or the model's out-of-fuel
   (99) -- every selected task has a final report in the trace; with the theorem above: exactly one.
   (Proofs/CompleteP.v: run_tasks ends normally only when the dispatcher is exhausted; then nothing is ready,
   waiting or current, and by the wait-graph invariant of Proofs/HoldP.v every unfinished node sits in one of
   those; every name of the selection has a node once tasks_to_run is used up; a final status always comes with
   its report.)  The same holds for every task the run created a node for -- every dependency it looked at
   [CompleteP.serial_complete].  That a run does end (fuel bound) is not part of this statement. *)
Theorem C02_exit_0_every_selected_task_reported_serial :
  forall tasks wake_rank calc_rank continue_ always fuel selection,
    snd (run_serial tasks wake_rank calc_rank continue_ always fuel selection) = 0 ->
    forall x, In x selection ->
      finished_in (fst (run_serial tasks wake_rank calc_rank continue_ always fuel selection)) x.
Proof. exact run_serial_complete_success. Qed.
Print Assumptions C02_exit_0_every_selected_task_reported_serial.

Theorem C02_continue_every_selected_task_reported_serial :
  forall tasks wake_rank calc_rank always fuel selection,
    snd (run_serial tasks wake_rank calc_rank true always fuel selection) <= 2 ->
    forall x, In x selection ->
      finished_in (fst (run_serial tasks wake_rank calc_rank true always fuel selection)) x.
Proof.
  intros tasks wake_rank calc_rank always fuel selection.
  exact (run_serial_complete_continue tasks wake_rank calc_rank true always fuel selection eq_refl).
Qed.
Print Assumptions C02_continue_every_selected_task_reported_serial.

(* all together (termination: Proofs/TermP.v; no false cycle diagnostic: AncP.v, HoldP.v; completeness):
   over a FINITE ACYCLIC task table, with the explicit fuel bound, a serial run under --continue either is
   interrupted by an action (exit code 4) or exits 0/1/2 having reported every selected task -- exactly once,
   by C02_one_final_report_serial. *)
Theorem C02_acyclic_continue_every_selected_task_reported_serial :
  forall tasks univ selection, finite_table tasks univ -> (forall k, ~ reach tasks k k) ->
  forall wake_rank calc_rank always fuel, (enough_fuel tasks univ selection <= fuel)%nat ->
  let res := run_serial tasks wake_rank calc_rank true always fuel selection in
  snd res = 4 \/ (snd res <= 2 /\ forall x, In x selection -> finished_in (fst res) x).
Proof. exact serial_acyclic_continue_all_reported. Qed.
Print Assumptions C02_acyclic_continue_every_selected_task_reported_serial.

(* non-vacuity: a run with a failing task under --continue ends with exit code 1 and reports every selected task *)
Definition ex02f (n : name) : option task :=
  match n with
  | 0 => Some (Build_task [1] [] [] false false CkRun false OOk [] [] [])
  | 1 => Some (Build_task [] [] [] false false CkRun false OFail [] [] [])
  | 2 => Some (Build_task [] [] [] false false CkRun false OOk [] [] [])
  | _ => None end.
Example C02_complete_nonvacuous :
  snd (run_serial ex02f (fun _ _ => 0) (fun _ => 0) true false 200 [1; 2]) = 1 /\
  snd (run_serial ex02 (fun _ _ => 0) (fun _ => 0) false false 200 [0; 1; 2; 0]) = 0.
Proof. split; vm_compute; reflexivity. Qed.

(* the parallel runners (MRunner with processes: proc = true; MThreadRunner: proc = false), every number of
   workers, EVERY schedule (oracle [sched] resolves each choice between "main dequeues a result" and
   "worker w steps"): no task's actions are started twice, by any worker ... *)
Theorem C02_exec_once_parallel :
  forall tasks wake_rank calc_rank continue_ always proc fuel nprocs sched selection,
    NoDup (pstarts (fst (run_parallel tasks wake_rank calc_rank continue_ always proc fuel nprocs sched selection))).
Proof. exact parallel_exec_once. Qed.
Print Assumptions C02_exec_once_parallel.

(* ... and every task gets at most one final report from the main process/thread *)
Theorem C02_one_final_report_parallel :
  forall tasks wake_rank calc_rank continue_ always proc fuel nprocs sched selection pre e post x,
    proj (fst (run_parallel tasks wake_rank calc_rank continue_ always proc fuel nprocs sched selection)) = pre ++ e :: post ->
    is_final_ev x e = true -> ~ finished_in pre x /\ ~ finished_in post x.
Proof.
  intros tasks wake_rank calc_rank continue_ always proc fuel nprocs sched selection pre e post x E Hx.
  exact (fonce_unique _ (parallel_one_final tasks wake_rank calc_rank continue_ always proc fuel nprocs sched selection) pre e post x E Hx).
Qed.
Print Assumptions C02_one_final_report_parallel.

Example C02_parallel_nonvacuous :
  pstarts (fst (run_parallel ex02 (fun _ _ => 0) (fun _ => 0) false false true 200 2 [1; 0; 1; 1; 0]%nat [0; 1; 2; 0])) = [2; 3; 0; 1].
Proof. vm_compute. reflexivity. Qed.

(* NOT YET PROVED (checked by the correspondence + oracle only): AT LEAST one final report per task of
   the closure when the run is not cut short, and nothing outside the closure is processed
   (needs the progress invariant of C09). *)

(* AT LEAST ONE final report, parallel runners, every schedule, both flavours, at least one worker: if the exit
   code is 0 -- or, under --continue, 0, 1 or 2: anything but a diagnostic (3), an interrupt (4), a hang of the
   model (98) or out of fuel (99) -- every selected task has a final report in the merged log; with
   C02_one_final_report_parallel: exactly one.  (Proofs/ParHoldP.v: proc_count only reaches 0 through JNone
   jobs, issued when the run is being stopped or the dispatcher is exhausted; an exhausted dispatcher stays
   exhausted; at proc_count = 0 nothing is in flight (counting invariant), so by the wait-graph invariant
   relative to the tasks in flight every node is finished, and RI links a final status to its report.) *)
Theorem C02_exit_0_every_selected_task_reported_parallel :
  forall tasks wake_rank calc_rank continue_ always proc fuel nprocs sched selection,
    (0 < nprocs)%nat ->
    snd (run_parallel tasks wake_rank calc_rank continue_ always proc fuel nprocs sched selection) = 0 ->
    forall x, In x selection ->
      pfinished (fst (run_parallel tasks wake_rank calc_rank continue_ always proc fuel nprocs sched selection)) x.
Proof. exact parallel_complete_success. Qed.
Print Assumptions C02_exit_0_every_selected_task_reported_parallel.

Theorem C02_continue_every_selected_task_reported_parallel :
  forall tasks wake_rank calc_rank always proc fuel nprocs sched selection,
    (0 < nprocs)%nat ->
    snd (run_parallel tasks wake_rank calc_rank true always proc fuel nprocs sched selection) <= 2 ->
    forall x, In x selection ->
      pfinished (fst (run_parallel tasks wake_rank calc_rank true always proc fuel nprocs sched selection)) x.
Proof. exact parallel_complete_continue. Qed.
Print Assumptions C02_continue_every_selected_task_reported_parallel.

(* non-vacuity: a failing task under --continue, exit code 1, processes; and the hypothesis 0 < nprocs is needed:
   with no worker the model's run_tasks returns at once, exit code 0, nothing reported *)
Example C02_parallel_complete_nonvacuous :
  snd (run_parallel ex02f (fun _ _ => 0) (fun _ => 0) true false true 200 2 [1; 0; 1; 1; 0]%nat [1; 2]) = 1 /\
  snd (run_parallel ex02f (fun _ _ => 0) (fun _ => 0) true false false 200 3 [1; 0; 1; 1; 0]%nat [0; 2]) = 2 /\
  run_parallel ex02f (fun _ _ => 0) (fun _ => 0) false false false 200 0 []%nat [2] = ([PE EClose], 0).
Proof. repeat split; vm_compute; reflexivity. Qed.

(* nothing outside the closure is processed: every event of a serial run (get_status, skip, execute, success/failure,
   save/remove, teardown, interrupt) is about a selected task or a task reachable from one through effective
   dependencies; no node is ever created for another task; any table (cyclic or not), flags, oracles, fuel
   (Proofs/OrderP.v, by sub-agent; the converse -- every task of the closure is processed -- holds for selected
   tasks and tasks with a node, see above; in general the results of a FAILED calc_dep task never enter the closure) *)
Theorem C02_nothing_outside_closure_serial :
  forall tasks wake_rank calc_rank continue_ always fuel selection e k,
  In e (fst (run_serial tasks wake_rank calc_rank continue_ always fuel selection)) -> ev_task e = Some k ->
  needed tasks selection k.
Proof. exact serial_closure_events. Qed.
Print Assumptions C02_nothing_outside_closure_serial.

Theorem C02_no_node_outside_closure_serial :
  forall tasks wake_rank calc_rank continue_ always fuel selection r' s,
  serial tasks wake_rank calc_rank continue_ always fuel (r_init selection) None = (r', s) ->
  forall x, d_nodes (r_d r') x <> None -> needed tasks selection x.
Proof. exact serial_closure_nodes. Qed.
Print Assumptions C02_no_node_outside_closure_serial.

(* ===== liveness of the parallel runner models (Proofs/ParStepP.v, ParLiveP.v, ParTermP.v, ParOutcomeLiveP.v, by sub-agent) ===== *)
(* liveness half of "every selected task gets exactly one final report", parallel runners: finite acyclic table,
   enough fuel, at least one worker, --continue: the run is interrupted by an action (4) or ends with exit code
   <= 2 having a final report for EVERY selected task in the merged log (uniqueness: C02_parallel_one_final) *)
Theorem C02_parallel_acyclic_continue_all_reported :
  forall tasks univ selection, finite_table tasks univ -> (forall k, ~ reach tasks k k) ->
  forall wake_rank calc_rank always proc nprocs sched fuel,
  (0 < nprocs)%nat -> (par_enough_fuel tasks univ selection nprocs <= fuel)%nat ->
  let res := run_parallel tasks wake_rank calc_rank true always proc fuel nprocs sched selection in
  snd res = 4 \/ (snd res <= 2 /\ forall x, In x selection -> pfinished (fst res) x).
Proof. exact parallel_acyclic_continue_all_reported. Qed.
Print Assumptions C02_parallel_acyclic_continue_all_reported.

(* ===== the selection made through the API entry point doit.api.run_tasks(loader, {name: options, ..})
   (Model/ApiSelect.v on top of Model/Select.v; Proofs/ApiSelectP.v).  "The selection" of the property is what
   TaskControl.process hands to the dispatcher (the `selection` of the theorems above); through the API it is
   computed from the keys of the dict by the same _process_filter as a command line, started in the state the
   loader leaves: the tasks that got a positional value (pos_arg) through the dict do not take the rest of the
   keys as their values. ===== *)

(* every key names a task, and every such task that declares pos_arg is given a positional value in the dict --
   ANY value that is not None: an empty list, an empty string, a non-empty one.  Then the selection is exactly
   the keys, each once, in the order of the dict: nothing after a task with positional values is swallowed
   (any table that loads, any string oracles, --single or not, any default_tasks) *)
Theorem C02_api_selection_is_the_keys :
  forall has_star matches basename_of re_match regex_name is_regex_name is_opt auto single o d tb c,
  init matches tb = inr c -> o <> [] -> NoDup (api_keys o) -> api_all_given has_star is_opt tb o ->
  api_run_select has_star matches basename_of re_match regex_name is_regex_name is_opt auto single o d tb =
  ARes (ROk (if single then single_step (c_tasks c) (api_keys o) else c_tasks c) (c_targets c) (api_keys o)).
Proof. exact api_selection_is_the_keys. Qed.
Print Assumptions C02_api_selection_is_the_keys.

(* whether a positional value given through the dict is empty (bool(value) is False: [], '', ()) or not changes
   NOTHING of the selection -- result, error, task table: the dict with every given value replaced by a falsy one
   selects the same.  No hypothesis. *)
Theorem C02_api_falsy_value_is_a_value :
  forall has_star matches basename_of re_match regex_name is_regex_name is_opt auto single o d tb,
  api_run_select has_star matches basename_of re_match regex_name is_regex_name is_opt auto single (api_erase o) d tb =
  api_run_select has_star matches basename_of re_match regex_name is_regex_name is_opt auto single o d tb.
Proof. exact api_falsy_value_is_a_value. Qed.
Print Assumptions C02_api_falsy_value_is_a_value.

(* the documented rule for a task with pos_arg that gets NO positional value through the dict (its parameter is
   absent, or None): the keys after it are its positional values, the selection is the keys up to and including it
   (the keys before it as in the first theorem; nothing raises TypeError: no task with pos_arg has None for a dict) *)
Theorem C02_api_selection_cut_at_task_without_positional_value :
  forall has_star matches basename_of re_match regex_name is_regex_name is_opt auto single o1 k v o2 d tb c t,
  init matches tb = inr c -> NoDup (api_keys (o1 ++ (k, v) :: o2)) -> api_type_error tb (o1 ++ (k, v) :: o2) = false ->
  api_all_given has_star is_opt tb o1 ->
  is_opt k = false -> has_star k = false -> lookup tb k = Some t -> s_pos_arg t = true -> api_given v = false ->
  Forall (fun x => is_opt x = false) (api_keys o2) ->
  api_run_select has_star matches basename_of re_match regex_name is_regex_name is_opt auto single (o1 ++ (k, v) :: o2) d tb =
  ARes (ROk (if single then single_step (c_tasks c) (api_keys o1 ++ [k]) else c_tasks c) (c_targets c) (api_keys o1 ++ [k])).
Proof. exact api_selection_cut. Qed.
Print Assumptions C02_api_selection_cut_at_task_without_positional_value.

(* a dict that gives nobody a positional value selects what the same names select on the command line
   (Model/Select.v cmd_run_select, the subject of C12) *)
Theorem C02_api_without_values_is_the_command_line :
  forall has_star matches basename_of re_match regex_name is_regex_name is_opt auto single o d tb,
  api_type_error tb o = false -> api_posset tb o = [] ->
  api_run_select has_star matches basename_of re_match regex_name is_regex_name is_opt auto single o d tb =
  ARes (cli_run_select has_star matches basename_of re_match regex_name is_regex_name is_opt auto single o d tb).
Proof. exact api_without_values_is_the_command_line. Qed.
Print Assumptions C02_api_without_values_is_the_command_line.

(* with patterns among the keys: _process_filter yields the keys with every pattern replaced by the names it
   matches, provided every EXPLICITLY named task with pos_arg already has its positional values (P) *)
Theorem C02_api_filter_with_patterns :
  forall has_star matches is_opt order tb P sel m st,
  (forall x, In x P -> In x (p_posset st)) -> given_sel has_star is_opt tb P sel ->
  (m = MName \/ exists o, m = MOpts o false) ->
  exists st', process_filter has_star matches is_opt order tb m st sel = Some (expand_sel has_star matches order sel, st').
Proof. exact process_filter_given. Qed.
Print Assumptions C02_api_filter_with_patterns.

(* non-vacuity (the shape of seeded change C02f): pack = 0 declares pos_arg, stage = 1, deploy = 2 depends on stage.
   {'pack': {'files': []}, 'deploy': {}} selects [pack; deploy] -- the hypotheses of the first theorem hold;
   {'pack': {}, 'deploy': {}} selects [pack] (deploy is pack's positional value);
   {'pack': None, 'deploy': {}} raises TypeError *)
Definition ex02api : table :=
  [(0, Build_stask [] [] [] [] [] [] false None None true []);
   (1, Build_stask [] [] [] [] [] [] false None None false []);
   (2, Build_stask [1] [] [] [] [] [] false None None false [])].
Definition nostar (_ : name) := false.
Definition nomatch (_ _ : name) := false.
Definition idname (s : name) := s.
Definition noname (_ _ : name) : name := 99.
Example C02_api_nonvacuous :
  enc_api (api_run_select nostar nomatch idname nomatch noname nostar nostar false false [(0, AVal true); (2, AAbsent)] None ex02api) = [0; 0; 2]%Z /\
  enc_api (api_run_select nostar nomatch idname nomatch noname nostar nostar false false [(0, AAbsent); (2, AAbsent)] None ex02api) = [0; 0]%Z /\
  enc_api (api_run_select nostar nomatch idname nomatch noname nostar nostar false false [(0, ANone); (2, AAbsent)] None ex02api) = [0; 0]%Z /\
  enc_api (api_run_select nostar nomatch idname nomatch noname nostar nostar false false [(0, ANoDict); (2, AAbsent)] None ex02api) = [5]%Z /\
  (exists c, init nomatch ex02api = inr c) /\ api_all_given nostar nostar ex02api [(0, AVal true); (2, AAbsent)].
Proof.
  split; [vm_compute; reflexivity|]. split; [vm_compute; reflexivity|]. split; [vm_compute; reflexivity|].
  split; [vm_compute; reflexivity|]. split; [eexists; vm_compute; reflexivity|].
  intros k0 v0 [H|[H|[]]]; inversion H; subst; (split; [reflexivity|]); (split; [reflexivity|]); eexists;
    (split; [vm_compute; reflexivity|]); simpl; auto; discriminate.
Qed.

(* ================================================================== where `continue` comes from (round G)
   "unless the run is legitimately cut short by a failure without --continue": whether a run is under `continue`
   is decided by DoitCmdBase.execute (Model/RunConfig.v execute_params): the value handed to Run._execute as
   continue_ (the `cont` argument of run_serial / the parallel runners above) is read AFTER DOIT_CONFIG of the dodo
   module was merged into the parsed options.  p = the options after the command line was parsed (non-default keys
   d_nd p = what the command line wrote), dodo = DOIT_CONFIG. *)
From DoitV Require Import CmdParse CmdParseR RunConfig RunConfigP.

Theorem C02_continue_is_read_after_doit_config :
  forall kc kc_ p dodo,
  d_get (execute_params kc kc_ p dodo) kc_ =
    Some (match (if mem kc (d_nd p) then d_get p kc
                 else match lookup_last dodo kc with Some x => Some x | None => d_get p kc end)
          with Some v => v | None => VNone end).
Proof. exact execute_continue_spec. Qed.
Print Assumptions C02_continue_is_read_after_doit_config.

(* `continue` written in DOIT_CONFIG and not on the command line is the continue_ of the run *)
Theorem C02_continue_from_doit_config :
  forall kc kc_ p dodo v,
  mem kc (d_nd p) = false -> lookup_last dodo kc = Some v ->
  d_get (execute_params kc kc_ p dodo) kc_ = Some v.
Proof. exact continue_from_doit_config. Qed.
Print Assumptions C02_continue_from_doit_config.

(* the whole chain, for options parsed from defaults (tool configuration over declared default) and a command line:
   command line > DOIT_CONFIG > default held by the parser *)
Theorem C02_continue_precedence :
  forall kc kc_ defaults cli dodo,
  d_get (execute_params kc kc_ (parsed defaults cli) dodo) kc_ =
  Some (match (match lookup_last cli kc with
               | Some v => Some v
               | None => match lookup_last dodo kc with
                         | Some v => Some v
                         | None => lookup_last defaults kc
                         end
               end) with Some v => v | None => VNone end).
Proof. exact continue_precedence. Qed.
Print Assumptions C02_continue_precedence.

(* every other option handed to _execute (num_process, par_type, ...) is the merged value as well *)
Theorem C02_run_option_is_merged_value :
  forall kc kc_ p dodo k, k <> kc_ ->
  d_get (execute_params kc kc_ p dodo) k =
    (if mem k (d_nd p) then d_get p k
     else match lookup_last dodo k with Some x => Some x | None => d_get p k end).
Proof. exact execute_other_spec. Qed.
Print Assumptions C02_run_option_is_merged_value.

(* the copy made BEFORE the merge (the order of seeded change C02g) is refuted: DOIT_CONFIG says continue, the
   command line is silent, the run would not be under continue *)
Theorem C02_continue_read_before_merge_refuted :
  exists p dodo, lookup_last dodo 0 = Some (VBool true) /\ mem 0 (d_nd p) = false /\
    d_get (execute_params_early 0 3 p dodo) 3 = Some (VBool false) /\
    d_get (execute_params 0 3 p dodo) 3 = Some (VBool true).
Proof. exact early_copy_loses_doit_config. Qed.
Print Assumptions C02_continue_read_before_merge_refuted.

(* non-vacuity / the encoding used by harness/c02_cfg.py: doit.cfg says num_process 2, DOIT_CONFIG says continue
   and par_type thread, the command line says -P process: _execute receives continue_ True, num_process 2, process *)
Example C02_run_cfg_nonvacuous :
  enc_run_cfg (execute_params 0 3 (parsed (overlay [(0, VBool false); (1, VInt 0); (2, VInt 0)] [(1, VInt 2)]) [(2, VInt 0)])
                              [(0, VBool true); (2, VInt 1)]) = [1; 2; 0]%Z.
Proof. vm_compute. reflexivity. Qed.
