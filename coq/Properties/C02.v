(* C02 -- Each needed task is processed exactly once; nothing else runs.
   Statements only.  Proofs: Proofs/RunnerP.v (on top of the dispatcher invariants of
   Proofs/DispatchInv.v: a node whose generator passed its last `yield this_task` is never handed
   to the runner again). *)
From DoitV Require Import Base Dispatch Runner DispatchP DispatchInv RunnerTr RunnerP.
Open Scope N_scope.

(* serial runner, every task table / selection / flags / set-iteration oracle / fuel:
   no task's actions are started twice in a run (however many tasks depend on it, whether it is
   reached as task_dep, calc_dep, setup-task or selected several times) *)
Theorem C02_exec_once_serial :
  forall tasks wake_rank calc_rank continue_ always fuel selection,
    NoDup (execs (fst (run_serial tasks wake_rank calc_rank continue_ always fuel selection))).
Proof. exact serial_exec_once. Qed.
Print Assumptions C02_exec_once_serial.

(* non-vacuity: a shared dependency and a shared setup-task are executed once *)
Definition ex02 (n : name) : option task :=
  match n with
  | 0 => Some (Build_task [2] [3] [] false false CkRun false OOk [] [] [])
  | 1 => Some (Build_task [2] [3] [] false false CkRun false OOk [] [] [])
  | 2 => Some (Build_task [] [] [] false false CkRun false OOk [] [] [])
  | 3 => Some (Build_task [] [] [] false false CkRun false OOk [] [] [])
  | _ => None end.
Example C02_nonvacuous :
  execs (fst (run_serial ex02 (fun _ _ => 0) (fun _ => 0) false false 200 [0; 1; 2; 0])) = [2; 3; 0; 1].
Proof. vm_compute. reflexivity. Qed.

(* NOT YET PROVED (checked by the correspondence + oracle only): exactly one final report per task of
   the closure when the run is not cut short, and nothing outside the closure is processed
   (needs the progress invariant of C09). *)
