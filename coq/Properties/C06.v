(* C06 -- Interrupted or killed runs leave a dependency DB that never lies.        LABEL: PARTIAL
   Statements only; every proof is `exact <lemma of Proofs/CrashP.v>` or a closed computation.

   What is proved: the logic of doit -- the serial runner's control flow around an interrupt (Model/Runner.v; the
   interrupted task is neither saved, removed nor reported by the run, so its record stays exactly as it was),
   the translation of the run into backend operations and the refinement of the three backends to a map
   (Model/Backends.v, C07), and the ORDER in which each backend's dump() and dbm.dumb's methods issue their file
   operations (Model/Crash.v, step lists) with every prefix of those lists as a crash state.
   What is NOT proved (swept by harness/c06.py with a SIGKILL at every traced system call, see evidence/C06.json):
   that the kernel applies those operations atomically and in order (true for a killed process, not for power
   loss), sqlite3's journal, CPython's buffered writers (how many write() calls a document takes), and the JSON
   decoder: the latter enters as the oracle hypotheses J_prefix / R_prefix / R_extra below.

   Vocabulary.  Runner.v: [serial] = Runner.run_tasks + finish, trace events ESave/ERemove/EClose = save_success /
   remove_success / Dependency.close, stop reason [StopInterrupt k] = KeyboardInterrupt/SystemExit escaped from an
   action of task k.  Crash.v: [db_ops recd tr] = the backend operations of a trace ([recd k] = the key/value pairs
   save_success stores for k); [crash_after]/[json_crash]/[sq_crash]/[dumb_crash] = the disk after the first k steps
   of a dump / session; [dumb_read] = what the next process gets for a key; [torn old new] = first |old| bytes of
   new ++ (old without its first |new| bytes). *)
From DoitV Require Import Base Dispatch Backends Runner Crash BackendsP CrashP Action ActionClass ActionClassP SaveRec SaveRecP.
Local Open Scope nat_scope.

(* ===================== interrupt half ===================== *)

(* If an action of task k raises KeyboardInterrupt/SystemExit the trace still ends with the flush: it is
   pre ++ [execute k; close; teardowns...] where pre holds no close and no teardown, every save/success in pre is
   part of a block [execute j; save j; success j] of a task whose actions succeeded, and k is neither saved nor
   reported successful.  (A task without `execute` has no such block, hence no save.) *)
Theorem C06_interrupt_flush : forall tasks wake_rank calc_rank continue_ always fuel selected r k,
  serial tasks wake_rank calc_rank continue_ always fuel (r_init selected) None = (r, StopInterrupt k) ->
  exists pre tds,
    r_tr r = pre ++ [EExecute k] ++ EClose :: map ETeardown tds /\
    t_outcome (get_task tasks k) = OInterrupt /\
    ~ In EClose pre /\ (forall j, ~ In (ETeardown j) pre) /\
    (forall j, In (ESave j) pre \/ In (ESuccess j) pre ->
               t_outcome (get_task tasks j) = OOk /\ exists a c, pre = a ++ EExecute j :: ESave j :: ESuccess j :: c) /\
    ~ In (ESave k) pre /\ ~ In (ESuccess k) pre.
Proof. exact interrupt_flush. Qed.
Print Assumptions C06_interrupt_flush.

(* The same for every way a serial run ends (normal end, --continue or not, cyclic dependency, "hold on"
   dead-lock = the internal errors that escape run_tasks): exactly one close, after everything else but teardowns.
   Correspondence (harness/c06.py part (1d)): runs ended by StopCycle / StopHold after tasks completed are compared
   with [run_serial] (trace, exit code 3, DB).  The other exceptions that can leave Runner.run_tasks -- a BaseException
   subclass other than KeyboardInterrupt/SystemExit from an action, an exception of an uptodate callable or of a
   value-saver -- are NOT ends of Model/Runner.v ([stop] has no constructor for them): for those the harness judges
   the real runs by its oracles only (close exactly once, DB content, next run); no theorem here speaks about them. *)
Theorem C06_every_exit_flushes : forall tasks wake_rank calc_rank continue_ always fuel selected r s,
  serial tasks wake_rank calc_rank continue_ always fuel (r_init selected) None = (r, s) -> s <> StopFuel ->
  exists pre tds, r_tr r = pre ++ EClose :: map ETeardown tds /\ ~ In EClose pre /\
    (forall j, In (ESave j) pre \/ In (ESuccess j) pre ->
               t_outcome (get_task tasks j) = OOk /\ exists a c, pre = a ++ EExecute j :: ESave j :: ESuccess j :: c).
Proof. exact always_flushed. Qed.
Print Assumptions C06_every_exit_flushes.

(* The DB (as the map m the backends implement) after the interrupted run: the interrupted task gains no record;
   no task without a save gains one; a task neither saved nor removed keeps its record untouched; a task saved
   (and not removed) is recorded. *)
Theorem C06_interrupt_db : forall tasks wake_rank calc_rank continue_ always fuel selected r k
    (recd : name -> list (N * Z)) (m : spec),
  serial tasks wake_rank calc_rank continue_ always fuel (r_init selected) None = (r, StopInterrupt k) ->
  let m' := exec spec_step m (db_ops recd (r_tr r)) in
  (has m' k = true -> has m k = true) /\
  (forall j, ~ In (ESave j) (r_tr r) -> has m' j = true -> has m j = true) /\
  (forall j, ~ In (ESave j) (r_tr r) -> ~ In (ERemove j) (r_tr r) -> m' j = m j) /\
  (forall j, In (ESave j) (r_tr r) -> ~ In (ERemove j) (r_tr r) -> recd j <> [] -> has m' j = true).
Proof. exact interrupt_db. Qed.
Print Assumptions C06_interrupt_db.

(* The interrupted task itself: before its execution started the run neither removed its record nor reported it (no
   failure report: with the invariants of the serial runner, Proofs/RunnerP.v, a task that was reported is never
   started), and nothing after the interrupt touches the DB but the flush.  Hence no event of the run writes to it ... *)
Theorem C06_interrupt_not_removed : forall tasks wake_rank calc_rank continue_ always fuel selected r k,
  serial tasks wake_rank calc_rank continue_ always fuel (r_init selected) None = (r, StopInterrupt k) ->
  ~ In (ERemove k) (r_tr r) /\ ~ In (ESave k) (r_tr r) /\ (forall kd, ~ In (EFailure k kd) (r_tr r)).
Proof. exact interrupt_not_removed. Qed.
Print Assumptions C06_interrupt_not_removed.

(* ... and its record after the interrupted run is the record found before the run (or no record, if there was none):
   never a mixture of the old record and the state of the interrupted execution.  [session_db recd m tr] = the map the
   backends implement after the operations of trace tr on the map m; harness/c06.py compares exactly this term with
   the DB the real backend classes read after each interrupted run, every record key by key. *)
Theorem C06_interrupt_record_untouched : forall tasks wake_rank calc_rank continue_ always fuel selected r k
    (recd : name -> list (N * Z)) (m : spec),
  serial tasks wake_rank calc_rank continue_ always fuel (r_init selected) None = (r, StopInterrupt k) ->
  session_db recd m (r_tr r) k = m k.
Proof. exact interrupt_record_untouched. Qed.
Print Assumptions C06_interrupt_record_untouched.

(* ---- "raised inside ANY action": the class that executes the callable (Model/ActionClass.v) ----
   CPython = PythonAction (a callable, a (callable, args, kwargs) tuple or a PythonAction object in `actions`),
   CPyInteractive = doit.tools.PythonInteractiveAction, CCmdCallable = CmdAction(callable).  [ca_tag a] = how the
   callable of action a ended; RBaseExc = it raised a BaseException that is no Exception (KeyboardInterrupt, SystemExit,
   GeneratorExit, a subclass of the user).  Correspondence: harness/c06.py part (1e) runs the `execute` of the real
   classes on every (class, way the callable ends, exception class) and compares with [enc_cls]; the interrupt sweep
   of (1e) has every class at the interruption point, with the real runners.
   In every class such an exception leaves `execute` (is neither a success nor a failure), and only such an exception does;
   no class makes a success of a callable that raised. *)
Theorem C06_base_exception_leaves_every_action_class : forall a,
  (ca_tag a = RBaseExc -> cls_execute a = APropagates) /\
  (cls_execute a = APropagates -> ca_tag a = RBaseExc) /\
  (cls_execute a = AOk -> ca_tag a <> RBaseExc /\ ca_tag a <> RRaises).
Proof. exact action_class_cases. Qed.
Print Assumptions C06_base_exception_leaves_every_action_class.

(* The interrupt is never swallowed.  Let the table's t_outcome be what Task.execute makes of each task's actions
   ([acts_of j]: class and end of every callable).  If the run started the actions of task k and the first action of k that
   does not succeed is one -- of any class -- whose callable raises such an exception, then the run ENDS there
   (StopInterrupt k: the exception reaches the caller of run_all after the flush, exit status 4 in the harness's encoding):
   no callable of k after that one is started, k is neither saved nor reported successful, the trace is
   b ++ [execute k; close; teardowns] -- nothing is selected or executed after it -- and every task saved or reported
   successful in b is one whose actions ALL succeeded. *)
Theorem C06_interrupt_never_swallowed : forall tasks wake_rank calc_rank continue_ always (acts_of : name -> list cact),
  (forall j, t_outcome (get_task tasks j) = outcome_of (cls_task_outcome (acts_of j))) ->
  forall fuel selected r s k pre a post,
  serial tasks wake_rank calc_rank continue_ always fuel (r_init selected) None = (r, s) ->
  In (EExecute k) (r_tr r) ->
  acts_of k = pre ++ a :: post -> Forall (fun x => cls_execute x = AOk) pre -> ca_tag a = RBaseExc ->
  s = StopInterrupt k /\
  cls_started (acts_of k) = S (length pre) /\
  ~ In (ESave k) (r_tr r) /\ ~ In (ESuccess k) (r_tr r) /\
  exists b tds, r_tr r = b ++ [EExecute k] ++ EClose :: map ETeardown tds /\
                ~ In EClose b /\ (forall j, ~ In (ETeardown j) b) /\
                (forall j, In (ESave j) b \/ In (ESuccess j) b -> Forall (fun x => cls_execute x = AOk) (acts_of j)).
Proof. exact interrupt_never_swallowed. Qed.
Print Assumptions C06_interrupt_never_swallowed.

(* Read the other way: a run that ended by an interrupt at k did so because an action of k raised (all actions of k before
   it succeeded, none after it was started), and a task that was saved or reported successful is another task, none of
   whose callables raised anything -- a record is never the record of an execution that was cut short. *)
Theorem C06_interrupt_any_action_class : forall tasks wake_rank calc_rank continue_ always (acts_of : name -> list cact),
  (forall j, t_outcome (get_task tasks j) = outcome_of (cls_task_outcome (acts_of j))) ->
  forall fuel selected r k,
  serial tasks wake_rank calc_rank continue_ always fuel (r_init selected) None = (r, StopInterrupt k) ->
  (exists pre a post, acts_of k = pre ++ a :: post /\ Forall (fun x => cls_execute x = AOk) pre /\ ca_tag a = RBaseExc /\
                      cls_started (acts_of k) = S (length pre)) /\
  (forall j, In (ESave j) (r_tr r) \/ In (ESuccess j) (r_tr r) ->
             j <> k /\ Forall (fun x => cls_execute x = AOk /\ ca_tag x <> RBaseExc /\ ca_tag x <> RRaises) (acts_of j)).
Proof. exact interrupt_any_class. Qed.
Print Assumptions C06_interrupt_any_action_class.

(* ... and every backend answers in_(j) in the next session exactly as that map (C07 refinement), whatever the
   history of earlier sessions *)
Theorem C06_session_backends : forall (E F : Type) enc dec encdb decdb,
  codec_ok E enc dec -> dbcodec_ok F encdb decdb ->
  forall recd hist tr j,
    let ops := hist ++ db_ops recd tr ++ [In_ j] in
    let ans := OBool (has (exec spec_step (exec spec_step empty hist) (db_ops recd tr)) j) in
    last (run_json F encdb decdb ops) OUnit = ans /\
    last (run_dbm E enc dec false ops) OUnit = ans /\
    last (run_sqlite E enc dec false false ops) OUnit = ans.
Proof. exact session_backends. Qed.
Print Assumptions C06_session_backends.

(* dump() is the single point where the session reaches the disk: no operation before it changes JsonDB's file or
   SqliteDB's committed table; DbmDB writes through only on remove / remove_all *)
Theorem C06_flush_point_json : forall (F : Type) encdb decdb ops s, ~ In Reopen ops ->
  j_file F (exec (json_step F encdb decdb) s ops) = j_file F s.
Proof. exact json_file_frame. Qed.
Print Assumptions C06_flush_point_json.
Theorem C06_flush_point_sqlite : forall (E : Type) enc dec lg ls ops s, ~ In Reopen ops ->
  q_disk E (exec (sq_step E enc dec lg ls) s ops) = q_disk E s.
Proof. exact sqlite_disk_frame. Qed.
Print Assumptions C06_flush_point_sqlite.
Theorem C06_flush_point_dbm : forall (E : Type) enc dec lg ops s, Forall no_dbm_write ops ->
  d_dbm E (exec (dbm_step E enc dec lg) s ops) = d_dbm E s.
Proof. exact dbm_file_frame. Qed.
Print Assumptions C06_flush_point_dbm.

(* ===================== kill half ===================== *)

(* JsonDB.dump = truncate, then the document in chunks (any chunking): every crash state is the old file, the
   complete new file, or a proper prefix of the new document (the empty file included) *)
Theorem C06_json_crash : forall old chunks k,
  json_crash old chunks k = old \/
  json_crash old chunks k = Some (concat chunks) \/
  exists p, json_crash old chunks k = Some p /\ proper_prefix p (concat chunks).
Proof. exact json_crash_cases. Qed.
Print Assumptions C06_json_crash.

(* with J-prefix (the decoder rejects every proper prefix of an encoded DB -- an oracle assumption, exercised by
   the harness on every DB it sees) the next JsonDB(...) loads the old content, the new content, or raises
   DatabaseException (exit code 3) *)
Theorem C06_json_crash_refused : forall encdb decdb, J_prefix encdb decdb ->
  forall old m chunks k, concat chunks = encdb m ->
    let f := json_crash old chunks k in
    json_load decdb f = json_load decdb old \/ json_load decdb f = json_load decdb (Some (encdb m)) \/
    json_load decdb f = Refused.
Proof. exact json_crash_load. Qed.
Print Assumptions C06_json_crash_refused.

(* the complete step list writes what Backends.json_dump says *)
Theorem C06_json_crash_complete : forall encdb (s : jsondb bytes) chunks,
  concat chunks = encdb (j_db bytes s) ->
  json_crash (j_file bytes s) chunks (S (length chunks)) = j_file bytes (json_dump bytes encdb s).
Proof. exact json_crash_is_dump. Qed.
Print Assumptions C06_json_crash_complete.

(* SqliteDB.dump = one atomic commit (trusted): old table or new table *)
Theorem C06_sqlite_crash : forall (E : Type) enc (s : sqlitedb E) k,
  sq_crash E enc s k = q_disk E s \/ exists t, sq_dump E enc s = Some t /\ sq_crash E enc s k = t.
Proof. exact sqlite_crash_cases. Qed.
Print Assumptions C06_sqlite_crash.

(* dbm.dumb.  PROVED, for the step model of Crash.v (one session = the deletes of the run, each followed by
   _commit, then one store per dirty task -- distinct keys --, then close; a kill after any number of steps),
   started on a structurally well-formed disk (dumb_wf: distinct keys, values inside the file, block-disjoint):
   the next process finds the index unreadable (torn last line: open raises), or reads for each key
     - nothing (absent), or
     - exactly the bytes it would have read before the session (old), or
     - exactly the new value, or
     - torn old new: the new value written over the old one while the index still has the old size.
   ASSUMED (not in the statement, see the header): the granularity and order of the steps; that a torn .dir line
   makes open() raise (or, at worst, hides the torn key).  The hypothesis dumb_wf is not an assumption: it holds for
   the empty disk and at every readable crash state again (C06_dumb_crash_wf / C06_dumb_reachable_wf below). *)
Theorem C06_dumb_crash_partial : forall d0 dels sets k t,
  dumb_wf d0 -> NoDup (map fst sets) ->
  match dumb_read (dumb_crash d0 dels sets k) t with
  | DRefused => True
  | DAbsent => True
  | DBytes b =>
      (exists old, dumb_read d0 t = DBytes old /\ (b = old \/ exists new, In (t, new) sets /\ b = torn old new)) \/
      (exists new, In (t, new) sets /\ b = new)
  end.
Proof. exact dumb_crash_reads. Qed.
Print Assumptions C06_dumb_crash_partial.

(* every crash state of a session started on a well-formed disk either has a torn index (open raises) or is
   well-formed again; hence so is every disk reachable from "no files" by any number of sessions, each completed
   (k large) or killed after any step *)
Theorem C06_dumb_crash_wf : forall d0 dels sets k,
  dumb_wf d0 -> NoDup (map fst sets) ->
  let d := dumb_crash d0 dels sets k in
  (exists l, dk_dir d = Some (l, true)) \/ dumb_wf d.
Proof. exact dumb_crash_wf. Qed.
Print Assumptions C06_dumb_crash_wf.
Theorem C06_dumb_reachable_wf : forall d, reachable d -> (exists l, dk_dir d = Some (l, true)) \/ dumb_wf d.
Proof. exact reachable_wf. Qed.
Print Assumptions C06_dumb_reachable_wf.

(* with the decoder oracles R-prefix (a proper prefix of an encoded record is rejected) and R-extra (an encoded
   record followed by the tail of a longer one is rejected) a torn value is the new record or an error: DbmDB.get
   yields the record stored before, a record stored by this session, nothing, or raises *)
Theorem C06_dumb_crash_records_partial : forall enc dec, R_prefix enc dec -> R_extra enc dec ->
  forall d0 dels (recs : list (N * trec)) k t,
    dumb_wf d0 -> NoDup (map fst recs) ->
    (forall b, dumb_read d0 t = DBytes b -> exists r, b = enc r) ->
    let sets := map (fun kr => (fst kr, enc (snd kr))) recs in
    match dumb_record dec (dumb_crash d0 dels sets k) t with
    | RRefused => True
    | RAbsent => True
    | RRecord r => dumb_record dec d0 t = RRecord r \/ exists r', In (t, r') recs /\ dec (enc r') = Some r
    end.
Proof. exact dumb_crash_records. Qed.
Print Assumptions C06_dumb_crash_records_partial.

(* ===================== non-vacuity ===================== *)

(* an interrupted run: t0 succeeds, t1 (which depends on it) raises; the trace is
   get_status 0, execute 0, save 0, success 0, get_status 1, execute 1, close *)
Definition ex_tasks (n : name) : option task :=
  match n with
  | 0%N => Some (Build_task [] [] [] false false CkRun false OOk [] [] [])
  | 1%N => Some (Build_task [0%N] [] [] false false CkRun false OInterrupt [] [] [])
  | _ => None
  end.
Example C06_interrupt_nonvacuous :
  exists r, serial ex_tasks (fun _ _ => 0%N) (fun x => x) false false 100 (r_init [1%N]) None = (r, StopInterrupt 1%N) /\
            r_tr r = [EGetStatus 0%N; EExecute 0%N; ESave 0%N; ESuccess 0%N; EGetStatus 1%N; EExecute 1%N; EClose].
Proof. eexists. vm_compute. split; reflexivity. Qed.

(* the action-class theorems: t0 = [PythonAction returning True; PythonInteractiveAction returning a dict] succeeds,
   t1 = [CmdAction(callable) -> `true`; PythonInteractiveAction raising KeyboardInterrupt; PythonAction never started];
   the table of ex_tasks is the one these actions give, and the run is the interrupted run of C06_interrupt_nonvacuous *)
Definition ex_acts (n : name) : list cact :=
  match n with
  | 0%N => [Build_cact CPython RTrue 0; Build_cact CPyInteractive RDict 0]
  | 1%N => [Build_cact CCmdCallable RStr 0; Build_cact CPyInteractive RBaseExc 0; Build_cact CPython RTrue 0]
  | _ => []
  end.
Example C06_action_class_nonvacuous :
  (forall j, t_outcome (get_task ex_tasks j) = outcome_of (cls_task_outcome (ex_acts j))) /\
  ex_acts 1%N = [Build_cact CCmdCallable RStr 0] ++ Build_cact CPyInteractive RBaseExc 0 :: [Build_cact CPython RTrue 0] /\
  Forall (fun x => cls_execute x = AOk) [Build_cact CCmdCallable RStr 0] /\
  cls_started (ex_acts 1%N) = 2 /\
  map cls_execute [Build_cact CPython RBaseExc 0; Build_cact CPyInteractive RBaseExc 0; Build_cact CCmdCallable RBaseExc 0]
    = [APropagates; APropagates; APropagates] /\
  map cls_execute [Build_cact CPython RFalse 0; Build_cact CPyInteractive RFalse 0; Build_cact CCmdCallable RFalse 0]
    = [AFailed; AOk; AError].
Proof.
  split.
  - intro j. destruct j as [|[p|p|]]; try reflexivity; destruct p; reflexivity.
  - repeat split; try reflexivity. repeat constructor.
Qed.

(* ... with a prior record {key 0 -> 5} of the interrupted task 1 and a record saved for task 0: the DB after the run
   records task 0 and still holds exactly the old record of task 1 *)
Example C06_interrupt_record_nonvacuous :
  exists r, serial ex_tasks (fun _ _ => 0%N) (fun x => x) false false 100 (r_init [1%N]) None = (r, StopInterrupt 1%N) /\
            enc_spec [0%N; 1%N] [0%N; 1%N]
              (session_db (fun n => [(1%N, 7%Z)]) (mk_spec [(1%N, [(0%N, 5%Z)])]) (r_tr r)) = [1; -1; 7; 1; 5; -1]%Z.
Proof. eexists. vm_compute. split; reflexivity. Qed.

(* the oracle hypotheses are satisfiable *)
Example C06_J_prefix_nonvacuous :
  J_prefix (fun _ => [123%N; 125%N]) (fun b => if list_eqb N.eqb b [123%N; 125%N] then Some empty else None).
Proof.
  intros m p (s & Hs & E). destruct p as [|a [|b [|c p]]]; simpl in E; inversion E; subst; try reflexivity.
  exfalso. apply Hs. reflexivity.
Qed.
Example C06_R_oracles_nonvacuous :
  let enc := fun r : trec => match r 0%N with Some _ => [123%N; 49%N; 125%N] | None => [123%N; 125%N] end in
  let dec := fun b : bytes => if list_eqb N.eqb b [123%N; 125%N] then Some (@empty Z)
                              else if list_eqb N.eqb b [123%N; 49%N; 125%N] then Some (upd empty 0%N (Some 1%Z)) else None in
  R_prefix enc dec /\ R_extra enc dec.
Proof.
  intros enc dec. split.
  - intros r p (s & Hs & E). unfold enc in E. destruct (r 0%N).
    + destruct p as [|a [|b [|c [|x p]]]]; simpl in E; inversion E; subst; try reflexivity. exfalso. apply Hs. reflexivity.
    + destruct p as [|a [|b [|x p]]]; simpl in E; inversion E; subst; try reflexivity. exfalso. apply Hs. reflexivity.
  - intros r r' Hl. unfold enc in *. destruct (r 0%N), (r' 0%N); simpl in Hl; try lia. reflexivity.
Qed.

(* a well-formed disk with two keys, and the states a kill can leave: key 1 (5 bytes "aaaaa" at 0) is overwritten
   in place by the 2 bytes "bb"; after the .dat write and before the index is rewritten it reads "bbaaa" = torn *)
Definition ex_disk : ddisk := dumb_sessions [([], [(1%N, repeat 97%N 5); (2%N, repeat 99%N 3)])].
Example C06_dumb_wf_nonvacuous : dumb_wf ex_disk /\ dumb_wf ddisk_empty.
Proof.
  split; [|exact I]. vm_compute. split; [reflexivity|]. constructor.
  - repeat constructor; simpl; intuition discriminate.
  - intros e [<-|[<-|[]]]; simpl; lia.
  - intros e [<-|[<-|[]]]; vm_compute; lia.
  - intros e1 e2 [<-|[<-|[]]] [<-|[<-|[]]] Hk; vm_compute; try lia; exfalso; apply Hk; reflexivity.
Qed.
Example C06_dumb_torn_state_reachable :
  let sets := [(1%N, repeat 98%N 2)] in
  dumb_read ex_disk 1%N = DBytes (repeat 97%N 5) /\
  dumb_read (dumb_crash ex_disk [] sets 1) 1%N = DBytes (torn (repeat 97%N 5) (repeat 98%N 2)) /\
  torn (repeat 97%N 5) (repeat 98%N 2) = [98; 98; 97; 97; 97]%N /\
  dumb_read (dumb_crash ex_disk [] sets 3) 1%N = DAbsent /\           (* .dir renamed away *)
  dumb_read (dumb_crash ex_disk [] sets 5) 1%N = DRefused /\          (* torn first line *)
  dumb_read (dumb_crash ex_disk [] sets 100) 1%N = DBytes (repeat 98%N 2).
Proof. vm_compute. repeat split; reflexivity. Qed.

Example C06_json_crash_nonvacuous :
  json_crash (Some [1%N]) [[2%N; 3%N]; [4%N]] 0 = Some [1%N] /\ json_crash (Some [1%N]) [[2%N; 3%N]; [4%N]] 1 = Some [] /\
  json_crash (Some [1%N]) [[2%N; 3%N]; [4%N]] 2 = Some [2%N; 3%N] /\ json_crash (Some [1%N]) [[2%N; 3%N]; [4%N]] 3 = Some [2%N; 3%N; 4%N].
Proof. vm_compute. repeat split; reflexivity. Qed.

(* ===================== (1g) the record save_success leaves, whatever record it finds ===================== *)
(* Model/SaveRec.v: [save_success chk old pairs] = the record of a task after Dependency.save_success under checker [chk], when the
   record found is [old] (None = no record) and [pairs] are the (key, value) pairs of the completed execution ("_values_:", "result:",
   one per file_dep, "deps:"; the 'checker:' pair [KCHK] is added by the model).  harness/c06_history.py compares it with the real call.

   Every pair of the execution that was reported successful IS in the record -- whether the record found was written under the same
   checker, under another one (then it is dropped first) or did not exist: the values config_changed / run_once / result_dep / getargs
   read next time are remembered. *)
Theorem C06_save_keeps_every_pair : forall chk old pairs k v,
  NoDup (map fst pairs) -> In (k, v) pairs -> k <> KCHK ->
  save_success chk old pairs k = Some v.
Proof. exact save_keeps_every_pair. Qed.
Print Assumptions C06_save_keeps_every_pair.

Theorem C06_save_records_checker : forall chk old pairs, save_success chk old pairs KCHK = Some chk.
Proof. exact save_records_checker. Qed.
Print Assumptions C06_save_records_checker.

(* "never lies": nothing of a record written under ANOTHER checker survives the save (a timestamp is never read as an md5 state):
   the record is the one a save without any prior record leaves *)
Theorem C06_save_other_checker_drops_old : forall chk old pairs c k,
  rget old KCHK = Some c -> c <> chk -> ~ In k (map fst pairs) -> k <> KCHK ->
  save_success chk old pairs k = None.
Proof. exact save_other_checker_drops_old. Qed.
Print Assumptions C06_save_other_checker_drops_old.

Theorem C06_save_other_checker_fresh : forall chk old pairs c,
  rget old KCHK = Some c -> c <> chk -> forall k, save_success chk old pairs k = save_success chk None pairs k.
Proof. exact save_other_checker_fresh. Qed.
Print Assumptions C06_save_other_checker_fresh.

(* a record of the same checker (or one without the key) is updated in place *)
Theorem C06_save_same_checker_keeps_old : forall chk old pairs k,
  (rget old KCHK = Some chk \/ rget old KCHK = None) -> ~ In k (map fst pairs) -> k <> KCHK ->
  save_success chk old pairs k = rget old k.
Proof. exact save_same_checker_keeps_old. Qed.
Print Assumptions C06_save_same_checker_keeps_old.

(* the ORDER matters (seeded/C06g): with the guard after the values / result pairs a pair of the successful execution is lost
   where save_success keeps it -- C06_save_keeps_every_pair is not true of that variant *)
Theorem C06_save_late_guard_refuted :
  exists chk old pre post k v, In (k, v) pre /\ k <> KCHK /\ NoDup (map fst (pre ++ post)) /\
    save_success chk old (pre ++ post) k = Some v /\
    save_success_late_guard chk old pre post k = None.
Proof. exact late_guard_loses_values. Qed.
Print Assumptions C06_save_late_guard_refuted.

(* non-vacuity: a record under checker 7 with values (key 0) and a file_dep state (key 5); a save under checker 8 *)
Example C06_save_nonvacuous :
  let old := Some (mk_rec [(0%N, 1%Z); (KCHK, 7%Z); (5%N, 2%Z)]) in
  let pairs := [(0%N, 3%Z); (3%N, 4%Z)] in
  NoDup (map fst pairs) /\ rget old KCHK = Some 7%Z /\
  enc_rec [0%N; 1%N; 2%N; 3%N; 5%N] (Some (save_success 8%Z old pairs)) = [1; 3; -1; 8; 4; -1]%Z /\
  enc_rec [0%N; 1%N; 2%N; 3%N; 5%N] (Some (save_success 7%Z old pairs)) = [1; 3; -1; 7; 4; 2]%Z.
Proof. split; [repeat constructor; simpl; intuition discriminate|]. vm_compute. repeat split; reflexivity. Qed.
