(* C18 -- Loading maps task-creators to a well-formed, validated task set.
   Statements only; every proof is `exact <lemma of Proofs/LoaderP.v>` or a closed computation on a witness.

   load fmt fnmatch level cmds allow_delayed creators  =  loader.load_tasks followed by TaskControl(...)
   (Model/Loader.v).  level L2 is the current code; L1 / L0 are the code before the repairs made for
   this property / before the two earlier ones: what they did is kept as `_legacy_refuted` statements.
   fmt (format of a non-str value in the f-string `basename:name`, only reachable before the repairs)
   and fnmatch are oracles: every theorem holds for all of them. *)
From Coq Require Import Sorting.Permutation Sorting.Sorted.
From DoitV Require Import Base Loader LoaderP LoaderEntry LoaderEntryP.
Open Scope Z_scope.
Open Scope string_scope.

(* ================================================================== totality *)

(* No unexpected exception escapes: for every list of creators, whatever they return or yield -- dicts
   with any subset of attributes carrying values of any type, with any elements, nested generators of
   any depth, Task objects, non-dicts, empty generators, delayed creators -- loading ends in a task
   list or in InvalidTask / InvalidDodoFile. *)
Theorem C18_total : forall fmt fnmatch cmds allow cs c,
  load fmt fnmatch L2 cmds allow cs <> Crash c.
Proof. exact load_total. Qed.
Print Assumptions C18_total.

(* the inputs that used to end in an internal traceback are now invalid-task errors *)
Example C18_total_examples : forall fmt fnmatch,
  let ld r := load fmt fnmatch L2 [] false [ {| c_name := "a"; c_delayed := None; c_result := r |} ] in
  let A := (KAttr AActions, VNone) in
  ld (IDict [A; (KAttr ATaskDep, VList [VInt 1])]) = Invalid InvalidTask /\
  ld (IDict [A; (KAttr ASetup, VList [VList [VInt 1]])]) = Invalid InvalidTask /\
  ld (IDict [A; (KAttr ACalcDep, VList [VList [VInt 1]])]) = Invalid InvalidTask /\
  ld (IDict [A; (KAttr ATaskDep, VList [VList [VStr "*"]])]) = Invalid InvalidTask /\
  ld (IDict [A; (KAttr AGetargs, VDict [(VStr "k", VInt 5)])]) = Invalid InvalidTask /\
  ld (IDict [A; (KAttr AGetargs, VDict [(VStr "k", VDict [(VStr "x", VStr "a"); (VStr "y", VStr "v")])])]) = Invalid InvalidTask /\
  ld (IDict [A; (KAttr AGetargs, VDict [(VStr "k", VTuple [VList [VInt 1]; VStr "v"])])]) = Invalid InvalidTask /\
  ld (IDict [A; (KAttr AUptodate, VList [VTuple []])]) = Invalid InvalidTask /\
  ld (IDict [A; (KAttr AUptodate, VList [VTuple [VFun 1; VInt 5]])]) = Invalid InvalidTask /\
  ld (IGen [IDict [A; (KBasename, VList [VInt 1])]]) = Invalid InvalidTask /\
  (exists t, ld (IDict [A; (KAttr AUptodate, VTuple [VTrue]);
                        (KAttr AGetargs, VDict [(VStr "k", VTuple [VStr "a"; VStr "v"])])]) = Ok [t]).
Proof. intros. vm_compute. repeat split. eexists. reflexivity. Qed.

(* ---- the code before the repairs (L1): each of these was an internal traceback ---- *)

(* task_dep: [1]  ->  TypeError in Task._expand_task_dep (`"*" in 1`) *)
Theorem C18_total_legacy_refuted :
  exists cs, forall fmt fnmatch, load fmt fnmatch L1 [] false cs = Crash TypeError.
Proof.
  exists [ {| c_name := "a"; c_delayed := None;
              c_result := IDict [(KAttr AActions, VNone); (KAttr ATaskDep, VList [VInt 1])] |} ].
  intros. vm_compute. reflexivity.
Qed.
Print Assumptions C18_total_legacy_refuted.

(* every attribute of a documented type: uptodate=(True,), getargs={'k': ('a','v')}  ->
   AttributeError: 'tuple' object has no attribute 'extend' *)
Theorem C18_total_uptodate_tuple_getargs_legacy_refuted :
  exists cs, forall fmt fnmatch, load fmt fnmatch L1 [] false cs = Crash AttributeError.
Proof.
  exists [ {| c_name := "a"; c_delayed := None;
              c_result := IDict [(KAttr AActions, VNone); (KAttr AUptodate, VTuple [VTrue]);
                                 (KAttr AGetargs, VDict [(VStr "k", VTuple [VStr "a"; VStr "v"])])] |} ].
  intros. vm_compute. reflexivity.
Qed.
Print Assumptions C18_total_uptodate_tuple_getargs_legacy_refuted.

(* setup: [[1]], task_dep: [['a']], calc_dep: [[1]]  ->  TypeError: unhashable type *)
Theorem C18_total_unhashable_dep_legacy_refuted :
  exists cs1 cs2 cs3, forall fmt fnmatch,
    load fmt fnmatch L1 [] false cs1 = Crash TypeError /\
    load fmt fnmatch L1 [] false cs2 = Crash TypeError /\
    load fmt fnmatch L1 [] false cs3 = Crash TypeError.
Proof.
  exists [ {| c_name := "a"; c_delayed := None; c_result := IDict [(KAttr AActions, VNone); (KAttr ASetup, VList [VList [VInt 1]])] |} ],
         [ {| c_name := "a"; c_delayed := None; c_result := IDict [(KAttr AActions, VNone); (KAttr ATaskDep, VList [VList [VStr "a"]])] |} ],
         [ {| c_name := "a"; c_delayed := None; c_result := IDict [(KAttr AActions, VNone); (KAttr ACalcDep, VList [VList [VInt 1]])] |} ].
  intros. vm_compute. auto.
Qed.
Print Assumptions C18_total_unhashable_dep_legacy_refuted.

(* getargs: {'k': 5} -> TypeError (len);  {'k': {'x': 'a', 'y': 'v'}} -> KeyError (parts[0]);
   {'k': ([1], 'v')} -> TypeError (unhashable) in Task._init_getargs *)
Theorem C18_total_getargs_value_legacy_refuted :
  exists cs1 cs2 cs3, forall fmt fnmatch,
    load fmt fnmatch L1 [] false cs1 = Crash TypeError /\
    load fmt fnmatch L1 [] false cs2 = Crash KeyError /\
    load fmt fnmatch L1 [] false cs3 = Crash TypeError.
Proof.
  exists [ {| c_name := "a"; c_delayed := None; c_result := IDict [(KAttr AActions, VNone); (KAttr AGetargs, VDict [(VStr "k", VInt 5)])] |} ],
         [ {| c_name := "a"; c_delayed := None; c_result := IDict [(KAttr AActions, VNone);
              (KAttr AGetargs, VDict [(VStr "k", VDict [(VStr "x", VStr "a"); (VStr "y", VStr "v")])])] |} ],
         [ {| c_name := "a"; c_delayed := None; c_result := IDict [(KAttr AActions, VNone);
              (KAttr AGetargs, VDict [(VStr "k", VTuple [VList [VInt 1]; VStr "v"])])] |} ].
  intros. vm_compute. auto.
Qed.
Print Assumptions C18_total_getargs_value_legacy_refuted.

(* uptodate: [()] -> IndexError (item[0]);  uptodate: [(f, 5)] -> TypeError (list(item[1])) *)
Theorem C18_total_uptodate_item_legacy_refuted :
  exists cs1 cs2, forall fmt fnmatch,
    load fmt fnmatch L1 [] false cs1 = Crash IndexError /\
    load fmt fnmatch L1 [] false cs2 = Crash TypeError.
Proof.
  exists [ {| c_name := "a"; c_delayed := None; c_result := IDict [(KAttr AActions, VNone); (KAttr AUptodate, VList [VTuple []])] |} ],
         [ {| c_name := "a"; c_delayed := None; c_result := IDict [(KAttr AActions, VNone); (KAttr AUptodate, VList [VTuple [VFun 1; VInt 5]])] |} ].
  intros. vm_compute. auto.
Qed.
Print Assumptions C18_total_uptodate_item_legacy_refuted.

(* a yielded dict with basename: [1]  ->  TypeError: unhashable type in _generate_task_from_yield;
   task_dep: [['*']]  ->  TypeError in fnmatch (TaskControl._get_wild_tasks) *)
Theorem C18_total_basename_wild_legacy_refuted :
  exists cs1 cs2, forall fmt fnmatch,
    load fmt fnmatch L1 [] false cs1 = Crash TypeError /\
    load fmt fnmatch L1 [] false cs2 = Crash TypeError.
Proof.
  exists [ {| c_name := "a"; c_delayed := None; c_result := IGen [IDict [(KAttr AActions, VNone); (KBasename, VList [VInt 1])]] |} ],
         [ {| c_name := "a"; c_delayed := None; c_result := IDict [(KAttr AActions, VNone); (KAttr ATaskDep, VList [VList [VStr "*"]])] |} ].
  intros. vm_compute. auto.
Qed.
Print Assumptions C18_total_basename_wild_legacy_refuted.

(* ================================================================== well-formedness of an accepted task set *)

(* names are unique and are exactly the names the creators produce, in definition / yield order
   (first occurrence; a group task comes before its first sub-task; an empty generator gives its
   own group task; see LoaderP.creator_keys / item_keys); targets are unique; every task_dep,
   setup task (those implied by getargs included) and calc_dep names a task of the set *)
Theorem C18_wellformed : forall fmt fnmatch cmds allow cs ts,
  load fmt fnmatch L2 cmds allow cs = Ok ts ->
  NoDup (map t_name ts) /\
  map t_name ts = flat_map (creator_keys allow) cs /\
  NoDup (flat_map t_targets ts) /\
  forall t, In t ts -> refs_in (map t_name ts) (t_task_dep t) /\ refs_in (map t_name ts) (t_setup t) /\
                       refs_in (map t_name ts) (t_calc t).
Proof.
  intros fmt fnmatch cmds allow cs ts H.
  exact (conj (proj1 (load_post fmt fnmatch cmds allow cs ts H))
        (conj (load_names fmt fnmatch cmds allow cs ts H) (proj2 (load_post fmt fnmatch cmds allow cs ts H)))).
Qed.
Print Assumptions C18_wellformed.

(* group structure: every sub-task `b:n` has subtask_of = b, b is a task of the set with has_subtask
   whose task_dep contains the sub-task; and a group's task_dep is
   pre ++ [its sub-tasks, in the order they were yielded] ++ post   (pre = the task_dep given in a
   group definition, post = wild-card matches and implicit dependencies via targets) *)
Theorem C18_wellformed_groups : forall fmt fnmatch cmds allow cs ts,
  load fmt fnmatch L2 cmds allow cs = Ok ts ->
  (forall t b, In t ts -> t_subtask_of t = Some b ->
     exists g, In g ts /\ t_name g = b /\ t_has_subtask g = true /\ In (VStr (t_name t)) (t_task_dep g) /\
               sub_name b (t_name t)) /\
  (forall g, In g ts -> t_has_subtask g = true ->
     exists pre post, t_task_dep g = pre ++ map VStr (subs_l (t_name g) ts) ++ post)%list.
Proof. exact load_struct. Qed.
Print Assumptions C18_wellformed_groups.

(* the hypothesis is satisfiable: a group definition yielded after a sub-task, sub-tasks in nested
   generators, a Task object, a task depending on them by wild-card and by a target: accepted, and the
   group depends on both sub-tasks in yield order *)
Example C18_wellformed_nonvacuous : forall fmt,
  exists ts g, load fmt fnmatch_star L2 ["list"; "run"] false
      [ {| c_name := "a"; c_delayed := None;
           c_result := IGen [IDict [(KName, VStr "x"); (KAttr AActions, VNone)];
                             IDict [(KName, VNone); (KAttr ATaskDep, VList [VStr "t"])];
                             IGen [IDict [(KName, VStr "y"); (KAttr AActions, VNone); (KAttr ATargets, VList [VStr "o"])]];
                             ITaskObj (VStr "z") []] |};
        {| c_name := "t"; c_delayed := None;
           c_result := IDict [(KAttr AActions, VNone); (KAttr ATaskDep, VList [VStr "a:*"]); (KAttr AFileDep, VList [VStr "o"])] |} ]
    = Ok ts /\ map t_name ts = ["a"; "a:x"; "a:y"; "z"; "t"] /\
    In g ts /\ t_name g = "a" /\ t_task_dep g = [VStr "t"; VStr "a:x"; VStr "a:y"].
Proof.
  intros fmt. eexists. eexists. split; [vm_compute; reflexivity|]. split; [reflexivity|].
  split; [left; reflexivity|]. split; reflexivity.
Qed.

(* before the repair (L1): `name: None` yielded after sub-tasks replaced the group task, the earlier
   sub-task was no longer a dependency of its group (so `doit a` did not run a:x) *)
Theorem C18_wellformed_groups_legacy_refuted :
  exists cs, forall fmt fnmatch, exists ts t g,
    load fmt fnmatch L1 [] false cs = Ok ts /\ In t ts /\ In g ts /\
    t_subtask_of t = Some (t_name g) /\ ~ In (VStr (t_name t)) (t_task_dep g).
Proof.
  exists [ {| c_name := "a"; c_delayed := None;
              c_result := IGen [IDict [(KName, VStr "x"); (KAttr AActions, VNone)];
                                IDict [(KName, VNone); (KAttr ADoc, VStr "doc")];
                                IDict [(KName, VStr "y"); (KAttr AActions, VNone)]] |} ].
  intros fmt fnmatch. eexists. eexists. eexists.
  split; [vm_compute; reflexivity|].
  split; [right; left; reflexivity|]. split; [left; reflexivity|].
  split; [reflexivity|]. simpl. intros [H|[]]. discriminate.
Qed.
Print Assumptions C18_wellformed_groups_legacy_refuted.

(* before the repair (L1): a Task object yielded under the name of the group replaced it; the
   sub-task's group was then a task without has_subtask.  Now: duplicated definition *)
Theorem C18_wellformed_group_replaced_legacy_refuted :
  exists cs, forall fmt fnmatch,
    (exists ts t g, load fmt fnmatch L1 [] false cs = Ok ts /\ In t ts /\ In g ts /\
                    t_subtask_of t = Some (t_name g) /\ t_has_subtask g = false) /\
    load fmt fnmatch L2 [] false cs = Invalid InvalidTask.
Proof.
  exists [ {| c_name := "a"; c_delayed := None;
              c_result := IGen [IDict [(KName, VStr "x"); (KAttr AActions, VNone)]; ITaskObj (VStr "a") []] |} ].
  intros fmt fnmatch. split; [|vm_compute; reflexivity]. eexists. eexists. eexists.
  split; [vm_compute; reflexivity|].
  split; [right; left; reflexivity|]. split; [left; reflexivity|].
  split; reflexivity.
Qed.
Print Assumptions C18_wellformed_group_replaced_legacy_refuted.

(* ================================================================== definition order *)

(* load_namespace = _get_task_creators on the (name, object) pairs of the namespace, funcs.sort(key=line),
   then load.  The definition line of every task-creator (inspect.getsourcelines) is an input.
   The creators are taken in the order of their definition lines, whatever their names and whatever
   their position in the namespace; creators of one line (aliases, creators sharing the wrapper of a
   decorator that hides them from inspect) keep the order of the namespace.  The three facts
   (permutation, sorted, stable) determine the order uniquely. *)
Theorem C18_definition_order_sort : forall l,
  Permutation (sort_by_line l) l /\
  StronglySorted (fun a b => fst a <= fst b) (sort_by_line l) /\
  (forall k, filter (fun x => (fst x =? k)%Z) (sort_by_line l) = filter (fun x => (fst x =? k)%Z) l).
Proof.
  intros l. exact (conj (sort_by_line_perm l) (conj (sort_by_line_sorted l) (fun k => sort_by_line_stable k l))).
Qed.
Print Assumptions C18_definition_order_sort.

(* on an accepted namespace: the task names are those of the creators (C18_wellformed) taken in
   definition order: a creator loaded before another one is defined on a smaller or the same line;
   two creators defined on the same line are loaded in the order of the namespace *)
Theorem C18_definition_order : forall fmt fnmatch cmds allow ns ts,
  load_namespace fmt fnmatch L2 cmds allow ns = Ok ts ->
  let cs := sort_by_line (get_task_creators ns) in
  map t_name ts = flat_map (creator_keys allow) (map snd cs) /\
  Permutation cs (get_task_creators ns) /\
  (forall p q r a b, cs = (p ++ a :: q ++ b :: r)%list -> fst a <= fst b) /\
  (forall p q r a b, get_task_creators ns = (p ++ a :: q ++ b :: r)%list -> fst a = fst b ->
     exists p' q' r', cs = (p' ++ a :: q' ++ b :: r')%list).
Proof.
  intros fmt fnmatch cmds allow ns ts H cs.
  exact (conj (load_namespace_names fmt fnmatch cmds allow ns ts H)
        (conj (sort_by_line_perm _)
        (conj (fun p q r a b => sort_by_line_order _ p q r a b)
              (fun p q r a b => sort_by_line_same_line _ p q r a b)))).
Qed.
Print Assumptions C18_definition_order.

(* and no namespace makes loading end in an internal traceback *)
Theorem C18_total_namespace : forall fmt fnmatch cmds allow ns c,
  load_namespace fmt fnmatch L2 cmds allow ns <> Crash c.
Proof. exact load_namespace_total. Qed.
Print Assumptions C18_total_namespace.

(* satisfiable: the namespace of a dodo file as inspect.getmembers gives it (sorted by name):
   task_alpha (line 29), task_gen (23), task_middle (19), task_zeta (15), an object with a
   create_doit_tasks attribute (line 40), plus objects that are not task-creators (a module, a
   functools.partial object called task_partial, the decorator): tasks are loaded zeta, middle, gen
   (+ sub-tasks in yield order), alpha, sample.
   With one line for all but task_middle (what a line taken from a shared wrapper gives) the order is the
   one of the namespace: alpha, gen, zeta, and only then middle *)
Example C18_definition_order_nonvacuous : forall fmt fnmatch,
  let A := (KAttr AActions, VNone) in
  let CI l r := {| ci_line := l; ci_result := r; ci_delayed := None |} in
  let E n f l r cr := {| e_name := n; e_is_task_params := false; e_isfunc := f; e_self := CI l r; e_create := cr |} in
  let ns l1 l2 l3 l4 :=
    [ E "functools" false 0 INone None;
      E "sample" true 40 (IDict [A]) (Some (None, CI 40 (IDict [A])));
      E "task_alpha" true l1 (IDict [A]) None;
      E "task_gen" true l2 (IGen [IDict [A; (KName, VStr "b")]; IDict [A; (KName, VStr "a")]]) None;
      E "task_middle" true l3 (IDict [A]) None;
      E "task_partial" false 0 INone None;
      E "task_zeta" true l4 (IDict [A]) None;
      E "traced" true 5 INone None ] in
  (exists ts, load_namespace fmt fnmatch L2 ["list"; "run"] false (ns 29 23 19 15) = Ok ts /\
              map t_name ts = ["zeta"; "middle"; "gen"; "gen:b"; "gen:a"; "alpha"; "sample"]) /\
  (exists ts, load_namespace fmt fnmatch L2 ["list"; "run"] false (ns 8 8 19 8) = Ok ts /\
              map t_name ts = ["alpha"; "gen"; "gen:b"; "gen:a"; "zeta"; "middle"; "sample"]).
Proof. intros. split; eexists; (split; [vm_compute; reflexivity | reflexivity]). Qed.

(* ================================================================== bad input is rejected *)

(* a creator whose name is a command name: InvalidDodoFile, whatever else is in the namespace *)
Theorem C18_rejects_command_name : forall fmt fnmatch level cmds allow cs c,
  In c cs -> In (c_name c) cmds -> load fmt fnmatch level cmds allow cs = Invalid InvalidDodo.
Proof. exact cmd_clash_rejected. Qed.
Print Assumptions C18_rejects_command_name.

(* Never silently accepted.  If loading succeeds then every dict that a called creator returns, or
   yields at any nesting depth, has: no unknown field; every attribute of a type of the documented
   table Task.valid_attr ([type_ok]); `actions` present unless it is a group definition; a returned
   dict has no `name` and a str basename; a yielded dict has a str (or None / absent) basename, a str
   name (or None = group definition), and `name` or a non-empty basename *)
Theorem C18_rejects : forall fmt fnmatch cmds allow cs ts c d,
  load fmt fnmatch L2 cmds allow cs = Ok ts -> In c cs -> runs allow c = true -> gives c d ->
  (forall n, dget d (KUnknown n) = None) /\
  (forall a v, dget d (KAttr a) = Some v -> (a = AActions -> ~ group_definition d) -> type_ok a v = true) /\
  (~ group_definition d -> dhas d (KAttr AActions) = true) /\
  (c_result c = IDict d -> dhas d KName = false /\ forall v, dget d KBasename = Some v -> is_str v = true) /\
  (yields c (IDict d) ->
     (forall v, dget d KBasename = Some v -> is_str v = true \/ v = VNone) /\
     (forall v, dget d KName = Some v -> is_str v = true \/ v = VNone) /\
     (dget d KName = None -> exists s, dget d KBasename = Some (VStr s) /\ s <> EmptyString)).
Proof. exact load_dict_accepted. Qed.
Print Assumptions C18_rejects.

(* ... and everything a called creator returns or yields is a dict or a Task object of that shape
   (a non-dict, a None inside a generator, a Task with a non-str name are rejected) *)
Theorem C18_rejects_items : forall fmt fnmatch cmds allow cs ts,
  load fmt fnmatch L2 cmds allow cs = Ok ts ->
  (forall c, In c cs -> ~ In (c_name c) cmds) /\
  forall c, In c cs -> runs allow c = true -> result_accepted (c_result c).
Proof. exact load_accepted. Qed.
Print Assumptions C18_rejects_items.

(* duplicate names: the names of an accepted set are unique (C18_wellformed); and inside one generator
   no two items (plain tasks, sub-tasks, Task objects) were yielded under the same full name; a group
   definition is accepted only over the implicitly created group task (Loader.fy_group) *)
Theorem C18_rejects_duplicates : forall fmt fnmatch cmds allow cs ts c l,
  load fmt fnmatch L2 cmds allow cs = Ok ts -> In c cs -> runs allow c = true -> c_result c = IGen l ->
  NoDup (flat_map (own_key (c_name c)) (flat_map flat l)).
Proof. exact load_own_keys_nodup. Qed.
Print Assumptions C18_rejects_duplicates.

(* dangling references: for every dict a called creator returns or yields (group definitions aside):
   every non-wild-card task_dep, every setup, every calc_dep and the task id of every getargs value is
   the name of a task of the accepted set *)
Theorem C18_rejects_dangling : forall fmt fnmatch cmds allow cs ts c d,
  load fmt fnmatch L2 cmds allow cs = Ok ts -> In c cs -> runs allow c = true -> gives c d -> ~ group_definition d ->
  let names := map t_name ts in
  (forall v x, dget d (KAttr ATaskDep) = Some v -> In x (elems v) -> star_in x = Ok false -> ref_exists names x) /\
  (forall v x, dget d (KAttr ASetup) = Some v -> In x (elems v) -> ref_exists names x) /\
  (forall v x, dget d (KAttr ACalcDep) = Some v -> In x (elems v) -> ref_exists names x) /\
  (forall kv desc, dget d (KAttr AGetargs) = Some (VDict kv) -> In desc (map snd kv) ->
                   exists p0, py_item0 desc = Ok p0 /\ ref_exists names p0).
Proof. exact load_dict_refs. Qed.
Print Assumptions C18_rejects_dangling.

(* the same for every produced item, Task objects included ([item_get] = the arguments Task.__init__ gets).
   For a group definition the references are those of the group task of the final set (C18_wellformed). *)
Theorem C18_rejects_dangling_items : forall fmt fnmatch cmds allow cs ts c it get,
  load fmt fnmatch L2 cmds allow cs = Ok ts -> In c cs -> runs allow c = true -> produces c it ->
  item_get it = Some get -> refs_checked (map t_name ts) get.
Proof. exact load_refs_checked. Qed.
Print Assumptions C18_rejects_dangling_items.

(* the concrete bad inputs of the property, each Invalid (for all oracles) *)
Example C18_rejects_examples : forall fmt fnmatch,
  let ld cs := load fmt fnmatch L2 ["list"; "run"] false cs in
  let C n r := {| c_name := n; c_delayed := None; c_result := r |} in
  let A := (KAttr AActions, VNone) in
  ld [C "a" (IDict [A; (KUnknown 1, VInt 1)])] = Invalid InvalidTask /\                           (* unknown field *)
  ld [C "a" (IGen [IGen [IDict [A; (KName, VStr "x"); (KAttr AClean, VInt 1)]]])] = Invalid InvalidTask /\   (* clean: 1 *)
  ld [C "a" (IDict [A; (KAttr AVerbosity, VTrue)])] = Invalid InvalidTask /\                      (* verbosity: True *)
  ld [C "a" (IDict [A; (KAttr AGetargs, VList [])])] = Invalid InvalidTask /\                     (* getargs: [] *)
  ld [C "a" (IGen [IDict [A; (KName, VInt 5)]])] = Invalid InvalidTask /\                         (* name: 5 *)
  ld [C "a" (IGen [IDict [A; (KName, VStr "x"); (KBasename, VInt 0)]])] = Invalid InvalidTask /\  (* basename: 0 *)
  ld [C "a" (IDict [(KAttr ADoc, VStr "d")])] = Invalid InvalidTask /\                            (* no actions *)
  ld [C "a" (IGen [IDict [A]])] = Invalid InvalidTask /\                                          (* no name / basename *)
  ld [C "a" (IDict [A]); C "b" (IDict [A; (KBasename, VStr "a")])] = Invalid InvalidDodo /\       (* duplicate name *)
  ld [C "a" (IGen [IDict [A; (KName, VStr "x")]; IGen [IDict [A; (KBasename, VStr "a:x")]]])] = Invalid InvalidTask /\
  ld [C "a" (IGen [ITaskObj (VStr "x") []; ITaskObj (VStr "x") []])] = Invalid InvalidTask /\     (* two Task objects *)
  ld [C "a" (IGen [IDict [A; (KBasename, VStr "x")]; IDict [(KBasename, VStr "x"); (KName, VNone)]])] = Invalid InvalidTask /\
  ld [C "a" (IGen [IDict [(KName, VNone)]; IDict [(KName, VNone)]])] = Invalid InvalidTask /\     (* group defined twice *)
  ld [C "list" (IDict [A])] = Invalid InvalidDodo /\                                              (* command name *)
  ld [C "a" (IDict [A; (KAttr ATargets, VList [VStr "o"])]);
      C "b" (IDict [A; (KAttr ATargets, VTuple [VPath "o"])])] = Invalid InvalidTask /\           (* duplicate target *)
  ld [C "a" (IDict [A; (KAttr ATaskDep, VList [VStr "nope"])])] = Invalid InvalidTask /\          (* dangling ... *)
  ld [C "a" (IDict [A; (KAttr ASetup, VList [VStr "nope"])])] = Invalid InvalidTask /\
  ld [C "a" (IDict [A; (KAttr ACalcDep, VList [VStr "nope"])])] = Invalid InvalidTask /\
  ld [C "a" (IDict [A; (KAttr AGetargs, VDict [(VStr "k", VTuple [VStr "nope"; VStr "v"])])])] = Invalid InvalidTask.
Proof. intros. vm_compute. repeat split. Qed.

(* ================================================================== the value a creator gives, before any isinstance test *)

(* [pyres] / [classify] (Model/Loader.v): the Python value a task-creator returns or a generator yields, and the
   chain of tests generate_tasks applies to it (Task? dict? generator? None? -> anything else is an error).
   generate_tasks_py is what loader.load_tasks calls at load time AND what TaskDispatcher._add_task calls at
   run time for a create_after creator (control.py 495).

   Every result that is not None, not a dict, not a generator and not a Task is rejected, whatever its truth
   value: [] () '' 0 0.0 False exactly like 42 or object().  For every state of the code, every creator name. *)
Theorem C18_rejects_result_values : forall fmt level func v,
  v <> VNone -> is_dict v = false ->
  generate_tasks_py fmt level func (PVal v) = Invalid InvalidTask.
Proof. exact generate_tasks_py_value_rejected. Qed.
Print Assumptions C18_rejects_result_values.

(* Every returned dict without `actions` -- the empty dict {} included -- and every returned dict with `name` is
   rejected (keys are arbitrary values: only the str 'actions' counts) *)
Theorem C18_rejects_result_dicts : forall fmt level func kv,
  has_key kv "actions" = false \/ has_key kv "name" = true ->
  generate_tasks_py fmt level func (PVal (VDict kv)) = Invalid InvalidTask.
Proof. exact generate_tasks_py_dict_rejected. Qed.
Print Assumptions C18_rejects_result_dicts.

(* Conversely, whatever generate_tasks accepts is None (no task), a dict with `actions` and without `name`, a Task
   with a str name, or a generator all of whose yielded values -- at any nesting depth -- are Tasks or dicts with
   `actions` (unless `name: None`, the group definition) and with `name` or a non-empty str `basename`; a yielded
   None / [] / 0 / '' / any other non-dict is never accepted ([returned_ok], [yielded_ok] in LoaderP.v) *)
Theorem C18_rejects_results : forall fmt func r ts,
  generate_tasks_py fmt L2 func r = Ok ts -> returned_ok r.
Proof. exact generate_tasks_py_accepted. Qed.
Print Assumptions C18_rejects_results.

(* read the other way, for what a generator yields: ONE yielded value, at any nesting depth and whatever is yielded
   before or after it, that is not a dict, a Task or a generator (None, [], (), '', 0, False, 42 ...), or a dict without
   `actions` (unless `name: None`), or a dict with neither `name` nor a non-empty str `basename`: not accepted *)
Theorem C18_rejects_yielded_values : forall fmt func l v ts,
  In (PVal v) (flat_map pflat l) -> is_dict v = false -> generate_tasks_py fmt L2 func (PGen l) <> Ok ts.
Proof. exact generate_tasks_py_yield_rejected. Qed.
Print Assumptions C18_rejects_yielded_values.

Theorem C18_rejects_yielded_dicts : forall fmt func l kv ts,
  In (PVal (VDict kv)) (flat_map pflat l) ->
  (has_key kv "actions" = false /\ vget kv "name" <> Some VNone) \/
  (has_key kv "name" = false /\ forall s, vget kv "basename" = Some (VStr s) -> s = EmptyString) ->
  generate_tasks_py fmt L2 func (PGen l) <> Ok ts.
Proof. exact generate_tasks_py_yield_dict_rejected. Qed.
Print Assumptions C18_rejects_yielded_dicts.

(* the same for a namespace: if loading succeeds, every creator that is called at load time gave such a value *)
Theorem C18_rejects_results_load : forall fmt fnmatch cmds allow cs ts c,
  load_py fmt fnmatch L2 cmds allow cs = Ok ts -> In c cs -> runs allow (creator_of c) = true ->
  returned_ok (pc_result c).
Proof. intros fmt fnmatch cmds allow cs ts c H. exact (load_py_accepted fmt fnmatch cmds allow cs ts H c). Qed.
Print Assumptions C18_rejects_results_load.

(* and no value makes loading end in an internal traceback *)
Theorem C18_total_results : forall fmt fnmatch cmds allow cs c,
  load_py fmt fnmatch L2 cmds allow cs <> Crash c.
Proof. exact load_py_total. Qed.
Print Assumptions C18_total_results.

(* the falsy values one by one, next to a valid creator: rejected; None: no task; an empty generator: the group
   task; the same values yielded: rejected (None too); a valid dict: accepted -- the hypotheses of the theorems
   above are satisfiable and their conclusions are not vacuous *)
Example C18_rejects_result_examples : forall fmt fnmatch,
  let A := (VStr "actions", VNone) in
  let good := {| pc_name := "good"; pc_result := PVal (VDict [A]); pc_delayed := None |} in
  let ld r := load_py fmt fnmatch L2 ["list"; "run"] false [good; {| pc_name := "bad"; pc_result := r; pc_delayed := None |}] in
  Forall (fun v => ld (PVal v) = Invalid InvalidTask /\ ld (PGen [PVal (VDict [A; (VStr "name", VStr "x")]); PGen [PVal v]]) = Invalid InvalidTask)
         [VDict []; VList []; VTuple []; VStr ""; VInt 0; VFloat 0; VFalse;
          VDict [(VStr "doc", VStr "d")]; VList [VDict [A]]; VStr "text"; VInt 42; VTrue; VFun 1; VOther 1] /\
  ld (PGen [PVal VNone]) = Invalid InvalidTask /\
  (exists ts, ld (PVal VNone) = Ok ts /\ map t_name ts = ["good"]) /\
  (exists ts, ld (PGen [PGen []]) = Ok ts /\ map t_name ts = ["good"; "bad"]) /\
  (exists ts, ld (PVal (VDict [A; (VStr "basename", VStr "b")])) = Ok ts /\ map t_name ts = ["good"; "b"]).
Proof.
  intros. split; [repeat constructor|]. split; [reflexivity|].
  split; [|split]; eexists; (split; [vm_compute; reflexivity | reflexivity]).
Qed.

(* ---- bad input that WAS accepted before the repairs (L1) ---- *)

(* getargs: [] (any falsy value of a wrong type) passed `getargs = getargs or {}` *)
Theorem C18_rejects_getargs_falsy_legacy_refuted :
  exists cs, forall fmt fnmatch,
    (exists ts, load fmt fnmatch L1 [] false cs = Ok ts) /\ load fmt fnmatch L2 [] false cs = Invalid InvalidTask.
Proof.
  exists [ {| c_name := "a"; c_delayed := None; c_result := IDict [(KAttr AActions, VNone); (KAttr AGetargs, VList [])] |} ].
  intros. split; [eexists|]; vm_compute; reflexivity.
Qed.
Print Assumptions C18_rejects_getargs_falsy_legacy_refuted.

(* name: 5 in a yielded dict was formatted into the task name `a:5` (fmt = str.format, here of 5);
   basename: 0 (falsy) was ignored *)
Theorem C18_rejects_name_type_legacy_refuted :
  exists cs, forall fnmatch,
    (exists ts, load (fun _ => "5") fnmatch L1 [] false cs = Ok ts /\ map t_name ts = ["a"; "a:5"; "a:x"]) /\
    load (fun _ => "5") fnmatch L2 [] false cs = Invalid InvalidTask.
Proof.
  exists [ {| c_name := "a"; c_delayed := None;
              c_result := IGen [IDict [(KAttr AActions, VNone); (KName, VInt 5)];
                                IDict [(KAttr AActions, VNone); (KName, VStr "x"); (KBasename, VInt 0)]] |} ].
  intros. split; [eexists; split|]; vm_compute; reflexivity.
Qed.
Print Assumptions C18_rejects_name_type_legacy_refuted.

(* duplicate definitions that were accepted: a second Task object with the same name replaced the
   first; a group definition replaced a plain task of the same name (one task `x` resulted) *)
Theorem C18_rejects_duplicate_replaced_legacy_refuted :
  exists cs1 cs2, forall fmt fnmatch,
    (exists t, load fmt fnmatch L1 [] false cs1 = Ok [t]) /\ load fmt fnmatch L2 [] false cs1 = Invalid InvalidTask /\
    (exists t, load fmt fnmatch L1 [] false cs2 = Ok [t]) /\ load fmt fnmatch L2 [] false cs2 = Invalid InvalidTask.
Proof.
  exists [ {| c_name := "a"; c_delayed := None;
              c_result := IGen [ITaskObj (VStr "x") [(ATargets, VList [VStr "1"])]; ITaskObj (VStr "x") [(ATargets, VList [VStr "2"])]] |} ],
         [ {| c_name := "a"; c_delayed := None;
              c_result := IGen [IDict [(KAttr AActions, VNone); (KBasename, VStr "x"); (KAttr ATargets, VList [VStr "1"])];
                                IDict [(KBasename, VStr "x"); (KName, VNone)]] |} ].
  intros. split; [eexists; vm_compute; reflexivity|]. split; [vm_compute; reflexivity|].
  split; [eexists; vm_compute; reflexivity|]. vm_compute; reflexivity.
Qed.
Print Assumptions C18_rejects_duplicate_replaced_legacy_refuted.

(* ================================================================== the code as first received (L0) *)

(* clean: 1 passed check_attr (`1 in (True,)`) and `for a in clean` raised TypeError; now InvalidTask *)
Theorem C18_clean_int_legacy_refuted :
  exists cs, forall fmt fnmatch,
    load fmt fnmatch L0 [] false cs = Crash TypeError /\ load fmt fnmatch L2 [] false cs = Invalid InvalidTask.
Proof.
  exists [ {| c_name := "a"; c_delayed := None; c_result := IDict [(KAttr AActions, VNone); (KAttr AClean, VInt 1)] |} ].
  intros. vm_compute. auto.
Qed.
Print Assumptions C18_clean_int_legacy_refuted.

(* a calc_dep on a task that does not exist was accepted (KeyError later, when the task is run); now InvalidTask *)
Theorem C18_dangling_calc_dep_legacy_refuted :
  exists cs, forall fmt fnmatch,
    (exists t, load fmt fnmatch L0 [] false cs = Ok [t] /\ t_calc t = [VStr "nope"]) /\
    load fmt fnmatch L2 [] false cs = Invalid InvalidTask.
Proof.
  exists [ {| c_name := "a"; c_delayed := None; c_result := IDict [(KAttr AActions, VNone); (KAttr ACalcDep, VList [VStr "nope"])] |} ].
  intros. split; [eexists; split; vm_compute; reflexivity | vm_compute; reflexivity].
Qed.
Print Assumptions C18_dangling_calc_dep_legacy_refuted.

(* ================================================================== the entry point (Model/LoaderEntry.v)
   The namespace of task-creators can be loaded through the command line, DoitMain(loader).run, doit.run,
   doit.api.run_tasks, the default DodoTaskLoader or a LOADER plugin.  All of them configure the loader with
   cmd_base.get_loader and hand it the commands of DoitMain.get_cmds (core commands and COMMAND plugins). *)

(* the command names a task-creator must not be called like are, at every entry point, exactly the core commands
   and the plugin commands of the configuration *)
Theorem C18_entry_command_names : forall e core plugin x,
  In x (entry_cmd_names e core plugin) <-> In x core \/ In x plugin.
Proof. exact entry_cmd_names_in. Qed.
Print Assumptions C18_entry_command_names.

(* the validation does not depend on the entry point: same task list, same rejection (for load_tasks followed by
   TaskControl and for load_tasks alone), whatever the creators give *)
Theorem C18_entry_points_agree : forall fmt fnmatch level e1 e2 core plugin allow cs,
  entry_load fmt fnmatch level e1 core plugin allow cs = entry_load fmt fnmatch level e2 core plugin allow cs /\
  entry_load_tasks fmt level e1 core plugin allow cs = entry_load_tasks fmt level e2 core plugin allow cs.
Proof. exact entry_points_agree. Qed.
Print Assumptions C18_entry_points_agree.

(* a creator named like a core command or like a plugin command: InvalidDodoFile at every entry point, reported as a
   user error (exit code 3 / re-raised by run_tasks), never a traceback, whatever else is in the namespace *)
Theorem C18_entry_rejects_command_name : forall fmt fnmatch level e core plugin allow cs c,
  In c cs -> In (c_name c) core \/ In (c_name c) plugin ->
  entry_load_tasks fmt level e core plugin allow cs = Invalid InvalidDodo /\
  entry_load fmt fnmatch level e core plugin allow cs = Invalid InvalidDodo /\
  entry_report e (entry_load_tasks fmt level e core plugin allow cs) = [3; 0] /\
  entry_report e (entry_load fmt fnmatch level e core plugin allow cs) = [3; 0].
Proof. exact entry_cmd_clash. Qed.
Print Assumptions C18_entry_rejects_command_name.

(* at every entry point loading ends with exit code 0 or with a user error and exit code 3: never an internal traceback *)
Theorem C18_entry_total : forall fmt fnmatch e core plugin allow cs,
  (entry_report e (entry_load fmt fnmatch L2 e core plugin allow cs) = [0; 0] \/
   entry_report e (entry_load fmt fnmatch L2 e core plugin allow cs) = [3; 0]) /\
  (entry_report e (entry_load_tasks fmt L2 e core plugin allow cs) = [0; 0] \/
   entry_report e (entry_load_tasks fmt L2 e core plugin allow cs) = [3; 0]).
Proof. exact entry_total. Qed.
Print Assumptions C18_entry_total.

(* what one entry point rejects, every entry point rejects, with the same class of diagnostic *)
Theorem C18_entry_invalid_everywhere : forall fmt fnmatch level e1 e2 core plugin allow cs x,
  entry_load fmt fnmatch level e1 core plugin allow cs = Invalid x ->
  entry_load fmt fnmatch level e2 core plugin allow cs = Invalid x /\
  entry_report e2 (entry_load fmt fnmatch level e2 core plugin allow cs) = [3; 0].
Proof. exact entry_invalid_everywhere. Qed.
Print Assumptions C18_entry_invalid_everywhere.

(* non-vacuity and sensitivity: task_list / task_deploy next to a valid creator are rejected through run_tasks and
   through a plugin loader; a look-alike name is accepted; and it is the command names handed to get_loader that do
   it -- a loader configured WITHOUT them (get_loader None, what an entry point that forgets them would give)
   accepts the same namespace *)
Example C18_entry_examples : forall fmt fnmatch,
  let C n := {| c_name := n; c_delayed := None; c_result := IDict [(KAttr AActions, VNone)] |} in
  let core := ["clean"; "list"; "run"] in
  entry_load fmt fnmatch L2 ERunTasks core ["deploy"] true [C "ok"; C "list"] = Invalid InvalidDodo /\
  entry_load fmt fnmatch L2 EPluginLoader core ["deploy"] false [C "deploy"; C "ok"] = Invalid InvalidDodo /\
  (exists ts, entry_load fmt fnmatch L2 ERunTasks core ["deploy"] true [C "ok"; C "lists"] = Ok ts /\
              map t_name ts = ["ok"; "lists"]) /\
  (exists ts, load fmt fnmatch L2 (get_loader None) true [C "ok"; C "list"] = Ok ts /\ map t_name ts = ["ok"; "list"]).
Proof. intros. repeat split; try (eexists; split); vm_compute; reflexivity. Qed.
