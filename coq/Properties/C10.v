(* C10 -- Actions receive faithful inputs: getargs values, changed, dependencies.
   Statements only; proofs are `exact <lemma of Proofs/InputsP.v>` or closed computations.

   Models: Model/Status.v + History.v (Dependency.get_status / save_success over all histories, ghost
   [s_last_ok] = what the last successful execution saw and the values it saved), Model/Inputs.v
   (Dependency.get_value, Runner._get_task_args, Task._init_getargs, BaseAction._prepare_kwargs /
   CmdAction.expand_action, Task.update_deps, and [visit]: the runner's steps for one task as History
   operations), Model/Dispatch.v + Runner.v (dispatcher / serial runner, for the ordering part).
   [current] / [icurrent] = the code in /repo (HEAD, after the `fix:` commits cdbba24 and a0cd6c8 this
   property led to, and the repair of the loop over file_dep in get_status, [fixC] of Model/Status.v);
   [ilegacy] = _get_task_args before them, [before_fixC] = get_status before the third one, kept for the
   `_legacy_refuted` statements.  [md5], [size_of], the set-iteration oracles are arbitrary.
   Model/Kwargs.v: BaseAction._prepare_kwargs in full -- action declared as (callable, args, kwargs), callable
   with named parameters and/or **kwargs, the `kwargs` dict an OBJECT that several actions / tasks / runs of one
   process may share ([heap]); section "the declaration of the action" below. *)
From DoitV Require Import Base Dispatch Runner DispatchP DispatchInv RunnerP.
From DoitV Require Parallel ParallelP.
From DoitV Require Import Status History StatusP HistoryP Inputs InputsP Kwargs KwargsP.
From DoitV Require Import Pickle PickleP.
Open Scope Z_scope.

(* ------------------------------------------------------------------ changed *)
(* after any FS-fresh history ([hist_ok]: no file ever carries one mtime with two contents; implied by
   [fs_fresh], Proofs/HistoryP.v fresh_hist_ok): if get_status answers `run` and no uptodate item is false, then
   dep_changed (= `changed`) holds every file dependency that has no saved state, every file
   dependency of a task without a last successful execution, every file dependency that the
   last successful execution had and that is modified since by the configured checker's rule,
   and (since the repair fixC) every file dependency that was NOT a dependency of the last successful
   execution -- also one that an older execution had and left a state for
   (on each exit path: missing target / other checker -> all file deps; the file loop otherwise) *)
Theorem C10_changed_superset : forall (md5 : N -> N) (size_of : N -> Z) (ops : list op) (t : name),
  hist_ok md5 size_of current ops = true ->
  let s := run md5 size_of current ops in
  g_status (check md5 current s t) = Run ->
  (forall u, In u (uptodate (s_defs s t)) -> eval_utd (s_db s) t u <> Some false) ->
  forall f, In f (file_dep (s_defs s t)) ->
    (r_saved (getrec (s_db s) t) f = None -> In f (g_changed (check md5 current s t))) /\
    (s_last_ok s t = None -> In f (g_changed (check md5 current s t))) /\
    (forall g then_ now, s_last_ok s t = Some g -> In f (file_dep (g_def g)) ->
       g_fs g f = Some then_ -> s_fs s f = Some now -> ~ unmodified md5 (s_ck s) then_ now ->
       In f (g_changed (check md5 current s t))) /\
    (forall g, s_last_ok s t = Some g -> ~ In f (file_dep (g_def g)) ->
       In f (g_changed (check md5 current s t))).
Proof.
  intros md5 size_of ops t H s Hrun Hi f Hf.
  destruct (changed_superset md5 size_of current eq_refl ops t H Hrun Hi f Hf) as (A & B & C & D).
  split; [exact A|]. split; [exact B|]. split; [exact C|]. exact (D eq_refl).
Qed.
Print Assumptions C10_changed_superset.

(* the same for any DB content (no history needed) and every code version: every file dep the loop
   would not find unmodified ([dep_verdict]: the saved state against the file and, with fixC, the saved
   'deps:' list) is in dep_changed ... *)
Theorem C10_changed_superset_status : forall (md5 : N -> N) (v : ver) c fs d t df,
  g_status (get_status md5 v c fs d t df false) = Run ->
  (forall u, In u (uptodate df) -> eval_utd d t u <> Some false) ->
  forall f, In f (file_dep df) -> dep_verdict md5 v c fs (getrec d t) f <> FSame ->
            In f (g_changed (get_status md5 v c fs d t df false)).
Proof. exact get_status_changed. Qed.
Print Assumptions C10_changed_superset_status.
(* ... spelled out: a dependency whose saved state does not match the file (none, or modified), in every
   code version ... *)
Theorem C10_changed_superset_state : forall (md5 : N -> N) (v : ver) c fs d t df,
  g_status (get_status md5 v c fs d t df false) = Run ->
  (forall u, In u (uptodate df) -> eval_utd d t u <> Some false) ->
  forall f, In f (file_dep df) -> file_verdict md5 c fs (getrec d t) f <> FSame ->
            In f (g_changed (get_status md5 v c fs d t df false)).
Proof. exact get_status_changed_state. Qed.
Print Assumptions C10_changed_superset_state.
(* ... and, in the repaired code, a dependency that is not in the saved 'deps:' list, whatever state
   the record holds for it *)
Theorem C10_changed_readded : forall (md5 : N -> N) (v : ver) c fs d t df,
  fixC v = true ->
  g_status (get_status md5 v c fs d t df false) = Run ->
  (forall u, In u (uptodate df) -> eval_utd d t u <> Some false) ->
  forall f p, In f (file_dep df) -> r_deps (getrec d t) = Some p -> ~ In f p ->
              In f (g_changed (get_status md5 v c fs d t df false)).
Proof. exact get_status_changed_outside. Qed.
Print Assumptions C10_changed_readded.

(* the code before the repair fixC: run 1 with file_dep [f0, f1], run 2 with [f0], then file_dep is
   [f0, f1] again and f1 was never touched: the task executes (the dep set changed) with `changed` = []
   although f1 was not a dependency of the last successful execution -- save_success never drops the
   state of a file that left file_dep, and the loop only compared states.  The repaired code lists f1. *)
Definition before_fixC : ver := {| fixA := true; fixB := true; fixC := false; fixL := false |}.
Definition d01r : tdef := {| file_dep := [0; 1]%N; targets := []; uptodate := []; act_values := []; act_result := None |}.
Definition d0r : tdef := {| file_dep := [0%N]; targets := []; uptodate := []; act_values := []; act_result := None |}.
Definition readded_ops : list op := [Write 0 0; Write 1 1; SetDef 7 d01r; SaveOk 7; SetDef 7 d0r; SaveOk 7; SetDef 7 d01r]%N.
Theorem C10_changed_readded_legacy_refuted :
  exists (ops : list op) (t : name) (f : file) (g : snapshot),
    fs_fresh ops = true /\ hist_ok (fun c => c) (fun _ => 4) before_fixC ops = true /\
    let s := run (fun c => c) (fun _ => 4) before_fixC ops in
    g_status (check (fun c => c) before_fixC s t) = Run /\ In f (file_dep (s_defs s t)) /\
    s_last_ok s t = Some g /\ ~ In f (file_dep (g_def g)) /\
    (forall u, In u (uptodate (s_defs s t)) -> eval_utd (s_db s) t u <> Some false) /\
    g_changed (check (fun c => c) before_fixC s t) = [] /\
    (* the repaired code on the same history *)
    let s' := run (fun c => c) (fun _ => 4) current ops in
    g_status (check (fun c => c) current s' t) = Run /\ g_changed (check (fun c => c) current s' t) = [f].
Proof.
  exists readded_ops, 7%N, 1%N.
  eexists. split; [reflexivity|]. split; [vm_compute; reflexivity|]. cbv zeta.
  split; [vm_compute; reflexivity|]. split; [vm_compute; auto|].
  split; [vm_compute; reflexivity|]. split; [vm_compute; intros [H|[]]; discriminate|].
  split; [intros u []|]. split; [vm_compute; reflexivity|]. split; vm_compute; reflexivity.
Qed.
Print Assumptions C10_changed_readded_legacy_refuted.
(* non-vacuity of C10_changed_superset's last clause / C10_changed_readded on the repaired code *)
Example C10_changed_readded_nonvacuous :
  let s := run (fun c => c) (fun _ => 4) current readded_ops in
  hist_ok (fun c => c) (fun _ => 4) current readded_ops = true /\
  g_status (check (fun c => c) current s 7%N) = Run /\
  (exists g, s_last_ok s 7%N = Some g /\ file_dep (g_def g) = [0%N]) /\
  r_saved (getrec (s_db s) 7%N) 1%N <> None /\ r_deps (getrec (s_db s) 7%N) = Some [0%N] /\
  g_changed (check (fun c => c) current s 7%N) = [1%N].
Proof.
  vm_compute. split; [reflexivity|]. split; [reflexivity|]. split; [eexists; split; reflexivity|].
  split; [discriminate|]. split; reflexivity.
Qed.

Definition dA : tdef := {| file_dep := [0; 1]%N; targets := [2%N]; uptodate := [UBool true]; act_values := []; act_result := None |}.
Example C10_changed_nonvacuous :
  let ops := [Write 0 0; Write 1 1; Write 2 2; SetDef 7 dA; SaveOk 7; Write 1 3]%N in
  hist_ok (fun c => c) (fun _ => 4) current ops = true /\
  let s := run (fun c => c) (fun _ => 4) current ops in
  g_status (check (fun c => c) current s 7%N) = Run /\ g_changed (check (fun c => c) current s 7%N) = [1%N] /\
  (forall u, In u (uptodate (s_defs s 7%N)) -> eval_utd (s_db s) 7%N u <> Some false).
Proof.
  vm_compute. split; [reflexivity|]. split; [reflexivity|]. split; [reflexivity|].
  intros u [<-|[]]. discriminate.
Qed.

(* KNOWN FINDING (F6): whenever an uptodate item is false the verdict is `run` and dep_changed is []
   -- get_status returns before it looks at the files (dependency.py 663-665) ... *)
Theorem C10_changed_uptodate_false_empty : forall (md5 : N -> N) (v : ver) c fs d t df,
  (exists u, In u (uptodate df) /\ eval_utd d t u = Some false) ->
  g_status (get_status md5 v c fs d t df false) = Run /\ g_changed (get_status md5 v c fs d t df false) = [].
Proof.
  intros md5 v c fs d t df (u & Hu & E). apply get_status_utd_false. intros H. exact (H u Hu E).
Qed.
Print Assumptions C10_changed_uptodate_false_empty.

(* ... so the superset statement fails there: a task that never ran, whose file dependency exists
   and is new, is executed with `changed` = [].  The first history uses `uptodate: [False]`, the
   second one is an ordinary getargs consumer on its very first run (the implicit result_dep item is
   false because nothing was saved yet).  tests/test_dependency.py::TestGetStatus::test_UptodateFalse
   pins `dep_changed == []`. *)
Definition dF : tdef := {| file_dep := [0%N]; targets := []; uptodate := [UBool false]; act_values := []; act_result := None |}.
Definition dG : tdef := {| file_dep := [0%N]; targets := []; uptodate := init_uptodate [] [] [{| ga_arg := 3%N; ga_src := 5%N; ga_key := None |}];
                           act_values := []; act_result := None |}.
Theorem C10_changed_uptodate_false_refuted :
  exists (ops : list op) (t : name) (f : file),
    hist_ok (fun c => c) (fun _ => 4) current ops = true /\
    let s := run (fun c => c) (fun _ => 4) current ops in
    g_status (check (fun c => c) current s t) = Run /\ In f (file_dep (s_defs s t)) /\
    s_last_ok s t = None /\ exists_ (s_fs s) f = true /\ g_changed (check (fun c => c) current s t) = [].
Proof.
  exists [Write 0 0; SetDef 7 dF]%N, 7%N, 0%N. vm_compute. repeat split; auto.
Qed.
Print Assumptions C10_changed_uptodate_false_refuted.
Example C10_changed_empty_getargs_first_run :
  let s := run (fun c => c) (fun _ => 4) current [Write 0 0; SetDef 7 dG]%N in
  g_status (check (fun c => c) current s 7%N) = Run /\ s_last_ok s 7%N = None /\
  g_changed (check (fun c => c) current s 7%N) = [].
Proof. vm_compute. auto. Qed.

(* ------------------------------------------------------------------ dependencies / targets / changed *)
(* unless a getargs entry has the same name (an option overrides the meta-argument, in
   _prepare_kwargs as in expand_action), a python-action asking for targets / dependencies / changed
   gets exactly the task's current targets, file_dep and dep_changed, and a cmd-action substitutes them *)
Theorem C10_dependencies_targets : forall df ch opts params,
  oget opts arg_targets = None -> oget opts arg_dependencies = None -> oget opts arg_changed = None ->
  (forall x, In (arg_targets, x) (prepare_kwargs df ch opts params) <-> In arg_targets params /\ x = KFiles (targets df)) /\
  (forall x, In (arg_dependencies, x) (prepare_kwargs df ch opts params) <-> In arg_dependencies params /\ x = KFiles (file_dep df)) /\
  (forall x, In (arg_changed, x) (prepare_kwargs df ch opts params) <-> In arg_changed params /\ x = KFiles ch) /\
  expand_action df ch opts [arg_targets; arg_dependencies; arg_changed] =
    Some [KFiles (targets df); KFiles (file_dep df); KFiles ch].
Proof. exact meta_args. Qed.
Print Assumptions C10_dependencies_targets.

(* observation kept visible: a getargs entry named like a meta-argument shadows it *)
Theorem C10_meta_shadowed_by_option : forall df ch opts k a,
  oget opts k = Some a -> action_input df ch opts k = Some (KOpt a).
Proof. exact action_input_opt. Qed.
Print Assumptions C10_meta_shadowed_by_option.

(* in the run interpreter: when _get_task_args succeeds the action is called with the options read at
   that moment, this run's dep_changed and the task's definition at that moment (calc results merged) *)
Theorem C10_executed_kwargs : forall md5 size_of v iv tab fails x t ch opts,
  get_task_args iv (s_db (x_s x)) (grp_of iv tab) (i_getargs (tab t)) = inl opts ->
  tr_kw (x_rep (args_and_execute md5 size_of v iv tab fails x t ch) t) =
    Some (prepare_kwargs (s_defs (x_s x) t) ch opts (i_params (tab t))).
Proof. exact args_ok. Qed.
Print Assumptions C10_executed_kwargs.

(* ------------------------------------------------------------------ the declaration of the action *)
(* Model/Kwargs.v: the python-action is declared as (callable, args, kwargs); [kw0] is the content of the
   declared dict, [bound a] the parameters taken by the positional `args`, [opts] = task.options (its keys
   are those of a dict: NoDup).  Key by key, what the callable is called with: *)
Theorem C10_kwargs_key_by_key : forall kw0 a df ch opts k, NoDup (map fst opts) ->
  dget (prepare_in kw0 a df ch opts) k =
    let after_meta := if meta_in a k then Some (meta_value df ch k) else dget kw0 k in
    match oget opts k with
    | None => after_meta
    | Some x =>
        if mem k (f_params (a_fun a))
        then (if negb (mem k (bound a)) then Some (KOpt x) else after_meta)
        else if f_varkw (a_fun a) && negb (dhas kw0 k) then Some (KOpt x) else dget kw0 k
    end.
Proof. exact prepare_in_get. Qed.
Print Assumptions C10_kwargs_key_by_key.

(* on a bare callable with named parameters this is Inputs.prepare_kwargs, the function of the run interpreter
   (C10_executed_kwargs) *)
Theorem C10_kwargs_plain_agrees : forall df ch opts params k x, NoDup (map fst opts) ->
  In (k, x) (prepare_kwargs df ch opts params) <-> dget (prepare_in [] (plain params) df ch opts) k = Some x.
Proof. exact plain_agrees. Qed.
Print Assumptions C10_kwargs_plain_agrees.

(* THE STATEMENT FOR SHARED DICT OBJECTS.  Any sequence [cs] of action executions in one process (several
   actions of a task, several tasks, several runs) over any heap [h] of declared dict objects, shared in any
   way: the i-th execution receives
   - under the name of every entry of ITS task's options (getargs values as read by _get_task_args at that
     moment: C10_getargs_latest) that value, when the callable has a parameter of that name not taken by a
     positional argument, or has **kwargs and the dict was not DECLARED with that name;
   - its task's current targets / file_dep / dep_changed under targets / dependencies / changed when the
     callable has that parameter (unless an option of that name shadows it, C10_meta_shadowed_by_option);
   - and nothing else than that and what the dict was declared with;
   and every dict object is as declared afterwards. *)
Theorem C10_kwargs_shared_getargs : forall cs h i c k x,
  nth_error cs i = Some c -> NoDup (map fst (c_opts c)) ->
  oget (c_opts c) k = Some x -> ~ In k (bound (c_act c)) ->
  (In k (f_params (a_fun (c_act c))) \/ (f_varkw (a_fun (c_act c)) = true /\ dget (h (a_kw (c_act c))) k = None)) ->
  exists kw, nth_error (fst (exec_calls true h cs)) i = Some kw /\ dget kw k = Some (KOpt x).
Proof. exact seq_getargs. Qed.
Print Assumptions C10_kwargs_shared_getargs.
Theorem C10_kwargs_shared_meta : forall cs h i c k,
  nth_error cs i = Some c -> NoDup (map fst (c_opts c)) ->
  In k meta_keys -> In k (f_params (a_fun (c_act c))) -> ~ In k (bound (c_act c)) -> oget (c_opts c) k = None ->
  exists kw, nth_error (fst (exec_calls true h cs)) i = Some kw /\ dget kw k = Some (meta_value (c_def c) (c_changed c) k).
Proof. exact seq_meta. Qed.
Print Assumptions C10_kwargs_shared_meta.
Theorem C10_kwargs_shared_nothing_else : forall cs h i c kw k v,
  nth_error cs i = Some c -> NoDup (map fst (c_opts c)) ->
  nth_error (fst (exec_calls true h cs)) i = Some kw -> dget kw k = Some v ->
  dget (h (a_kw (c_act c))) k = Some v \/
  (In k meta_keys /\ In k (f_params (a_fun (c_act c))) /\ v = meta_value (c_def c) (c_changed c) k) \/
  (exists x, oget (c_opts c) k = Some x /\ v = KOpt x).
Proof. exact seq_nothing_else. Qed.
Print Assumptions C10_kwargs_shared_nothing_else.
Theorem C10_kwargs_declared_dicts_untouched : forall cs h, exec_calls true h cs = (map (call_kw h) cs, h).
Proof. exact exec_calls_copy. Qed.
Print Assumptions C10_kwargs_declared_dicts_untouched.

(* the function WITHOUT line 61 (`kwargs = kwargs.copy()`), [copy] = false: two consumers whose actions
   `def consume( **opts)` are declared with the same dict {mode: 7}; each has a getargs entry named a3, the first
   from a source that saved 5, the second from one that saved 6: the second receives 5 -- the value injected for
   the first execution stayed in the shared dict and `key not in kwargs` (line 95) is false.  (With the copy: 6.) *)
Definition varkw_act : pyact := {| a_fun := {| f_params := []; f_varkw := true |}; a_npos := 0; a_kw := 0%N |}.
Definition declared_heap : heap := fun _ => [(9%N, KOpt (ASingle (SVal (Some 7%N))))].
Definition no_deps : tdef := {| file_dep := []; targets := []; uptodate := []; act_values := []; act_result := None |}.
Definition call_with (x : N) : call :=
  {| c_act := varkw_act; c_def := no_deps; c_changed := []; c_opts := [(3%N, ASingle (SVal (Some x)))] |}.
Theorem C10_kwargs_nocopy_refuted :
  exists (h : heap) (c1 c2 : call) (k : N) (x1 x2 : aval),
    x1 <> x2 /\ oget (c_opts c2) k = Some x2 /\ NoDup (map fst (c_opts c2)) /\ ~ In k (bound (c_act c2)) /\
    f_varkw (a_fun (c_act c2)) = true /\ dget (h (a_kw (c_act c2))) k = None /\
    (exists kw, nth_error (fst (exec_calls false h [c1; c2])) 1 = Some kw /\ dget kw k = Some (KOpt x1)) /\
    (exists kw, nth_error (fst (exec_calls true h [c1; c2])) 1 = Some kw /\ dget kw k = Some (KOpt x2)).
Proof.
  exists declared_heap, (call_with 5), (call_with 6), 3%N, (ASingle (SVal (Some 5%N))), (ASingle (SVal (Some 6%N))).
  split; [discriminate|]. split; [reflexivity|]. split; [repeat constructor; intros []|]. split; [intros []|].
  split; [reflexivity|]. split; [reflexivity|]. split; eexists; split; reflexivity.
Qed.
Print Assumptions C10_kwargs_nocopy_refuted.
(* non-vacuity of C10_kwargs_shared_*: a callable `def f(x, dependencies, a3, **kw)` called with one positional
   argument, declared dict {mode: 7}, options {a3: 5, a4: 6}, shared with the **kwargs-only action above *)
Definition mixed_act : pyact := {| a_fun := {| f_params := [8; arg_dependencies; 3]%N; f_varkw := true |}; a_npos := 1; a_kw := 0%N |}.
Example C10_kwargs_nonvacuous :
  let c := {| c_act := mixed_act; c_def := dA; c_changed := [1%N];
              c_opts := [(3%N, ASingle (SVal (Some 5%N))); (4%N, ASingle (SVal (Some 6%N)))] |} in
  exec_calls true declared_heap [call_with 5; c; call_with 6] =
    ([ [(9%N, KOpt (ASingle (SVal (Some 7%N)))); (3%N, KOpt (ASingle (SVal (Some 5%N))))];
       [(9%N, KOpt (ASingle (SVal (Some 7%N)))); (arg_dependencies, KFiles [0; 1]%N);
        (3%N, KOpt (ASingle (SVal (Some 5%N)))); (4%N, KOpt (ASingle (SVal (Some 6%N))))];
       [(9%N, KOpt (ASingle (SVal (Some 7%N)))); (3%N, KOpt (ASingle (SVal (Some 6%N))))] ], declared_heap).
Proof. intros c. rewrite exec_calls_copy. reflexivity. Qed.

(* ------------------------------------------------------------------ getargs *)
(* the invariant behind it, for EVERY history (no freshness hypothesis) and both code versions:
   a task's record holds the values its most recent successful execution (or processed reset-dep)
   saved; a task without one has no values *)
Theorem C10_values_are_latest : forall md5 size_of v ops, vals_inv (run md5 size_of v ops).
Proof. exact run_vals. Qed.
Print Assumptions C10_values_are_latest.

(* one value, exactly: the source has a last successful execution g -> the key is looked up in the
   values g saved (whole dict: those values); that execution is this run's if the source executed
   in this run (C10_save_is_latest), else what the DB held.  A source that was never saved (no
   record) gives the documented error "taskid '..' has no computed value!" -- for a key and for the
   whole dict alike; a source without a last successful execution never yields a value for a key *)
Theorem C10_getargs_value : forall md5 size_of ops src key,
  let s := run md5 size_of current ops in
  (forall g, s_last_ok s src = Some g ->
     get_value icurrent (s_db s) src key =
       match key with
       | None => inl (SDict (g_values g))
       | Some k => match vget (g_values g) k with Some x => inl (SVal x) | None => inr (ENoKey src k) end
       end) /\
  (s_db s src = None -> get_value icurrent (s_db s) src key = inr (ENoRecord src)) /\
  (s_last_ok s src = None -> forall k, exists e, get_value icurrent (s_db s) src (Some k) = inr e).
Proof.
  intros md5 size_of ops src key s. split; [|split].
  - intros g E. exact (get_value_some icurrent s src g key (run_vals md5 size_of current ops) E).
  - intros E. rewrite (get_value_no_record icurrent _ _ key E). destruct key; reflexivity.
  - intros E k. apply (get_value_none icurrent s src k (run_vals md5 size_of current ops)); auto.
    exact (proj1 (no_typeerror_run md5 size_of current eq_refl ops 0%N false)).
Qed.
Print Assumptions C10_getargs_value.

(* all of task.options, single and group sources, values and errors: what _get_task_args computes from
   the DB is exactly what it computes from the table "values saved by the most recent successful
   execution of each task" ([ghost_db]) -- after every history *)
Theorem C10_getargs_latest : forall md5 size_of ops grp gas,
  let s := run md5 size_of current ops in
  get_task_args icurrent (s_db s) grp gas = get_task_args icurrent (ghost_db s) grp gas.
Proof. intros md5 size_of. exact (getargs_latest_run md5 size_of icurrent). Qed.
Print Assumptions C10_getargs_latest.

(* for a group source the repaired code reads sub-tasks of the group only, one entry each, in order *)
Theorem C10_getargs_group_only_subtasks : forall tab g l d key r,
  grp_of icurrent tab g = Some l ->
  (forall x, In x l -> In x (i_task_dep (tab g)) /\ i_sub_of (tab x) = Some g) /\
  (get_group icurrent d l key = inl r -> map fst r = l).
Proof.
  intros tab g l d key r E. split.
  - exact (grp_of_subtasks icurrent tab g l eq_refl E).
  - apply get_group_keys.
Qed.
Print Assumptions C10_getargs_group_only_subtasks.

(* a successful execution makes the values it produced (actions' values + value-savers) the latest *)
Theorem C10_save_is_latest : forall md5 size_of v s t,
  snd (process_success md5 v (s_ck s) (s_fs s) (s_db s) t (s_defs s t)) = SaveDone ->
  s_last_ok (step md5 size_of v s (SaveOk t)) t = Some (snap s t (save_extra_values (s_db s) (s_defs s t))).
Proof. exact last_ok_after_save. Qed.
Print Assumptions C10_save_is_latest.

(* the error outcome: the consumer is reported failed, its record removed, no action executed *)
Theorem C10_getargs_error_not_executed : forall md5 size_of v iv tab fails x t ch e,
  get_task_args iv (s_db (x_s x)) (grp_of iv tab) (i_getargs (tab t)) = inr e ->
  let x' := args_and_execute md5 size_of v iv tab fails x t ch in
  st_of x' t = RFail (gerr_code e) /\ tr_kw (x_rep x' t) = tr_kw (x_rep x t) /\ x_ops x' = x_ops x ++ [Remove t].
Proof. exact args_error. Qed.
Print Assumptions C10_getargs_error_not_executed.

(* Task.__init__ makes every getargs source a setup-task (and adds a result_dep item for the
   sources that were not listed in `setup`) ... *)
Theorem C10_getargs_source_is_setup : forall setup gas g,
  In g gas -> In (ga_src g) (init_setup setup gas).
Proof. exact init_setup_sources. Qed.
Print Assumptions C10_getargs_source_is_setup.
Theorem C10_getargs_result_dep_items : forall u setup gas x,
  In (UResultDep x) (init_uptodate u setup gas) <->
  In (UResultDep x) u \/ (~ In x setup /\ exists g, In g gas /\ ga_src g = x).
Proof. exact init_uptodate_items. Qed.
Print Assumptions C10_getargs_result_dep_items.

(* ... hence (dispatcher invariant, C01) in every serial run, for every oracle and amount of fuel, the
   source got its final report in this run before the consumer's actions start: the values read
   are this run's if the source executed, the DB's if it was found up-to-date *)
Theorem C10_getargs_source_finished_first :
  forall tasks wake_rank calc_rank continue_ always fuel sel pre t post setup gas g,
    t_setup (Dispatch.get_task tasks t) = init_setup setup gas ->
    fst (run_serial tasks wake_rank calc_rank continue_ always fuel sel) = pre ++ EExecute t :: post ->
    In g gas -> finished_in pre (ga_src g).
Proof. exact getargs_source_finished. Qed.
Print Assumptions C10_getargs_source_finished_first.

(* every state the run interpreter passes through is the state of a history (it only adds
   Check / SaveOk / Remove / SetDef operations), so the theorems above apply inside a run *)
Theorem C10_run_states_are_histories : forall md5 size_of v iv tab always fails fuel x t,
  exists ops, x_ops (visit md5 size_of v iv tab always fails fuel x t) = x_ops x ++ ops /\
              x_s (visit md5 size_of v iv tab always fails fuel x t) = run_from md5 size_of v (x_s x) ops /\
              forallb runner_op ops = true /\ forall s0, hist_ok_from md5 size_of v s0 ops = true.
Proof.
  intros md5 size_of v iv tab always fails fuel x t.
  destruct (visit_ext md5 size_of v iv tab always fails fuel x t) as (ops & A & B & C).
  exists ops. repeat split; auto. apply runner_ops_ok. exact C.
Qed.
Print Assumptions C10_run_states_are_histories.

(* non-vacuity, single + group source, across runs.  Tasks: 0 producer (file_dep f0), 1 group with
   sub-tasks 2 and 3, 4 consumer: getargs a3 = (0,'u0'), a4 = (1, whole dict); 1 is an explicit setup-task.
   run 1: everything executes; then the dodo file gives producer 0 another value but 0 stays
   up-to-date; run 2 (consumer re-runs because f1 changed): a3 is still the value saved in run 1 *)
Definition ga34 : list getarg := [{| ga_arg := 3%N; ga_src := 0%N; ga_key := Some 2%N |}; {| ga_arg := 4%N; ga_src := 1%N; ga_key := None |}].
Definition tabX (n : name) : itask :=
  match n with
  | 1%N => {| i_getargs := []; i_setup := []; i_task_dep := [2; 3]%N; i_calc_dep := []; i_group := true; i_sub_of := None; i_params := [] |}
  | 2%N | 3%N => {| i_getargs := []; i_setup := []; i_task_dep := []; i_calc_dep := []; i_group := false; i_sub_of := Some 1%N; i_params := [] |}
  | 4%N => {| i_getargs := ga34; i_setup := init_setup [1%N] ga34; i_task_dep := []; i_calc_dep := []; i_group := false; i_sub_of := None;
              i_params := [arg_changed; 3%N; 4%N] |}
  | _ => no_task end.
Definition prod (x : N) : tdef := {| file_dep := [0%N]; targets := []; uptodate := []; act_values := [(2%N, Some x)]; act_result := Some 1%N |}.
Definition cons : tdef := {| file_dep := [1%N]; targets := []; uptodate := init_uptodate [] [1%N] ga34; act_values := []; act_result := None |}.
Definition sessX : list cmd :=
  [COp (Write 0 0); COp (Write 1 1); COp (SetDef 0 (prod 5)); COp (SetDef 2 (prod 6)); COp (SetDef 3 (prod 7)); COp (SetDef 4 cons);
   CRun false [] [4%N];
   COp (SetDef 0 (prod 9)); COp (Write 1 2);
   CRun false [] [4%N]]%N.
Example C10_getargs_nonvacuous :
  let s1 := fst (exec_cmds (fun c => c) (fun _ => 4) current icurrent tabX 5 40 (firstn 7 sessX)) in
  let s1' := fst (exec_cmds (fun c => c) (fun _ => 4) current icurrent tabX 5 40 (firstn 9 sessX)) in
  let x2 := run_sel (fun c => c) (fun _ => 4) current icurrent tabX false [] 40 s1' [4%N] in
  (* after run 1 the consumer has succeeded *)
  (exists g, s_last_ok s1 4%N = Some g) /\
  (* run 2: producer 0 up-to-date, consumer executed with the value 5 saved in run 1 (not 9), the group dict, and changed = [f1] *)
  st_of x2 0%N = RUpToDate /\ st_of x2 4%N = RSuccess /\
  tr_kw (x_rep x2 4%N) = Some [(arg_changed, KFiles [1%N]);
                                (3%N, KOpt (ASingle (SVal (Some 5%N))));
                                (4%N, KOpt (AGroup [(2%N, SDict [(2%N, Some 6%N)]); (3%N, SDict [(2%N, Some 7%N)])]))].
Proof. vm_compute. split; [eexists; reflexivity|]. auto. Qed.

(* REPAIRED (cdbba24): for the whole dict (key None) a source without any saved values -- e.g.
   `uptodate: [True]`, never executed -- did not give the error of C10_getargs_value but {}: the consumer
   was executed with an empty dict.  Stated on the code before the repair ... *)
Definition tabU (n : name) : itask :=
  match n with
  | 4%N => {| i_getargs := [{| ga_arg := 3%N; ga_src := 0%N; ga_key := None |}]; i_setup := [0%N]; i_task_dep := []; i_calc_dep := [];
              i_group := false; i_sub_of := None; i_params := [3%N] |}
  | _ => no_task end.
Definition never : tdef := {| file_dep := []; targets := []; uptodate := [UBool true]; act_values := [(2%N, Some 5%N)]; act_result := None |}.
Definition cons0 : tdef := {| file_dep := []; targets := []; uptodate := []; act_values := []; act_result := None |}.
Definition sU : state := run (fun c => c) (fun _ => 4) current [SetDef 0 never; SetDef 4 cons0]%N.
Theorem C10_getargs_dict_unsaved_legacy_refuted :
  exists (s : state) (src t : name),
    let x := run_sel (fun c => c) (fun _ => 4) current ilegacy tabU false [] 40 s [t] in
    s_last_ok (x_s x) src = None /\ st_of x src = RUpToDate /\ st_of x t = RSuccess /\
    tr_kw (x_rep x t) = Some [(3%N, KOpt (ASingle (SDict [])))].
Proof. exists sU, 0%N, 4%N. vm_compute. auto. Qed.
Print Assumptions C10_getargs_dict_unsaved_legacy_refuted.
(* ... and the same run on the current code: the consumer is reported failed (no record), not executed *)
Example C10_getargs_dict_unsaved_current :
  let x := run_sel (fun c => c) (fun _ => 4) current icurrent tabU false [] 40 sU [4%N] in
  st_of x 4%N = RFail 42 /\ tr_kw (x_rep x 4%N) = None.
Proof. vm_compute. auto. Qed.

(* REPAIRED (a0cd6c8): a group with a task_dep that is not one of its sub-tasks (task 0 below): getargs on
   the group read that task too (under a mangled key), and failed when it lacked the key *)
Definition tabG (n : name) : itask :=
  match n with
  | 1%N => {| i_getargs := []; i_setup := []; i_task_dep := [0; 2]%N; i_calc_dep := []; i_group := true; i_sub_of := None; i_params := [] |}
  | 2%N => {| i_getargs := []; i_setup := []; i_task_dep := []; i_calc_dep := []; i_group := false; i_sub_of := Some 1%N; i_params := [] |}
  | 4%N => {| i_getargs := [{| ga_arg := 3%N; ga_src := 1%N; ga_key := Some 2%N |}]; i_setup := [1%N]; i_task_dep := []; i_calc_dep := [];
              i_group := false; i_sub_of := None; i_params := [3%N] |}
  | _ => no_task end.
Definition pv (x : N) : tdef := {| file_dep := []; targets := []; uptodate := []; act_values := [(2%N, Some x)]; act_result := None |}.
Definition sG : state := run (fun c => c) (fun _ => 4) current [SetDef 0 (pv 5); SetDef 2 (pv 6); SetDef 4 cons0]%N.
Theorem C10_getargs_group_extra_legacy_refuted :
  exists (s : state) (g other t : name),
    i_sub_of (tabG other) <> Some g /\
    let x := run_sel (fun c => c) (fun _ => 4) current ilegacy tabG false [] 40 s [t] in
    tr_kw (x_rep x t) = Some [(3%N, KOpt (AGroup [(other, SVal (Some 5%N)); (2%N, SVal (Some 6%N))]))].
Proof. exists sG, 1%N, 0%N, 4%N. split; [discriminate|]. vm_compute. reflexivity. Qed.
Print Assumptions C10_getargs_group_extra_legacy_refuted.
Example C10_getargs_group_extra_current :
  let x := run_sel (fun c => c) (fun _ => 4) current icurrent tabG false [] 40 sG [4%N] in
  st_of x 0%N = RSuccess /\ tr_kw (x_rep x 4%N) = Some [(3%N, KOpt (AGroup [(2%N, SVal (Some 6%N))]))].
Proof. vm_compute. auto. Qed.

Definition exT (n : name) : option Dispatch.task :=
  match n with
  | 4%N => Some (Build_task [] (init_setup [] ga34) [] false false CkRun false OOk [] [] [])
  | 1%N => Some (Build_task [2; 3]%N [] [] false false CkRun false OOk [] [] [])
  | 0%N | 2%N | 3%N => Some (Build_task [] [] [] false false CkRun false OOk [] [] [])
  | _ => None end.
Example C10_source_first_nonvacuous :
  t_setup (Dispatch.get_task exT 4%N) = init_setup [] ga34 /\
  exists pre post, fst (run_serial exT (fun _ _ => 0%N) (fun _ => 0%N) false false 200 [4%N]) = pre ++ EExecute 4%N :: post.
Proof.
  split; [reflexivity|]. apply in_split. vm_compute.
  repeat (try (left; reflexivity); right).
Qed.

(* ------------------------------------------------------------------ calc_dep *)
(* Status level (up-to-date checking in the same run): once the values of the calc task are merged
   (the SetDef the interpreter performs before the dependent's Check; Task.update_deps), the files it
   returned are in `dependencies`, and the dependent is up-to-date only if each of them exists, was a
   dependency of the last successful execution and is unmodified since *)
Theorem C10_calc_dep_status : forall md5 size_of (s : state) (t : name) (vl : vals),
  db_reflects_ghost md5 s ->
  let s' := step md5 size_of current s (SetDef t (update_deps (s_defs s t) vl)) in
  (forall f, In f (calc_list vl k_cfile) -> In f (file_dep (s_defs s' t))) /\
  (forall ch opts, oget opts arg_dependencies = None ->
     forall f, In f (calc_list vl k_cfile) ->
     exists l, action_input (s_defs s' t) ch opts arg_dependencies = Some (KFiles l) /\ In f l) /\
  (g_status (check md5 current s' t) = UpToDate ->
   forall f, In f (calc_list vl k_cfile) ->
     exists_ (s_fs s') f = true /\
     forall g, s_last_ok s' t = Some g ->
       In f (file_dep (g_def g)) /\
       exists then_ now, g_fs g f = Some then_ /\ s_fs s' f = Some now /\ unmodified md5 (s_ck s') then_ now).
Proof. intros md5 size_of s t vl H. apply (calc_dep_status md5 size_of current); auto. Qed.
Print Assumptions C10_calc_dep_status.

(* dispatcher level, the merge: everything a calc task with visible values returned is in the
   waiting node's dependency lists afterwards, nothing is lost, and what is new is pending *)
Theorem C10_calc_dep_merged : forall tasks nd c cst,
  calc_values_visible cst = true ->
  let nd' := process_calc tasks nd c cst in
  let tc := Dispatch.get_task tasks c in
  incl (t_calc_new_task tc) (n_all_task nd') /\ incl (t_calc_new_impl tc) (n_all_task nd') /\
  incl (t_calc_new_calc tc) (n_all_calc nd') /\
  incl (n_all_task nd) (n_all_task nd') /\ incl (n_all_calc nd) (n_all_calc nd') /\
  (forall x, In x (n_all_task nd' ++ n_all_calc nd') -> In x (n_all_task nd ++ n_all_calc nd) \/ In x (n_pend_task nd' ++ n_pend_calc nd')).
Proof. exact (fun tasks => process_calc_merges tasks (fun _ _ => 0%N) (fun _ => 0%N)). Qed.
Print Assumptions C10_calc_dep_merged.

(* dispatcher level, ordering: from any state satisfying the dispatcher invariants (all states of a
   serial run do: Proofs/RunnerP.v), the task handed to the runner has every CURRENT dependency --
   declared or merged from a calc result -- final, and the lists never shrink.  (State-level lemma;
   the trace-level statement is C10_calc_dep_effective below.) *)
Theorem C10_calc_dep_handover :
  forall tasks wake_rank calc_rank fuel d p k d',
    Inv tasks d -> Pre tasks d -> AllRes tasks d -> QInv d ->
    (forall z, p = Some z -> Dispatch.st_of tasks d z <> SNone) ->
    disp_send tasks wake_rank calc_rank fuel d p = (DTask k, d') ->
    (forall x, In x (n_all_task (Dispatch.node_of tasks d' k) ++ n_all_calc (Dispatch.node_of tasks d' k)) -> final tasks d' x) /\
    all_grows tasks d d'.
Proof. exact handed_dynamic_deps_final. Qed.
Print Assumptions C10_calc_dep_handover.

(* THE TRACE-LEVEL STATEMENT (proved once the dispatcher invariants `recd` and `mrgd` of
   Proofs/DispatchInv.v were available: every finished dependency is recorded, and the visible values of
   every finished calc_dep are merged into the waiting node's lists, before the node is handed over;
   statuses of finished tasks never change): in every serial run, when the actions of t start, every
   task returned by a calc_dep c of t -- task_dep, producers of the returned file_dep, further calc_dep,
   and transitively what THOSE calc tasks return -- has been reported successful or up-to-date; in
   particular it finished before t started and t runs with the merged dependencies. *)
Theorem C10_calc_dep_effective :
  forall tasks wake_rank calc_rank continue_ always fuel selection pre t post c y,
    fst (run_serial tasks wake_rank calc_rank continue_ always fuel selection) = pre ++ EExecute t :: post ->
    eff_calc tasks t c -> In y (calc_results tasks c) -> good_in pre y.
Proof.
  intros tasks wake_rank calc_rank continue_ always fuel selection pre t post c y E Hc Hy.
  apply (cordered_split tasks _ (serial_contained tasks wake_rank calc_rank continue_ always fuel selection) pre t post E y).
  eapply ed_dyn; eauto.
Qed.
Print Assumptions C10_calc_dep_effective.

(* ... and under every schedule of the parallel runners *)
Theorem C10_calc_dep_effective_parallel :
  forall tasks wake_rank calc_rank continue_ always proc fuel nprocs sched selection pre t w post c y,
    fst (Parallel.run_parallel tasks wake_rank calc_rank continue_ always proc fuel nprocs sched selection) = pre ++ Parallel.PStart t w :: post ->
    eff_calc tasks t c -> In y (calc_results tasks c) -> ParallelP.pgood pre y.
Proof.
  intros tasks wake_rank calc_rank continue_ always proc fuel nprocs sched selection pre t w post c y E Hc Hy.
  apply (ParallelP.pcordered_split tasks _ (ParallelP.parallel_contained tasks wake_rank calc_rank continue_ always proc fuel nprocs sched selection) pre t w post E y).
  eapply ed_dyn; eauto.
Qed.
Print Assumptions C10_calc_dep_effective_parallel.

(* non-vacuity: task 1 has calc_dep 5, which returns task_dep [2]; 2 is executed before 1 *)
Example C10_calc_nonvacuous :
  map (fun e => match e with EExecute k => k | _ => 99%N end)
      (filter is_exec (fst (run_serial (fun n => match n with
         | 1%N => Some (Build_task [] [] [5%N] false false CkRun false OOk [] [] [])
         | 2%N => Some (Build_task [] [] [] false false CkRun false OOk [] [] [])
         | 5%N => Some (Build_task [] [] [] false false CkRun false OOk [2%N] [] [])
         | _ => None end) (fun _ _ => 0%N) (fun _ => 0%N) false false 200 [1%N])))
  = [5; 2; 1]%N.
Proof. vm_compute. reflexivity. Qed.
(* ... and at Status level: the calc task's file f3 becomes a dependency, is reported in `changed` *)
Definition tabC (n : name) : itask :=
  match n with
  | 1%N => {| i_getargs := []; i_setup := []; i_task_dep := []; i_calc_dep := [5%N]; i_group := false; i_sub_of := None; i_params := [arg_dependencies; arg_changed] |}
  | _ => no_task end.
Definition calcT : tdef := {| file_dep := [0%N]; targets := []; uptodate := []; act_values := [(k_cfile, Some 8%N)]; act_result := None |}.
Definition depT : tdef := {| file_dep := [1%N]; targets := []; uptodate := []; act_values := []; act_result := None |}.
Example C10_calc_status_nonvacuous :
  let s := run (fun c => c) (fun _ => 4) current [Write 0 0; Write 1 1; Write 3 3; SetDef 5 calcT; SetDef 1 depT]%N in
  let x := run_sel (fun c => c) (fun _ => 4) current icurrent tabC false [] 40 s [1%N] in
  tr_kw (x_rep x 1%N) = Some [(arg_dependencies, KFiles [1; 3]%N); (arg_changed, KFiles [1; 3]%N)] /\
  (* second run after f3 changed: only f3 is reported *)
  let s2 := step (fun c => c) (fun _ => 4) current (step (fun c => c) (fun _ => 4) current (x_s x) (Write 3%N 2%N)) (SetDef 1%N depT) in
  let x2 := run_sel (fun c => c) (fun _ => 4) current icurrent tabC false [] 40 s2 [1%N] in
  st_of x2 5%N = RUpToDate /\
  tr_kw (x_rep x2 1%N) = Some [(arg_dependencies, KFiles [1; 3]%N); (arg_changed, KFiles [3%N])].
Proof. vm_compute. auto. Qed.

(* ---- the inputs of an action executed in a WORKER PROCESS (Model/Pickle.v; runner `-n N` with processes).
   A task created at run time by a create_after creator is sent to the worker as a whole pickled Task
   (runner.JobTask: Task.__getstate__ / pickle.loads), a statically known one as its pickle_safe_dict; the getargs
   values were put into task.options by the MAIN process (Runner._get_task_args), dep_changed by the status check
   there.  [kwargs_main t ga] / [kwargs_worker d t ga]: the keyword arguments of the action when the task (state
   [t], getargs entries [ga] with the values read from the dependency manager) is executed by the main process /
   sent with the serialisation [d] and executed by the worker; [drop_none] is the code in /repo.
   Correspondence: harness/c10.py family 'delayed-proc' (implementation-side oracle: the created consumers really go
   through JobTask under `-n 2`; shapes c10:getargs-not-delivered, c10:consumer-action-failed). *)
Theorem C10_pickled_task_kwargs : forall t ga, kwargs_worker drop_none t ga = kwargs_main t ga.
Proof. exact kwargs_worker_main. Qed.
Print Assumptions C10_pickled_task_kwargs.

(* every getargs value read by the main process reaches the worker's action under its name *)
Theorem C10_pickled_getargs_delivered : forall t ga k x,
  NoDup (map fst ga) -> In (k, x) ga -> In k (p_params t) ->
  In (k, KOpt x) (kwargs_worker drop_none t ga).
Proof. exact kwargs_worker_getargs. Qed.
Print Assumptions C10_pickled_getargs_delivered.

(* targets / dependencies / changed in the worker are the task's current targets, file_dep and the dep_changed the
   status check computed in the main process (names not taken by an option or a getargs entry) *)
Theorem C10_pickled_meta_args : forall t ga v,
  (forall k, In k [arg_targets; arg_dependencies; arg_changed] -> ~ In k (map fst ga) /\ ~ In k (map fst (p_defaults t)) /\
             (forall o, p_options t = Some o -> ~ In k (map fst o))) ->
  (In (arg_targets, v) (kwargs_worker drop_none t ga) <-> In arg_targets (p_params t) /\ v = KFiles (targets (p_def t))) /\
  (In (arg_dependencies, v) (kwargs_worker drop_none t ga) <-> In arg_dependencies (p_params t) /\ v = KFiles (file_dep (p_def t))) /\
  (In (arg_changed, v) (kwargs_worker drop_none t ga) <-> In arg_changed (p_params t) /\ v = KFiles (p_changed t)).
Proof. exact kwargs_worker_meta. Qed.
Print Assumptions C10_pickled_meta_args.

(* non-vacuity + the seeded regression: __getstate__ that also resets `options` (init_options in the worker then
   starts from the params' defaults) loses the getargs value; one that resets dep_changed loses `changed` *)
Definition pickT : ptask :=
  {| p_def := {| file_dep := [0%N; 1%N]; targets := [4%N]; uptodate := []; act_values := []; act_result := None |};
     p_changed := [1%N]; p_options := None; p_defaults := [];
     p_params := [arg_targets; arg_dependencies; arg_changed; 3%N] |}.
Example C10_pickled_nonvacuous :
  kwargs_worker drop_none pickT [(3%N, ASingle (SVal (Some 7%N)))]
  = [(arg_targets, KFiles [4%N]); (arg_dependencies, KFiles [0%N; 1%N]); (arg_changed, KFiles [1%N]); (3%N, KOpt (ASingle (SVal (Some 7%N))))].
Proof. vm_compute. reflexivity. Qed.
Theorem C10_pickled_drop_options_refuted : exists t ga k x,
  NoDup (map fst ga) /\ In (k, x) ga /\ In k (p_params t) /\ ~ In (k, KOpt x) (kwargs_worker drop_options t ga).
Proof.
  exists pickT, [(3%N, ASingle (SVal (Some 7%N)))], 3%N, (ASingle (SVal (Some 7%N))).
  split; [repeat constructor; simpl; tauto|]. split; [simpl; auto|]. split; [simpl; auto|].
  vm_compute. intros H. repeat (destruct H as [H|H]; [discriminate H|]). exact H.
Qed.
Print Assumptions C10_pickled_drop_options_refuted.
Theorem C10_pickled_drop_changed_refuted : exists t ga,
  In arg_changed (p_params t) /\ p_changed t <> [] /\ In (arg_changed, KFiles []) (kwargs_worker drop_changed t ga).
Proof.
  exists pickT, [(3%N, ASingle (SVal (Some 7%N)))]. split; [simpl; auto|]. split; [discriminate|].
  vm_compute. auto.
Qed.
Print Assumptions C10_pickled_drop_changed_refuted.
