(* C16 -- Option parsing is exact, pure and respects source precedence.
   Statements only; every proof is `exact <lemma of Proofs/CmdParse*.v>` or a closed computation.

   Vocabulary (Proofs/CmdParseP.v, CmdParseR.v):
     wf_spec st      boolean: every short name is one character other than '-' and ':', no '=' in long and
                     inverse names, an inverse name only on a bool option with a long name, short names
                     pairwise distinct, long+inverse names pairwise distinct, option names distinct.
     item, render    a command line as a list of syntactic units: IShorts fl None = -abc (cluster of
                     short flags), IShorts fl (Some (o,true,v)) = -abcsVALUE, IShorts fl (Some (o,false,v))
                     = -abcs VALUE, ILongVal o true v = --long=VALUE, ILongVal o false v = --long VALUE,
                     ILongFlag o = --long, IInv o = --inverse.  item_ok st it: the unit uses options of
                     st as their type allows (values are arbitrary strings, also ones starting with '-';
                     only an attached short value must be non-empty).
     tail_of t pos   t = pos with the first positional argument not option-like (classify = TPos: does not
                     start with '-', or is "-" alone), or t = "--" :: pos with pos arbitrary.
     asgs_of items   the assignments (ASet o v / AFlag o b) the units stand for, in order;
     apply_asgs      their effect on the dictionary (flag: True/False; list option: append the raw string;
                     other: store str2type of the string; all mark the key as non-default).
   Not covered by the theorems (correspondence check only): abbreviated long options (unique prefixes). *)
From DoitV Require Import Base CmdParse CmdParseP CmdParseR.
Open Scope string_scope.
Open Scope list_scope.

(* ---------------------------------------------------------------- round trip *)
(* parsing a rendered command line = applying the written assignments, in order, to the defaults
   overridden by the environment; the positional arguments come back unchanged and in order; the
   parser object is unchanged.  Unbounded in the spec, the units and all strings; any conversion oracle. *)
Theorem C16_roundtrip : forall conv st env items t pos,
  wf_spec st = true -> Forall (item_ok st) items -> tail_of t pos ->
  parse conv st env (render items ++ t) =
  (match env_phase conv env st (defaults_phase st) with
   | Ok d0 => lift_result (apply_asgs conv d0 (asgs_of items)) pos
   | ParseError => ParseError
   | Crash => Crash
   end, st).
Proof. exact parse_render. Qed.
Print Assumptions C16_roundtrip.

(* the values written are the values returned.  For every option o of the spec, with `before` its
   value after defaults and environment:  flags: the last -s/--long/--inverse decides (True/False);
   list options: the written strings accumulate, in order, after `before`;  every other option: the
   last written string, converted;  untouched options keep `before`;  the key is marked non-default
   iff the environment or the command line set it. *)
Theorem C16_roundtrip_values : forall conv st env items t pos d args st',
  wf_spec st = true -> Forall (item_ok st) items -> tail_of t pos ->
  parse conv st env (render items ++ t) = (Ok (d, args), st') ->
  args = pos /\ st' = st /\
  forall o, In o st ->
  let k := o_name o in let l := asgs_of items in
  exists before,
    match env_str env o with Some s => str2type conv o (VStr s) = Ok before | None => before = o_default o end /\
    match o_ty o with
    | TBool => d_get d k = Some (match last_opt (flags_of k l) with Some b => VBool b | None => before end)
    | TList => forall base, before = VList base -> d_get d k = Some (VList (base ++ vals_of k l))
    | _ => match last_opt (vals_of k l) with
           | Some v => exists x, str2type conv o (VStr v) = Ok x /\ d_get d k = Some x
           | None => d_get d k = Some before
           end
    end /\
    (assigned k l = false -> d_get d k = Some before) /\
    mem k (d_nd d) = ((match env_str env o with Some _ => true | None => false end) || assigned k l)%bool.
Proof.
  intros conv st env items t pos d args st' WF Hok Ht H.
  destruct (parse_render_ok conv st env items t pos d args st' WF Hok Ht H) as (H1 & H2 & _).
  exact (conj H1 (conj H2 (parsed_values conv st env items t pos d args st' WF Hok Ht H))).
Qed.
Print Assumptions C16_roundtrip_values.

(* ---------------------------------------------------------------- rejection *)
(* a token in option position that is an unknown short option, an unknown long option, an ambiguous
   abbreviation, an option that needs a value at the end of the command line, or a flag given a value
   (inductive bad_token, CmdParseR.v) makes the whole parse a parse error, whatever follows *)
Theorem C16_reject_syntax : forall conv st env items b rest,
  wf_spec st = true -> Forall (item_ok st) items -> bad_token st b rest ->
  parse conv st env (render items ++ b :: rest) =
  (match env_phase conv env st (defaults_phase st) with Crash => Crash | _ => ParseError end, st).
Proof. exact parse_bad_token. Qed.
Print Assumptions C16_reject_syntax.

(* a written value its option does not accept is never accepted ... *)
Theorem C16_reject_value : forall conv st env items t pos o v,
  wf_spec st = true -> Forall (item_ok st) items -> tail_of t pos ->
  In (ASet o v) (asgs_of items) -> is_list (o_ty o) = false -> (forall x, str2type conv o (VStr v) <> Ok x) ->
  forall r, fst (parse conv st env (render items ++ t)) <> Ok r.
Proof. exact parse_value_not_ok. Qed.
Print Assumptions C16_reject_value.

(* ... and the outcome is ParseError when it is the first thing that goes wrong *)
Theorem C16_reject_value_parse_error : forall conv st env items t pos l1 o v l2 d0 d1,
  wf_spec st = true -> Forall (item_ok st) items -> tail_of t pos ->
  asgs_of items = l1 ++ ASet o v :: l2 ->
  env_phase conv env st (defaults_phase st) = Ok d0 -> apply_asgs conv d0 l1 = Ok d1 ->
  is_list (o_ty o) = false -> str2type conv o (VStr v) = ParseError ->
  parse conv st env (render items ++ t) = (ParseError, st).
Proof. exact parse_value_parse_error. Qed.
Print Assumptions C16_reject_value_parse_error.

(* the same for a value coming from the environment, for any command line *)
Theorem C16_reject_env : forall conv st env argv o s,
  In o st -> env_str env o = Some s -> (forall x, str2type conv o (VStr s) <> Ok x) ->
  forall r, fst (parse conv st env argv) <> Ok r.
Proof. exact parse_env_not_ok. Qed.
Print Assumptions C16_reject_env.

(* ... and for a value in the configuration given to overwrite_defaults (INI/TOML section) *)
Theorem C16_reject_config : forall conv cfg st k v o,
  In (k, v) cfg -> find_opt st k = Some o -> (forall x, str2type conv o v <> Ok x) ->
  fst (overwrite_defaults conv st cfg) <> Ok tt.
Proof. exact overwrite_not_ok. Qed.
Print Assumptions C16_reject_config.

(* an item written for a list option that has choices is checked against them (repair 424a4bf) *)
Theorem C16_reject_list_choice : forall conv st env items t pos o v,
  wf_spec st = true -> Forall (item_ok st) items -> tail_of t pos ->
  In (ASet o v) (asgs_of items) -> is_list (o_ty o) = true -> (forall x, validate_choice o (VStr v) <> Ok x) ->
  forall r, fst (parse conv st env (render items ++ t)) <> Ok r.
Proof. exact parse_list_choice_not_ok. Qed.
Print Assumptions C16_reject_list_choice.

Theorem C16_reject_list_choice_parse_error : forall conv st env items t pos l1 o v l2 d0 d1,
  wf_spec st = true -> Forall (item_ok st) items -> tail_of t pos ->
  asgs_of items = l1 ++ ASet o v :: l2 ->
  env_phase conv env st (defaults_phase st) = Ok d0 -> apply_asgs conv d0 l1 = Ok d1 ->
  is_list (o_ty o) = true -> validate_choice o (VStr v) = ParseError ->
  parse conv st env (render items ++ t) = (ParseError, st).
Proof. exact parse_list_choice_parse_error. Qed.
Print Assumptions C16_reject_list_choice_parse_error.

(* what "does not accept" covers: the type callable raising ValueError, a value outside the choices,
   a string that is not in the boolean table, an item of a list outside the choices (written on the
   command line, or inside a comma separated value from the environment / configuration) *)
Theorem C16_reject_reasons : forall conv o v,
  (forall n, o_ty o = TOther n -> conv n v = None -> str2type conv o (VStr v) = ParseError) /\
  (o_ty o = TStr -> o_choices o <> [] -> smem v (o_choices o) = false -> str2type conv o (VStr v) = ParseError) /\
  (o_ty o = TBool -> str2boolean v = None -> str2type conv o (VStr v) = ParseError) /\
  (o_choices o <> [] -> smem v (o_choices o) = false -> validate_choice o (VStr v) = ParseError) /\
  (o_ty o = TList -> o_choices o <> [] -> forallb (fun x => smem x (o_choices o)) (str2list v) = false ->
   str2type conv o (VStr v) = ParseError).
Proof.
  intros conv o v.
  exact (conj (fun n => str2type_ill_typed conv o n v) (conj (str2type_bad_choice conv o v)
        (conj (str2type_bad_bool conv o v) (conj (validate_choice_bad_item o v) (str2type_bad_list_item conv o v))))).
Qed.
Print Assumptions C16_reject_reasons.

(* ---------------------------------------------------------------- precedence *)
(* p.overwrite_defaults(cfg); (d, _) = p.parse(argv); d.update_defaults(dodo):
   every option o1 of the parser is the declared option o0 with a new default, and its final value is
   the first defined of: command line, environment variable, DOIT_CONFIG entry (dodo, last entry for
   the key), config-file entry (cfg, converted), declared default.  For a list option "command line"
   means: the written strings appended to its value from the lower sources (C16_roundtrip_values says
   which); a key set on the command line is never overridden by DOIT_CONFIG. *)
Theorem C16_precedence : forall conv st0 cfg st1 env items t pos d args st' dodo,
  wf_spec st0 = true -> overwrite_defaults conv st0 cfg = (Ok tt, st1) ->
  Forall (item_ok st1) items -> tail_of t pos ->
  parse conv st1 env (render items ++ t) = (Ok (d, args), st') ->
  forall o1, In o1 st1 ->
  let k := o_name o1 in
  exists o0, find_opt st0 k = Some o0 /\ o1 = set_opt_default o0 (o_default o1) /\
    d_get (update_defaults d dodo) k =
      if assigned k (asgs_of items) then d_get d k
      else match env_str env o1 with
           | Some s => match str2type conv o1 (VStr s) with Ok x => Some x | _ => None end
           | None =>
               match lookup_last dodo k with
               | Some x => Some x
               | None => match lookup_last cfg k with
                         | Some v => match str2type conv o0 v with Ok x => Some x | _ => None end
                         | None => Some (o_default o0)
                         end
               end
           end.
Proof. exact pipeline_precedence. Qed.
Print Assumptions C16_precedence.

(* update_defaults alone: non-default keys are protected, otherwise the last entry wins *)
Theorem C16_update_defaults : forall u d k,
  d_nd (update_defaults d u) = d_nd d /\
  d_get (update_defaults d u) k =
    if mem k (d_nd d) then d_get d k
    else match lookup_last u k with Some x => Some x | None => d_get d k end.
Proof. exact update_defaults_spec. Qed.
Print Assumptions C16_update_defaults.

(* ---------------------------------------------------------------- purity *)
(* parsing does not change the parser object (the defaults of its options), so parsing the same
   input again with the same object gives the same result; any spec (well-formed or not), any argv *)
Theorem C16_pure : forall conv st env argv,
  snd (parse conv st env argv) = st /\
  (let (r1, st1) := parse conv st env argv in parse conv st1 env argv = (r1, st1)).
Proof. intros. exact (conj (parse_pure conv st env argv) (parse_twice conv st env argv)). Qed.
Print Assumptions C16_pure.

(* ---------------------------------------------------------------- non-vacuity *)
(* the options of `doit run` (doit/cmd_run.py + cmd_base.py, extracted from Run().get_options()) *)
Definition run_options : pstate := [
  (* dep_file *) mkopt 1%N (TStr) (VStr ".doit.db") "" "db-file" "" [] None;
  (* backend *) mkopt 2%N (TStr) (VStr "dbm") "" "backend" "" [] None;
  (* codec_cls *) mkopt 3%N (TStr) (VStr "json") "" "" "" [] None;
  (* check_file_uptodate *) mkopt 4%N (TStr) (VStr "md5") "" "check_file_uptodate" "" [] None;
  (* dodoFile *) mkopt 5%N (TStr) (VStr "dodo.py") "f" "file" "" [] (Some 104%N);
  (* cwdPath *) mkopt 6%N (TStr) (VNone) "d" "dir" "" [] None;
  (* seek_file *) mkopt 7%N (TBool) (VBool false) "k" "seek-file" "" [] (Some 106%N);
  (* always *) mkopt 8%N (TBool) (VBool false) "a" "always-execute" "" [] None;
  (* continue *) mkopt 9%N (TBool) (VBool false) "c" "continue" "no-continue" [] None;
  (* verbosity *) mkopt 10%N (TOther 0) (VNone) "v" "verbosity" "" [] None;
  (* reporter *) mkopt 11%N (TStr) (VStr "console") "r" "reporter" "" [] None;
  (* outfile *) mkopt 12%N (TStr) VNone (* sys.stdout *) "o" "output-file" "" [] None;
  (* num_process *) mkopt 13%N (TOther 0) (VInt (0)%Z) "n" "process" "" [] None;
  (* par_type *) mkopt 14%N (TStr) (VStr "process") "P" "parallel-type" "" [] None;
  (* pdb *) mkopt 15%N (TBool) (VNone) "" "pdb" "" [] None;
  (* single *) mkopt 16%N (TBool) (VBool false) "s" "single" "" [] None;
  (* auto_delayed_regex *) mkopt 17%N (TBool) (VBool false) "" "auto-delayed-regex" "" [] None;
  (* failure_verbosity *) mkopt 18%N (TOther 0) (VInt (0)%Z) "" "failure-verbosity" "" [] None
].
Example C16_run_options_wf : wf_spec run_options = true.
Proof. vm_compute. reflexivity. Qed.

Definition ex_o (k : N) : cmd_option := nth (N.to_nat k - 1)%nat run_options (mkopt 0%N TStr VNone "" "" "" [] None).
(* doit run -ca -v2 --no-continue --reporter=json -n 4 --db-file x.db -- t1 -t2 *)
Definition ex_items : list item :=
  [IShorts [ex_o 9%N; ex_o 8%N] None; IShorts [] (Some (ex_o 10%N, true, "2")); IInv (ex_o 9%N);
   ILongVal (ex_o 11%N) true "json"; IShorts [] (Some (ex_o 13%N, false, "4")); ILongVal (ex_o 1%N) false "x.db"].
Example C16_ex_render :
  render ex_items ++ ["--"; "t1"; "-t2"] =
  ["-ca"; "-v2"; "--no-continue"; "--reporter=json"; "-n"; "4"; "--db-file"; "x.db"; "--"; "t1"; "-t2"].
Proof. vm_compute. reflexivity. Qed.
Example C16_ex_items_ok : Forall (item_ok run_options) ex_items /\ tail_of ["--"; "t1"; "-t2"] ["t1"; "-t2"].
Proof.
  split; [|exact (tail_dashdash ["t1"; "-t2"])].
  assert (I : forall k, (1 <= k <= 18)%N -> In (ex_o k) run_options).
  { intros k Hk. assert (Hn : (N.to_nat k - 1 < List.length run_options)%nat) by (simpl; lia).
    exact (nth_In run_options _ Hn). }
  repeat (apply Forall_cons); [..|apply Forall_nil]; unfold item_ok.
  - split; [|discriminate].
    intros o [<-|[<-|[]]]; (split; [apply I; lia|split; [reflexivity|vm_compute; discriminate]]).
  - split; [intros o []|]. split; [apply I; lia|].
    split; [reflexivity|split; [vm_compute; discriminate|intros _; discriminate]].
  - split; [apply I; lia|vm_compute; discriminate].
  - split; [apply I; lia|split; [reflexivity|vm_compute; discriminate]].
  - split; [intros o []|]. split; [apply I; lia|].
    split; [reflexivity|split; [vm_compute; discriminate|intros H; discriminate H]].
  - split; [apply I; lia|split; [reflexivity|vm_compute; discriminate]].
Qed.
(* hypotheses of C16_roundtrip_values / C16_precedence hold together: the parse succeeds *)
Example C16_ex_parse :
  exists d, parse conv_ref run_options (env_of [(104%N, "other.py")]) (render ex_items ++ ["--"; "t1"; "-t2"])
            = (Ok (d, ["t1"; "-t2"]), run_options) /\
            d_get d 9%N = Some (VBool false) /\ d_get d 8%N = Some (VBool true) /\ d_get d 10%N = Some (VInt 2%Z) /\
            d_get d 13%N = Some (VInt 4%Z) /\ d_get d 11%N = Some (VStr "json") /\ d_get d 5%N = Some (VStr "other.py").
Proof. eexists. vm_compute. repeat split; reflexivity. Qed.
Example C16_ex_overwrite : exists st1, overwrite_defaults conv_ref run_options [(10%N, VStr "1"); (9%N, VStr "yes")] = (Ok tt, st1).
Proof. eexists. vm_compute. reflexivity. Qed.
(* a rejected token of each kind exists for this spec *)
Example C16_ex_bad_tokens :
  bad_token run_options "-z" [] /\ bad_token run_options "--zeta=1" ["x"] /\ bad_token run_options "--p" [] /\
  bad_token run_options "-v" [] /\ bad_token run_options "--verbosity" [] /\ bad_token run_options "--continue=1" ["t"].
Proof.
  repeat split.
  - apply (bad_unknown_short run_options "z"%char "" []). discriminate. vm_compute. intuition discriminate.
  - apply (bad_unknown_long run_options "zeta=1" ["x"]). discriminate.
    intros e He. vm_compute in He. vm_compute. intuition (subst; reflexivity).
  - apply (bad_ambiguous run_options "p" "process=" "parallel-type=" ["pdb"] []); try discriminate; try reflexivity;
      vm_compute; intuition discriminate.
  - apply (bad_missing_short run_options (ex_o 10%N)); try reflexivity; try discriminate. vm_compute. auto 20.
  - apply (bad_missing_long run_options (ex_o 10%N)); try reflexivity; try discriminate. vm_compute. auto 20.
  - apply (bad_flag_arg run_options (ex_o 9%N) "1" ["t"]); try reflexivity; try discriminate. vm_compute. auto 20.
Qed.

(* ---------------------------------------------------------------- the code before the repair b063765 *)
(* `params[name].append(val)` appended to the option's own default list: the parser object changed
   and a second parse of the same command line returned something else (defect F4) *)
Definition lst_opt : cmd_option := mkopt 1%N TList (VList ["d"]) "l" "list" "" [] None.
Theorem C16_pure_list_legacy_refuted : exists st env argv,
  snd (parse_gen conv_ref true st env argv) <> st /\
  (let (r1, st1) := parse_gen conv_ref true st env argv in fst (parse_gen conv_ref true st1 env argv) <> r1).
Proof.
  exists [lst_opt], (env_of []), ["-l"; "a"]. vm_compute. split; intros H; inversion H.
Qed.
Print Assumptions C16_pure_list_legacy_refuted.

(* ... and, `append` not marking the key non-default, DOIT_CONFIG overrode a list given on the
   command line *)
Theorem C16_precedence_list_legacy_refuted : exists st env argv dodo d args st',
  parse_gen conv_ref true st env argv = (Ok (d, args), st') /\
  d_get d 1%N = Some (VList ["d"; "a"]) /\
  d_get (update_defaults d dodo) 1%N = Some (VList ["z"]).
Proof.
  exists [lst_opt], (env_of []), ["-l"; "a"], [(1%N, VList ["z"])]. do 3 eexists. vm_compute. repeat split; reflexivity.
Qed.
Print Assumptions C16_precedence_list_legacy_refuted.

(* the same inputs on the current code *)
Example C16_list_current :
  exists d, parse conv_ref [lst_opt] (env_of []) ["-l"; "a"] = (Ok (d, []), [lst_opt]) /\
            d_get (update_defaults d [(1%N, VList ["z"])]) 1%N = Some (VList ["d"; "a"]).
Proof. eexists. vm_compute. split; reflexivity. Qed.

(* the code before the repair 424a4bf: an item outside the choices of a list option was accepted on
   the command line, and validate_choice crashed (TypeError) on the list coming from the environment
   or the configuration; next to them the current code on the same inputs *)
Definition lstc_opt : cmd_option := mkopt 1%N TList (VList []) "l" "list" "" ["a"; "b"] None.
Theorem C16_list_choices_legacy_refuted :
  (exists st env argv d, fst (parse_gen conv_ref true st env argv) = Ok d) /\
  validate_choice_legacy lstc_opt (VList ["a"]) = Crash.
Proof. split; [exists [lstc_opt], (env_of []), ["-l"; "zzz"]; eexists; vm_compute; reflexivity|reflexivity]. Qed.
Print Assumptions C16_list_choices_legacy_refuted.
Example C16_list_choices_current :
  parse conv_ref [lstc_opt] (env_of []) ["-l"; "zzz"] = (ParseError, [lstc_opt]) /\
  str2type conv_ref lstc_opt (VStr "a,zzz") = ParseError /\ str2type conv_ref lstc_opt (VStr "a, b") = Ok (VList ["a"; "b"]).
Proof. vm_compute. repeat split; reflexivity. Qed.
