(* C16 -- Option parsing is exact, pure and respects source precedence.
   Statements only; every proof is `exact <lemma of Proofs/CmdParse*.v>` or a closed computation.

   Vocabulary (Proofs/CmdParseP.v, CmdParseR.v):
     wf_spec st      boolean: every short name is one character other than '-' and ':', no '=' in long and
                     inverse names, an inverse name only on a bool option with a long name, short names
                     pairwise distinct, long+inverse names pairwise distinct, option names distinct.
     item, render    a command line as a list of syntactic units: IShorts fl None = -abc (cluster of
                     short flags), IShorts fl (Some (o,true,v)) = -abcsVALUE, IShorts fl (Some (o,false,v))
                     = -abcs VALUE, ILongVal o true v = --long=VALUE, ILongVal o false v = --long VALUE,
                     ILongFlag o = --long, IInv o = --inverse.  item_ok st it: the unit uses options of
                     st as their type allows (values are arbitrary strings, also ones starting with '-';
                     only an attached short value must be non-empty).
     tail_of t pos   t = pos with the first positional argument not option-like (classify = TPos: does not
                     start with '-', or is "-" alone), or t = "--" :: pos with pos arbitrary.
     asgs_of items   the assignments (ASet o v / AFlag o b) the units stand for, in order;
     apply_asgs      their effect on the dictionary (flag: True/False; list option: append the raw string;
                     other: store str2type of the string; all mark the key as non-default).
     pre_parse       pass 1 of DoitMain.run over the options of the loader that precede the sub-command name;
     parse_execute   Command.parse_execute: parse (pass 2), then params[key] = val for every entry of opt_vals
                     (parse_execute_update: the code before 7ef8d1a, params.update(opt_vals));  main_run: DoitMain.run;
     written o l v   v is the value the assignments l give option o: True/False of its last flag, or its last
                     string converted (Proofs/CmdParseS.v).
     aitem, arender  (Proofs/CmdParseA.v) units written with an ABBREVIATED long / inverse name: ALongVal o p true v =
                     --p=VALUE, ALongVal o p false v = --p VALUE, ALongFlag o p = --p, AInv o p = --p (p abbreviating
                     the inverse name), APlain it = a unit of `item`;  full a = the unit it stands for;
     abbrev_ok st p nm   boolean: p is a prefix of nm, and p IS nm or nm is the only long / inverse name of the spec
                     that starts with p (getopt.long_has_args: exact match first, else unique prefix);
     ambiguous st p  boolean: at least two long / inverse names of the spec start with p and none of them is p.
     main_seq eff    (Model/CmdParse.v) a sequence of steps on ONE DoitMain / one config object: SRun argv = DoitMain.run,
                     SBuild nm = the command nm and its parser are only built; `eff cfg nm` = the config object after the
                     command nm was built: init_pure (the code: unchanged), init_shared (NOT the code: GLOBAL rewritten);
                     step_run = what one step observes; seq_config = the config object after the sequence. *)
From DoitV Require Import Base CmdParse CmdParseP CmdParseR CmdParseS CmdParseA.
Open Scope string_scope.
Open Scope list_scope.

(* ---------------------------------------------------------------- round trip *)
(* parsing a rendered command line = applying the written assignments, in order, to the defaults
   overridden by the environment; the positional arguments come back unchanged and in order; the
   parser object is unchanged.  Unbounded in the spec, the units and all strings; any conversion oracle. *)
Theorem C16_roundtrip : forall conv st env items t pos,
  wf_spec st = true -> Forall (item_ok st) items -> tail_of t pos ->
  parse conv st env (render items ++ t) =
  (match env_phase conv env st (defaults_phase st) with
   | Ok d0 => lift_result (apply_asgs conv d0 (asgs_of items)) pos
   | ParseError => ParseError
   | Crash => Crash
   end, st).
Proof. exact parse_render. Qed.
Print Assumptions C16_roundtrip.

(* the values written are the values returned.  For every option o of the spec, with `before` its
   value after defaults and environment:  flags: the last -s/--long/--inverse decides (True/False);
   list options: the written strings accumulate, in order, after `before`;  every other option: the
   last written string, converted;  untouched options keep `before`;  the key is marked non-default
   iff the environment or the command line set it. *)
Theorem C16_roundtrip_values : forall conv st env items t pos d args st',
  wf_spec st = true -> Forall (item_ok st) items -> tail_of t pos ->
  parse conv st env (render items ++ t) = (Ok (d, args), st') ->
  args = pos /\ st' = st /\
  forall o, In o st ->
  let k := o_name o in let l := asgs_of items in
  exists before,
    match env_str env o with Some s => str2type conv o (VStr s) = Ok before | None => before = o_default o end /\
    match o_ty o with
    | TBool => d_get d k = Some (match last_opt (flags_of k l) with Some b => VBool b | None => before end)
    | TList => forall base, before = VList base -> d_get d k = Some (VList (base ++ vals_of k l))
    | _ => match last_opt (vals_of k l) with
           | Some v => exists x, str2type conv o (VStr v) = Ok x /\ d_get d k = Some x
           | None => d_get d k = Some before
           end
    end /\
    (assigned k l = false -> d_get d k = Some before) /\
    mem k (d_nd d) = ((match env_str env o with Some _ => true | None => false end) || assigned k l)%bool.
Proof.
  intros conv st env items t pos d args st' WF Hok Ht H.
  destruct (parse_render_ok conv st env items t pos d args st' WF Hok Ht H) as (H1 & H2 & _).
  exact (conj H1 (conj H2 (parsed_values conv st env items t pos d args st' WF Hok Ht H))).
Qed.
Print Assumptions C16_roundtrip_values.

(* ---------------------------------------------------------------- abbreviated long options *)
(* getopt.long_has_args on the table built from the spec: a prefix allowed by abbrev_ok resolves to the
   option it abbreviates (with / without argument as the option requires; the name handed on is the FULL
   name), a prefix of two names or more that is none of them is "not a unique prefix" (GetoptError) *)
Theorem C16_abbrev_resolution : forall st p, wf_spec st = true ->
  (forall o, In o st -> is_bool (o_ty o) = false -> o_long o <> EmptyString -> abbrev_ok st p (o_long o) = true ->
             long_has_args p (get_long st) = Some (true, o_long o)) /\
  (forall o, In o st -> is_bool (o_ty o) = true -> o_long o <> EmptyString -> abbrev_ok st p (o_long o) = true ->
             long_has_args p (get_long st) = Some (false, o_long o)) /\
  (forall o, In o st -> o_inverse o <> EmptyString -> abbrev_ok st p (o_inverse o) = true ->
             long_has_args p (get_long st) = Some (false, o_inverse o)) /\
  (ambiguous st p = true -> long_has_args p (get_long st) = None).
Proof.
  intros st p WF.
  exact (conj (fun o => long_has_args_value_abbrev st WF o p) (conj (fun o => long_has_args_flag_abbrev st WF o p)
        (conj (fun o => long_has_args_inverse_abbrev st WF o p) (long_has_args_ambiguous_spec st WF p)))).
Qed.
Print Assumptions C16_abbrev_resolution.

(* parsing does not see an allowed abbreviation: whatever follows the abbreviated units (well-formed or
   not), parse / parse_only (pass 1) / parse_execute (pass 2) return what they return for the same units
   written with the full names -- so every theorem of this file about `render items` holds for
   `arender l` with items := map full l *)
Theorem C16_abbrev_transparent : forall conv st env ov d l tail,
  wf_spec st = true -> Forall (aitem_ok st) l ->
  parse conv st env (arender l ++ tail) = parse conv st env (render (map full l) ++ tail) /\
  parse_only conv st d (arender l ++ tail) = parse_only conv st d (render (map full l) ++ tail) /\
  parse_execute conv st ov env (arender l ++ tail) = parse_execute conv st ov env (render (map full l) ++ tail).
Proof.
  intros conv st env ov d l tail WF Hok.
  exact (conj (parse_arender_transparent conv st env l tail WF Hok) (conj (parse_only_arender_transparent conv st d l tail WF Hok)
        (parse_execute_arender_transparent conv st ov env l tail WF Hok))).
Qed.
Print Assumptions C16_abbrev_transparent.

(* the round trip for units rendered with ANY allowed abbreviation of the long / inverse names *)
Theorem C16_roundtrip_abbrev : forall conv st env l t pos,
  wf_spec st = true -> Forall (aitem_ok st) l -> tail_of t pos ->
  parse conv st env (arender l ++ t) =
  (match env_phase conv env st (defaults_phase st) with
   | Ok d0 => lift_result (apply_asgs conv d0 (asgs_of (map full l))) pos
   | ParseError => ParseError
   | Crash => Crash
   end, st).
Proof. exact parse_arender. Qed.
Print Assumptions C16_roundtrip_abbrev.

(* ... the values returned are exactly the values written (C16_roundtrip_values, for abbreviated units) *)
Theorem C16_roundtrip_abbrev_values : forall conv st env al t pos d args st',
  wf_spec st = true -> Forall (aitem_ok st) al -> tail_of t pos ->
  parse conv st env (arender al ++ t) = (Ok (d, args), st') ->
  args = pos /\ st' = st /\
  forall o, In o st ->
  let k := o_name o in let l := asgs_of (map full al) in
  exists before,
    match env_str env o with Some s => str2type conv o (VStr s) = Ok before | None => before = o_default o end /\
    match o_ty o with
    | TBool => d_get d k = Some (match last_opt (flags_of k l) with Some b => VBool b | None => before end)
    | TList => forall base, before = VList base -> d_get d k = Some (VList (base ++ vals_of k l))
    | _ => match last_opt (vals_of k l) with
           | Some v => exists x, str2type conv o (VStr v) = Ok x /\ d_get d k = Some x
           | None => d_get d k = Some before
           end
    end /\
    (assigned k l = false -> d_get d k = Some before) /\
    mem k (d_nd d) = ((match env_str env o with Some _ => true | None => false end) || assigned k l)%bool.
Proof.
  intros conv st env al t pos d args st' WF Hok Ht H.
  rewrite (parse_arender_transparent conv st env al t WF Hok) in H.
  exact (C16_roundtrip_values conv st env (map full al) t pos d args st' WF (aitems_full_ok st al Hok) Ht H).
Qed.
Print Assumptions C16_roundtrip_abbrev_values.

(* exact match beats prefix: a unit written with the FULL name is always allowed, also when the name is a
   proper prefix of other long names of the spec (abbrev_ok st nm nm holds without looking at the spec) --
   C16_roundtrip is the instance l := map exact items of C16_roundtrip_abbrev *)
Theorem C16_abbrev_exact_beats_prefix : forall st,
  (forall nm, abbrev_ok st nm nm = true) /\
  (forall it, item_ok st it -> aitem_ok st (exact it)) /\
  (forall items, arender (map exact items) = render items /\ map full (map exact items) = items).
Proof.
  intros st. split; [exact (abbrev_ok_exact st)|]. split; [exact (exact_ok st)|].
  intros items. split; [exact (arender_exact items)|].
  rewrite map_map. rewrite <- (map_id items) at 2. apply map_ext. exact full_exact.
Qed.
Print Assumptions C16_abbrev_exact_beats_prefix.

(* an ambiguous prefix (--p or --p=VALUE), an abbreviated flag / inverse flag given a value, an abbreviated
   option that needs a value at the end of the command line (inductive abad_token, CmdParseA.v), or any
   token of bad_token, after any abbreviated units: parse error, whatever follows *)
Theorem C16_reject_abbrev : forall conv st env l b rest,
  wf_spec st = true -> Forall (aitem_ok st) l -> (abad_token st b rest \/ bad_token st b rest) ->
  parse conv st env (arender l ++ b :: rest) =
  (match env_phase conv env st (defaults_phase st) with Crash => Crash | _ => ParseError end, st).
Proof. exact parse_abad_token. Qed.
Print Assumptions C16_reject_abbrev.

(* pass 1 of DoitMain.run on abbreviated options of the loader (C16_pre_parse) *)
Theorem C16_pre_parse_abbrev : forall conv lst l t pos,
  wf_spec lst = true -> Forall (aitem_ok lst) l -> tail_of t pos ->
  pre_parse conv lst (arender l ++ t) =
  match apply_asgs conv d_empty (asgs_of (map full l)) with
  | Ok d => Ok (d_items d, pos)
  | ParseError => Ok ([], arender l ++ t)
  | Crash => Crash
  end.
Proof. exact pre_parse_arender. Qed.
Print Assumptions C16_pre_parse_abbrev.

(* non-vacuity: --fi is the flag `fi` although --file starts with it; --fil / --verb / --no are unique
   prefixes; --f is ambiguous; `fi` is not an abbreviation of `file` *)
Definition ab_fi : cmd_option := mkopt 1%N TBool (VBool false) "i" "fi" "no-fi" [] None.
Definition ab_file : cmd_option := mkopt 2%N TStr (VStr "dodo.py") "f" "file" "" [] None.
Definition ab_verb : cmd_option := mkopt 3%N (TOther 0) (VInt 1%Z) "v" "verbosity" "" [] None.
Definition ab_spec : pstate := [ab_fi; ab_file; ab_verb].
Definition ab_items : list aitem :=
  [ALongFlag ab_fi "fi"; ALongVal ab_file "fil" true "x"; ALongVal ab_verb "verb" false "2"; AInv ab_fi "no"; ALongVal ab_verb "v" true "3"].
Example C16_ex_abbrev_hyps :
  wf_spec ab_spec = true /\ Forall (aitem_ok ab_spec) ab_items /\
  arender ab_items = ["--fi"; "--fil=x"; "--verb"; "2"; "--no"; "--v=3"] /\
  abbrev_ok ab_spec "fi" "file" = false /\ ambiguous ab_spec "f" = true /\ ambiguous ab_spec "fi" = false.
Proof.
  split; [vm_compute; reflexivity|]. split; [|vm_compute; repeat split; reflexivity].
  repeat (apply Forall_cons); [..|apply Forall_nil]; unfold aitem_ok, full, item_ok.
  - split; [split; [vm_compute; auto|split; [reflexivity|discriminate]]|split; [vm_compute; reflexivity|discriminate]].
  - split; [split; [vm_compute; auto|split; [reflexivity|discriminate]]|split; [vm_compute; reflexivity|discriminate]].
  - split; [split; [vm_compute; auto|split; [reflexivity|discriminate]]|split; [vm_compute; reflexivity|discriminate]].
  - split; [split; [vm_compute; auto|discriminate]|split; [vm_compute; reflexivity|discriminate]].
  - split; [split; [vm_compute; auto|split; [reflexivity|discriminate]]|split; [vm_compute; reflexivity|discriminate]].
Qed.
Example C16_ex_abbrev_parse :
  exists d, parse conv_ref ab_spec (env_of []) (arender ab_items ++ ["t1"]) = (Ok (d, ["t1"]), ab_spec) /\
            d_get d 1%N = Some (VBool false) /\ d_get d 2%N = Some (VStr "x") /\ d_get d 3%N = Some (VInt 3%Z).
Proof. eexists. vm_compute. repeat split; reflexivity. Qed.
(* the empty prefix: --=VALUE is accepted when the spec has one long name only *)
Example C16_ex_abbrev_empty_prefix :
  aitem_ok [ab_file] (ALongVal ab_file "" true "y") /\ arender [ALongVal ab_file "" true "y"] = ["--=y"] /\
  exists d, parse conv_ref [ab_file] (env_of []) ["--=y"] = (Ok (d, []), [ab_file]) /\ d_get d 2%N = Some (VStr "y").
Proof.
  split; [split; [split; [vm_compute; auto|split; [reflexivity|discriminate]]|split; [vm_compute; reflexivity|discriminate]]|].
  split; [reflexivity|]. eexists. vm_compute. split; reflexivity.
Qed.
Example C16_ex_abbrev_bad_tokens :
  abad_token ab_spec "--f" ["t"] /\ abad_token ab_spec "--f=1" [] /\ abad_token ab_spec "--verb" [] /\
  abad_token ab_spec "--no=1" ["t"] /\ abad_token ab_spec "--fi=1" [] /\
  fst (parse conv_ref ab_spec (env_of []) ["--fil=x"; "--f"; "t"]) = ParseError.
Proof.
  repeat split.
  - apply (abad_ambiguous ab_spec "f" ["t"]); [discriminate|reflexivity].
  - apply (abad_ambiguous_val ab_spec "f" "1" []). reflexivity.
  - apply (abad_missing ab_spec ab_verb "verb"); try reflexivity; try discriminate. vm_compute. auto.
  - apply (abad_inverse_arg ab_spec ab_fi "no" "1" ["t"]); try reflexivity; try discriminate. vm_compute. auto.
  - apply (abad_flag_arg ab_spec ab_fi "fi" "1" []); try reflexivity; try discriminate. vm_compute. auto.
Qed.

(* ---------------------------------------------------------------- rejection *)
(* a token in option position that is an unknown short option, an unknown long option, an ambiguous
   abbreviation, an option that needs a value at the end of the command line, or a flag given a value
   (inductive bad_token, CmdParseR.v) makes the whole parse a parse error, whatever follows *)
Theorem C16_reject_syntax : forall conv st env items b rest,
  wf_spec st = true -> Forall (item_ok st) items -> bad_token st b rest ->
  parse conv st env (render items ++ b :: rest) =
  (match env_phase conv env st (defaults_phase st) with Crash => Crash | _ => ParseError end, st).
Proof. exact parse_bad_token. Qed.
Print Assumptions C16_reject_syntax.

(* a written value its option does not accept is never accepted ... *)
Theorem C16_reject_value : forall conv st env items t pos o v,
  wf_spec st = true -> Forall (item_ok st) items -> tail_of t pos ->
  In (ASet o v) (asgs_of items) -> is_list (o_ty o) = false -> (forall x, str2type conv o (VStr v) <> Ok x) ->
  forall r, fst (parse conv st env (render items ++ t)) <> Ok r.
Proof. exact parse_value_not_ok. Qed.
Print Assumptions C16_reject_value.

(* ... and the outcome is ParseError when it is the first thing that goes wrong *)
Theorem C16_reject_value_parse_error : forall conv st env items t pos l1 o v l2 d0 d1,
  wf_spec st = true -> Forall (item_ok st) items -> tail_of t pos ->
  asgs_of items = l1 ++ ASet o v :: l2 ->
  env_phase conv env st (defaults_phase st) = Ok d0 -> apply_asgs conv d0 l1 = Ok d1 ->
  is_list (o_ty o) = false -> str2type conv o (VStr v) = ParseError ->
  parse conv st env (render items ++ t) = (ParseError, st).
Proof. exact parse_value_parse_error. Qed.
Print Assumptions C16_reject_value_parse_error.

(* the same for a value coming from the environment, for any command line *)
Theorem C16_reject_env : forall conv st env argv o s,
  In o st -> env_str env o = Some s -> (forall x, str2type conv o (VStr s) <> Ok x) ->
  forall r, fst (parse conv st env argv) <> Ok r.
Proof. exact parse_env_not_ok. Qed.
Print Assumptions C16_reject_env.

(* ... and for a value in the configuration given to overwrite_defaults (INI/TOML section) *)
Theorem C16_reject_config : forall conv cfg st k v o,
  In (k, v) cfg -> find_opt st k = Some o -> (forall x, str2type conv o v <> Ok x) ->
  fst (overwrite_defaults conv st cfg) <> Ok tt.
Proof. exact overwrite_not_ok. Qed.
Print Assumptions C16_reject_config.

(* an item written for a list option that has choices is checked against them (repair 424a4bf) *)
Theorem C16_reject_list_choice : forall conv st env items t pos o v,
  wf_spec st = true -> Forall (item_ok st) items -> tail_of t pos ->
  In (ASet o v) (asgs_of items) -> is_list (o_ty o) = true -> (forall x, validate_choice o (VStr v) <> Ok x) ->
  forall r, fst (parse conv st env (render items ++ t)) <> Ok r.
Proof. exact parse_list_choice_not_ok. Qed.
Print Assumptions C16_reject_list_choice.

Theorem C16_reject_list_choice_parse_error : forall conv st env items t pos l1 o v l2 d0 d1,
  wf_spec st = true -> Forall (item_ok st) items -> tail_of t pos ->
  asgs_of items = l1 ++ ASet o v :: l2 ->
  env_phase conv env st (defaults_phase st) = Ok d0 -> apply_asgs conv d0 l1 = Ok d1 ->
  is_list (o_ty o) = true -> validate_choice o (VStr v) = ParseError ->
  parse conv st env (render items ++ t) = (ParseError, st).
Proof. exact parse_list_choice_parse_error. Qed.
Print Assumptions C16_reject_list_choice_parse_error.

(* what "does not accept" covers: the type callable raising ValueError, a value outside the choices,
   a string that is not in the boolean table, an item of a list outside the choices (written on the
   command line, or inside a comma separated value from the environment / configuration) *)
Theorem C16_reject_reasons : forall conv o v,
  (forall n, o_ty o = TOther n -> conv n v = None -> str2type conv o (VStr v) = ParseError) /\
  (o_ty o = TStr -> o_choices o <> [] -> smem v (o_choices o) = false -> str2type conv o (VStr v) = ParseError) /\
  (o_ty o = TBool -> str2boolean v = None -> str2type conv o (VStr v) = ParseError) /\
  (o_choices o <> [] -> smem v (o_choices o) = false -> validate_choice o (VStr v) = ParseError) /\
  (o_ty o = TList -> o_choices o <> [] -> forallb (fun x => smem x (o_choices o)) (str2list v) = false ->
   str2type conv o (VStr v) = ParseError).
Proof.
  intros conv o v.
  exact (conj (fun n => str2type_ill_typed conv o n v) (conj (str2type_bad_choice conv o v)
        (conj (str2type_bad_bool conv o v) (conj (validate_choice_bad_item o v) (str2type_bad_list_item conv o v))))).
Qed.
Print Assumptions C16_reject_reasons.

(* ---------------------------------------------------------------- precedence *)
(* p.overwrite_defaults(cfg); (d, _) = p.parse(argv); d.update_defaults(dodo):
   every option o1 of the parser is the declared option o0 with a new default, and its final value is
   the first defined of: command line, environment variable, DOIT_CONFIG entry (dodo, last entry for
   the key), config-file entry (cfg, converted), declared default.  For a list option "command line"
   means: the written strings appended to its value from the lower sources (C16_roundtrip_values says
   which); a key set on the command line is never overridden by DOIT_CONFIG. *)
Theorem C16_precedence : forall conv st0 cfg st1 env items t pos d args st' dodo,
  wf_spec st0 = true -> overwrite_defaults conv st0 cfg = (Ok tt, st1) ->
  Forall (item_ok st1) items -> tail_of t pos ->
  parse conv st1 env (render items ++ t) = (Ok (d, args), st') ->
  forall o1, In o1 st1 ->
  let k := o_name o1 in
  exists o0, find_opt st0 k = Some o0 /\ o1 = set_opt_default o0 (o_default o1) /\
    d_get (update_defaults d dodo) k =
      if assigned k (asgs_of items) then d_get d k
      else match env_str env o1 with
           | Some s => match str2type conv o1 (VStr s) with Ok x => Some x | _ => None end
           | None =>
               match lookup_last dodo k with
               | Some x => Some x
               | None => match lookup_last cfg k with
                         | Some v => match str2type conv o0 v with Ok x => Some x | _ => None end
                         | None => Some (o_default o0)
                         end
               end
           end.
Proof. exact pipeline_precedence. Qed.
Print Assumptions C16_precedence.

(* update_defaults alone: non-default keys are protected, otherwise the last entry wins *)
Theorem C16_update_defaults : forall u d k,
  d_nd (update_defaults d u) = d_nd d /\
  d_get (update_defaults d u) k =
    if mem k (d_nd d) then d_get d k
    else match lookup_last u k with Some x => Some x | None => d_get d k end.
Proof. exact update_defaults_spec. Qed.
Print Assumptions C16_update_defaults.

(* ---------------------------------------------------------------- purity *)
(* parsing does not change the parser object (the defaults of its options), so parsing the same
   input again with the same object gives the same result; any spec (well-formed or not), any argv *)
Theorem C16_pure : forall conv st env argv,
  snd (parse conv st env argv) = st /\
  (let (r1, st1) := parse conv st env argv in parse conv st1 env argv = (r1, st1)).
Proof. intros. exact (conj (parse_pure conv st env argv) (parse_twice conv st env argv)). Qed.
Print Assumptions C16_pure.

(* ---------------------------------------------------------------- options before the sub-command name *)
(* `doit <options of the loader> <sub-command> <options> <positional>`  (DoitMain.run, Command.parse_execute).
   Pass 1: the options of the loader written before the first positional argument (or "--"): the
   dictionary handed to the command is exactly what the assignments give on an EMPTY dictionary, and
   everything from the first positional argument on is left for pass 2.  If a value is rejected
   nothing is taken and the whole command line is left to the command. *)
Theorem C16_pre_parse : forall conv lst items t pos,
  wf_spec lst = true -> Forall (item_ok lst) items -> tail_of t pos ->
  pre_parse conv lst (render items ++ t) =
  match apply_asgs conv d_empty (asgs_of items) with
  | Ok d => Ok (d_items d, pos)
  | ParseError => Ok ([], render items ++ t)
  | Crash => Crash
  end.
Proof. exact pre_parse_render. Qed.
Print Assumptions C16_pre_parse.

(* ... it holds a key for every option written and for no other, each with the value written last,
   one entry per key *)
Theorem C16_pre_parse_values : forall conv lst, wf_spec lst = true -> forall l d, Forall (asg_ok lst) l -> apply_asgs conv d_empty l = Ok d ->
  (forall k, assigned k l = false -> d_get d k = None) /\
  (forall o, In o lst -> assigned (o_name o) l = true -> is_list (o_ty o) = false ->
             exists v, written conv o l v /\ d_get d (o_name o) = Some v) /\
  keys_ok (d_items d) /\
  (forall k, mem k (map fst (d_items d)) = assigned k l).
Proof. exact pre_values. Qed.
Print Assumptions C16_pre_parse_values.

(* `for key, val in opt_vals.items(): params[key] = val`: the entries of opt_vals replace / extend the
   items and every key of opt_vals is marked non-default;  params.update(opt_vals) (the code before
   7ef8d1a) gives the same items and leaves the marks unchanged *)
Theorem C16_dict_assign : forall d u k,
  d_get (dict_assign d u) k = match lookup_last u k with Some x => Some x | None => d_get d k end /\
  mem k (d_nd (dict_assign d u)) = (mem k (d_nd d) || mem k (map fst u))%bool /\
  d_get (dict_update d u) k = d_get (dict_assign d u) k /\
  d_nd (dict_update d u) = d_nd d.
Proof.
  intros. exact (conj (dict_assign_get u d k) (conj (dict_assign_nd u d k)
                (conj (eq_trans (dict_update_get d u k) (eq_sym (dict_assign_get u d k))) (dict_update_nd d u)))).
Qed.
Print Assumptions C16_dict_assign.

(* Pass 2, Command.parse_execute, with [pre] the units written before the sub-command name (parser lst
   of the loader) and [post] the units after it (parser st1 of the command): an option written before
   the name has the value written there -- the LAST occurrence before the name; an occurrence of the
   same option after the name, its environment variable and its defaults are all overridden; every
   other key is what parsing the rest alone gives (C16_roundtrip_values for d); the keys marked
   non-default are those of d and the options written before the name; positional arguments and the
   parser object unchanged *)
Theorem C16_two_pass_values : forall conv lst st1 env pre d0 post t pos p args st',
  wf_spec lst = true -> Forall (item_ok lst) pre -> apply_asgs conv d_empty (asgs_of pre) = Ok d0 ->
  wf_spec st1 = true -> Forall (item_ok st1) post -> tail_of t pos ->
  parse_execute conv st1 (d_items d0) env (render post ++ t) = (Ok (p, args), st') ->
  args = pos /\ st' = st1 /\
  exists d, parse conv st1 env (render post ++ t) = (Ok (d, pos), st1) /\
    (forall ol, In ol lst -> assigned (o_name ol) (asgs_of pre) = true -> is_list (o_ty ol) = false ->
                exists v, written conv ol (asgs_of pre) v /\ d_get p (o_name ol) = Some v) /\
    (forall k, assigned k (asgs_of pre) = false -> d_get p k = d_get d k) /\
    (st1 <> [] -> forall k, mem k (d_nd p) = (mem k (d_nd d) || assigned k (asgs_of pre))%bool).
Proof. exact two_pass_values. Qed.
Print Assumptions C16_two_pass_values.

(* precedence for the params handed to `execute` (what loader.setup receives):
   command line before the sub-command name > command line after it > environment variable >
   configuration (GLOBAL / command section, through overwrite_defaults) > declared default *)
Theorem C16_two_pass_precedence : forall conv lst st0 cfg st1 env pre d0 post t pos p args st',
  wf_spec lst = true -> Forall (item_ok lst) pre -> apply_asgs conv d_empty (asgs_of pre) = Ok d0 ->
  wf_spec st0 = true -> overwrite_defaults conv st0 cfg = (Ok tt, st1) ->
  Forall (item_ok st1) post -> tail_of t pos ->
  parse_execute conv st1 (d_items d0) env (render post ++ t) = (Ok (p, args), st') ->
  args = pos /\ st' = st1 /\
  exists d, parse conv st1 env (render post ++ t) = (Ok (d, pos), st1) /\
    (forall ol, In ol lst -> assigned (o_name ol) (asgs_of pre) = true -> is_list (o_ty ol) = false ->
                exists v, written conv ol (asgs_of pre) v /\ d_get p (o_name ol) = Some v) /\
    (forall o1, In o1 st1 -> let k := o_name o1 in assigned k (asgs_of pre) = false ->
       exists o0, find_opt st0 k = Some o0 /\ o1 = set_opt_default o0 (o_default o1) /\
         d_get p k =
           if assigned k (asgs_of post) then d_get d k
           else match env_str env o1 with
                | Some s => match str2type conv o1 (VStr s) with Ok x => Some x | _ => None end
                | None => match lookup_last cfg k with
                          | Some v => match str2type conv o0 v with Ok x => Some x | _ => None end
                          | None => Some (o_default o0)
                          end
                end).
Proof. exact two_pass_precedence. Qed.
Print Assumptions C16_two_pass_precedence.

(* DOIT_CONFIG merged afterwards (DoitCmdBase.execute, update_defaults): exactly the keys set by the
   command line -- before or after the sub-command name -- or by the environment are protected *)
Theorem C16_two_pass_doit_config : forall conv lst st1 env pre d0 post t pos p args st' dodo,
  wf_spec lst = true -> Forall (item_ok lst) pre -> apply_asgs conv d_empty (asgs_of pre) = Ok d0 ->
  wf_spec st1 = true -> Forall (item_ok st1) post -> tail_of t pos ->
  parse_execute conv st1 (d_items d0) env (render post ++ t) = (Ok (p, args), st') ->
  forall o1, In o1 st1 -> let k := o_name o1 in
  d_get (update_defaults p dodo) k =
    if (assigned k (asgs_of pre) || assigned k (asgs_of post) ||
        (match env_str env o1 with Some _ => true | None => false end))%bool
    then d_get p k
    else match lookup_last dodo k with Some x => Some x | None => d_get p k end.
Proof. exact two_pass_doit_config. Qed.
Print Assumptions C16_two_pass_doit_config.

(* the whole chain for the params a command works with after DOIT_CONFIG was merged:
   command line (before or after the sub-command name; p holds which: C16_two_pass_precedence) >
   environment variable > DOIT_CONFIG > configuration (GLOBAL / command section) > declared default *)
Theorem C16_two_pass_final_precedence : forall conv lst st0 cfg st1 env pre d0 post t pos p args st' dodo,
  wf_spec lst = true -> Forall (item_ok lst) pre -> apply_asgs conv d_empty (asgs_of pre) = Ok d0 ->
  wf_spec st0 = true -> overwrite_defaults conv st0 cfg = (Ok tt, st1) ->
  Forall (item_ok st1) post -> tail_of t pos ->
  parse_execute conv st1 (d_items d0) env (render post ++ t) = (Ok (p, args), st') ->
  forall o1, In o1 st1 -> let k := o_name o1 in
  exists o0, find_opt st0 k = Some o0 /\ o1 = set_opt_default o0 (o_default o1) /\
    d_get (update_defaults p dodo) k =
      if (assigned k (asgs_of pre) || assigned k (asgs_of post))%bool then d_get p k
      else match env_str env o1 with
           | Some s => match str2type conv o1 (VStr s) with Ok x => Some x | _ => None end
           | None =>
               match lookup_last dodo k with
               | Some x => Some x
               | None => match lookup_last cfg k with
                         | Some v => match str2type conv o0 v with Ok x => Some x | _ => None end
                         | None => Some (o_default o0)
                         end
               end
           end.
Proof. exact two_pass_final_precedence. Qed.
Print Assumptions C16_two_pass_final_precedence.

(* purity of the two passes: neither the parser of the loader nor the parser of the command (the
   defaults of their options) changes, executing the same arguments again with the same command object
   gives the same; any specs, any arguments *)
Theorem C16_two_pass_pure : forall conv lst st ov env args,
  snd (parse_only conv lst d_empty args) = lst /\
  snd (parse_execute conv st ov env args) = st /\
  (let (r1, st1) := parse_execute conv st ov env args in parse_execute conv st1 ov env args = (r1, st1)).
Proof.
  intros. exact (conj (pre_parse_pure conv lst args) (conj (parse_execute_pure conv st ov env args)
                (parse_execute_twice conv st ov env args))).
Qed.
Print Assumptions C16_two_pass_pure.

(* DoitMain.run on `<pre> <rest>`: the command is chosen by the first argument pass 1 leaves (a
   sub-command name, else `run`) and executes the remaining arguments with the options of pass 1 as
   opt_vals.  plain_arg: not a NAME=VALUE variable (those process_args takes out; an empty argument is
   passed on, repair 16042b9); no command of that name (no `run`): exit code 3 *)
Theorem C16_main_run : forall conv cl env dodo pre t rest d0,
  wf_spec (mk_parser (c_loader cl)) = true -> Forall (item_ok (mk_parser (c_loader cl))) pre ->
  tail_of t rest -> Forall plain_arg rest -> not_special (render pre ++ t) ->
  apply_asgs conv d_empty (asgs_of pre) = Ok d0 ->
  main_run conv cl env dodo (render pre ++ t) =
  let (nm, in_args) := select_cmd (c_cmds cl) rest in
  match find_cmd (c_cmds cl) nm with
  | Some c => exec_cmd conv cl c (d_items d0) env dodo in_args
  | None => ParseError
  end.
Proof. exact main_run_render. Qed.
Print Assumptions C16_main_run.

Theorem C16_exec_cmd : forall conv cl c ov env dodo in_args r,
  exec_cmd conv cl c ov env dodo in_args = Ok r ->
  exists st1 p st', cmd_parser conv cl c = (Ok tt, st1) /\
    parse_execute conv st1 ov env in_args = (Ok (p, r_pos r), st') /\
    r_cmd r = cm_name c /\ r_setup r = p /\ r_final r = (if cm_task c then update_defaults p dodo else p).
Proof. exact exec_cmd_ok. Qed.
Print Assumptions C16_exec_cmd.

(* errors (repair a0cef0e: the command object is created inside the try block of DoitMain.run): an
   ill-typed value or an invalid choice in the configuration of the command (its parser cannot be
   built), and arguments its parser does not accept, make DoitMain.run return 3 (ParseError); executing
   a command never raises; the only exception that leaves DoitMain.run (Crash) comes from pass 1 (see
   C16_pre_list_option_refuted) *)
Theorem C16_errors_exit_code_3 : forall conv cl c ov env dodo in_args,
  (fst (cmd_parser conv cl c) <> Ok tt -> exec_cmd conv cl c ov env dodo in_args = ParseError) /\
  (forall st1, cmd_parser conv cl c = (Ok tt, st1) -> (forall r, fst (parse conv st1 env in_args) <> Ok r) ->
               exec_cmd conv cl c ov env dodo in_args = ParseError) /\
  exec_cmd conv cl c ov env dodo in_args <> Crash /\
  (forall args, main_run conv cl env dodo args = Crash -> pre_parse conv (mk_parser (c_loader cl)) args = Crash).
Proof.
  intros. exact (conj (exec_cmd_config_error conv cl c ov env dodo in_args)
                (conj (fun st1 => exec_cmd_parse_error conv cl c ov env dodo in_args st1)
                (conj (exec_cmd_no_crash conv cl c ov env dodo in_args) (fun args => main_run_crash conv cl env dodo args)))).
Qed.
Print Assumptions C16_errors_exit_code_3.

(* non-vacuity, on the options of doit itself: DodoTaskLoader.cmd_options (cmd_base.py 251-284),
   DoitCmdBase.base_options, two options of `list` and of `run` *)
Definition opt_dodo_file : cmd_option := mkopt 5%N (TStr) (VStr "dodo.py") "f" "file" "" [] (Some 104%N).   (* DOIT_FILE *)
Definition dodo_loader_options : list cmd_option := [
  (* dodoFile *) opt_dodo_file;
  (* cwdPath *) mkopt 6%N (TStr) (VNone) "d" "dir" "" [] None;
  (* seek_file *) mkopt 7%N (TBool) (VBool false) "k" "seek-file" "" [] (Some 106%N)   (* DOIT_SEEK_FILE *)
].
Definition ex_cli (cfg : list (string * list (name * value))) : cli :=
  mkcli [mkopt 1%N (TStr) (VStr ".doit.db") "" "db-file" "" [] None; mkopt 2%N (TStr) (VStr "dbm") "" "backend" "" [] None;
         mkopt 3%N (TStr) (VStr "json") "" "" "" [] None; mkopt 4%N (TStr) (VStr "md5") "" "check_file_uptodate" "" [] None]
        2%N ["dbm"; "json"; "sqlite3"] dodo_loader_options
        [mkcmd "run" true [mkopt 10%N (TOther 0) (VNone) "v" "verbosity" "" [] None; mkopt 9%N (TBool) (VBool false) "c" "continue" "no-continue" [] None];
         mkcmd "list" true [mkopt 20%N (TBool) (VBool false) "s" "status" "" [] None; mkopt 21%N (TBool) (VBool false) "q" "quiet" "" [] None]]
        cfg.
Definition setup_value (r : outcome run_obs) (k : name) : option value :=
  match r with Ok o => d_get (r_setup o) k | _ => None end.
Definition final_value (r : outcome run_obs) (k : name) : option value :=
  match r with Ok o => d_get (r_final o) k | _ => None end.
(* DOIT_FILE=x.py doit [-f a.py] list [-f b.py], doit.cfg: [GLOBAL] dodoFile = g.py  [list] dodoFile = l.py *)
Example C16_ex_two_pass :
  let cfg := [("GLOBAL", [(5%N, VStr "g.py")]); ("list", [(5%N, VStr "l.py")])] in
  let x := env_of [(104%N, "x.py")] in let noenv := env_of [] in
  setup_value (main_run conv_ref (ex_cli cfg) x [] ["-f"; "a.py"; "list"]) 5%N = Some (VStr "a.py") /\
  setup_value (main_run conv_ref (ex_cli cfg) x [] ["--file=a.py"; "list"; "-f"; "b.py"; "-s"]) 5%N = Some (VStr "a.py") /\
  setup_value (main_run conv_ref (ex_cli cfg) x [] ["-f"; "c.py"; "-fa.py"; "list"]) 5%N = Some (VStr "a.py") /\
  setup_value (main_run conv_ref (ex_cli cfg) x [] ["list"; "-f"; "b.py"]) 5%N = Some (VStr "b.py") /\
  setup_value (main_run conv_ref (ex_cli cfg) x [] ["list"]) 5%N = Some (VStr "x.py") /\
  setup_value (main_run conv_ref (ex_cli cfg) noenv [] ["list"]) 5%N = Some (VStr "l.py") /\
  setup_value (main_run conv_ref (ex_cli cfg) noenv [] ["run"]) 5%N = Some (VStr "g.py") /\
  setup_value (main_run conv_ref (ex_cli []) noenv [] ["-k"; "t1"; "-v"; "2"]) 5%N = Some (VStr "dodo.py") /\
  setup_value (main_run conv_ref (ex_cli []) noenv [] ["-k"; "t1"; "-v"; "2"]) 7%N = Some (VBool true).
Proof. vm_compute. repeat split; reflexivity. Qed.
Example C16_ex_two_pass_hyps :
  wf_spec (mk_parser dodo_loader_options) = true /\
  (exists st1, cmd_parser conv_ref (ex_cli []) (mkcmd "list" true [mkopt 20%N (TBool) (VBool false) "s" "status" "" [] None; mkopt 21%N (TBool) (VBool false) "q" "quiet" "" [] None])
               = (Ok tt, st1) /\ wf_spec st1 = true) /\
  Forall (item_ok (mk_parser dodo_loader_options)) [IShorts [] (Some (opt_dodo_file, false, "a.py"))] /\
  render [IShorts [] (Some (opt_dodo_file, false, "a.py"))] ++ ["list"; "-s"] = ["-f"; "a.py"; "list"; "-s"] /\
  (exists d0, apply_asgs conv_ref d_empty (asgs_of [IShorts [] (Some (opt_dodo_file, false, "a.py"))]) = Ok d0 /\
              d_items d0 = [(5%N, VStr "a.py")]) /\
  Forall plain_arg ["list"; "-s"; ""] /\ not_special ["-f"; "a.py"; "list"; "-s"].
Proof.
  split; [vm_compute; reflexivity|]. split; [eexists; split; vm_compute; reflexivity|].
  split.
  { apply Forall_cons; [|apply Forall_nil]. split; [intros o []|]. split; [vm_compute; auto|].
    split; [reflexivity|]. split; [vm_compute; discriminate|intros H; discriminate H]. }
  split; [vm_compute; reflexivity|].
  split; [eexists; split; vm_compute; reflexivity|]. split; [|vm_compute; reflexivity].
  apply Forall_cons; [right; reflexivity|]. apply Forall_cons; [left; reflexivity|].
  apply Forall_cons; [right; reflexivity|]. apply Forall_nil.
Qed.

(* a value written before the sub-command name beats DOIT_CONFIG too (repair 7ef8d1a), like one
   written after it *)
Example C16_cmdline_beats_doit_config :
  let dodo := [(5%N, VStr "z.py")] in
  setup_value (main_run conv_ref (ex_cli []) (env_of []) dodo ["-f"; "a.py"; "list"]) 5%N = Some (VStr "a.py") /\
  final_value (main_run conv_ref (ex_cli []) (env_of []) dodo ["-f"; "a.py"; "list"]) 5%N = Some (VStr "a.py") /\
  final_value (main_run conv_ref (ex_cli []) (env_of []) dodo ["list"; "-f"; "a.py"]) 5%N = Some (VStr "a.py") /\
  final_value (main_run conv_ref (ex_cli []) (env_of []) dodo ["list"]) 5%N = Some (VStr "z.py").
Proof. vm_compute. repeat split; reflexivity. Qed.

(* the code before the repair 7ef8d1a: `params.update(self.opt_vals)` does not go through __setitem__,
   the value written before the sub-command name was not marked non-default and an entry of
   DOIT_CONFIG for the same option replaced it after loader.setup (-f a.py given, DOIT_CONFIG
   {'dodoFile': 'z.py'}); next to it the current code on the same input *)
Theorem C16_pre_cmdline_doit_config_legacy_refuted : exists st ov env dodo p,
  fst (parse_execute_update conv_ref st ov env []) = Ok (p, []) /\ ov = [(5%N, VStr "a.py")] /\
  d_get p 5%N = Some (VStr "a.py") /\ d_get (update_defaults p dodo) 5%N = Some (VStr "z.py") /\
  exists p', fst (parse_execute conv_ref st ov env []) = Ok (p', []) /\
             d_get (update_defaults p' dodo) 5%N = Some (VStr "a.py").
Proof.
  exists dodo_loader_options, [(5%N, VStr "a.py")], (env_of []), [(5%N, VStr "z.py")]. eexists.
  split; [vm_compute; reflexivity|]. split; [reflexivity|]. split; [vm_compute; reflexivity|].
  split; [vm_compute; reflexivity|]. eexists. split; vm_compute; reflexivity.
Qed.
Print Assumptions C16_pre_cmdline_doit_config_legacy_refuted.

(* KNOWN finding pre-list-option-keyerror, not repaired: pass 1 starts from a dictionary without
   defaults: a LIST option of a loader written before the sub-command name has no list to extend
   (KeyError), the exception leaves DoitMain.run *)
Theorem C16_pre_list_option_refuted : exists cl argv,
  main_run conv_ref cl (env_of []) [] argv = Crash /\ argv = ["-m"; "v"; "list"] /\
  c_loader cl = [mkopt 30%N TList (VList []) "m" "mm" "" [] None].
Proof.
  exists (mkcli [] 2%N [] [mkopt 30%N TList (VList []) "m" "mm" "" [] None] [mkcmd "run" true []; mkcmd "list" true []] []),
         ["-m"; "v"; "list"].
  vm_compute. repeat split; reflexivity.
Qed.
Print Assumptions C16_pre_list_option_refuted.

(* on doit's own options: an ill-typed value in the configuration and on the command line: exit code
   3; an empty positional argument is handed to the command (repairs a0cef0e, 16042b9) *)
Example C16_ex_errors :
  main_run conv_ref (ex_cli [("GLOBAL", [(10%N, VStr "x")])]) (env_of []) [] ["run"] = ParseError /\
  main_run conv_ref (ex_cli [("run", [(10%N, VStr "x")])]) (env_of []) [] ["-f"; "a.py"; "t1"] = ParseError /\
  main_run conv_ref (ex_cli [("run", [(10%N, VStr "x")])]) (env_of []) [] ["list"] <> ParseError /\
  main_run conv_ref (ex_cli []) (env_of []) [] ["run"; "--verbosity=x"] = ParseError /\
  main_run conv_ref (ex_cli []) (env_of []) [] ["list"; "--zz"] = ParseError /\
  (exists r, main_run conv_ref (ex_cli []) (env_of []) [] ["list"; ""; "t"] = Ok r /\ r_pos r = [""; "t"]).
Proof.
  vm_compute. repeat split; try reflexivity; try discriminate. eexists. split; reflexivity.
Qed.

(* NOT the code: installing opt_vals as defaults of the parser of the command before parsing
   (parse_execute_as_defaults) instead of writing them over the result: the environment variable wins
   over the command line, and the parser object is changed *)
Theorem C16_opt_vals_as_defaults_refuted : exists st ov env argv d,
  fst (parse_execute_as_defaults conv_ref st ov env argv) = Ok (d, []) /\
  ov = [(5%N, VStr "a.py")] /\ d_get d 5%N = Some (VStr "x.py") /\
  snd (parse_execute_as_defaults conv_ref st ov env argv) <> st /\
  exists d', fst (parse_execute conv_ref st ov env argv) = Ok (d', []) /\ d_get d' 5%N = Some (VStr "a.py").
Proof.
  exists dodo_loader_options, [(5%N, VStr "a.py")], (env_of [(104%N, "x.py")]), []. eexists.
  split; [vm_compute; reflexivity|]. split; [reflexivity|]. split; [vm_compute; reflexivity|].
  split; [vm_compute; intros H; inversion H|]. eexists. split; vm_compute; reflexivity.
Qed.
Print Assumptions C16_opt_vals_as_defaults_refuted.

(* ---------------------------------------------------------------- non-vacuity *)
(* the options of `doit run` (doit/cmd_run.py + cmd_base.py, extracted from Run().get_options()) *)
Definition run_options : pstate := [
  (* dep_file *) mkopt 1%N (TStr) (VStr ".doit.db") "" "db-file" "" [] None;
  (* backend *) mkopt 2%N (TStr) (VStr "dbm") "" "backend" "" [] None;
  (* codec_cls *) mkopt 3%N (TStr) (VStr "json") "" "" "" [] None;
  (* check_file_uptodate *) mkopt 4%N (TStr) (VStr "md5") "" "check_file_uptodate" "" [] None;
  (* dodoFile *) mkopt 5%N (TStr) (VStr "dodo.py") "f" "file" "" [] (Some 104%N);
  (* cwdPath *) mkopt 6%N (TStr) (VNone) "d" "dir" "" [] None;
  (* seek_file *) mkopt 7%N (TBool) (VBool false) "k" "seek-file" "" [] (Some 106%N);
  (* always *) mkopt 8%N (TBool) (VBool false) "a" "always-execute" "" [] None;
  (* continue *) mkopt 9%N (TBool) (VBool false) "c" "continue" "no-continue" [] None;
  (* verbosity *) mkopt 10%N (TOther 0) (VNone) "v" "verbosity" "" [] None;
  (* reporter *) mkopt 11%N (TStr) (VStr "console") "r" "reporter" "" [] None;
  (* outfile *) mkopt 12%N (TStr) VNone (* sys.stdout *) "o" "output-file" "" [] None;
  (* num_process *) mkopt 13%N (TOther 0) (VInt (0)%Z) "n" "process" "" [] None;
  (* par_type *) mkopt 14%N (TStr) (VStr "process") "P" "parallel-type" "" [] None;
  (* pdb *) mkopt 15%N (TBool) (VNone) "" "pdb" "" [] None;
  (* single *) mkopt 16%N (TBool) (VBool false) "s" "single" "" [] None;
  (* auto_delayed_regex *) mkopt 17%N (TBool) (VBool false) "" "auto-delayed-regex" "" [] None;
  (* failure_verbosity *) mkopt 18%N (TOther 0) (VInt (0)%Z) "" "failure-verbosity" "" [] None
].
Example C16_run_options_wf : wf_spec run_options = true.
Proof. vm_compute. reflexivity. Qed.

Definition ex_o (k : N) : cmd_option := nth (N.to_nat k - 1)%nat run_options (mkopt 0%N TStr VNone "" "" "" [] None).
(* doit run -ca -v2 --no-continue --reporter=json -n 4 --db-file x.db -- t1 -t2 *)
Definition ex_items : list item :=
  [IShorts [ex_o 9%N; ex_o 8%N] None; IShorts [] (Some (ex_o 10%N, true, "2")); IInv (ex_o 9%N);
   ILongVal (ex_o 11%N) true "json"; IShorts [] (Some (ex_o 13%N, false, "4")); ILongVal (ex_o 1%N) false "x.db"].
Example C16_ex_render :
  render ex_items ++ ["--"; "t1"; "-t2"] =
  ["-ca"; "-v2"; "--no-continue"; "--reporter=json"; "-n"; "4"; "--db-file"; "x.db"; "--"; "t1"; "-t2"].
Proof. vm_compute. reflexivity. Qed.
Example C16_ex_items_ok : Forall (item_ok run_options) ex_items /\ tail_of ["--"; "t1"; "-t2"] ["t1"; "-t2"].
Proof.
  split; [|exact (tail_dashdash ["t1"; "-t2"])].
  assert (I : forall k, (1 <= k <= 18)%N -> In (ex_o k) run_options).
  { intros k Hk. assert (Hn : (N.to_nat k - 1 < List.length run_options)%nat) by (simpl; lia).
    exact (nth_In run_options _ Hn). }
  repeat (apply Forall_cons); [..|apply Forall_nil]; unfold item_ok.
  - split; [|discriminate].
    intros o [<-|[<-|[]]]; (split; [apply I; lia|split; [reflexivity|vm_compute; discriminate]]).
  - split; [intros o []|]. split; [apply I; lia|].
    split; [reflexivity|split; [vm_compute; discriminate|intros _; discriminate]].
  - split; [apply I; lia|vm_compute; discriminate].
  - split; [apply I; lia|split; [reflexivity|vm_compute; discriminate]].
  - split; [intros o []|]. split; [apply I; lia|].
    split; [reflexivity|split; [vm_compute; discriminate|intros H; discriminate H]].
  - split; [apply I; lia|split; [reflexivity|vm_compute; discriminate]].
Qed.
(* hypotheses of C16_roundtrip_values / C16_precedence hold together: the parse succeeds *)
Example C16_ex_parse :
  exists d, parse conv_ref run_options (env_of [(104%N, "other.py")]) (render ex_items ++ ["--"; "t1"; "-t2"])
            = (Ok (d, ["t1"; "-t2"]), run_options) /\
            d_get d 9%N = Some (VBool false) /\ d_get d 8%N = Some (VBool true) /\ d_get d 10%N = Some (VInt 2%Z) /\
            d_get d 13%N = Some (VInt 4%Z) /\ d_get d 11%N = Some (VStr "json") /\ d_get d 5%N = Some (VStr "other.py").
Proof. eexists. vm_compute. repeat split; reflexivity. Qed.
Example C16_ex_overwrite : exists st1, overwrite_defaults conv_ref run_options [(10%N, VStr "1"); (9%N, VStr "yes")] = (Ok tt, st1).
Proof. eexists. vm_compute. reflexivity. Qed.
(* a rejected token of each kind exists for this spec *)
Example C16_ex_bad_tokens :
  bad_token run_options "-z" [] /\ bad_token run_options "--zeta=1" ["x"] /\ bad_token run_options "--p" [] /\
  bad_token run_options "-v" [] /\ bad_token run_options "--verbosity" [] /\ bad_token run_options "--continue=1" ["t"].
Proof.
  repeat split.
  - apply (bad_unknown_short run_options "z"%char "" []). discriminate. vm_compute. intuition discriminate.
  - apply (bad_unknown_long run_options "zeta=1" ["x"]). discriminate.
    intros e He. vm_compute in He. vm_compute. intuition (subst; reflexivity).
  - apply (bad_ambiguous run_options "p" "process=" "parallel-type=" ["pdb"] []); try discriminate; try reflexivity;
      vm_compute; intuition discriminate.
  - apply (bad_missing_short run_options (ex_o 10%N)); try reflexivity; try discriminate. vm_compute. auto 20.
  - apply (bad_missing_long run_options (ex_o 10%N)); try reflexivity; try discriminate. vm_compute. auto 20.
  - apply (bad_flag_arg run_options (ex_o 9%N) "1" ["t"]); try reflexivity; try discriminate. vm_compute. auto 20.
Qed.

(* ---------------------------------------------------------------- several commands, one config object *)
(* One process, one DoitMain, one config object handed to every command it builds (run called twice through
   the API, `doit help <cmd>`, tabcompletion): a sequence of steps, each building a command (SBuild) or being
   a whole DoitMain.run (SRun); main_seq threads the config object through them.
   HONEST NOTE: for the code (`init_pure`: Command.__init__ builds config_vals in a fresh dict) these
   statements are reflexivity-level -- the model takes the configuration as a value, so purity holds by
   construction and the proofs only unfold definitions (Proofs/CmdParseS.v main_seq_pure).  That the real
   Command.__init__ / DoitMain.run leave the config object alone is established by the correspondence
   check, not here: harness/c16.py part seq compares what every step of a sequence observes with
   `seq_scenario` (= main_seq init_pure) and the config object with a deep copy taken before the
   sequence.  What the statements add is the precise reading of "pure" for sequences, and the contrast
   with the variant that is NOT the code (`init_shared`, refuted below). *)
(* every step of a sequence observes what it observes alone on the original configuration *)
Theorem C16_sequence_pure : forall conv cl env dodo steps,
  main_seq conv init_pure cl env dodo steps = map (step_run conv cl env dodo) steps.
Proof. exact main_seq_pure. Qed.
Print Assumptions C16_sequence_pure.

(* ... and the config object at the end of the sequence is the one it started with *)
Theorem C16_config_unchanged : forall conv cl steps, seq_config conv init_pure cl steps = c_config cl.
Proof. exact seq_config_pure. Qed.
Print Assumptions C16_config_unchanged.

(* whatever was built or run before on the same DoitMain, `doit y` gets the result it gets alone *)
Theorem C16_commands_independent : forall conv cl env dodo before y,
  nth_error (main_seq conv init_pure cl env dodo (before ++ [SRun y])) (length before)
  = Some (ORun (main_run conv cl env dodo y)).
Proof. exact commands_independent. Qed.
Print Assumptions C16_commands_independent.

(* the same command line twice on one DoitMain: twice the result of once *)
Theorem C16_main_run_twice : forall conv cl env dodo a,
  main_seq conv init_pure cl env dodo [SRun a; SRun a] = [ORun (main_run conv cl env dodo a); ORun (main_run conv cl env dodo a)].
Proof. exact main_run_twice. Qed.
Print Assumptions C16_main_run_twice.

(* NOT the code: config_vals aliasing the GLOBAL section of the shared object (`self.config.get('GLOBAL', {})`
   then `.update(self.config[self.name])`).  doit.cfg: [GLOBAL] dodoFile = g.py  [list] dodoFile = l.py;
   `doit list` then `doit run` on one DoitMain: `run`, which has no section, gets l.py (alone: g.py), the
   GLOBAL section of the config object now says l.py; merely BUILDING `list` (help, tabcompletion) does the same *)
Theorem C16_shared_global_refuted : exists cl env dodo x y,
  nth_error (main_seq conv_ref init_shared cl env dodo [SRun x; SRun y]) 1 <> Some (ORun (main_run conv_ref cl env dodo y)) /\
  setup_value (main_run conv_ref cl env dodo y) 5%N = Some (VStr "g.py") /\
  (exists r, nth_error (main_seq conv_ref init_shared cl env dodo [SRun x; SRun y]) 1 = Some (ORun r) /\ setup_value r 5%N = Some (VStr "l.py")) /\
  (exists r, nth_error (main_seq conv_ref init_shared cl env dodo [SBuild "list"; SRun y]) 1 = Some (ORun r) /\ setup_value r 5%N = Some (VStr "l.py")) /\
  seq_config conv_ref init_shared cl [SRun x] <> c_config cl.
Proof.
  exists (ex_cli [("GLOBAL", [(5%N, VStr "g.py")]); ("list", [(5%N, VStr "l.py")])]), (env_of []), [], ["list"], ["run"].
  split; [|split; [|split; [|split]]].
  - intros H. apply (f_equal (fun o => match o with Some (ORun r) => setup_value r 5%N | _ => None end)) in H.
    vm_compute in H. discriminate.
  - vm_compute. reflexivity.
  - eexists. split; vm_compute; reflexivity.
  - eexists. split; vm_compute; reflexivity.
  - vm_compute. intros H. discriminate.
Qed.
Print Assumptions C16_shared_global_refuted.

(* non-vacuity / the same inputs on the code: list then run, run then list, build list then run *)
Example C16_ex_sequence :
  let cl := ex_cli [("GLOBAL", [(5%N, VStr "g.py")]); ("list", [(5%N, VStr "l.py")])] in
  (exists r1 r2, main_seq conv_ref init_pure cl (env_of []) [] [SRun ["list"]; SRun ["run"]] = [ORun (Ok r1); ORun (Ok r2)] /\
                 d_get (r_setup r1) 5%N = Some (VStr "l.py") /\ d_get (r_setup r2) 5%N = Some (VStr "g.py")) /\
  (exists st r2, main_seq conv_ref init_pure cl (env_of []) [] [SBuild "list"; SRun ["run"]] = [OBuild (Ok tt, st); ORun (Ok r2)] /\
                 d_get (r_setup r2) 5%N = Some (VStr "g.py")) /\
  seq_config conv_ref init_pure cl [SRun ["list"]; SBuild "run"; SRun ["run"]] = c_config cl.
Proof. vm_compute. split; [|split]; [do 2 eexists|do 2 eexists|]; repeat split; reflexivity. Qed.

(* ---------------------------------------------------------------- the code before the repair b063765 *)
(* `params[name].append(val)` appended to the option's own default list: the parser object changed
   and a second parse of the same command line returned something else (defect F4) *)
Definition lst_opt : cmd_option := mkopt 1%N TList (VList ["d"]) "l" "list" "" [] None.
Theorem C16_pure_list_legacy_refuted : exists st env argv,
  snd (parse_gen conv_ref true st env argv) <> st /\
  (let (r1, st1) := parse_gen conv_ref true st env argv in fst (parse_gen conv_ref true st1 env argv) <> r1).
Proof.
  exists [lst_opt], (env_of []), ["-l"; "a"]. vm_compute. split; intros H; inversion H.
Qed.
Print Assumptions C16_pure_list_legacy_refuted.

(* ... and, `append` not marking the key non-default, DOIT_CONFIG overrode a list given on the
   command line *)
Theorem C16_precedence_list_legacy_refuted : exists st env argv dodo d args st',
  parse_gen conv_ref true st env argv = (Ok (d, args), st') /\
  d_get d 1%N = Some (VList ["d"; "a"]) /\
  d_get (update_defaults d dodo) 1%N = Some (VList ["z"]).
Proof.
  exists [lst_opt], (env_of []), ["-l"; "a"], [(1%N, VList ["z"])]. do 3 eexists. vm_compute. repeat split; reflexivity.
Qed.
Print Assumptions C16_precedence_list_legacy_refuted.

(* the same inputs on the current code *)
Example C16_list_current :
  exists d, parse conv_ref [lst_opt] (env_of []) ["-l"; "a"] = (Ok (d, []), [lst_opt]) /\
            d_get (update_defaults d [(1%N, VList ["z"])]) 1%N = Some (VList ["d"; "a"]).
Proof. eexists. vm_compute. split; reflexivity. Qed.

(* the code before the repair 424a4bf: an item outside the choices of a list option was accepted on
   the command line, and validate_choice crashed (TypeError) on the list coming from the environment
   or the configuration; next to them the current code on the same inputs *)
Definition lstc_opt : cmd_option := mkopt 1%N TList (VList []) "l" "list" "" ["a"; "b"] None.
Theorem C16_list_choices_legacy_refuted :
  (exists st env argv d, fst (parse_gen conv_ref true st env argv) = Ok d) /\
  validate_choice_legacy lstc_opt (VList ["a"]) = Crash.
Proof. split; [exists [lstc_opt], (env_of []), ["-l"; "zzz"]; eexists; vm_compute; reflexivity|reflexivity]. Qed.
Print Assumptions C16_list_choices_legacy_refuted.
Example C16_list_choices_current :
  parse conv_ref [lstc_opt] (env_of []) ["-l"; "zzz"] = (ParseError, [lstc_opt]) /\
  str2type conv_ref lstc_opt (VStr "a,zzz") = ParseError /\ str2type conv_ref lstc_opt (VStr "a, b") = Ok (VList ["a"; "b"]).
Proof. vm_compute. repeat split; reflexivity. Qed.
