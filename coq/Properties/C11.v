(* C11 -- Setup-tasks are lazy; teardowns run once, in reverse order.
   Statements only.  Proofs: Proofs/RunnerTr.v (teardown discipline of the serial runner),
   Proofs/RunnerP.v (a task starts only after its setup-tasks finished: that is C01 on the setup edge). *)
From DoitV Require Import Base Dispatch Runner Parallel DispatchP DispatchInv RunnerP RunnerTr ParallelP ParallelTdP.
Open Scope N_scope.

(* serial runner: however the loop ended (all done, stopped by a failure, cycle error, interrupt),
   after the DB was closed the teardown reports are exactly the tasks whose actions were started and
   that have teardown actions, once each, in reverse order of execution; nothing else follows
   except the error marker; no teardown happens before *)
Theorem C11_teardown_serial :
  forall tasks wake_rank calc_rank continue_ always fuel selection,
  let res := run_serial tasks wake_rank calc_rank continue_ always fuel selection in
  snd res <> 99 ->
  exists body marker,
    forallb (fun e => negb (is_fin_ev e)) body = true /\ forallb (fun e => negb (is_exec e)) marker = true /\
    fst res = body ++ EClose :: map ETeardown (rev (filter (has_td tasks) (execs body))) ++ marker.
Proof.
  intros tasks wake_rank calc_rank continue_ always fuel selection res Hc.
  destruct (serial_shape tasks wake_rank calc_rank continue_ always fuel selection) as (body & s & _ & Hn & [(_ & _ & E)|(Hs & E & _)]).
  - contradiction.
  - exists body, (stop_marker s). split; auto. split; auto. destruct s; reflexivity.
Qed.
Print Assumptions C11_teardown_serial.

(* a task with setup-tasks starts only after all of them finished (C01 restricted to setup) *)
Theorem C11_setup_before_task :
  forall tasks wake_rank calc_rank continue_ always fuel selection pre t post s,
    fst (run_serial tasks wake_rank calc_rank continue_ always fuel selection) = pre ++ EExecute t :: post ->
    In s (t_setup (get_task tasks t)) -> finished_in pre s.
Proof.
  intros tasks wake_rank calc_rank continue_ always fuel selection pre t post s E Hs.
  apply (ordered_split tasks _ (serial_dep_order tasks wake_rank calc_rank continue_ always fuel selection) pre t post E s).
  unfold static_deps. rewrite !in_app_iff. auto.
Qed.
Print Assumptions C11_setup_before_task.

(* MThreadRunner (thread flavour of the parallel model), every worker count, EVERY schedule: the reporter /
   dep_manager events of the run are  body ++ [DB closed] ++ teardown reports ++ [error marker]  with the
   teardown reports = exactly the tasks whose actions were started by any worker and that have teardown
   actions, once each, in reverse order of execution; no teardown or close inside body *)
Theorem C11_teardown_thread :
  forall tasks wake_rank calc_rank continue_ always fuel nprocs sched selection,
  exists body marker,
    forallb (fun e => negb (is_fin_ev e)) body = true /\ forallb (fun e => negb (is_exec e)) marker = true /\
    proj (fst (run_parallel tasks wake_rank calc_rank continue_ always false fuel nprocs sched selection))
      = body ++ EClose :: map ETeardown (rev (filter (has_td tasks) (execs body))) ++ marker.
Proof. exact thread_teardown. Qed.
Print Assumptions C11_teardown_thread.

(* ... and under every schedule of both parallel flavours a task starts only after its setup-tasks were
   reported successful or up-to-date *)
Theorem C11_setup_before_task_parallel :
  forall tasks wake_rank calc_rank continue_ always proc fuel nprocs sched selection pre t w post s,
    fst (run_parallel tasks wake_rank calc_rank continue_ always proc fuel nprocs sched selection) = pre ++ PStart t w :: post ->
    In s (t_setup (get_task tasks t)) -> pgood pre s.
Proof.
  intros tasks wake_rank calc_rank continue_ always proc fuel nprocs sched selection pre t w post s E Hs.
  apply (pcordered_split tasks _ (parallel_contained tasks wake_rank calc_rank continue_ always proc fuel nprocs sched selection) pre t w post E s).
  apply ed_static. unfold static_deps. rewrite !in_app_iff. auto.
Qed.
Print Assumptions C11_setup_before_task_parallel.

(* NOT PROVED: the per-worker teardown discipline of the process flavour (each worker process runs the
   teardowns of the tasks IT executed when it receives the terminating job) and the laziness of
   setup-tasks (a setup-task is processed only on behalf of a task that is going to run) -- correspondence
   + oracle. *)

Definition ex11 (n : name) : option task :=
  match n with
  | 0 => Some (Build_task [1] [2] [] true false CkRun false OOk [] [] [])
  | 1 => Some (Build_task [] [] [] true false CkRun false OFail [] [] [])
  | 2 => Some (Build_task [] [] [] true false CkRun false OOk [] [] [])
  | _ => None end.
Example C11_nonvacuous :
  fst (run_serial ex11 (fun _ _ => 0) (fun _ => 0) true false 100 [0; 2])
  = [EGetStatus 1; EExecute 1; ERemove 1; EFailure 1 0; EGetStatus 0; ERemove 0; EFailure 0 2;
     EGetStatus 2; EExecute 2; ESave 2; ESuccess 2; EClose; ETeardown 2; ETeardown 1].
Proof. vm_compute. reflexivity. Qed.
