(* C11 -- Setup-tasks are lazy; teardowns run once, in reverse order.
   Statements only.  Proofs: Proofs/RunnerTr.v (teardown discipline of the serial runner),
   Proofs/RunnerP.v (a task starts only after its setup-tasks finished: that is C01 on the setup edge). *)
From DoitV Require Import Base Dispatch Runner DispatchP DispatchInv RunnerP RunnerTr.
Open Scope N_scope.

(* serial runner: however the loop ended (all done, stopped by a failure, cycle error, interrupt),
   after the DB was closed the teardown reports are exactly the tasks whose actions were started and
   that have teardown actions, once each, in reverse order of execution; nothing else follows
   except the error marker; no teardown happens before *)
Theorem C11_teardown_serial :
  forall tasks wake_rank calc_rank continue_ always fuel selection,
  let res := run_serial tasks wake_rank calc_rank continue_ always fuel selection in
  snd res <> 99 ->
  exists body marker,
    forallb (fun e => negb (is_fin_ev e)) body = true /\ forallb (fun e => negb (is_exec e)) marker = true /\
    fst res = body ++ EClose :: map ETeardown (rev (filter (has_td tasks) (execs body))) ++ marker.
Proof.
  intros tasks wake_rank calc_rank continue_ always fuel selection res Hc.
  destruct (serial_shape tasks wake_rank calc_rank continue_ always fuel selection) as (body & s & _ & Hn & [(_ & _ & E)|(Hs & E & _)]).
  - contradiction.
  - exists body, (stop_marker s). split; auto. split; auto. destruct s; reflexivity.
Qed.
Print Assumptions C11_teardown_serial.

(* a task with setup-tasks starts only after all of them finished (C01 restricted to setup) *)
Theorem C11_setup_before_task :
  forall tasks wake_rank calc_rank continue_ always fuel selection pre t post s,
    fst (run_serial tasks wake_rank calc_rank continue_ always fuel selection) = pre ++ EExecute t :: post ->
    In s (t_setup (get_task tasks t)) -> finished_in pre s.
Proof.
  intros tasks wake_rank calc_rank continue_ always fuel selection pre t post s E Hs.
  apply (ordered_split tasks _ (serial_dep_order tasks wake_rank calc_rank continue_ always fuel selection) pre t post E s).
  unfold static_deps. rewrite !in_app_iff. auto.
Qed.
Print Assumptions C11_setup_before_task.

Definition ex11 (n : name) : option task :=
  match n with
  | 0 => Some (Build_task [1] [2] [] true false CkRun false OOk [] [] [])
  | 1 => Some (Build_task [] [] [] true false CkRun false OFail [] [] [])
  | 2 => Some (Build_task [] [] [] true false CkRun false OOk [] [] [])
  | _ => None end.
Example C11_nonvacuous :
  fst (run_serial ex11 (fun _ _ => 0) (fun _ => 0) true false 100 [0; 2])
  = [EGetStatus 1; EExecute 1; ERemove 1; EFailure 1 0; EGetStatus 0; ERemove 0; EFailure 0 2;
     EGetStatus 2; EExecute 2; ESave 2; ESuccess 2; EClose; ETeardown 2; ETeardown 1].
Proof. vm_compute. reflexivity. Qed.
