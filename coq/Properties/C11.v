(* C11 -- Setup-tasks are lazy; teardowns run once, in reverse order.
   Statements only.  Proofs: Proofs/RunnerTr.v (teardown discipline of the serial runner),
   Proofs/RunnerP.v (a task starts only after its setup-tasks finished: that is C01 on the setup edge). *)
From DoitV Require Import Base Dispatch Runner Parallel DispatchP DispatchInv RunnerP RunnerTr ParallelP ParallelTdP.
From DoitV Require Import LazyP LazyParP ParallelTdProcP.
From DoitV Require Import Teardown TeardownP.
Open Scope N_scope.

(* serial runner: however the loop ended (all done, stopped by a failure, cycle error, interrupt),
   after the DB was closed the teardown reports are exactly the tasks whose actions were started and
   that have teardown actions, once each, in reverse order of execution; nothing else follows
   except the error marker; no teardown happens before *)
Theorem C11_teardown_serial :
  forall tasks wake_rank calc_rank continue_ always fuel selection,
  let res := run_serial tasks wake_rank calc_rank continue_ always fuel selection in
  snd res <> 99 ->
  exists body marker,
    forallb (fun e => negb (is_fin_ev e)) body = true /\ forallb (fun e => negb (is_exec e)) marker = true /\
    fst res = body ++ EClose :: map ETeardown (rev (filter (has_td tasks) (execs body))) ++ marker.
Proof.
  intros tasks wake_rank calc_rank continue_ always fuel selection res Hc.
  destruct (serial_shape tasks wake_rank calc_rank continue_ always fuel selection) as (body & s & _ & Hn & [(_ & _ & E)|(Hs & E & _)]).
  - contradiction.
  - exists body, (stop_marker s). split; auto. split; auto. destruct s; reflexivity.
Qed.
Print Assumptions C11_teardown_serial.

(* a task with setup-tasks starts only after all of them finished (C01 restricted to setup) *)
Theorem C11_setup_before_task :
  forall tasks wake_rank calc_rank continue_ always fuel selection pre t post s,
    fst (run_serial tasks wake_rank calc_rank continue_ always fuel selection) = pre ++ EExecute t :: post ->
    In s (t_setup (get_task tasks t)) -> finished_in pre s.
Proof.
  intros tasks wake_rank calc_rank continue_ always fuel selection pre t post s E Hs.
  apply (ordered_split tasks _ (serial_dep_order tasks wake_rank calc_rank continue_ always fuel selection) pre t post E s).
  unfold static_deps. rewrite !in_app_iff. auto.
Qed.
Print Assumptions C11_setup_before_task.

(* MThreadRunner (thread flavour of the parallel model), every worker count, EVERY schedule: the reporter /
   dep_manager events of the run are  body ++ [DB closed] ++ teardown reports ++ [error marker]  with the
   teardown reports = exactly the tasks whose actions were started by any worker and that have teardown
   actions, once each, in reverse order of execution; no teardown or close inside body *)
Theorem C11_teardown_thread :
  forall tasks wake_rank calc_rank continue_ always fuel nprocs sched selection,
  exists body marker,
    forallb (fun e => negb (is_fin_ev e)) body = true /\ forallb (fun e => negb (is_exec e)) marker = true /\
    proj (fst (run_parallel tasks wake_rank calc_rank continue_ always false fuel nprocs sched selection))
      = body ++ EClose :: map ETeardown (rev (filter (has_td tasks) (execs body))) ++ marker.
Proof. exact thread_teardown. Qed.
Print Assumptions C11_teardown_thread.

(* ... and under every schedule of both parallel flavours a task starts only after its setup-tasks were
   reported successful or up-to-date *)
Theorem C11_setup_before_task_parallel :
  forall tasks wake_rank calc_rank continue_ always proc fuel nprocs sched selection pre t w post s,
    fst (run_parallel tasks wake_rank calc_rank continue_ always proc fuel nprocs sched selection) = pre ++ PStart t w :: post ->
    In s (t_setup (get_task tasks t)) -> pgood pre s.
Proof.
  intros tasks wake_rank calc_rank continue_ always proc fuel nprocs sched selection pre t w post s E Hs.
  apply (pcordered_split tasks _ (parallel_contained tasks wake_rank calc_rank continue_ always proc fuel nprocs sched selection) pre t w post E s).
  apply ed_static. unfold static_deps. rewrite !in_app_iff. auto.
Qed.
Print Assumptions C11_setup_before_task_parallel.

(* The per-worker teardown discipline of the process flavour and the laziness of setup-tasks are proved at the
   end of this file (added later).  That on the normal path every worker does receive its terminating job, so
   that every started task with teardown actions IS torn down in its worker, is proved further down
   (C11_teardown_process_complete). *)

Definition ex11 (n : name) : option task :=
  match n with
  | 0 => Some (Build_task [1] [2] [] true false CkRun false OOk [] [] [])
  | 1 => Some (Build_task [] [] [] true false CkRun false OFail [] [] [])
  | 2 => Some (Build_task [] [] [] true false CkRun false OOk [] [] [])
  | _ => None end.
Example C11_nonvacuous :
  fst (run_serial ex11 (fun _ _ => 0) (fun _ => 0) true false 100 [0; 2])
  = [EGetStatus 1; EExecute 1; ERemove 1; EFailure 1 0; EGetStatus 0; ERemove 0; EFailure 0 2;
     EGetStatus 2; EExecute 2; ESave 2; ESuccess 2; EClose; ETeardown 2; ETeardown 1].
Proof. vm_compute. reflexivity. Qed.

(* ===== laziness of setup-tasks (Proofs/LazyP.v, LazyParP.v) and the per-worker teardown of the process flavour
   (Proofs/ParallelTdProcP.v), by sub-agent.  `wanted selection pre s`: there is a chain from a selected task to s made
   only of tasks WITHOUT a final report so far, through task_dep / calc_dep edges (declared or returned by calc_dep
   tasks) and setup edges r -> x of tasks r that were already status-checked (checked without a report = the verdict
   was `run`).  Not covered: that r really executes afterwards -- another setup-task of r may fail, then r is reported
   unmet and s has run for nothing (KNOWN finding c11:setup-task-for-doomed-requirer, Example C11_lazy_doomed_requirer). ===== *)
(* ---- laziness of setup-tasks ---- *)
Theorem C11_setup_lazy :
  forall tasks wake_rank calc_rank continue_ always fuel selection pre s post,
    fst (run_serial tasks wake_rank calc_rank continue_ always fuel selection) = pre ++ EExecute s :: post ->
    wanted tasks selection pre s.
Proof. intros tasks wake_rank calc_rank continue_ always fuel selection. exact (serial_lazy tasks wake_rank calc_rank continue_ always selection fuel). Qed.
Print Assumptions C11_setup_lazy.

Theorem C11_setup_only_for_running_task :
  forall tasks wake_rank calc_rank continue_ always fuel selection pre s post,
    fst (run_serial tasks wake_rank calc_rank continue_ always fuel selection) = pre ++ EExecute s :: post ->
    ~ In s selection -> (forall p, ~ hdep tasks p s) ->
    exists r, In s (t_setup (get_task tasks r)) /\ In (EGetStatus r) pre /\ ~ finished_in pre r /\
              wanted tasks selection pre r.
Proof. intros tasks wake_rank calc_rank continue_ always fuel selection. exact (serial_lazy_setup_only tasks wake_rank calc_rank continue_ always selection fuel). Qed.
Print Assumptions C11_setup_only_for_running_task.


Theorem C11_setup_never_for_uptodate_task :
  forall tasks wake_rank calc_rank continue_ always fuel selection pre s post,
    let tr := fst (run_serial tasks wake_rank calc_rank continue_ always fuel selection) in
    tr = pre ++ EExecute s :: post ->
    ~ In s selection -> (forall p, ~ hdep tasks p s) ->
    exists r, In s (t_setup (get_task tasks r)) /\ In (EGetStatus r) pre /\ ~ finished_in pre r /\
              ~ In (ESkipUpToDate r) tr.
Proof. intros tasks wake_rank calc_rank continue_ always fuel selection. exact (serial_lazy_not_uptodate tasks wake_rank calc_rank continue_ always selection fuel). Qed.
Print Assumptions C11_setup_never_for_uptodate_task.

Theorem C11_setup_lazy_parallel :
  forall tasks wake_rank calc_rank continue_ always proc fuel nprocs sched selection pre s w post,
    fst (run_parallel tasks wake_rank calc_rank continue_ always proc fuel nprocs sched selection) = pre ++ PStart s w :: post ->
    wanted tasks selection (proj pre) s.
Proof. intros tasks wake_rank calc_rank continue_ always proc fuel nprocs sched selection. exact (parallel_lazy tasks wake_rank calc_rank continue_ always proc selection fuel nprocs sched). Qed.
Print Assumptions C11_setup_lazy_parallel.

Theorem C11_setup_only_for_running_task_parallel :
  forall tasks wake_rank calc_rank continue_ always proc fuel nprocs sched selection pre s w post,
    fst (run_parallel tasks wake_rank calc_rank continue_ always proc fuel nprocs sched selection) = pre ++ PStart s w :: post ->
    ~ In s selection -> (forall p, ~ hdep tasks p s) ->
    exists r, In s (t_setup (get_task tasks r)) /\ In (EGetStatus r) (proj pre) /\ ~ finished_in (proj pre) r /\
              wanted tasks selection (proj pre) r.
Proof. intros tasks wake_rank calc_rank continue_ always proc fuel nprocs sched selection. exact (parallel_lazy_setup_only tasks wake_rank calc_rank continue_ always proc selection fuel nprocs sched). Qed.
Print Assumptions C11_setup_only_for_running_task_parallel.


Theorem C11_setup_never_for_uptodate_task_parallel :
  forall tasks wake_rank calc_rank continue_ always proc fuel nprocs sched selection pre s w post,
    let log := fst (run_parallel tasks wake_rank calc_rank continue_ always proc fuel nprocs sched selection) in
    log = pre ++ PStart s w :: post ->
    ~ In s selection -> (forall p, ~ hdep tasks p s) ->
    exists r, In s (t_setup (get_task tasks r)) /\ In (EGetStatus r) (proj pre) /\ ~ finished_in (proj pre) r /\
              ~ In (ESkipUpToDate r) (proj log).
Proof. intros tasks wake_rank calc_rank continue_ always proc fuel nprocs sched selection. exact (parallel_lazy_not_uptodate tasks wake_rank calc_rank continue_ always proc selection fuel nprocs sched). Qed.
Print Assumptions C11_setup_never_for_uptodate_task_parallel.


(* ... not even status-checked (the status check runs the task's uptodate code) *)
Theorem C11_setup_lazy_check :
  forall tasks wake_rank calc_rank continue_ always fuel selection pre s post,
    fst (run_serial tasks wake_rank calc_rank continue_ always fuel selection) = pre ++ EGetStatus s :: post ->
    wanted tasks selection pre s.
Proof. intros tasks wake_rank calc_rank continue_ always fuel selection. exact (serial_lazy_check tasks wake_rank calc_rank continue_ always selection fuel). Qed.
Print Assumptions C11_setup_lazy_check.

Theorem C11_setup_lazy_check_parallel :
  forall tasks wake_rank calc_rank continue_ always proc fuel nprocs sched selection pre s post,
    proj (fst (run_parallel tasks wake_rank calc_rank continue_ always proc fuel nprocs sched selection)) = pre ++ EGetStatus s :: post ->
    wanted tasks selection pre s.
Proof. intros tasks wake_rank calc_rank continue_ always proc fuel nprocs sched selection. exact (parallel_lazy_check tasks wake_rank calc_rank continue_ always proc selection fuel nprocs sched). Qed.
Print Assumptions C11_setup_lazy_check_parallel.

(* non-vacuity: task 0 requires setup-task 1 (neither selected nor a task_dep / calc_dep of anything) *)
Definition ex11l (ck : check) (ign : bool) (deps : list name) (n : name) : option task :=
  if n =? 0 then Some (Build_task deps [1] [] false ign ck false OOk [] [] [])
  else if n =? 1 then Some (Build_task [] [] [] true false CkRun false OOk [] [] [])
  else if n =? 2 then Some (Build_task [] [] [] false false CkRun false OFail [] [] [])
  else None.
Lemma ex11l_nohdep ck ign deps : ~ In 1 deps -> forall p, ~ hdep (ex11l ck ign deps) p 1.
Proof.
  intros Hd p [H|(c & Hc & _)].
  - unfold get_task, ex11l in H. destruct (p =? 0); [simpl in H; rewrite app_nil_r in H; auto|].
    destruct (p =? 1); [simpl in H; auto|]. destruct (p =? 2); simpl in H; auto.
  - induction Hc as [c Hc|c c' _ IH _]; auto.
    unfold get_task, ex11l in Hc. destruct (p =? 0); [simpl in Hc; auto|].
    destruct (p =? 1); [simpl in Hc; auto|]. destruct (p =? 2); simpl in Hc; auto.
Qed.
(* 0 is going to run: its setup-task 1 is executed, after 0's status check and before any report about 0 *)
Example C11_lazy_nonvacuous :
  exists pre post,
    fst (run_serial (ex11l CkRun false []) (fun _ _ => 0) (fun _ => 0) true false 100 [0]) = pre ++ EExecute 1 :: post /\
    ~ In 1 [0] /\ (forall p, ~ hdep (ex11l CkRun false []) p 1) /\ pre = [EGetStatus 0; EGetStatus 1].
Proof.
  exists [EGetStatus 0; EGetStatus 1]. eexists. split; [vm_compute; reflexivity|].
  split; [intros [H|[]]; discriminate|]. split; [apply ex11l_nohdep; intros []|reflexivity].
Qed.
(* 0 up-to-date / ignored / with a failed task_dep (unmet) / with a status-check error: 1 is never executed *)
Example C11_lazy_not_for_skipped :
  map (fun tb => existsb (fun e => match e with EExecute 1 => true | _ => false end)
                   (fst (run_serial tb (fun _ _ => 0) (fun _ => 0) true false 100 [0])))
      [ex11l CkUpToDate false []; ex11l CkRun true []; ex11l CkRun false [2]; ex11l CkError false []; ex11l CkRun false []]
  = [false; false; false; false; true].
Proof. vm_compute. reflexivity. Qed.
Example C11_lazy_not_for_skipped_parallel :
  map (fun tb => existsb (fun e => match e with PStart 1 _ => true | _ => false end)
                   (fst (run_parallel tb (fun _ _ => 0) (fun _ => 0) true false true 100 2 [1;0;1;1;0;2;1]%nat [0])))
      [ex11l CkUpToDate false []; ex11l CkRun true []; ex11l CkRun false [2]; ex11l CkError false []; ex11l CkRun false []]
  = [false; false; false; false; true].
Proof. vm_compute. reflexivity. Qed.

(* KNOWN BEHAVIOUR (model = code, confirmed on the real doit): the requiring task only has to be in its `run` phase
   when the setup-task starts.  Task 0 requires the setup-tasks [2; 1]; 2 was selected before and has already
   failed when 0 goes through its status check (verdict run): setup-task 1 is still executed, then 0 is reported
   with an unmet dependency.  Consistent with the theorems (0 has no report when 1 starts), but 1 runs on behalf of
   a task that can no longer execute. *)
Definition ex11d (n : name) : option task :=
  if n =? 0 then Some (Build_task [] [2; 1] [] false false CkRun false OOk [] [] [])
  else if n =? 1 then Some (Build_task [] [] [] false false CkRun false OOk [] [] [])
  else if n =? 2 then Some (Build_task [] [] [] false false CkRun false OFail [] [] [])
  else None.
Example C11_lazy_doomed_requirer :
  fst (run_serial ex11d (fun _ _ => 0) (fun _ => 0) true false 100 [2; 0])
  = [EGetStatus 2; EExecute 2; ERemove 2; EFailure 2 0; EGetStatus 0; EGetStatus 1; EExecute 1; ESave 1; ESuccess 1;
     ERemove 0; EFailure 0 2; EClose].
Proof. vm_compute. reflexivity. Qed.

(* ---- per-worker teardown discipline of the process flavour ---- *)
Theorem C11_teardown_process_per_worker :
  forall tasks wake_rank calc_rank continue_ always fuel nprocs sched selection w,
  wshape (has_td tasks) w (fst (run_parallel tasks wake_rank calc_rank continue_ always true fuel nprocs sched selection)).
Proof. exact proc_teardown_per_worker. Qed.
Print Assumptions C11_teardown_process_per_worker.

Theorem C11_teardown_process_owner :
  forall tasks wake_rank calc_rank continue_ always fuel nprocs sched selection k w,
  let log := fst (run_parallel tasks wake_rank calc_rank continue_ always true fuel nprocs sched selection) in
  In (PTdRun k w) log -> In (PStart k w) log /\ has_td tasks k = true.
Proof. exact proc_teardown_owner. Qed.
Print Assumptions C11_teardown_process_owner.

Theorem C11_teardown_process_once :
  forall tasks wake_rank calc_rank continue_ always fuel nprocs sched selection,
  NoDup (fwd (fst (run_parallel tasks wake_rank calc_rank continue_ always true fuel nprocs sched selection))).
Proof. exact proc_teardown_once. Qed.
Print Assumptions C11_teardown_process_once.

Theorem C11_teardown_process_reports :
  forall tasks wake_rank calc_rank continue_ always fuel nprocs sched selection,
  let res := run_parallel tasks wake_rank calc_rank continue_ always true fuel nprocs sched selection in
  exists rest, fwd (fst res) = tdm (proj (fst res)) ++ rest /\ (~ In (snd res) [3; 4; 98; 99] -> rest = []).
Proof. exact proc_teardown_reports. Qed.
Print Assumptions C11_teardown_process_reports.

(* ===== the teardown phase in detail: outcomes of the teardown actions (Model/Teardown.v, Proofs/TeardownP.v).
   The run models above treat "report + teardown actions of task k" as one event; here every teardown action has an
   outcome (ok / failed without raising / error) given as input.  tdl = the runner's teardown_list in registration
   order with the outcomes of each task's teardown actions.  "A failing teardown does not prevent the others":
   whatever the outcomes, every registered task gets its report, its own block of actions, and the blocks follow
   each other in reverse registration order. ===== *)

(* one teardown_task report per registered task, reverse registration order, for every assignment of outcomes *)
Theorem C11_teardown_phase_reports :
  forall tdl, td_reports (teardown tdl) = rev (map fst tdl).
Proof. exact teardown_reports. Qed.
Print Assumptions C11_teardown_phase_reports.

(* the phase is the concatenation of the tasks' own blocks, last registered first: no block is cut short, skipped or
   repeated because of what happened in another one *)
Theorem C11_teardown_phase_blocks :
  forall l1 x l2, teardown (l1 ++ x :: l2) = teardown l2 ++ teardown_one x ++ teardown l1.
Proof. exact teardown_blocks. Qed.
Print Assumptions C11_teardown_phase_blocks.

(* the teardown actions of task k that run are numbers 0 .. td_ran acts - 1 (all of them, or up to and including
   k's OWN first failing one), once each, in order -- independent of the outcomes of every other task's teardown *)
Theorem C11_teardown_phase_actions :
  forall k acts tdl, NoDup (map fst tdl) -> In (k, acts) tdl ->
    td_acts_of k (teardown tdl) = seq 0 (td_ran acts).
Proof. exact teardown_acts. Qed.
Print Assumptions C11_teardown_phase_actions.

Theorem C11_teardown_phase_first_action_once :
  forall k a acts tdl, NoDup (map fst tdl) -> In (k, a :: acts) tdl ->
    count_occ Nat.eq_dec (td_acts_of k (teardown tdl)) 0%nat = 1%nat.
Proof. exact teardown_first_action. Qed.
Print Assumptions C11_teardown_phase_first_action_once.

(* exactly the tasks with a failing teardown get one cleanup_error each, in the order of the reports *)
Theorem C11_teardown_phase_cleanup_errors :
  forall tdl, td_cleanups (teardown tdl) = map fst (filter (fun ka => negb (forallb td_is_ok (snd ka))) (rev tdl)).
Proof. exact teardown_cleanups. Qed.
Print Assumptions C11_teardown_phase_cleanup_errors.

(* link to the run models: for EVERY assignment `outs` of outcomes to teardown actions, the ETeardown events of
   Runner.finish (serial and thread flavour) and the PTdRun / MTeardown items of a worker process are the reports of
   the detailed phase -- so C11_teardown_serial / _thread / _process_* hold whatever the teardown actions do *)
Theorem C11_teardown_phase_refines_finish :
  forall (outs : name -> list tdres) r,
    finish r = emit r (EClose :: map ETeardown (td_reports (teardown (map (fun k => (k, outs k)) (r_td r))))).
Proof. exact finish_refined. Qed.
Print Assumptions C11_teardown_phase_refines_finish.

Theorem C11_teardown_phase_refines_worker :
  forall (outs : name -> list tdres) (w : nat) l,
    map (fun k => PTdRun k w) (rev l) = map (fun k => PTdRun k w) (td_reports (teardown (map (fun k => (k, outs k)) l))) /\
    map MTeardown (rev l) = map MTeardown (td_reports (teardown (map (fun k => (k, outs k)) l))).
Proof. exact worker_teardown_refined. Qed.
Print Assumptions C11_teardown_phase_refines_worker.

(* non-vacuity: tasks 1, 2, 3 registered in this order; the teardown of 2 fails (returns False) in its second of
   three actions, the first action of 1 raises: 3, 2 and 1 are all reported and run, 2 stops after its own failing
   action, both failures are reported *)
Example C11_teardown_phase_nonvacuous :
  teardown [(1, [TdError; TdOk]); (2, [TdOk; TdFail; TdOk]); (3, [TdOk])]
  = [TReport 3; TAct 3 0; TReport 2; TAct 2 0; TAct 2 1; TCleanup 2; TReport 1; TAct 1 0; TCleanup 1].
Proof. vm_compute. reflexivity. Qed.

(* ===== COMPLETENESS of the per-worker teardown of the process flavour (Proofs/ParallelTdProcLiveP.v, by sub-agent).
   C11_teardown_process_per_worker above allows "ran no teardown at all" for any worker.  Here: when run_tasks returns
   normally (exit code 0, 1 or 2: the `while proc_count` loop ended, every worker was sent its None job, join, drain)
   every worker process left through its terminating job, so every task whose actions were started in worker w and
   that has teardown actions DID get its teardown run in w.
   Invariant (on top of XI of ParallelTdProcP.v), kept by every worker step / scheduler step / iteration of the main
   loop that does not raise:  an interrupt notice is queued in result_q, OR every worker that has exited is complete
   (its teardown events = rev (filter has_td (its starts))).  When the loop ends normally nothing is in flight
   (ParHoldP.main_loop_G), so no notice is queued; that every worker HAS exited when join_all returns is the liveness
   result C09_parallel_normal_end_all_joined -- hence the hypotheses `finite_table` and `par_enough_fuel <= fuel`.
   Both are needed in the MODEL only: below the bound join_all may use up its 4 * fuel scheduler steps with workers
   still alive while the exit code is normal (C11_teardown_process_complete_every_fuel_refuted; doit's Child.join()
   just waits).  The exit-code hypothesis is needed in the model AND in doit: on the raising paths (cycle / hold
   error: 3, interrupt: 4) run_tasks calls proc.terminate() on every child, pending teardowns never run
   (C11_teardown_process_complete_code3_cycle_refuted / _code3_hold_refuted / _code4_refuted).
   Import line needed at the top of this file:
     From Coq Require Import Permutation.
     From DoitV Require Import TermP ParHoldP ParLiveP ParTermP ParallelTdProcLiveP.
   This block makes the sentence "Still NOT PROVED: that on the normal path every worker does receive its terminating
   job ..." (comment before ex11, above) obsolete. ===== *)
From Coq Require Import Permutation.
From DoitV Require Import TermP ParHoldP ParLiveP ParTermP ParallelTdProcLiveP.

(* the run ended normally => every task started in a worker process that has teardown actions was torn down there *)
Theorem C11_teardown_process_complete :
  forall tasks univ selection, finite_table tasks univ ->
  forall wake_rank calc_rank continue_ always nprocs sched fuel,
  (par_enough_fuel tasks univ selection nprocs <= fuel)%nat ->
  let res := run_parallel tasks wake_rank calc_rank continue_ always true fuel nprocs sched selection in
  ~ In (snd res) [3; 4; 98; 99] ->
  forall k w, In (PStart k w) (fst res) -> has_td tasks k = true -> In (PTdRun k w) (fst res).
Proof. exact proc_teardown_all_run. Qed.
Print Assumptions C11_teardown_process_complete.

(* with C11_teardown_process_per_worker: the teardowns run by worker w are EXACTLY the tasks it started that have
   teardown actions, in reverse order of start, once each ... *)
Theorem C11_teardown_process_exact_per_worker :
  forall tasks univ selection, finite_table tasks univ ->
  forall wake_rank calc_rank continue_ always nprocs sched fuel,
  (par_enough_fuel tasks univ selection nprocs <= fuel)%nat ->
  let res := run_parallel tasks wake_rank calc_rank continue_ always true fuel nprocs sched selection in
  ~ In (snd res) [3; 4; 98; 99] ->
  forall w, wtds w (fst res) = rev (filter (has_td tasks) (wstarts w (fst res))) /\ NoDup (wtds w (fst res)).
Proof. exact proc_teardown_exact_per_worker. Qed.
Print Assumptions C11_teardown_process_exact_per_worker.

(* ... as ONE contiguous block placed after every task the worker started, nothing of this worker afterwards *)
Theorem C11_teardown_process_exact_block :
  forall tasks univ selection, finite_table tasks univ ->
  forall wake_rank calc_rank continue_ always nprocs sched fuel,
  (par_enough_fuel tasks univ selection nprocs <= fuel)%nat ->
  let res := run_parallel tasks wake_rank calc_rank continue_ always true fuel nprocs sched selection in
  ~ In (snd res) [3; 4; 98; 99] ->
  forall w, exists pre post,
    fst res = pre ++ map (fun k => PTdRun k w) (rev (filter (has_td tasks) (wstarts w (fst res)))) ++ post /\
    wstarts w pre = wstarts w (fst res) /\ wtds w pre = [] /\ noev w post.
Proof. exact proc_teardown_exact_block. Qed.
Print Assumptions C11_teardown_process_exact_block.

(* globally: every task started anywhere that has teardown actions has exactly one PTdRun in the whole log
   (with C11_teardown_process_once and _owner) ... *)
Theorem C11_teardown_process_exactly_once :
  forall tasks univ selection, finite_table tasks univ ->
  forall wake_rank calc_rank continue_ always nprocs sched fuel,
  (par_enough_fuel tasks univ selection nprocs <= fuel)%nat ->
  let res := run_parallel tasks wake_rank calc_rank continue_ always true fuel nprocs sched selection in
  ~ In (snd res) [3; 4; 98; 99] ->
  forall k w, In (PStart k w) (fst res) -> has_td tasks k = true -> count_occ N.eq_dec (fwd (fst res)) k = 1%nat.
Proof. exact proc_teardown_exactly_once. Qed.
Print Assumptions C11_teardown_process_exactly_once.

(* ... and the teardowns run by all the workers are, as a multiset, the started tasks that have teardown actions *)
Theorem C11_teardown_process_permutation :
  forall tasks univ selection, finite_table tasks univ ->
  forall wake_rank calc_rank continue_ always nprocs sched fuel,
  (par_enough_fuel tasks univ selection nprocs <= fuel)%nat ->
  let res := run_parallel tasks wake_rank calc_rank continue_ always true fuel nprocs sched selection in
  ~ In (snd res) [3; 4; 98; 99] ->
  Permutation (fwd (fst res)) (filter (has_td tasks) (pstarts (fst res))).
Proof. exact proc_teardown_permutation. Qed.
Print Assumptions C11_teardown_process_permutation.

(* the part that holds for EVERY table (finite or not) and EVERY fuel, in terms of the state run_tasks ended in
   (run_core = run_parallel before finish(), as in C09_parallel_normal_end_all_joined): a worker that HAS exited when
   run_tasks returns normally is complete; so if all have exited (every Child.join() returned) nothing is missing *)
Theorem C11_teardown_process_complete_exited_worker :
  forall tasks wake_rank calc_rank continue_ always fuel nprocs sched selection p2 w,
  run_core tasks wake_rank calc_rank continue_ always true fuel nprocs sched selection = (PNormal, p2) ->
  nth w (p_workers p2) WExited = WExited ->
  let log := fst (run_parallel tasks wake_rank calc_rank continue_ always true fuel nprocs sched selection) in
  wtds w log = rev (filter (has_td tasks) (wstarts w log)).
Proof. exact proc_teardown_complete_exited. Qed.
Print Assumptions C11_teardown_process_complete_exited_worker.

Theorem C11_teardown_process_complete_when_joined :
  forall tasks wake_rank calc_rank continue_ always fuel nprocs sched selection p2,
  run_core tasks wake_rank calc_rank continue_ always true fuel nprocs sched selection = (PNormal, p2) ->
  alive (p_workers p2) = 0%nat ->
  let log := fst (run_parallel tasks wake_rank calc_rank continue_ always true fuel nprocs sched selection) in
  forall k w, In (PStart k w) log -> has_td tasks k = true -> In (PTdRun k w) log.
Proof. exact proc_teardown_all_run_joined. Qed.
Print Assumptions C11_teardown_process_complete_when_joined.

(* "for every fuel" is refuted by the model: 12 worker processes, fuel 5, exit code 1, the teardown of the only
   executed task never runs (join_all out of its 4 * 5 scheduler steps; with the fuel of the bound it does run:
   Example proc_teardown_fuel_bound_enough) *)
Theorem C11_teardown_process_complete_every_fuel_refuted :
  exists tasks wake_rank calc_rank continue_ always fuel nprocs sched selection k w,
    let res := run_parallel tasks wake_rank calc_rank continue_ always true fuel nprocs sched selection in
    ~ In (snd res) [3; 4; 98; 99] /\ In (PStart k w) (fst res) /\ has_td tasks k = true /\ ~ In (PTdRun k w) (fst res).
Proof. exact proc_teardown_all_run_every_fuel_refuted. Qed.
Print Assumptions C11_teardown_process_complete_every_fuel_refuted.

(* exit codes 3 and 4 cannot be added to the normal ones (finite tables, fuel of the bound): terminate() kills the
   workers -- cycle error after a task with teardown actions ran; hold error (everything left is on hold); interrupt *)
Theorem C11_teardown_process_complete_code3_cycle_refuted :
  exists tasks univ selection wake_rank calc_rank continue_ always nprocs sched k w,
    finite_table tasks univ /\
    let res := run_parallel tasks wake_rank calc_rank continue_ always true
                 (par_enough_fuel tasks univ selection nprocs) nprocs sched selection in
    snd res = 3 /\ In (PStart k w) (fst res) /\ has_td tasks k = true /\ ~ In (PTdRun k w) (fst res).
Proof. exact proc_teardown_all_run_code3_cycle_refuted. Qed.
Theorem C11_teardown_process_complete_code3_hold_refuted :
  exists tasks univ selection wake_rank calc_rank continue_ always nprocs sched k w,
    finite_table tasks univ /\
    let res := run_parallel tasks wake_rank calc_rank continue_ always true
                 (par_enough_fuel tasks univ selection nprocs) nprocs sched selection in
    snd res = 3 /\ In (PStart k w) (fst res) /\ has_td tasks k = true /\ ~ In (PTdRun k w) (fst res).
Proof. exact proc_teardown_all_run_code3_hold_refuted. Qed.
Theorem C11_teardown_process_complete_code4_refuted :
  exists tasks univ selection wake_rank calc_rank continue_ always nprocs sched k w,
    finite_table tasks univ /\
    let res := run_parallel tasks wake_rank calc_rank continue_ always true
                 (par_enough_fuel tasks univ selection nprocs) nprocs sched selection in
    snd res = 4 /\ In (PStart k w) (fst res) /\ has_td tasks k = true /\ ~ In (PTdRun k w) (fst res).
Proof. exact proc_teardown_all_run_code4_refuted. Qed.
Print Assumptions C11_teardown_process_complete_code3_cycle_refuted.
Print Assumptions C11_teardown_process_complete_code3_hold_refuted.
Print Assumptions C11_teardown_process_complete_code4_refuted.

(* non-vacuity: five independent tasks (all but 3 with teardown actions), two worker processes, exactly the fuel of
   the bound (3329), exit code 0: worker 0 started 1, 2, 4 and tore down 4, 2, 1; worker 1 started 0, 3 and tore down 0 *)
Example C11_teardown_process_complete_nonvacuous :
  finite_table ex11p [0; 1; 2; 3; 4] /\
  let r := run_parallel ex11p (fun _ _ => 0) (fun _ => 0) false false true
             (par_enough_fuel ex11p [0; 1; 2; 3; 4] [0; 1; 2; 3; 4] 2) 2
             [1;0;2;1;0;1;1;2;0;1;2;1;1;0;2;1;0]%nat [0; 1; 2; 3; 4] in
  N.of_nat (par_enough_fuel ex11p [0; 1; 2; 3; 4] [0; 1; 2; 3; 4] 2) = 3329 /\ snd r = 0 /\
  wstarts 0 (fst r) = [1; 2; 4] /\ wtds 0 (fst r) = [4; 2; 1] /\ wstarts 1 (fst r) = [0; 3] /\ wtds 1 (fst r) = [0] /\
  fwd (fst r) = [0; 4; 2; 1] /\ map (has_td ex11p) [0; 1; 2; 3; 4] = [true; true; true; false; true].
Proof. split; [exact ex11p_finite|exact proc_teardown_complete_nonvacuous]. Qed.
(* a failing task without --continue (exit code 1) is a normal end too: the failed task 0 is torn down as well *)
Example C11_teardown_process_complete_nonvacuous_failure :
  finite_table ex11f [0; 1; 2] /\
  let r := run_parallel ex11f (fun _ _ => 0) (fun _ => 0) false false true (par_enough_fuel ex11f [0; 1; 2] [0; 1; 2] 2) 2
             [1;0;2;1;0;1;1;2;0;1;2;1;1;0;2;1;0]%nat [0; 1; 2] in
  snd r = 1 /\ wstarts 0 (fst r) = [1; 2] /\ wtds 0 (fst r) = [2; 1] /\ wstarts 1 (fst r) = [0] /\ wtds 1 (fst r) = [0].
Proof. split; [exact ex11f_finite|exact proc_teardown_complete_nonvacuous_failure]. Qed.
