(* C12 -- Task selection yields exactly the requested closure.
   Statements only; every proof is `exact <lemma of Proofs/SelectP.v>` or a closed computation.
   Model: Model/Select.v (TaskControl.__init__, _process_filter, _filter_tasks, process, the
   default_tasks fallback of cmd_base and the --single handling of cmd_run, as of /repo HEAD 01f48fb).
   String functions are Section variables, so every theorem holds for whatever '*' in s, fnmatch,
   split, re.match, str.format and startswith compute.
   That the tasks a run processes are the dependency closure of the selected list is C02 (dispatcher);
   here: which list is selected, what --single does to the task table, which task_dep the table holds.
   Last part of this file (Proofs/OrderP.v, over Model/Dispatch.v + Runner.v, static table): the tasks a serial
   run looks at are inside the dependency closure of the selected list (C12_nothing_outside_closure_serial),
   and the selected tasks are examined in the order given except where dependencies require otherwise
   (C12_serial_order: over an acyclic table; false over a cyclic one, C12_serial_order_needs_acyclic).
   The same order on real runs (delayed tasks included) is checked by harness/c12.py.
   Section CliStatements (Proofs/CliP.v, over Model/Select.v Section Cli): the command line in front of the selection --
   no argument that is a name is dropped (the empty string, blanks, near-miss names are names), `x=y` arguments and
   only those are taken out, default_tasks only when nothing is named, unknown names rejected from the command line down. *)
From DoitV Require Import Base Select SelectP CliP SelectSingleP.
Open Scope N_scope.

Section Statements.
Variable has_star : name -> bool.
Variable matches : name -> name -> bool.
Variable basename_of : name -> name.
Variable re_match : name -> name -> bool.
Variable regex_name : name -> name -> name.
Variable is_regex_name : name -> bool.
Variable is_opt : name -> bool.

Notation init := (init matches).
Notation expand_sel := (expand_sel has_star matches).
Notation filter_list := (filter_list basename_of re_match regex_name is_regex_name).
Notation get_wild := (get_wild matches).
Notation process_filter := (process_filter has_star matches is_opt).
Notation plain_sel := (plain_sel has_star is_opt).
Notation select_core := (select_core has_star matches basename_of re_match regex_name is_regex_name is_opt).
Notation cmd_run_select := (cmd_run_select has_star matches basename_of re_match regex_name is_regex_name is_opt).
Notation resolves_all := (resolves_all basename_of re_match regex_name is_regex_name).
Notation unresolvable := (unresolvable basename_of re_match is_regex_name).
Notation delayed_matched := (delayed_matched re_match is_regex_name).
Notation filter_list_legacy := (filter_list_legacy basename_of re_match regex_name is_regex_name).

(* _filter_tasks, any table (delayed creators included), in the state (ph, tb) = (subtask_placeholders,
   tasks): the loop succeeds iff every element is accepted in one of the four ways of [resolves] (task
   name; target -> its producer; sub-task of a delayed creator -> placeholder task, remembered in ph;
   target matched by delayed creators -- the tasks with a loader that are neither `_regex_target..` nor in
   ph -> one placeholder each), returning exactly the concatenation of what the elements stand for, in
   order; it fails with InvalidCommand(not_found=f) iff f is the first element that is none of these. *)
Theorem C12_filter_exact : forall auto tg fl ph tb,
  (forall ph' tb' sel, filter_list auto tg ph tb fl = inr (ph', tb', sel) <-> resolves_all auto tg ph tb fl ph' tb' sel) /\
  (forall f, filter_list auto tg ph tb fl = inl f <->
     exists pre post ph1 tb1 s1, fl = pre ++ f :: post /\ resolves_all auto tg ph tb pre ph1 tb1 s1 /\
                                 unresolvable auto tg ph1 tb1 f).
Proof. intros auto tg fl ph tb. split; [apply filter_list_ok | apply filter_list_err]. Qed.

(* repair 01f48fb: a sub-task placeholder is never taken for a task-creator.  Run the loop from the start
   (no placeholder yet) over any prefix [pre] of the command line; whatever the next element f is, every task
   k the target regexes match it with -- the k for which a task `_regex_target_<f>:<k>` is created and
   `loader.basename = k` is executed -- is a task of the loaded task list tb0, is none of the sub-task
   placeholders; and every sub-task placeholder is a name of the prefix that was no task of tb0 and is in the
   table now.  Hypothesis on the string oracles: a name built by the '_regex_target_{}:{}' format starts with
   '_regex_target'. *)
Theorem C12_regex_never_for_subtask_placeholder : forall auto tg tb0 pre ph1 tb1 s1 f k l,
  (forall x k, is_regex_name (regex_name x k) = true) ->
  resolves_all auto tg [] tb0 pre ph1 tb1 s1 ->
  In (k, l) (delayed_matched auto ph1 tb1 f) ->
  In k (map fst tb0) /\ ~ In k ph1 /\ is_regex_name k = false /\
  (forall x, In x ph1 -> In x pre /\ has tb0 x = false /\ has tb1 x = true).
Proof. exact (regex_creators_original basename_of re_match regex_name is_regex_name). Qed.

(* the loop before the repair computed the same whenever no sub-task placeholder is made (ph stays empty) *)
Theorem C12_subtask_placeholder_legacy_same : forall auto tg fl tb tb' sel,
  resolves_all auto tg [] tb fl [] tb' sel -> filter_list_legacy auto tg tb fl = inr (tb', sel).
Proof. exact (filter_list_legacy_same basename_of re_match regex_name is_regex_name). Qed.

(* the same for a table without delayed creators, spelled out: one task per element -- the task of that
   name, else the producer of that target -- nothing added to the table, nothing else returned; and the
   error names the first element that is neither a task nor a target *)
Theorem C12_filter_exact_static : forall auto tg ph tb fl,
  no_loader tb ->
  (forall ph' tb' sel, filter_list auto tg ph tb fl = inr (ph', tb', sel) <->
     ph' = ph /\ tb' = tb /\ Forall2 (fun f n => (has tb f = true /\ n = f) \/ (has tb f = false /\ tg_get tg f = Some n)) fl sel) /\
  (forall f, filter_list auto tg ph tb fl = inl f <->
     exists pre post, fl = pre ++ f :: post /\
       Forall (fun x => has tb x = true \/ tg_get tg x <> None) pre /\
       ~ (has tb f = true \/ tg_get tg f <> None)).
Proof.
  intros auto tg ph tb fl H. split; intros.
  - exact (filter_list_static_ok basename_of re_match regex_name is_regex_name auto tg ph tb fl ph' tb' sel H).
  - exact (filter_list_static_err basename_of re_match regex_name is_regex_name auto tg ph tb fl f H).
Qed.

(* patterns: an element with '*' stands for exactly the defined tasks it matches (in definition order:
   get_wild is a filter of _def_order), any other element for itself *)
Theorem C12_glob : forall order sel n,
  In n (expand_sel order sel) <->
  exists f, In f sel /\ (if has_star f then In n order /\ matches f n = true else n = f).
Proof. exact (expand_sel_In has_star matches). Qed.

(* _process_filter / add_filtered_task: which tokens of the command line are selection elements.
   (1) What follows a pattern is ALWAYS read as further elements, whatever tasks the pattern matched
       (they get the empty argument list): the result is the matches followed by the reading of the rest. *)
Theorem C12_after_glob : forall order tb st g r,
  has_star g = true ->
  process_filter order tb MName st (g :: r) =
  match process_filter order tb MName (mark_glob tb st (get_wild order g)) r with
  | None => None
  | Some (fl, st') => Some (get_wild order g ++ fl, st')
  end.
Proof. exact (process_filter_after_glob has_star matches is_opt). Qed.

(* (2) What follows a task declaring pos_arg that is named explicitly (and has no positional values yet)
       are its values: only the task itself is selected. *)
Theorem C12_pos_arg : forall order tb st p t r,
  has_star p = false -> lookup tb p = Some t -> s_pos_arg t = true -> ~ In p (p_posset st) ->
  Forall (fun x => is_opt x = false) r ->
  exists st', process_filter order tb MName st (p :: r) = Some ([p], st').
Proof. exact (process_filter_pos_arg has_star matches is_opt). Qed.

(* (3) A command line on which nothing is a task argument -- no token looks like an option, no task with
       pos_arg is named explicitly; patterns may match any task -- is read as: every pattern replaced by
       its matches, every other token itself.  Nothing is dropped, nothing is added. *)
Theorem C12_plain_expansion : forall order tb sel st,
  plain_sel tb sel ->
  exists st', process_filter order tb MName st sel = Some (expand_sel order sel, st').
Proof. intros. apply process_filter_plain; auto. Qed.

(* `doit run names..` on a task list without delayed creators and such a command line: the selected list
   is, element by element of the expanded command line, the task of that name or the producer of that
   target; otherwise the run is refused naming the first unknown element *)
Theorem C12_select_exact : forall auto tb c sel,
  init tb = inr c -> no_loader tb -> plain_sel (c_tasks c) sel ->
  (forall selected tb' tg',
     select_core auto false (Some sel) tb = ROk tb' tg' selected <->
     tb' = c_tasks c /\ tg' = c_targets c /\
     Forall2 (stands_for (c_targets c) (c_tasks c)) (expand_sel (c_order c) sel) selected) /\
  (forall f,
     select_core auto false (Some sel) tb = RNotFound f <->
     exists pre post, expand_sel (c_order c) sel = pre ++ f :: post /\
                      Forall (known (c_targets c) (c_tasks c)) pre /\ ~ known (c_targets c) (c_tasks c) f).
Proof. exact (select_exact has_star matches basename_of re_match regex_name is_regex_name is_opt). Qed.

(* failures, any table, any command line, with or without --single: a task's option parser rejects its
   options, or some selection element is unresolvable after its predecessors were resolved; either way
   there is no selected list, so nothing is dispatched *)
Theorem C12_unknown_rejected : forall auto single tb c sel,
  init tb = inr c ->
  (select_core auto single (Some sel) tb = RParseErr <->
   process_filter (c_order c) (c_tasks c) MName pstate0 sel = None) /\
  (forall f, select_core auto single (Some sel) tb = RNotFound f <->
   exists fl st pre post ph1 tb1 s1,
     process_filter (c_order c) (c_tasks c) MName pstate0 sel = Some (fl, st) /\ fl = pre ++ f :: post /\
     resolves_all auto (c_targets c) [] (c_tasks c) pre ph1 tb1 s1 /\ unresolvable auto (c_targets c) ph1 tb1 f).
Proof. exact (select_failures has_star matches basename_of re_match regex_name is_regex_name is_opt). Qed.

(* positional arguments win; without them DOIT_CONFIG['default_tasks'] is the selection (an empty list
   selects nothing); without both, all tasks in definition order *)
Theorem C12_default : forall auto single tb,
  (forall args d, args <> [] -> cmd_run_select auto single args d tb = select_core auto single (Some args) tb) /\
  (forall d, cmd_run_select auto single [] (Some d) tb = select_core auto single (Some d) tb) /\
  (forall c, init tb = inr c ->
     cmd_run_select auto single [] None tb =
     ROk (if single then single_step (c_tasks c) (map fst tb) else c_tasks c) (c_targets c) (map fst tb)).
Proof. exact (default_spec has_star matches basename_of re_match regex_name is_regex_name is_opt). Qed.

(* task_dep after TaskControl.__init__: the declared ones, the defined tasks matching a wild-card entry,
   and the producers of the file dependencies -- nothing else *)
Theorem C12_init_task_dep_exact : forall tb c k t0 t d,
  init tb = inr c -> lookup tb k = Some t0 -> lookup (c_tasks c) k = Some t ->
  (In d (s_task_dep t) <->
   In d (s_task_dep t0) \/
   (exists p, In p (s_wild_dep t0) /\ In d (map fst tb) /\ matches p d = true) \/
   (exists f, In f (s_file_dep t0) /\ tg_get (c_targets c) f = Some d)).
Proof. exact (init_task_dep_exact has_star matches basename_of re_match regex_name is_regex_name is_opt). Qed.

Theorem C12_implicit_deps_complete : forall tb c k t f u,
  init tb = inr c -> lookup (c_tasks c) k = Some t -> In f (s_file_dep t) ->
  tg_get (c_targets c) f = Some u -> In u (s_task_dep t).
Proof. exact (implicit_deps_complete has_star matches basename_of re_match regex_name is_regex_name is_opt). Qed.

(* the targets dict maps a file to the task that lists it as target (unique, else __init__ fails) *)
Theorem C12_targets_exact : forall tb c f u,
  init tb = inr c ->
  (tg_get (c_targets c) f = Some u <-> exists t, lookup tb u = Some t /\ In f (s_targets t)).
Proof. exact (targets_exact has_star matches basename_of re_match regex_name is_regex_name is_opt). Qed.

(* selection by target file name is by the EXACT declared string (names are opaque: `out/gen.txt`,
   `./out/gen.txt`, `out//gen.txt` are three names).  In any state (ph, tb1) of the loop of _filter_tasks and for
   an element f that is not the name of a task:  (1) if some task p of the loaded list declares the string f in
   `targets`, the element stands for p and nothing is added to the table;  (2) if no task declares f, the targets
   dict plays no part -- the element is treated as if no task had any target (so, without a delayed creator
   accounting for it, it is rejected: C12_filter_exact) *)
Theorem C12_target_lookup_exact : forall auto tb c ph tb1 f,
  init tb = inr c -> has tb1 f = false ->
  (forall p, (exists t, lookup tb p = Some t /\ In f (s_targets t)) ->
     filter_list auto (c_targets c) ph tb1 [f] = inr (ph, tb1, [p])) /\
  ((forall u t, lookup tb u = Some t -> ~ In f (s_targets t)) ->
     tg_get (c_targets c) f = None /\
     filter_list auto (c_targets c) ph tb1 [f] = filter_list auto [] ph tb1 [f]).
Proof. exact (target_lookup_exact has_star matches basename_of re_match regex_name is_regex_name is_opt). Qed.

End Statements.
Print Assumptions C12_filter_exact.
Print Assumptions C12_regex_never_for_subtask_placeholder.
Print Assumptions C12_subtask_placeholder_legacy_same.
Print Assumptions C12_filter_exact_static.
Print Assumptions C12_glob.
Print Assumptions C12_after_glob.
Print Assumptions C12_pos_arg.
Print Assumptions C12_plain_expansion.
Print Assumptions C12_select_exact.
Print Assumptions C12_unknown_rejected.
Print Assumptions C12_default.
Print Assumptions C12_init_task_dep_exact.
Print Assumptions C12_implicit_deps_complete.
Print Assumptions C12_targets_exact.
Print Assumptions C12_target_lookup_exact.

(* --single (cmd_run.py 210-222), exactly: the table keeps its tasks and their order and every task is
   unchanged or has its task_dep cut down; a selected non-group task has no task_dep left; what a
   selected group still depends on are sub-tasks of its own (declared subtask_of it) taken from its
   task_dep, each without task_dep; a selected group that is not declared a sub-task itself keeps all
   of them; no other task_dep changes. *)
Theorem C12_single : forall tb sel,
  let tb' := single_step tb sel in
  reduced tb tb' /\
  (forall k t, In k sel -> lookup tb k = Some t -> s_has_subtask t = false -> task_dep_of tb' k = []) /\
  (forall g t d, In g sel -> lookup tb g = Some t -> s_has_subtask t = true -> In d (task_dep_of tb' g) ->
     In d (s_task_dep t) /\ is_sub_of tb g d = true /\ (d <> g -> task_dep_of tb' d = [])) /\
  (forall g t, In g sel -> lookup tb g = Some t -> s_has_subtask t = true -> s_subtask_of t = None ->
     task_dep_of tb' g = filter (is_sub_of tb g) (s_task_dep t)) /\
  (forall k, task_dep_of tb' k <> task_dep_of tb k ->
     In k sel \/ exists g t, In g sel /\ lookup tb g = Some t /\ s_has_subtask t = true /\
                            In k (s_task_dep t) /\ is_sub_of tb g k = true).
Proof.
  intros tb sel tb'. destruct (single_step_spec sel tb) as [F P S G O].
  exact (conj F (conj P (conj S (conj G O)))).
Qed.
Print Assumptions C12_single.

(* --single across group borders (round G, seeded C12g), in the terms of the declarations, any table, any selection:
   whatever a selected group still depends on was in its task_dep AND is declared a sub-task of that very group
   (subtask_of = the group; a sub-task of ANOTHER group never survives, by whatever spelling -- name, `h:*`, `*:x` --
   it came into the group's task_dep); and a task that is neither selected nor declared a sub-task of a selected group
   keeps its task_dep unchanged, whichever selected groups name it in theirs. *)
Theorem C12_single_group_border : forall tb sel,
  (forall g t d, In g sel -> lookup tb g = Some t -> s_has_subtask t = true ->
     In d (task_dep_of (single_step tb sel) g) ->
     In d (s_task_dep t) /\ exists td, lookup tb d = Some td /\ s_subtask_of td = Some g) /\
  (forall k, ~ In k sel -> (forall g, In g sel -> is_sub_of tb g k = false) ->
     task_dep_of (single_step tb sel) k = task_dep_of tb k).
Proof. exact single_group_border. Qed.
Print Assumptions C12_single_group_border.

(* non-vacuity: 0 'prep'  10 'h'  11 'h:x' (task_dep prep)  1 'g' (task_dep h:x, then its own g:a, g:b)  2 'g:a' (task_dep
   prep)  3 'g:b'.  --single g: g keeps g:a, g:b and not h:x; g:a lost prep; h:x keeps prep; both hypotheses of the second
   part hold for h:x. *)
Example C12_example_single_group_border :
  let tb := [(0, Build_stask [] [] [] [] [] [] false None None false []);
             (10, Build_stask [11] [] [] [] [] [] true None None false []);
             (11, Build_stask [0] [] [] [] [] [] false (Some 10) None false []);
             (1, Build_stask [11; 2; 3] [] [] [] [] [] true None None false []);
             (2, Build_stask [0] [] [] [] [] [] false (Some 1) None false []);
             (3, Build_stask [] [] [] [] [] [] false (Some 1) None false [])] in
  task_dep_of (single_step tb [1]) 1 = [2; 3] /\ task_dep_of (single_step tb [1]) 2 = [] /\
  task_dep_of (single_step tb [1]) 11 = [0] /\ ~ In 11 [1] /\ (forall g, In g [1] -> is_sub_of tb g 11 = false) /\
  task_dep_of (single_step tb [1; 10]) 11 = [] /\ task_dep_of (single_step tb [1; 10]) 1 = [2; 3].
Proof.
  vm_compute. repeat split; try reflexivity.
  - intros [H|[]]; discriminate H.
  - intros g [<-|[]]. reflexivity.
Qed.

(* ================================================================== the command line in front of the selection
   Model/Select.v Section Cli (DoitMain.process_args / run, the option parser of `doit run`), Proofs/CliP.v.
   `doit <argv>`, with or without the word `run`: which arguments reach the selection.  Every argument is an opaque
   name: the empty string, a blank, `A` next to a task `a`, `a ` (trailing blank) are names like any other, so each
   statement covers them.  is_var s = (not s.startswith('-')) and '=' in s: such an argument is a command line
   variable by documented design, never a selection element.  Domain of the model: see Model/Select.v. *)
Section CliStatements.
Variable has_star : name -> bool.
Variable matches : name -> name -> bool.
Variable basename_of : name -> name.
Variable re_match : name -> name -> bool.
Variable regex_name : name -> name -> name.
Variable is_regex_name : name -> bool.
Variable is_opt : name -> bool.
Variable is_var : name -> bool.
Variable is_run : name -> bool.
Variable run_flag : name -> option rflag.

Notation process_args := (process_args is_var).
Notation cli_split := (cli_split is_opt is_var is_run run_flag).
Notation split_of := (split_of is_opt is_var is_run run_flag).
Notation doit_main := (doit_main has_star matches basename_of re_match regex_name is_regex_name is_opt is_var is_run run_flag).
Notation select_core := (select_core has_star matches basename_of re_match regex_name is_regex_name is_opt).
Notation init := (init matches).
Notation plain_sel := (plain_sel has_star is_opt).

(* how the command line is cut: its non-variable arguments, in order, are  [run] ++ options ++ positional;  the
   options are tokens starting with '-' that `doit run` knows, the positional part starts at the first token that
   does not start with '-'; --single / --auto-delayed-regex are on iff one of the options spells them.  If there is
   no such cut, an option token unknown to `doit run` is on the command line (CmdParseError, exit code 3). *)
Theorem C12_cli_split_exact : forall argv,
  (forall single auto pos, cli_split argv = Some (single, auto, pos) -> split_of argv single auto pos) /\
  (cli_split argv = None -> exists o, In o argv /\ is_var o = false /\ is_opt o = true /\ run_flag o = None).
Proof. intros argv. split; [apply cli_split_exact | apply cli_split_None]. Qed.

(* nothing is invented, no variable becomes a name, the order given is kept: the positional arguments are a
   suffix of the non-variable arguments *)
Theorem C12_cli_pos_from_argv : forall argv single auto pos,
  cli_split argv = Some (single, auto, pos) ->
  (exists pre, process_args argv = pre ++ pos) /\ forall x, In x pos -> In x argv /\ is_var x = false.
Proof. exact (cli_pos_from_argv is_opt is_var is_run run_flag). Qed.

(* no name is dropped, in whatever position: an argument that is no variable, does not start with '-' and is not
   the word `run` is an element of the selection handed to TaskControl.process *)
Theorem C12_cli_name_never_dropped : forall argv single auto pos x,
  cli_split argv = Some (single, auto, pos) ->
  In x argv -> is_var x = false -> is_opt x = false -> is_run x = false -> In x pos.
Proof. exact (cli_name_never_dropped is_opt is_var is_run run_flag). Qed.

(* DOIT_CONFIG['default_tasks'] plays a part only when the command line names nothing: with such an argument x
   (the empty string included) the outcome does not depend on default_tasks; and when nothing is named, the
   selection is default_tasks (all tasks without it: C12_default) *)
Theorem C12_cli_default_only_when_nothing_named : forall argv tb,
  (forall d x, In x argv -> is_var x = false -> is_opt x = false -> is_run x = false ->
     doit_main argv d tb = doit_main argv None tb) /\
  (forall d single auto, cli_split argv = Some (single, auto, []) -> doit_main argv d tb = select_core auto single d tb).
Proof.
  intros argv tb. split.
  - intros d x. exact (cli_default_only_when_nothing_named has_star matches basename_of re_match regex_name is_regex_name
                         is_opt is_var is_run run_flag argv d tb x).
  - intros d single auto. exact (cli_nothing_named has_star matches basename_of re_match regex_name is_regex_name
                                   is_opt is_var is_run run_flag argv d tb single auto).
Qed.

(* unknown names are rejected before anything runs, from the command line down: over a task list without delayed
   creators and a command line on which nothing is a task argument, if the runner is started at all (ROk) then
   every argument that is a name (no variable, no option token, not the word `run`, no pattern) is the name of a
   task or a declared target string; with C12_unknown_rejected the other outcomes carry no selected list *)
Theorem C12_cli_unknown_rejected : forall argv d tb c single auto pos tb' tg' selected,
  init tb = inr c -> no_loader tb ->
  cli_split argv = Some (single, auto, pos) -> plain_sel (c_tasks c) pos ->
  doit_main argv d tb = ROk tb' tg' selected ->
  forall x, In x argv -> is_var x = false -> is_opt x = false -> is_run x = false -> has_star x = false ->
            known (c_targets c) (c_tasks c) x.
Proof. exact (cli_unknown_rejected has_star matches basename_of re_match regex_name is_regex_name is_opt is_var is_run run_flag). Qed.

End CliStatements.
Print Assumptions C12_cli_split_exact.
Print Assumptions C12_cli_pos_from_argv.
Print Assumptions C12_cli_name_never_dropped.
Print Assumptions C12_cli_default_only_when_nothing_named.
Print Assumptions C12_cli_unknown_rejected.

(* ---- non-vacuity: a concrete task list on which the hypotheses hold and every form of selection occurs.
   strings: 0 'a'  1 'g'  2 'g:x'  3 'g:y'  4 'b'  5 'out.txt' (target of b)  6 'g:*'  7 'zz'  8 'in.txt'
            20 'p' (declares pos_arg)  21 'o' (options -f, -v VALUE)  22 '-f'  23 '-v'  24 'val'  25 '*' (matches p, o)  26 '-z'
   a: file_dep out.txt;  g: group of g:x, g:y;  g:x: task_dep a;  b: targets out.txt, task_dep 'g:*' *)
Definition ex_star (s : name) : bool := match s with 6 | 25 => true | _ => false end.
Definition ex_match (p s : name) : bool := match p, s with 6, 2 | 6, 3 | 25, 20 | 25, 21 => true | _, _ => false end.
Definition ex_opt (s : name) : bool := match s with 22 | 23 | 26 => true | _ => false end.
Definition ex_base (s : name) : name := match s with 2 | 3 => 1 | _ => s end.
Definition ex_false2 (a b : name) : bool := false.
Definition ex_rn (a b : name) : name := 99.
Definition ex_false1 (a : name) : bool := false.
Definition ex_task td wd fd tg grp sub : stask := Build_stask td wd [] [] fd tg grp sub None false [].
Definition ex_tb : table :=
  [(0, ex_task [] [] [5; 8] [] false None); (1, ex_task [2; 3] [] [] [] true None);
   (2, ex_task [0] [] [] [] false (Some 1)); (3, ex_task [] [] [] [] false (Some 1));
   (4, ex_task [] [6] [] [5] false None)].
Definition ex_select single args dflt :=
  cmd_run_select ex_star ex_match ex_base ex_false2 ex_rn ex_false1 ex_opt false single args dflt ex_tb.

Example C12_example_init :
  exists c, Select.init ex_match ex_tb = inr c /\ no_loader ex_tb /\
            task_dep_of (c_tasks c) 0 = [4] /\                 (* implicit: a needs the producer of out.txt *)
            task_dep_of (c_tasks c) 4 = [2; 3] /\              (* wild-card 'g:*' *)
            tg_get (c_targets c) 5 = Some 4.
Proof.
  eexists. split; [vm_compute; reflexivity|]. split.
  - intros k t H. simpl in H. repeat (destruct H as [H|H]; [inversion H; reflexivity|]). destruct H.
  - vm_compute. auto.
Qed.

(* name, pattern, target, group; unknown name; default_tasks; nothing given *)
Example C12_example_select :
  (exists tb tg, ex_select false [0; 6; 5; 1] None = ROk tb tg [0; 2; 3; 4; 1]) /\
  ex_select false [0; 7; 4] None = RNotFound 7 /\
  (exists tb tg, ex_select false [] (Some [5]) = ROk tb tg [4]) /\
  (exists tb tg, ex_select false [] None = ROk tb tg [0; 1; 2; 3; 4]).
Proof. vm_compute. repeat split; eauto. Qed.

(* the command line.  strings as above plus 30 '' (the empty string)  31 'x=1'  32 'run'  33 '-s'  34 'A'  35 '-Z':
   `doit x=1 run -s a ''`: '' is rejected;  `doit ''` with default_tasks [a]: '' is rejected, the default is not used;
   `doit x=1` with default_tasks [a]: only a variable, a is selected;  `doit a x=1 b`: [a; b];  `doit '' run a`: ''
   comes first, so `run` is a name too and '' is rejected;  `doit a A`: A is rejected;  `doit run -Z a`: unknown option.
   The hypotheses of C12_cli_name_never_dropped / C12_cli_unknown_rejected hold for argv = [x=1; run; -s; a; b], x = b *)
Definition ex_var (s : name) : bool := match s with 31 => true | _ => false end.
Definition ex_run (s : name) : bool := match s with 32 => true | _ => false end.
Definition ex_flag (s : name) : option rflag := match s with 33 => Some FSingle | _ => None end.
Definition ex_opt_cli (s : name) : bool := match s with 22 | 23 | 26 | 33 | 35 => true | _ => false end.
Definition ex_main argv dflt :=
  doit_main ex_star ex_match ex_base ex_false2 ex_rn ex_false1 ex_opt_cli ex_var ex_run ex_flag argv dflt ex_tb.
Example C12_example_cli :
  ex_main [31; 32; 33; 0; 30] None = RNotFound 30 /\
  ex_main [30] (Some [0]) = RNotFound 30 /\
  (exists tb tg, ex_main [31] (Some [0]) = ROk tb tg [0]) /\
  (exists tb tg, ex_main [0; 31; 4] None = ROk tb tg [0; 4]) /\
  ex_main [30; 32; 0] None = RNotFound 30 /\
  ex_main [0; 34] None = RNotFound 34 /\
  ex_main [32; 35; 0] None = RParseErr /\
  cli_split ex_opt_cli ex_var ex_run ex_flag [31; 32; 33; 0; 4] = Some (true, false, [0; 4]) /\
  (exists tb tg, ex_main [31; 32; 33; 0; 4] None = ROk tb tg [0; 4] /\ task_dep_of tb 0 = []) /\
  (exists c, Select.init ex_match ex_tb = inr c /\ SelectP.plain_sel ex_star ex_opt_cli (c_tasks c) [0; 4] /\
             known (c_targets c) (c_tasks c) 4).
Proof.
  repeat match goal with |- _ /\ _ => split end; try (vm_compute; eauto; fail).
  eexists. split; [vm_compute; reflexivity|]. split.
  - unfold SelectP.plain_sel. repeat constructor; intros Hs t Hl; vm_compute in Hl; inversion Hl; reflexivity.
  - left. vm_compute. reflexivity.
Qed.

(* two spellings of one path are two names.  strings as above plus 9 './out.txt'.  b declares the target
   './out.txt' (9), a has file_dep 'out.txt' (5):  `doit run ./out.txt` selects b;  `doit run out.txt` is refused
   naming out.txt;  a gets no implicit task_dep on b.  With the declaration spelled 'out.txt' (ex_tb) it is the
   other way round.  (Hypotheses of C12_target_lookup_exact: init succeeds, 9 / 5 is no task name.) *)
Definition ex_tb_sp : table := [(0, ex_task [] [] [5] [] false None); (4, ex_task [] [] [] [9] false None)].
Definition ex_select_sp args :=
  cmd_run_select ex_star ex_match ex_base ex_false2 ex_rn ex_false1 ex_opt false false args None ex_tb_sp.
Example C12_example_target_spelling :
  (exists tb tg, ex_select_sp [9] = ROk tb tg [4] /\ task_dep_of tb 0 = [] /\ has tb 9 = false) /\
  ex_select_sp [5] = RNotFound 5 /\
  (exists tb tg, ex_select false [5] None = ROk tb tg [4] /\ task_dep_of tb 0 = [4]) /\
  ex_select false [9] None = RNotFound 9.
Proof. vm_compute. repeat split; eauto 6. Qed.

(* --single g: the group keeps its sub-tasks, g:x lost its task_dep on a; --single a b: both without task_dep *)
Example C12_example_single :
  (exists tb tg, ex_select true [1] None = ROk tb tg [1] /\ task_dep_of tb 1 = [2; 3] /\ task_dep_of tb 2 = [] /\
                 task_dep_of tb 4 = [2; 3]) /\
  (exists tb tg, ex_select true [0; 4] None = ROk tb tg [0; 4] /\ task_dep_of tb 0 = [] /\ task_dep_of tb 4 = [] /\
                 task_dep_of tb 2 = [0]).
Proof. vm_compute. split; eexists; eexists; repeat split. Qed.

(* task arguments.  p declares pos_arg, o the options -f and -v VALUE:
   `'*' a zz`: the pattern matches p and o, yet a is selected and zz rejected;  `o -f -v val a`: the options are
   consumed;  `p a zz`: a and zz are values of p;  `o -z`: option parse error;  `'*' p a`: p got () from the
   pattern, so a is an element;  the hypothesis of C12_plain_expansion holds for ['*'; a; zz] *)
Definition ex_tb2 : table :=
  [(0, ex_task [] [] [] [] false None); (20, Build_stask [] [] [] [] [] [] false None None true []);
   (21, Build_stask [] [] [] [] [] [] false None None false [(22, false); (23, true)])].
Definition ex_select2 args :=
  cmd_run_select ex_star ex_match ex_base ex_false2 ex_rn ex_false1 ex_opt false false args None ex_tb2.
Example C12_example_arguments :
  ex_select2 [25; 0; 7] = RNotFound 7 /\
  (exists tb tg, ex_select2 [25; 0] = ROk tb tg [20; 21; 0]) /\
  (exists tb tg, ex_select2 [21; 22; 23; 24; 0] = ROk tb tg [21; 0]) /\
  (exists tb tg, ex_select2 [20; 0; 7] = ROk tb tg [20]) /\
  ex_select2 [21; 26] = RParseErr /\
  (exists tb tg, ex_select2 [25; 20; 0] = ROk tb tg [20; 21; 20; 0]) /\
  plain_sel ex_star ex_opt ex_tb2 [25; 0; 7].
Proof.
  repeat match goal with |- _ /\ _ => split end; try (vm_compute; eauto; fail).
  unfold plain_sel. repeat constructor; intros Hs t Hl; vm_compute in Hs, Hl; try discriminate; inversion Hl; reflexivity.
Qed.

(* a delayed creator d (string 10) : 'd:7' (11, basename 10) is accepted by a placeholder task; the model
   (like the code) cannot know at selection time that the creator never yields it (finding K3, Part B) *)
Example C12_example_delayed :
  let tb := [(10, Build_stask [] [] [] [] [] [] false None (Some (Build_loader None None)) false [])] in
  exists tb' tg, select_core ex_star ex_match (fun s => match s with 11 => 10 | _ => s end) ex_false2 ex_rn ex_false1 ex_opt
                             false false (Some [11]) tb = ROk tb' tg [11] /\ has tb' 11 = true.
Proof. vm_compute. eauto. Qed.

(* ---- the code before the repair 3703f81 (Task.init_options returned None the second time it ran on a
   task): a task named twice cut the selection -- `doit run b b c zz` selected [b; b], the unknown zz was
   never rejected; under --single (selection processed twice) only the first name survived ---- *)
Theorem C12_repeat_legacy_refuted :
  exists has_star matches order tb inited sel,
    fst (process_filter_legacy has_star matches order tb inited sel) <> Select.expand_sel has_star matches order sel.
Proof.
  exists ex_star, ex_match, [0; 4], [(0, ex_task [] [] [] [] false None); (4, ex_task [] [] [] [] false None)], [], [4; 4; 0; 7].
  vm_compute. discriminate.
Qed.
Print Assumptions C12_repeat_legacy_refuted.

(* ... whereas a selection naming no task twice was expanded completely even then *)
Theorem C12_norepeat_legacy : forall has_star matches order tb sel inited,
  NoDup (Select.expand_sel has_star matches order sel) ->
  (forall x, In x (Select.expand_sel has_star matches order sel) -> ~ In x inited) ->
  fst (process_filter_legacy has_star matches order tb inited sel) = Select.expand_sel has_star matches order sel.
Proof. intros. apply process_filter_legacy_norepeat; auto. Qed.
Print Assumptions C12_norepeat_legacy.

(* ---- the code before the repair 01f48fb (_filter_tasks did not remember the placeholder tasks it makes for
   `basename:sub` names of a delayed creator): `doit run --auto-delayed-regex d:1 other.txt` -- the regex loop
   matched other.txt with the creator d AND with the placeholder d:1 (same loader object), created
   `_regex_target_other.txt:d:1` and left loader.basename = 'd:1' (tasks d:1:1.. created, or a KeyError).
   strings: 10 'd' (create_after creator, no target_regex)  11 'd:1'  12 'other.txt'
            100+k '_regex_target_other.txt:<k>' ---- *)
Definition ex_base3 (s : name) : name := match s with 11 => 10 | _ => s end.
Definition ex_rn3 (f k : name) : name := 100 + k.
Definition ex_isrn3 (s : name) : bool := 100 <=? s.
Definition ex_tb3 : table := [(10, Build_stask [] [] [] [] [] [] false None (Some (Build_loader None None)) false [])].

Theorem C12_subtask_placeholder_legacy_refuted :
  exists basename_of re_match regex_name is_regex_name auto tg tb f1 f2 tb',
    (forall x k, is_regex_name (regex_name x k) = true) /\
    has tb f1 = false /\
    Select.filter_list_legacy basename_of re_match regex_name is_regex_name auto tg tb [f1; f2] =
      inr (tb', [f1; regex_name f2 (basename_of f1); regex_name f2 f1]) /\
    has tb' (regex_name f2 f1) = true.
Proof.
  exists ex_base3, ex_false2, ex_rn3, ex_isrn3, true, [], ex_tb3, 11, 12.
  eexists. split; [|split; [|split]].
  - intros x k. apply N.leb_le. apply N.le_add_r.
  - reflexivity.
  - vm_compute. reflexivity.
  - vm_compute. reflexivity.
Qed.
Print Assumptions C12_subtask_placeholder_legacy_refuted.

(* the same input through the repaired loop: only the creator d is matched; and the hypotheses of
   C12_regex_never_for_subtask_placeholder are satisfiable with a non-empty set of placeholders and a
   non-empty match (prefix [d:1], next element other.txt) *)
Example C12_example_subtask_placeholder :
  (exists tb', Select.filter_list ex_base3 ex_false2 ex_rn3 ex_isrn3 true [] [] ex_tb3 [11; 12] = inr ([11], tb', [11; 110]) /\
               has tb' 111 = false) /\
  (forall x k, ex_isrn3 (ex_rn3 x k) = true) /\
  exists tb1 l, SelectP.resolves_all ex_base3 ex_false2 ex_rn3 ex_isrn3 true [] [] ex_tb3 [11] [11] tb1 [11] /\
                Select.delayed_matched ex_false2 ex_isrn3 true [11] tb1 12 = [(10, l)].
Proof.
  split; [eexists; split; vm_compute; reflexivity|]. split.
  - intros x k. apply N.leb_le. apply N.le_add_r.
  - eexists. eexists. split.
    + apply filter_list_ok. vm_compute. reflexivity.
    + vm_compute. reflexivity.
Qed.

(* ================================================================== the run: closure and order
   Model/Dispatch.v (TaskDispatcher) + Model/Runner.v (serial Runner) over a static task table;
   run_serial tasks wake_rank calc_rank continue_ always fuel selection = (trace, exit code); every fuel =
   every prefix of every run.  Proofs/OrderP.v.
     eff_dep tasks t y    y is an effective dependency of t: task_dep (explicit, wild-card, implicit through
                          targets, result_dep, loader), calc_dep, setup (explicit, getargs), and whatever the
                          calc_dep tasks of t return (transitively)               (Proofs/RunnerP.v)
     reach tasks x y      one or more eff_dep steps from x to y                    (Proofs/AncP.v)
     needed tasks roots x x is one of roots or reachable from one of them
     ev_task e            the task an event is about (get_status, skip, execute, success/failure, save/remove of
                          the DB record, teardown, interrupt); None for close / the two cycle diagnostics
     all_done pre tr      every task of pre has EGetStatus (handed to the runner) AND a final report in tr *)
From DoitV Require Import Dispatch Runner RunnerP AncP HoldP OrderP.

(* upper half of "exactly the closure": whatever the table (cyclic or not), the flags, the set-order
   oracles, the fuel: every event of the trace is about a selected task or a task reachable from one
   through effective dependencies -- nothing outside the closure is examined, executed, reported, saved,
   removed or torn down ... *)
Theorem C12_nothing_outside_closure_serial :
  forall tasks wake_rank calc_rank continue_ always fuel selection e k,
  In e (fst (run_serial tasks wake_rank calc_rank continue_ always fuel selection)) -> ev_task e = Some k ->
  needed tasks selection k.
Proof. exact serial_closure_events. Qed.
Print Assumptions C12_nothing_outside_closure_serial.

(* ... and no ExecNode is ever created for a task outside it *)
Theorem C12_no_node_outside_closure_serial :
  forall tasks wake_rank calc_rank continue_ always fuel selection r' s,
  serial tasks wake_rank calc_rank continue_ always fuel (r_init selection) None = (r', s) ->
  forall x, d_nodes (r_d r') x <> None -> needed tasks selection x.
Proof. exact serial_closure_nodes. Qed.
Print Assumptions C12_no_node_outside_closure_serial.

(* the order.  selection = pre ++ post, table without a cycle of effective dependencies: a task b that is
   not needed by pre (b is not in pre and no task of pre reaches it) is not touched -- no event about b, in
   particular not its first one, reporter.get_status -- before EVERY task of pre was handed to the runner
   and got its final report.  So the selected tasks are started in the order given, except that a task
   needed by an earlier one (or by the task itself) comes first.  Any flags, oracles, fuel. *)
Theorem C12_serial_order :
  forall tasks wake_rank calc_rank continue_ always,
  (forall k, ~ reach tasks k k) ->
  forall fuel pre post b e tpre tpost,
  ev_task e = Some b -> ~ needed tasks pre b ->
  fst (run_serial tasks wake_rank calc_rank continue_ always fuel (pre ++ post)) = tpre ++ e :: tpost ->
  all_done pre tpre.
Proof. exact serial_selection_order. Qed.
Print Assumptions C12_serial_order.

(* for two selected tasks: a listed before b, b needed neither by a nor by a task listed before a *)
Theorem C12_serial_order_pair :
  forall tasks wake_rank calc_rank continue_ always,
  (forall k, ~ reach tasks k k) ->
  forall fuel l1 a l2 b l3 e tpre tpost,
  ev_task e = Some b -> ~ needed tasks (l1 ++ [a]) b ->
  fst (run_serial tasks wake_rank calc_rank continue_ always fuel (l1 ++ a :: l2 ++ b :: l3)) = tpre ++ e :: tpost ->
  In (EGetStatus a) tpre /\ finished_in tpre a.
Proof. exact serial_order_pair. Qed.
Print Assumptions C12_serial_order_pair.

(* non-vacuity.  0 -> 3, 1 -> 4 (task_dep), 2: `doit run 1 0 4 2` examines 4 1 3 0 2: 4 comes before 1
   (needed by it) and is not examined again; 0, 3, 2 come after 1 and 4 are finished.  The table is
   acyclic (effective dependencies go to larger numbers) and the hypotheses hold for pre = [1], b = 0 *)
Definition ex12o (n : name) : option task :=
  match n with
  | 0 => Some (Build_task [3] [] [] false false CkRun false OOk [] [] [])
  | 1 => Some (Build_task [4] [] [] false false CkRun false OOk [] [] [])
  | 2 | 3 | 4 => Some (Build_task [] [] [] false false CkRun false OOk [] [] [])
  | _ => None end.
Ltac name_cases x :=
  destruct x as [|x]; [|destruct x as [x|x|]; [destruct x as [x|x|]; [destruct x as [x|x|]|destruct x as [x|x|]|]
                                              |destruct x as [x|x|]; [destruct x as [x|x|]|destruct x as [x|x|]|]|]].
Lemma ex12o_no_calc x c : ~ eff_calc ex12o x c.
Proof. intros H. induction H as [c H|c c' _ IH _]; [|exact IH]. name_cases x; simpl in H; tauto. Qed.
Lemma ex12o_static x y : eff_dep ex12o x y -> (x = 0 /\ y = 3) \/ (x = 1 /\ y = 4).
Proof.
  intros [H|c H _]; [|exfalso; exact (ex12o_no_calc x c H)].
  unfold static_deps, get_task in H. name_cases x; simpl in H; intuition lia.
Qed.
Example C12_serial_order_nonvacuous :
  (forall k, ~ reach ex12o k k) /\ ~ needed ex12o [1] 0 /\ ~ needed ex12o [1] 3 /\ needed ex12o [1] 4 /\
  fst (run_serial ex12o (fun _ _ => 0) (fun _ => 0) false false 100 ([1] ++ [0; 4; 2])) =
    [EGetStatus 4; EExecute 4; ESave 4; ESuccess 4; EGetStatus 1; EExecute 1; ESave 1; ESuccess 1] ++ EGetStatus 3 ::
    [EExecute 3; ESave 3; ESuccess 3; EGetStatus 0; EExecute 0; ESave 0; ESuccess 0;
     EGetStatus 2; EExecute 2; ESave 2; ESuccess 2; EClose].
Proof.
  assert (Hcl : forall x, ~ needed ex12o [1] x \/ x = 1 \/ x = 4).
  { intros x. destruct (N.eq_dec x 1) as [->|H1]; auto. destruct (N.eq_dec x 4) as [->|H4]; auto. left.
    intros (p & [<-|[]] & [E|Hr]); [congruence|].
    assert (S : x = 1 \/ x = 4).
    { apply (reach_closed ex12o (fun z => z = 1 \/ z = 4)) with (x := 1); auto.
      intros a b Ha Hab. destruct (ex12o_static a b Hab) as [[-> ->]|[-> ->]]; [destruct Ha; discriminate|auto]. }
    destruct S; contradiction. }
  split; [|split; [|split; [|split]]].
  - apply (ranked_acyclic ex12o (fun x => x)). intros x y H. destruct (ex12o_static x y H) as [[-> ->]|[-> ->]]; reflexivity.
  - destruct (Hcl 0) as [H|[H|H]]; [exact H|discriminate|discriminate].
  - destruct (Hcl 3) as [H|[H|H]]; [exact H|discriminate|discriminate].
  - exists 1. split; [left; reflexivity|]. right. apply re_step. apply ed_static. vm_compute. auto.
  - vm_compute. reflexivity.
Qed.

(* the condition is about everything listed up to a, not about a alone: `doit run 0 1 2` with 0 -> 2:
   2 is examined before 1 although 1 is listed first and does not need it *)
Definition ex12p (n : name) : option task :=
  match n with
  | 0 => Some (Build_task [2] [] [] false false CkRun false OOk [] [] [])
  | 1 | 2 => Some (Build_task [] [] [] false false CkRun false OOk [] [] [])
  | _ => None end.
Example C12_serial_order_earlier_needs :
  fst (run_serial ex12p (fun _ _ => 0) (fun _ => 0) false false 100 [0; 1; 2]) =
  [EGetStatus 2; EExecute 2; ESave 2; ESuccess 2; EGetStatus 0; EExecute 0; ESave 0; ESuccess 0;
   EGetStatus 1; EExecute 1; ESave 1; ESuccess 1; EClose].
Proof. vm_compute. reflexivity. Qed.

(* over a cyclic table the order statement is false: 0 -> 2, 3;  2 -> 3;  3 -> 2 (the two nodes are created
   by 0, neither finds the other among its ancestors); `doit run 0 1`: 0, 2, 3 wait for each other, the
   dispatcher takes 1 from tasks_to_run and runs it, then reports the dead-lock (exit code 3); 0 is never
   examined although it is listed first and 1 is not needed by it *)
Definition ex12c (n : name) : option task :=
  match n with
  | 0 => Some (Build_task [2; 3] [] [] false false CkRun false OOk [] [] [])
  | 1 => Some (Build_task [] [] [] false false CkRun false OOk [] [] [])
  | 2 => Some (Build_task [3] [] [] false false CkRun false OOk [] [] [])
  | 3 => Some (Build_task [2] [] [] false false CkRun false OOk [] [] [])
  | _ => None end.
Lemma ex12c_no_calc x c : ~ eff_calc ex12c x c.
Proof. intros H. induction H as [c H|c c' _ IH _]; [|exact IH]. name_cases x; simpl in H; tauto. Qed.
Theorem C12_serial_order_needs_acyclic :
  exists tasks pre post b tpre tpost,
    ~ needed tasks pre b /\
    run_serial tasks (fun _ _ => 0) (fun _ => 0) false false 100 (pre ++ post) = (tpre ++ EGetStatus b :: tpost, 3) /\
    ~ all_done pre tpre /\ (forall a, In a pre -> ~ In (EGetStatus a) (tpre ++ EGetStatus b :: tpost)).
Proof.
  exists ex12c, [0], [1], 1, [], [EExecute 1; ESave 1; ESuccess 1; EClose; EHoldError].
  split; [|split; [vm_compute; reflexivity|split]].
  - intros (p & [<-|[]] & [E|Hr]); [discriminate|].
    assert (S : 1 <> 1); [|congruence].
    apply (reach_closed ex12c (fun z => z <> 1)) with (x := 0); [|discriminate|exact Hr].
    intros a b Ha [H|c H _]; [|exfalso; exact (ex12c_no_calc a c H)].
    unfold static_deps, get_task in H. name_cases a; simpl in H; intuition lia.
  - intros H. destruct (H 0 (or_introl eq_refl)) as [[] _].
  - intros a [<-|[]] Hin. simpl in Hin. intuition discriminate.
Qed.
Print Assumptions C12_serial_order_needs_acyclic.

From DoitV Require Import Parallel ParClosureP WholeOutcomeEx.
(* the same for the PARALLEL runners (Proofs/ParClosureP.v): every event of the merged log that names a task --
   reporter / dep_manager events, PStart / PEnd / PTdRun in a worker, the marker of the interrupt that ended the
   run -- is about a selected task or a task reachable from one through effective dependencies; any table, flags,
   oracles, flavour, worker count, schedule and fuel (hence every prefix of the run)
   [pev_task (PE e) = ev_task e; pev_task (PStart k w) = pev_task (PEnd k w) = pev_task (PTdRun k w) = Some k] *)
Theorem C12_nothing_outside_closure_parallel :
  forall tasks wake_rank calc_rank continue_ always proc selection fuel nprocs sched pe k,
  In pe (fst (run_parallel tasks wake_rank calc_rank continue_ always proc fuel nprocs sched selection)) ->
  pev_task pe = Some k -> needed tasks selection k.
Proof. exact parallel_closure_events. Qed.
Print Assumptions C12_nothing_outside_closure_parallel.

Theorem C12_nothing_started_outside_closure_parallel :
  forall tasks wake_rank calc_rank continue_ always proc selection fuel nprocs sched k w,
  In (PStart k w) (fst (run_parallel tasks wake_rank calc_rank continue_ always proc fuel nprocs sched selection)) ->
  needed tasks selection k.
Proof. exact parallel_closure_starts. Qed.
Print Assumptions C12_nothing_started_outside_closure_parallel.

(* non-vacuity: in the run of ParLiveEx.exl the non-selected task 1 is started in a worker; it is needed *)
Example C12_parallel_closure_nonvacuous :
  In (PStart 1 0) (fst WholeOutcomeEx.exl_par) \/ In (PStart 1 1) (fst WholeOutcomeEx.exl_par).
Proof. vm_compute. tauto. Qed.
