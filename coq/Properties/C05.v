(* C05 -- Failures are contained and never recorded as success.
   Statements only.  Proofs: Proofs/RunnerTr.v (trace shape), Proofs/RunnerP.v on top of
   Proofs/DispatchInv.v (containment: the dispatcher records the outcome of every finished
   dependency in the waiting node's bad_deps / ignored_deps before the node is handed over). *)
From DoitV Require Import Base Dispatch Runner Parallel DispatchP DispatchInv RunnerTr RunnerP ParallelP.
Open Scope N_scope.

(* serial runner: every failure report (TaskFailed, TaskError, unmet dependency, dependency error
   before or after execution) is immediately preceded by remove_success of that task *)
Theorem C05_failure_removed_serial :
  forall tasks wake_rank calc_rank continue_ always fuel selection pre k kind post,
    fst (run_serial tasks wake_rank calc_rank continue_ always fuel selection) = pre ++ EFailure k kind :: post ->
    exists pre', pre = pre' ++ [ERemove k].
Proof.
  intros tasks wake_rank calc_rank continue_ always fuel selection pre k kind post E.
  destruct (serial_shape tasks wake_rank calc_rank continue_ always fuel selection) as (body & s & Hp & _ & [(_ & E1 & _)|(_ & E1 & _)]);
    cbv zeta in E1; rewrite E1 in E.
  - eapply paired_failure_removed; eauto.
  - assert (Hfull : paired (body ++ EClose :: map ETeardown (rev (filter (has_td tasks) (execs body))) ++ stop_marker s)).
    { apply paired_app_plain; auto. simpl. rewrite forallb_app.
      replace (forallb (fun e => negb (is_pair_ev e)) (stop_marker s)) with true by (destruct s; reflexivity).
      rewrite andb_true_r. generalize (rev (filter (has_td tasks) (execs body))) as l.
      induction l; simpl; auto. }
    eapply paired_failure_removed; eauto.
Qed.
Print Assumptions C05_failure_removed_serial.

(* containment: the actions of a task start only after EVERY task it effectively depends on -- what it
   declares as task_dep (explicit, implicit through targets), calc_dep or setup-task, AND everything
   returned by its calc_dep tasks (transitively) [eff_dep, Proofs/RunnerP.v] -- got a final report, and
   that report is success or up-to-date *)
Theorem C05_contained_serial :
  forall tasks wake_rank calc_rank continue_ always fuel selection pre t post x,
    fst (run_serial tasks wake_rank calc_rank continue_ always fuel selection) = pre ++ EExecute t :: post ->
    eff_dep tasks t x -> good_in pre x.
Proof.
  intros tasks wake_rank calc_rank continue_ always fuel selection pre t post x E Hx.
  exact (cordered_split tasks _ (serial_contained tasks wake_rank calc_rank continue_ always fuel selection) pre t post E x Hx).
Qed.
Print Assumptions C05_contained_serial.

(* ... hence a task with a dependency that failed (any kind), has an unmet dependency of its own, or
   was ignored is never executed in that run, --continue or not *)
Theorem C05_failed_dependency_never_runs_serial :
  forall tasks wake_rank calc_rank continue_ always fuel selection t x e,
    let tr := fst (run_serial tasks wake_rank calc_rank continue_ always fuel selection) in
    eff_dep tasks t x -> In e tr -> is_final_ev x e = true -> is_good_ev e = false ->
    ~ In (EExecute t) tr.
Proof. exact serial_bad_dep_never_runs. Qed.
Print Assumptions C05_failed_dependency_never_runs_serial.

Definition ex05 (n : name) : option task :=
  match n with
  | 0 => Some (Build_task [1] [2] [] false false CkRun false OOk [] [] [])
  | 1 => Some (Build_task [] [] [] false false CkRun false OFail [] [] [])
  | 2 => Some (Build_task [] [] [] false false CkRun false OOk [] [] [])
  | _ => None end.
Example C05_contained_nonvacuous :
  fst (run_serial ex05 (fun _ _ => 0) (fun _ => 0) true false 100 [0; 2]) =
    [EGetStatus 1; EExecute 1; ERemove 1; EFailure 1 0; EGetStatus 0; ERemove 0; EFailure 0 2;
     EGetStatus 2; EExecute 2; ESave 2; ESuccess 2; EClose].
Proof. vm_compute. reflexivity. Qed.

Example C05_nonvacuous : exists pre,
  fst (run_serial (fun n => match n with 0 => Some (Build_task [] [] [] false false CkRun false OError [] [] []) | _ => None end)
                  (fun _ _ => 0) (fun _ => 0) false false 50 [0]) = pre ++ EFailure 0 1 :: [EClose].
Proof. exists [EGetStatus 0; EExecute 0; ERemove 0]. vm_compute. reflexivity. Qed.

(* the same for the parallel runners (processes: proc = true, threads: proc = false), every number of
   workers and EVERY schedule: the actions of a task are started by a worker only after each declared
   dependency was reported successful or up-to-date by the main process *)
Theorem C05_contained_parallel :
  forall tasks wake_rank calc_rank continue_ always proc fuel nprocs sched selection pre t w post x,
    fst (run_parallel tasks wake_rank calc_rank continue_ always proc fuel nprocs sched selection) = pre ++ PStart t w :: post ->
    eff_dep tasks t x -> pgood pre x.
Proof.
  intros tasks wake_rank calc_rank continue_ always proc fuel nprocs sched selection pre t w post x E Hx.
  exact (pcordered_split tasks _ (parallel_contained tasks wake_rank calc_rank continue_ always proc fuel nprocs sched selection) pre t w post E x Hx).
Qed.
Print Assumptions C05_contained_parallel.

Theorem C05_failed_dependency_never_runs_parallel :
  forall tasks wake_rank calc_rank continue_ always proc fuel nprocs sched selection t w x e,
    let log := fst (run_parallel tasks wake_rank calc_rank continue_ always proc fuel nprocs sched selection) in
    eff_dep tasks t x -> In (PE e) log -> is_final_ev x e = true -> is_good_ev e = false ->
    ~ In (PStart t w) log.
Proof. exact parallel_bad_dep_never_runs. Qed.
Print Assumptions C05_failed_dependency_never_runs_parallel.

Theorem C05_failure_removed_parallel :
  forall tasks wake_rank calc_rank continue_ always proc fuel nprocs sched selection pre k kind post,
    proj (fst (run_parallel tasks wake_rank calc_rank continue_ always proc fuel nprocs sched selection)) = pre ++ EFailure k kind :: post ->
    exists pre', pre = pre' ++ [ERemove k].
Proof. exact parallel_failure_removed. Qed.
Print Assumptions C05_failure_removed_parallel.

(* NOT PROVED here: that NOTHING reaches the
   DB for a failed task is C07's refinement applied to the ERemove/ESave events above. *)
