(* C05 -- Failures are contained and never recorded as success.
   Statements only.  Proofs: Proofs/RunnerTr.v (trace shape), Proofs/RunnerP.v on top of
   Proofs/DispatchInv.v (containment: the dispatcher records the outcome of every finished
   dependency in the waiting node's bad_deps / ignored_deps before the node is handed over). *)
From DoitV Require Import Base Dispatch Runner Parallel DispatchP DispatchInv RunnerTr RunnerP ParallelP.
From DoitV Require Import AncP HoldP CompleteP TermP LiveP OutcomeSpec OutcomeInvP OutcomeSerialP OutcomeParP OutcomeLiveP.
Open Scope N_scope.

(* serial runner: every failure report (TaskFailed, TaskError, unmet dependency, dependency error
   before or after execution) is immediately preceded by remove_success of that task *)
Theorem C05_failure_removed_serial :
  forall tasks wake_rank calc_rank continue_ always fuel selection pre k kind post,
    fst (run_serial tasks wake_rank calc_rank continue_ always fuel selection) = pre ++ EFailure k kind :: post ->
    exists pre', pre = pre' ++ [ERemove k].
Proof.
  intros tasks wake_rank calc_rank continue_ always fuel selection pre k kind post E.
  destruct (serial_shape tasks wake_rank calc_rank continue_ always fuel selection) as (body & s & Hp & _ & [(_ & E1 & _)|(_ & E1 & _)]);
    cbv zeta in E1; rewrite E1 in E.
  - eapply paired_failure_removed; eauto.
  - assert (Hfull : paired (body ++ EClose :: map ETeardown (rev (filter (has_td tasks) (execs body))) ++ stop_marker s)).
    { apply paired_app_plain; auto. simpl. rewrite forallb_app.
      replace (forallb (fun e => negb (is_pair_ev e)) (stop_marker s)) with true by (destruct s; reflexivity).
      rewrite andb_true_r. generalize (rev (filter (has_td tasks) (execs body))) as l.
      induction l; simpl; auto. }
    eapply paired_failure_removed; eauto.
Qed.
Print Assumptions C05_failure_removed_serial.

(* containment: the actions of a task start only after EVERY task it effectively depends on -- what it
   declares as task_dep (explicit, implicit through targets), calc_dep or setup-task, AND everything
   returned by its calc_dep tasks (transitively) [eff_dep, Proofs/RunnerP.v] -- got a final report, and
   that report is success or up-to-date *)
Theorem C05_contained_serial :
  forall tasks wake_rank calc_rank continue_ always fuel selection pre t post x,
    fst (run_serial tasks wake_rank calc_rank continue_ always fuel selection) = pre ++ EExecute t :: post ->
    eff_dep tasks t x -> good_in pre x.
Proof.
  intros tasks wake_rank calc_rank continue_ always fuel selection pre t post x E Hx.
  exact (cordered_split tasks _ (serial_contained tasks wake_rank calc_rank continue_ always fuel selection) pre t post E x Hx).
Qed.
Print Assumptions C05_contained_serial.

(* ... hence a task with a dependency that failed (any kind), has an unmet dependency of its own, or
   was ignored is never executed in that run, --continue or not *)
Theorem C05_failed_dependency_never_runs_serial :
  forall tasks wake_rank calc_rank continue_ always fuel selection t x e,
    let tr := fst (run_serial tasks wake_rank calc_rank continue_ always fuel selection) in
    eff_dep tasks t x -> In e tr -> is_final_ev x e = true -> is_good_ev e = false ->
    ~ In (EExecute t) tr.
Proof. exact serial_bad_dep_never_runs. Qed.
Print Assumptions C05_failed_dependency_never_runs_serial.

Definition ex05 (n : name) : option task :=
  match n with
  | 0 => Some (Build_task [1] [2] [] false false CkRun false OOk [] [] [])
  | 1 => Some (Build_task [] [] [] false false CkRun false OFail [] [] [])
  | 2 => Some (Build_task [] [] [] false false CkRun false OOk [] [] [])
  | _ => None end.
Example C05_contained_nonvacuous :
  fst (run_serial ex05 (fun _ _ => 0) (fun _ => 0) true false 100 [0; 2]) =
    [EGetStatus 1; EExecute 1; ERemove 1; EFailure 1 0; EGetStatus 0; ERemove 0; EFailure 0 2;
     EGetStatus 2; EExecute 2; ESave 2; ESuccess 2; EClose].
Proof. vm_compute. reflexivity. Qed.

Example C05_nonvacuous : exists pre,
  fst (run_serial (fun n => match n with 0 => Some (Build_task [] [] [] false false CkRun false OError [] [] []) | _ => None end)
                  (fun _ _ => 0) (fun _ => 0) false false 50 [0]) = pre ++ EFailure 0 1 :: [EClose].
Proof. exists [EGetStatus 0; EExecute 0; ERemove 0]. vm_compute. reflexivity. Qed.

(* the same for the parallel runners (processes: proc = true, threads: proc = false), every number of
   workers and EVERY schedule: the actions of a task are started by a worker only after each declared
   dependency was reported successful or up-to-date by the main process *)
Theorem C05_contained_parallel :
  forall tasks wake_rank calc_rank continue_ always proc fuel nprocs sched selection pre t w post x,
    fst (run_parallel tasks wake_rank calc_rank continue_ always proc fuel nprocs sched selection) = pre ++ PStart t w :: post ->
    eff_dep tasks t x -> pgood pre x.
Proof.
  intros tasks wake_rank calc_rank continue_ always proc fuel nprocs sched selection pre t w post x E Hx.
  exact (pcordered_split tasks _ (parallel_contained tasks wake_rank calc_rank continue_ always proc fuel nprocs sched selection) pre t w post E x Hx).
Qed.
Print Assumptions C05_contained_parallel.

Theorem C05_failed_dependency_never_runs_parallel :
  forall tasks wake_rank calc_rank continue_ always proc fuel nprocs sched selection t w x e,
    let log := fst (run_parallel tasks wake_rank calc_rank continue_ always proc fuel nprocs sched selection) in
    eff_dep tasks t x -> In (PE e) log -> is_final_ev x e = true -> is_good_ev e = false ->
    ~ In (PStart t w) log.
Proof. exact parallel_bad_dep_never_runs. Qed.
Print Assumptions C05_failed_dependency_never_runs_parallel.

Theorem C05_failure_removed_parallel :
  forall tasks wake_rank calc_rank continue_ always proc fuel nprocs sched selection pre k kind post,
    proj (fst (run_parallel tasks wake_rank calc_rank continue_ always proc fuel nprocs sched selection)) = pre ++ EFailure k kind :: post ->
    exists pre', pre = pre' ++ [ERemove k].
Proof. exact parallel_failure_removed. Qed.
Print Assumptions C05_failure_removed_parallel.

(* NOT PROVED here: that NOTHING reaches the
   DB for a failed task is C07's refinement applied to the ERemove/ESave events above. *)

(* --continue processes everything else, WITH THE RIGHT OUTCOME.  [fin tasks always k r]
   (Proofs/OutcomeSpec.v): the outcome r the task table prescribes for task k -- ignored if an effective
   dependency is ignored (or the task is), else unmet-dependency failure if one failed, else get_status
   error, else up-to-date, else (run) by its setup-tasks, _get_task_args and its actions.
   A serial --continue run that ends normally (exit code 0/1/2) reports EVERY selected task, each with
   exactly that outcome: the failure of one task changes the outcome of the tasks that effectively
   depend on it (unmet dependency) and of no other task *)
Theorem C05_continue_right_outcome_serial :
  forall tasks wake_rank calc_rank always fuel selection,
    let res := run_serial tasks wake_rank calc_rank true always fuel selection in
    snd res <= 2 -> forall x, In x selection -> exists r, fin tasks always x r /\ In (ev_of x r) (fst res).
Proof. exact serial_continue_right_outcome. Qed.
Print Assumptions C05_continue_right_outcome_serial.

(* over a finite acyclic task table, with enough fuel: unless an action interrupts the run *)
Theorem C05_continue_right_outcome_acyclic :
  forall tasks univ selection, finite_table tasks univ -> (forall k, ~ reach tasks k k) ->
  forall wake_rank calc_rank always fuel, (enough_fuel tasks univ selection <= fuel)%nat ->
    let res := run_serial tasks wake_rank calc_rank true always fuel selection in
    snd res = 4 \/ forall x, In x selection -> exists r, fin tasks always x r /\ In (ev_of x r) (fst res).
Proof. exact serial_acyclic_right_outcome. Qed.
Print Assumptions C05_continue_right_outcome_acyclic.

(* every final report, of every run (with or without --continue, serial or parallel, cut short or
   not), is the one the task table prescribes *)
Theorem C05_right_outcome_serial :
  forall tasks wake_rank calc_rank continue_ always fuel selection k e,
    In e (fst (run_serial tasks wake_rank calc_rank continue_ always fuel selection)) -> is_final_ev k e = true ->
    exists r, fin tasks always k r /\ e = ev_of k r.
Proof. exact serial_outcome_sound. Qed.
Print Assumptions C05_right_outcome_serial.

Theorem C05_right_outcome_parallel :
  forall tasks wake_rank calc_rank continue_ always proc fuel nprocs sched selection k e,
    In (PE e) (fst (run_parallel tasks wake_rank calc_rank continue_ always proc fuel nprocs sched selection)) ->
    is_final_ev k e = true ->
    exists r, fin tasks always k r /\ e = ev_of k r.
Proof. exact parallel_outcome_sound. Qed.
Print Assumptions C05_right_outcome_parallel.

(* in particular: a task all of whose effective dependencies end well is not affected by failures
   elsewhere -- if it is reported, then as the table prescribes from ITS dependencies only.  E.g. the
   unmet-dependency failure is reported only for a task with a failed effective dependency: *)
Theorem C05_unmet_only_with_failed_dependency :
  forall tasks always k, fin tasks always k (FFail false kind_unmet) ->
    exists a x, is_failst (sta a x) = true /\ fin tasks always x (a x) /\
      (vdep tasks (sta a) k x \/ In x (t_setup (get_task tasks k))).
Proof.
  intros tasks always k H. inversion H as [k0 a p r D F S|k0 a r D F Dset Sec]; subst.
  - destruct p; simpl in S; try discriminate. inversion F as [| Hn Hdb (x & Hx & Hf)| | |]; subst.
    exists a, x. split; [exact Hf|]. split; [apply D; exact Hx|left; exact Hx].
  - inversion Sec as [|Hn (x & Hx & Hf)|r0 Hg He]; subst.
    + exists a, x. split; [exact Hf|]. split; [apply Dset; exact Hx|right; exact Hx].
    + exfalso. unfold exec_res in He. destruct (t_argerr (get_task tasks k)); [discriminate|].
      destruct (t_outcome (get_task tasks k)); discriminate.
Qed.
Print Assumptions C05_unmet_only_with_failed_dependency.

Example C05_right_outcome_nonvacuous :
  let tb := fun n => match n with
    | 0 => Some (Build_task [1] [] [] false false CkRun false OOk [] [] [])
    | 1 => Some (Build_task [] [] [] false false CkRun false OFail [] [] [])
    | 2 => Some (Build_task [] [] [] false false CkRun false OOk [] [] [])
    | _ => None end in
  snd (run_serial tb (fun _ _ => 0) (fun _ => 0) true false 100 [0; 2]) = 2 /\
  In (EFailure 0 kind_unmet) (fst (run_serial tb (fun _ _ => 0) (fun _ => 0) true false 100 [0; 2])) /\
  In (ESuccess 2) (fst (run_serial tb (fun _ _ => 0) (fun _ => 0) true false 100 [0; 2])).
Proof. vm_compute. tauto. Qed.
