(* C05 -- Failures are contained and never recorded as success.
   Statements only.  Proofs: Proofs/RunnerTr.v. *)
From DoitV Require Import Base Dispatch Runner RunnerTr.
Open Scope N_scope.

(* serial runner: every failure report (TaskFailed, TaskError, unmet dependency, dependency error
   before or after execution) is immediately preceded by remove_success of that task *)
Theorem C05_failure_removed_serial :
  forall tasks wake_rank calc_rank continue_ always fuel selection pre k kind post,
    fst (run_serial tasks wake_rank calc_rank continue_ always fuel selection) = pre ++ EFailure k kind :: post ->
    exists pre', pre = pre' ++ [ERemove k].
Proof.
  intros tasks wake_rank calc_rank continue_ always fuel selection pre k kind post E.
  destruct (serial_shape tasks wake_rank calc_rank continue_ always fuel selection) as (body & s & Hp & _ & [(_ & E1 & _)|(_ & E1 & _)]);
    cbv zeta in E1; rewrite E1 in E.
  - eapply paired_failure_removed; eauto.
  - assert (Hfull : paired (body ++ EClose :: map ETeardown (rev (filter (has_td tasks) (execs body))) ++ stop_marker s)).
    { apply paired_app_plain; auto. simpl. rewrite forallb_app.
      replace (forallb (fun e => negb (is_pair_ev e)) (stop_marker s)) with true by (destruct s; reflexivity).
      rewrite andb_true_r. generalize (rev (filter (has_td tasks) (execs body))) as l.
      induction l; simpl; auto. }
    eapply paired_failure_removed; eauto.
Qed.
Print Assumptions C05_failure_removed_serial.

Example C05_nonvacuous : exists pre,
  fst (run_serial (fun n => match n with 0 => Some (Build_task [] [] [] false false CkRun false OError [] [] []) | _ => None end)
                  (fun _ _ => 0) (fun _ => 0) false false 50 [0]) = pre ++ EFailure 0 1 :: [EClose].
Proof. exists [EGetStatus 0; EExecute 0; ERemove 0]. vm_compute. reflexivity. Qed.
