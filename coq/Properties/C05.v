(* C05 -- Failures are contained and never recorded as success.
   Statements only.  Proofs: Proofs/RunnerTr.v (trace shape), Proofs/RunnerP.v on top of
   Proofs/DispatchInv.v (containment: the dispatcher records the outcome of every finished
   dependency in the waiting node's bad_deps / ignored_deps before the node is handed over). *)
From DoitV Require Import Base Dispatch Runner Parallel DispatchP DispatchInv RunnerTr RunnerP ParallelP.
From DoitV Require Import AncP HoldP CompleteP TermP LiveP OutcomeSpec OutcomeInvP OutcomeSerialP OutcomeParP OutcomeLiveP.
Open Scope N_scope.

(* serial runner: every failure report (TaskFailed, TaskError, unmet dependency, dependency error
   before or after execution) is immediately preceded by remove_success of that task *)
Theorem C05_failure_removed_serial :
  forall tasks wake_rank calc_rank continue_ always fuel selection pre k kind post,
    fst (run_serial tasks wake_rank calc_rank continue_ always fuel selection) = pre ++ EFailure k kind :: post ->
    exists pre', pre = pre' ++ [ERemove k].
Proof.
  intros tasks wake_rank calc_rank continue_ always fuel selection pre k kind post E.
  destruct (serial_shape tasks wake_rank calc_rank continue_ always fuel selection) as (body & s & Hp & _ & [(_ & E1 & _)|(_ & E1 & _)]);
    cbv zeta in E1; rewrite E1 in E.
  - eapply paired_failure_removed; eauto.
  - assert (Hfull : paired (body ++ EClose :: map ETeardown (rev (filter (has_td tasks) (execs body))) ++ stop_marker s)).
    { apply paired_app_plain; auto. simpl. rewrite forallb_app.
      replace (forallb (fun e => negb (is_pair_ev e)) (stop_marker s)) with true by (destruct s; reflexivity).
      rewrite andb_true_r. generalize (rev (filter (has_td tasks) (execs body))) as l.
      induction l; simpl; auto. }
    eapply paired_failure_removed; eauto.
Qed.
Print Assumptions C05_failure_removed_serial.

(* containment: the actions of a task start only after EVERY task it effectively depends on -- what it
   declares as task_dep (explicit, implicit through targets), calc_dep or setup-task, AND everything
   returned by its calc_dep tasks (transitively) [eff_dep, Proofs/RunnerP.v] -- got a final report, and
   that report is success or up-to-date *)
Theorem C05_contained_serial :
  forall tasks wake_rank calc_rank continue_ always fuel selection pre t post x,
    fst (run_serial tasks wake_rank calc_rank continue_ always fuel selection) = pre ++ EExecute t :: post ->
    eff_dep tasks t x -> good_in pre x.
Proof.
  intros tasks wake_rank calc_rank continue_ always fuel selection pre t post x E Hx.
  exact (cordered_split tasks _ (serial_contained tasks wake_rank calc_rank continue_ always fuel selection) pre t post E x Hx).
Qed.
Print Assumptions C05_contained_serial.

(* ... hence a task with a dependency that failed (any kind), has an unmet dependency of its own, or
   was ignored is never executed in that run, --continue or not *)
Theorem C05_failed_dependency_never_runs_serial :
  forall tasks wake_rank calc_rank continue_ always fuel selection t x e,
    let tr := fst (run_serial tasks wake_rank calc_rank continue_ always fuel selection) in
    eff_dep tasks t x -> In e tr -> is_final_ev x e = true -> is_good_ev e = false ->
    ~ In (EExecute t) tr.
Proof. exact serial_bad_dep_never_runs. Qed.
Print Assumptions C05_failed_dependency_never_runs_serial.

Definition ex05 (n : name) : option task :=
  match n with
  | 0 => Some (Build_task [1] [2] [] false false CkRun false OOk [] [] [])
  | 1 => Some (Build_task [] [] [] false false CkRun false OFail [] [] [])
  | 2 => Some (Build_task [] [] [] false false CkRun false OOk [] [] [])
  | _ => None end.
Example C05_contained_nonvacuous :
  fst (run_serial ex05 (fun _ _ => 0) (fun _ => 0) true false 100 [0; 2]) =
    [EGetStatus 1; EExecute 1; ERemove 1; EFailure 1 0; EGetStatus 0; ERemove 0; EFailure 0 2;
     EGetStatus 2; EExecute 2; ESave 2; ESuccess 2; EClose].
Proof. vm_compute. reflexivity. Qed.

Example C05_nonvacuous : exists pre,
  fst (run_serial (fun n => match n with 0 => Some (Build_task [] [] [] false false CkRun false OError [] [] []) | _ => None end)
                  (fun _ _ => 0) (fun _ => 0) false false 50 [0]) = pre ++ EFailure 0 1 :: [EClose].
Proof. exists [EGetStatus 0; EExecute 0; ERemove 0]. vm_compute. reflexivity. Qed.

(* the same for the parallel runners (processes: proc = true, threads: proc = false), every number of
   workers and EVERY schedule: the actions of a task are started by a worker only after each declared
   dependency was reported successful or up-to-date by the main process *)
Theorem C05_contained_parallel :
  forall tasks wake_rank calc_rank continue_ always proc fuel nprocs sched selection pre t w post x,
    fst (run_parallel tasks wake_rank calc_rank continue_ always proc fuel nprocs sched selection) = pre ++ PStart t w :: post ->
    eff_dep tasks t x -> pgood pre x.
Proof.
  intros tasks wake_rank calc_rank continue_ always proc fuel nprocs sched selection pre t w post x E Hx.
  exact (pcordered_split tasks _ (parallel_contained tasks wake_rank calc_rank continue_ always proc fuel nprocs sched selection) pre t w post E x Hx).
Qed.
Print Assumptions C05_contained_parallel.

Theorem C05_failed_dependency_never_runs_parallel :
  forall tasks wake_rank calc_rank continue_ always proc fuel nprocs sched selection t w x e,
    let log := fst (run_parallel tasks wake_rank calc_rank continue_ always proc fuel nprocs sched selection) in
    eff_dep tasks t x -> In (PE e) log -> is_final_ev x e = true -> is_good_ev e = false ->
    ~ In (PStart t w) log.
Proof. exact parallel_bad_dep_never_runs. Qed.
Print Assumptions C05_failed_dependency_never_runs_parallel.

Theorem C05_failure_removed_parallel :
  forall tasks wake_rank calc_rank continue_ always proc fuel nprocs sched selection pre k kind post,
    proj (fst (run_parallel tasks wake_rank calc_rank continue_ always proc fuel nprocs sched selection)) = pre ++ EFailure k kind :: post ->
    exists pre', pre = pre' ++ [ERemove k].
Proof. exact parallel_failure_removed. Qed.
Print Assumptions C05_failure_removed_parallel.

(* That NOTHING is left in the DB for a failed task, and what that means for the next run, is proved at the
   end of this file (C05_failed_not_recorded_*, C05_failed_never_skipped_next_run). *)

(* --continue processes everything else, WITH THE RIGHT OUTCOME.  [fin tasks always k r]
   (Proofs/OutcomeSpec.v): the outcome r the task table prescribes for task k -- ignored if an effective
   dependency is ignored (or the task is), else unmet-dependency failure if one failed, else get_status
   error, else up-to-date, else (run) by its setup-tasks, _get_task_args and its actions.
   A serial --continue run that ends normally (exit code 0/1/2) reports EVERY selected task, each with
   exactly that outcome: the failure of one task changes the outcome of the tasks that effectively
   depend on it (unmet dependency) and of no other task *)
Theorem C05_continue_right_outcome_serial :
  forall tasks wake_rank calc_rank always fuel selection,
    let res := run_serial tasks wake_rank calc_rank true always fuel selection in
    snd res <= 2 -> forall x, In x selection -> exists r, fin tasks always x r /\ In (ev_of x r) (fst res).
Proof. exact serial_continue_right_outcome. Qed.
Print Assumptions C05_continue_right_outcome_serial.

(* over a finite acyclic task table, with enough fuel: unless an action interrupts the run *)
Theorem C05_continue_right_outcome_acyclic :
  forall tasks univ selection, finite_table tasks univ -> (forall k, ~ reach tasks k k) ->
  forall wake_rank calc_rank always fuel, (enough_fuel tasks univ selection <= fuel)%nat ->
    let res := run_serial tasks wake_rank calc_rank true always fuel selection in
    snd res = 4 \/ forall x, In x selection -> exists r, fin tasks always x r /\ In (ev_of x r) (fst res).
Proof. exact serial_acyclic_right_outcome. Qed.
Print Assumptions C05_continue_right_outcome_acyclic.

(* every final report, of every run (with or without --continue, serial or parallel, cut short or
   not), is the one the task table prescribes *)
Theorem C05_right_outcome_serial :
  forall tasks wake_rank calc_rank continue_ always fuel selection k e,
    In e (fst (run_serial tasks wake_rank calc_rank continue_ always fuel selection)) -> is_final_ev k e = true ->
    exists r, fin tasks always k r /\ e = ev_of k r.
Proof. exact serial_outcome_sound. Qed.
Print Assumptions C05_right_outcome_serial.

Theorem C05_right_outcome_parallel :
  forall tasks wake_rank calc_rank continue_ always proc fuel nprocs sched selection k e,
    In (PE e) (fst (run_parallel tasks wake_rank calc_rank continue_ always proc fuel nprocs sched selection)) ->
    is_final_ev k e = true ->
    exists r, fin tasks always k r /\ e = ev_of k r.
Proof. exact parallel_outcome_sound. Qed.
Print Assumptions C05_right_outcome_parallel.

(* in particular: a task all of whose effective dependencies end well is not affected by failures
   elsewhere -- if it is reported, then as the table prescribes from ITS dependencies only.  E.g. the
   unmet-dependency failure is reported only for a task with a failed effective dependency: *)
Theorem C05_unmet_only_with_failed_dependency :
  forall tasks always k, fin tasks always k (FFail false kind_unmet) ->
    exists a x, is_failst (sta a x) = true /\ fin tasks always x (a x) /\
      (vdep tasks (sta a) k x \/ In x (t_setup (get_task tasks k))).
Proof.
  intros tasks always k H. inversion H as [k0 a p r D F S|k0 a r D F Dset Sec]; subst.
  - destruct p; simpl in S; try discriminate. inversion F as [| Hn Hdb (x & Hx & Hf)| | |]; subst.
    exists a, x. split; [exact Hf|]. split; [apply D; exact Hx|left; exact Hx].
  - inversion Sec as [|Hn (x & Hx & Hf)|r0 Hg He]; subst.
    + exists a, x. split; [exact Hf|]. split; [apply Dset; exact Hx|right; exact Hx].
    + exfalso. unfold exec_res in He. destruct (t_argerr (get_task tasks k)); [discriminate|].
      destruct (t_outcome (get_task tasks k)); discriminate.
Qed.
Print Assumptions C05_unmet_only_with_failed_dependency.

Example C05_right_outcome_nonvacuous :
  let tb := fun n => match n with
    | 0 => Some (Build_task [1] [] [] false false CkRun false OOk [] [] [])
    | 1 => Some (Build_task [] [] [] false false CkRun false OFail [] [] [])
    | 2 => Some (Build_task [] [] [] false false CkRun false OOk [] [] [])
    | _ => None end in
  snd (run_serial tb (fun _ _ => 0) (fun _ => 0) true false 100 [0; 2]) = 2 /\
  In (EFailure 0 kind_unmet) (fst (run_serial tb (fun _ _ => 0) (fun _ => 0) true false 100 [0; 2])) /\
  In (ESuccess 2) (fst (run_serial tb (fun _ _ => 0) (fun _ => 0) true false 100 [0; 2])).
Proof. vm_compute. tauto. Qed.

(* ===================================================================================================== *)
(* "without --continue the serial runner starts no further task after the failure"                        *)
(* Proofs: Proofs/FailStopP.v (_handle_task_error sets stop_running; run_tasks breaks before it asks the  *)
(* dispatcher for the next node).                                                                         *)
(* ===================================================================================================== *)
From DoitV Require Import FailStopP.

(* EXACT shape: the first failure report of a run without --continue (any kind: TaskFailed, TaskError,
   unmet dependency, DependencyError of get_status / getargs / save_success -- also of a task that was
   never started) is the only one, and what follows it is finish(): the DB is closed, then the
   teardowns of the tasks executed BEFORE the failure run in reverse order -- nothing else; the exit
   code is 1 for TaskFailed and 2 otherwise.  (post = [] only when the model's fuel ran out there: 99) *)
Theorem C05_no_continue_stops_at_first_failure :
  forall tasks wake_rank calc_rank always fuel selection pre k kind post,
    let res := run_serial tasks wake_rank calc_rank false always fuel selection in
    fst res = pre ++ EFailure k kind :: post ->
    fail_kinds pre = [] /\
    ((post = [] /\ snd res = 99) \/
     (post = EClose :: map ETeardown (rev (filter (has_td tasks) (execs pre))) /\
      snd res = if kind =? 0 then 1 else 2)).
Proof. exact serial_stops_after_failure. Qed.
Print Assumptions C05_no_continue_stops_at_first_failure.

(* spelled out: after the failure report no task is looked at (get_status), started, saved, removed or
   reported, whatever was selected and whatever was still waiting *)
Theorem C05_no_continue_no_further_task :
  forall tasks wake_rank calc_rank always fuel selection pre k kind post,
    fst (run_serial tasks wake_rank calc_rank false always fuel selection) = pre ++ EFailure k kind :: post ->
    forall t, ~ In (EGetStatus t) post /\ ~ In (EExecute t) post /\ ~ In (ESave t) post /\ ~ In (ESuccess t) post /\
              ~ In (ESkipUpToDate t) post /\ ~ In (ESkipIgnore t) post /\ ~ In (ERemove t) post /\
              forall kd, ~ In (EFailure t kd) post.
Proof. exact serial_no_task_event_after_failure. Qed.
Print Assumptions C05_no_continue_no_further_task.

(* non-vacuity: the table of C05_contained_nonvacuous, where --continue goes on to execute task 2;
   without it the run ends at the failure of task 1 (task 2 was selected and would have run) *)
Example C05_no_continue_nonvacuous :
  run_serial ex05 (fun _ _ => 0) (fun _ => 0) false false 100 [0; 2] =
    ([EGetStatus 1; EExecute 1; ERemove 1; EFailure 1 0; EClose], 1) /\
  In (EExecute 2) (fst (run_serial ex05 (fun _ _ => 0) (fun _ => 0) true false 100 [0; 2])).
Proof. vm_compute. split; [reflexivity|tauto]. Qed.

(* ... with teardowns: task 3 (has a teardown) ran before the failing task 1: its teardown is what follows *)
Example C05_no_continue_teardown_nonvacuous :
  let tb := fun n => match n with
    | 1 => Some (Build_task [3] [] [] false false CkRun false OError [] [] [])
    | 2 => Some (Build_task [] [] [] false false CkRun false OOk [] [] [])
    | 3 => Some (Build_task [] [] [] true false CkRun false OOk [] [] [])
    | _ => None end in
  run_serial tb (fun _ _ => 0) (fun _ => 0) false false 100 [1; 2] =
    ([EGetStatus 3; EExecute 3; ESave 3; ESuccess 3; EGetStatus 1; EExecute 1; ERemove 1; EFailure 1 1;
      EClose; ETeardown 3], 2).
Proof. vm_compute. reflexivity. Qed.

(* ===================================================================================================== *)
(* "never left recorded as successful: it executes again on the next run"                                 *)
(* Proofs: Proofs/FailRerunP.v.                                                                           *)
(*   [db_run md5 v c rt d0 tr d1]: d1 is a DB (Model/Status.v) the run with trace tr can leave from d0:   *)
(*   save_success at every ESave, remove_success at every ERemove, the record removal of get_status on a  *)
(*   checker change at an EGetStatus (or not: get_status is not called for a task reported ignored / with *)
(*   a failed dependency), each with ANY file system at that moment.  [db_after] is the function for one  *)
(*   fixed file system (an instance: FailRerunP.db_after_run).  [Crash.session_db] is the backend-level   *)
(*   map of C06 (the one harness/c06.py compares with what the real backends hold after a run).           *)
(* ===================================================================================================== *)
From DoitV Require Import Status History StatusP Commands CommandsP FailRerunP.
From DoitV Require Crash.

(* B1.  A task that got a failure report of ANY kind, in a serial run over ANY task table: whatever the
   run wrote, the task has NO record afterwards -- no saved file states, no 'deps:', no values, no result
   (and no ignore mark) *)
Theorem C05_failed_not_recorded_serial :
  forall md5 v c rt tasks wake_rank calc_rank continue_ always fuel selection k kind d0 d1,
    let tr := fst (run_serial tasks wake_rank calc_rank continue_ always fuel selection) in
    In (EFailure k kind) tr -> db_run md5 v c rt d0 tr d1 ->
    d1 k = None /\ status_is_ignore d1 k = false /\ getrec d1 k = empty_rec.
Proof. exact failed_no_record_serial. Qed.
Print Assumptions C05_failed_not_recorded_serial.

(* ... the parallel runners, every schedule: the dep_manager calls are those of the main process, in
   the order of the projected log *)
Theorem C05_failed_not_recorded_parallel :
  forall md5 v c rt tasks wake_rank calc_rank continue_ always proc fuel nprocs sched selection k kind d0 d1,
    let tr := proj (fst (run_parallel tasks wake_rank calc_rank continue_ always proc fuel nprocs sched selection)) in
    In (EFailure k kind) tr -> db_run md5 v c rt d0 tr d1 ->
    d1 k = None /\ status_is_ignore d1 k = false /\ getrec d1 k = empty_rec.
Proof. exact failed_no_record_parallel. Qed.
Print Assumptions C05_failed_not_recorded_parallel.

(* ... and at the level of the backends (C06/C07): no key of the task is left in the map *)
Theorem C05_failed_not_recorded_backend_serial :
  forall recd tasks wake_rank calc_rank continue_ always fuel selection k kind m,
    In (EFailure k kind) (fst (run_serial tasks wake_rank calc_rank continue_ always fuel selection)) ->
    Crash.session_db recd m (fst (run_serial tasks wake_rank calc_rank continue_ always fuel selection)) k = None.
Proof. exact failed_no_record_session_serial. Qed.
Print Assumptions C05_failed_not_recorded_backend_serial.

Theorem C05_failed_not_recorded_backend_parallel :
  forall recd tasks wake_rank calc_rank continue_ always proc fuel nprocs sched selection k kind m,
    In (EFailure k kind) (proj (fst (run_parallel tasks wake_rank calc_rank continue_ always proc fuel nprocs sched selection))) ->
    Crash.session_db recd m (proj (fst (run_parallel tasks wake_rank calc_rank continue_ always proc fuel nprocs sched selection))) k = None.
Proof. exact failed_no_record_session_parallel. Qed.
Print Assumptions C05_failed_not_recorded_backend_parallel.

(* what get_status answers for a task without record: `run` or `error` -- up-to-date EXACTLY in the
   corner where doit never consults the DB: no file_dep, every uptodate item a constant that holds
   (True, a callable answering True; None items are skipped) and at least one of them, targets present.
   [constant_uptodate] (FailRerunP.v) is that syntactic condition on the definition. *)
Theorem C05_no_record_uptodate_iff :
  forall md5 v c fs d t df, d t = None ->
    (g_status (get_status md5 v c fs d t df false) = UpToDate <-> constant_uptodate df = true /\ targets_ok fs df).
Proof. exact norecord_uptodate_iff. Qed.
Print Assumptions C05_no_record_uptodate_iff.

(* B2.  The two runs.  First run: serial, ANY task table (in particular [run_table md5 v c0 fs0 d0 rt0],
   and the same with failing actions: [failing]), k gets a failure report of any kind; d1: ANY DB that run
   can leave.  Second run: ANY file system, checker, task table (k's definition may have changed),
   --continue or not, --always or not, oracles, fuel, selection.  k is NOT skipped as up-to-date --
   unless its definition in the second run is in the corner above *)
Theorem C05_failed_never_skipped_next_run :
  forall md5 v c0 rt0 tasks wr cr cont0 always0 fuel0 sel0 k kind d0 d1,
    let tr1 := fst (run_serial tasks wr cr cont0 always0 fuel0 sel0) in
    In (EFailure k kind) tr1 -> db_run md5 v c0 rt0 d0 tr1 d1 ->
    forall wr' cr' c1 fs1 rt1 cont1 always1 fuel1 sel1,
    In (ESkipUpToDate k) (fst (next_run md5 v wr' cr' c1 fs1 d1 rt1 cont1 always1 fuel1 sel1)) ->
    exists ct, lookup rt1 k = Some ct /\ constant_uptodate (c_def ct) = true /\ targets_ok fs1 (c_def ct) /\ always1 = false.
Proof. exact failed_then_never_skipped_serial. Qed.
Print Assumptions C05_failed_never_skipped_next_run.

(* the same as an exclusion.  HYPOTHESIS (minimal by C05_no_record_uptodate_iff): k's definition in the
   second run is not `constant_uptodate`.  Sufficient: it has a file_dep (C05_hyp_file_dep), no uptodate
   item at all (C05_hyp_no_items), or an item that is not a constant truth -- run_once, config_changed,
   result_dep / getargs, False, a callable answering False (C05_hyp_item) *)
Theorem C05_failed_never_skipped_next_run_hyp :
  forall md5 v c0 rt0 tasks wr cr cont0 always0 fuel0 sel0 k kind d0 d1,
    let tr1 := fst (run_serial tasks wr cr cont0 always0 fuel0 sel0) in
    In (EFailure k kind) tr1 -> db_run md5 v c0 rt0 d0 tr1 d1 ->
    forall wr' cr' c1 fs1 rt1 cont1 always1 fuel1 sel1,
    (forall ct, lookup rt1 k = Some ct -> constant_uptodate (c_def ct) = false) ->
    ~ In (ESkipUpToDate k) (fst (next_run md5 v wr' cr' c1 fs1 d1 rt1 cont1 always1 fuel1 sel1)).
Proof. exact failed_then_never_skipped_serial_hyp. Qed.
Print Assumptions C05_failed_never_skipped_next_run_hyp.

Theorem C05_hyp_file_dep : forall df, file_dep df <> [] -> constant_uptodate df = false.
Proof. exact not_constant_file_dep. Qed.
Theorem C05_hyp_no_items : forall df, uptodate df = [] -> constant_uptodate df = false.
Proof. exact not_constant_no_items. Qed.
Theorem C05_hyp_item : forall df u, In u (uptodate df) -> const_item u = false -> constant_uptodate df = false.
Proof. exact not_constant_item. Qed.

(* first run parallel (any flavour, worker count, schedule); second run serial or parallel *)
Theorem C05_failed_never_skipped_next_run_parallel :
  forall md5 v c0 rt0 tasks wr cr cont0 always0 proc fuel0 nprocs sched sel0 k kind d0 d1,
    let tr1 := proj (fst (run_parallel tasks wr cr cont0 always0 proc fuel0 nprocs sched sel0)) in
    In (EFailure k kind) tr1 -> db_run md5 v c0 rt0 d0 tr1 d1 ->
    forall wr' cr' c1 fs1 rt1 cont1 always1 fuel1 sel1,
    (In (ESkipUpToDate k) (fst (next_run md5 v wr' cr' c1 fs1 d1 rt1 cont1 always1 fuel1 sel1)) ->
     exists ct, lookup rt1 k = Some ct /\ constant_uptodate (c_def ct) = true /\ targets_ok fs1 (c_def ct) /\ always1 = false) /\
    (forall proc1 nprocs1 sched1,
     In (PE (ESkipUpToDate k)) (fst (run_parallel (run_table md5 v c1 fs1 d1 rt1) wr' cr' cont1 always1 proc1 fuel1 nprocs1 sched1 sel1)) ->
     exists ct, lookup rt1 k = Some ct /\ constant_uptodate (c_def ct) = true /\ targets_ok fs1 (c_def ct) /\ always1 = false).
Proof. exact failed_then_never_skipped_parallel. Qed.
Print Assumptions C05_failed_never_skipped_next_run_parallel.

(* "it executes again": the report of a result of the actions (success, TaskFailed, TaskError) is only
   made for a task that was executed in that run ... *)
Theorem C05_result_only_of_executed_serial :
  forall tasks wake_rank calc_rank continue_ always fuel selection k,
    let tr := fst (run_serial tasks wake_rank calc_rank continue_ always fuel selection) in
    In (ESuccess k) tr \/ In (EFailure k kind_failed) tr \/ In (EFailure k kind_error) tr -> In (EExecute k) tr.
Proof. exact serial_acted_executed. Qed.
Print Assumptions C05_result_only_of_executed_serial.

(* ... hence: a --continue run over a DB without record of k (B1), not cut short (exit code 0/1/2), k
   selected, k not in the corner (or --always): k IS EXECUTED, whatever the state of its inputs -- unless
   a task it depends on is ignored or failed in that run (skip_ignore / unmet dependency) or its
   file dependencies cannot be read (DependencyError before the start, or from save_success after it) *)
Theorem C05_no_record_executed_again :
  forall md5 v wake_rank calc_rank c fs d rt always fuel sel k,
    d k = None ->
    (forall ct, lookup rt k = Some ct -> constant_uptodate (c_def ct) = true -> targets_ok fs (c_def ct) -> always = true) ->
    let res := next_run md5 v wake_rank calc_rank c fs d rt true always fuel sel in
    snd res <= 2 -> In k sel ->
    In (EExecute k) (fst res) \/ In (ESkipIgnore k) (fst res) \/
    In (EFailure k kind_unmet) (fst res) \/ In (EFailure k kind_dep) (fst res).
Proof. exact norecord_executed_again. Qed.
Print Assumptions C05_no_record_executed_again.

(* REFUTED as literally worded ("executes again on the next run whatever the state of its inputs"):
   a task with `uptodate=[True]` and no file_dep, executed because of --always-execute, whose action
   fails: the record is removed (B1), and the next run -- same definitions, same files, no flag --
   skips it as up-to-date.  (doit never asks the DB about such a task: documented corner, the one of
   C13_forget_then_runs_refuted.) *)
Theorem C05_failed_executes_again_refuted :
  exists (rt : table) (fs : fsys) (k : name),
    let md5 := fun x : N => x in
    let tasks1 := failing [k] OFail (run_table md5 current MD5 fs empty_db rt) in
    let tr1 := fst (run_serial tasks1 (fun _ _ => 0) (fun _ => 0) false true 50 [k]) in
    let d1 := db_after md5 current MD5 rt fs empty_db tr1 in
    tr1 = [EGetStatus k; EExecute k; ERemove k; EFailure k kind_failed; EClose] /\
    d1 k = None /\
    fst (next_run md5 current (fun _ _ => 0) (fun _ => 0) MD5 fs d1 rt false false 50 [k]) =
      [EGetStatus k; ESkipUpToDate k; EClose].
Proof. exact failed_then_skipped_refuted. Qed.
Print Assumptions C05_failed_executes_again_refuted.

(* non-vacuity of B1/B2: tasks 0 and 1 both depend on file 0 (present, never modified); task 0 has an old
   record.  Run 1 (--continue): the action of 0 fails, 1 succeeds.  The DB afterwards has no record of
   0 and one of 1.  Run 2 -- nothing changed: 0 is executed again (and saved), 1 is skipped as up-to-date;
   [db_after] is one of the DBs [db_run] allows; the hypothesis of ..._hyp holds for task 0 *)
Definition ex05_def : tdef := {| file_dep := [0]; targets := []; uptodate := []; act_values := []; act_result := None |}.
Definition ex05_rt : table :=
  [(0, {| c_task_dep := []; c_setup := []; c_calc_dep := []; c_subtask_of := None; c_def := ex05_def |});
   (1, {| c_task_dep := []; c_setup := []; c_calc_dep := []; c_subtask_of := None; c_def := ex05_def |})].
Definition ex05_fs : fsys := fs_of [(0, {| mtime := 2%Z; size := 4%Z; content := 1 |})].
Definition ex05_d0 : db := db_of [(0, empty_rec)].
Example C05_rerun_nonvacuous :
  let md5 := fun x : N => x in
  let tasks1 := failing [0] OFail (run_table md5 current MD5 ex05_fs ex05_d0 ex05_rt) in
  let tr1 := fst (run_serial tasks1 (fun _ _ => 0) (fun _ => 0) true false 50 [0; 1]) in
  let d1 := db_after md5 current MD5 ex05_rt ex05_fs ex05_d0 tr1 in
  tr1 = [EGetStatus 0; EExecute 0; ERemove 0; EFailure 0 0; EGetStatus 1; EExecute 1; ESave 1; ESuccess 1; EClose] /\
  db_run md5 current MD5 ex05_rt ex05_d0 tr1 d1 /\
  ex05_d0 0 <> None /\ d1 0 = None /\ d1 1 <> None /\
  (forall ct, lookup ex05_rt 0 = Some ct -> constant_uptodate (c_def ct) = false) /\
  next_run md5 current (fun _ _ => 0) (fun _ => 0) MD5 ex05_fs d1 ex05_rt false false 50 [0; 1] =
    ([EGetStatus 0; EExecute 0; ESave 0; ESuccess 0; EGetStatus 1; ESkipUpToDate 1; EClose], 0).
Proof.
  cbv zeta. split; [vm_compute; reflexivity|]. split; [apply db_after_run|].
  split; [vm_compute; discriminate|]. split; [vm_compute; reflexivity|]. split; [vm_compute; discriminate|].
  split; [|vm_compute; reflexivity].
  intros ct H. vm_compute in H. inversion H; subst. reflexivity.
Qed.

(* the other kinds of failure leave no record either: task 0 cannot be checked (file 7 is missing:
   DependencyError from get_status), task 2 depends on it (unmet dependency); both had a record *)
Example C05_rerun_other_kinds_nonvacuous :
  let md5 := fun x : N => x in
  let miss : tdef := {| file_dep := [7]; targets := []; uptodate := []; act_values := []; act_result := None |} in
  let rt := [(0, {| c_task_dep := []; c_setup := []; c_calc_dep := []; c_subtask_of := None; c_def := miss |});
             (2, {| c_task_dep := [0]; c_setup := []; c_calc_dep := []; c_subtask_of := None; c_def := ex05_def |})] in
  let d0 := db_of [(0, empty_rec); (2, empty_rec)] in
  let tr1 := fst (next_run md5 current (fun _ _ => 0) (fun _ => 0) MD5 ex05_fs d0 rt true false 50 [2]) in
  let d1 := db_after md5 current MD5 rt ex05_fs d0 tr1 in
  tr1 = [EGetStatus 0; ERemove 0; EFailure 0 kind_dep; EGetStatus 2; ERemove 2; EFailure 2 kind_unmet; EClose] /\
  d1 0 = None /\ d1 2 = None.
Proof. vm_compute. repeat split. Qed.

(* ===================================================================================================== *)
(* Containment through a CHAIN of tasks, whatever the history left for the tasks in between              *)
(* (round G; Proofs/FailChainP.v).  The direct statements above (C05_failed_dependency_never_runs_...)    *)
(* speak of a task and ONE effective dependency; for  top -> mid -> gen  with gen failing and mid         *)
(* up-to-date by its own inputs (earlier runs left success records) they need that mid is then NOT        *)
(* reported up-to-date: Runner.select_task looks at node.bad_deps before it asks get_status               *)
(* (doit/runner.py:127-137).  [dchain tasks t x]: x is reached from t through declared task_dep (explicit *)
(* or implicit through a target) / calc_dep edges; [reaches tasks y x]: y = x or dchain tasks y x.        *)
(* ===================================================================================================== *)
From DoitV Require Import FailChainP.

(* specification level: if x ends badly (failure of any kind, or ignored), every task upstream of it can
   only be reported `ignored' or `unmet dependency' -- whatever its own get_status verdict (CkUpToDate
   included), --always-execute or not *)
Theorem C05_chain_outcome :
  forall tasks always t x, dchain tasks t x ->
  forall rx, fin tasks always x rx -> is_goodst (fres_status rx) = false ->
  forall rt, fin tasks always t rt -> rt = FIgnore \/ rt = FFail false kind_unmet.
Proof. exact fin_chain_bad. Qed.
Print Assumptions C05_chain_outcome.

(* serial runner: in a run in which x got a bad final report, a task upstream of x through a chain is
   never reported up-to-date or successful: its final report, if any, is `ignored' / `unmet dependency' *)
Theorem C05_chain_report_serial :
  forall tasks wake_rank calc_rank continue_ always fuel selection t x e et,
    let tr := fst (run_serial tasks wake_rank calc_rank continue_ always fuel selection) in
    dchain tasks t x -> In e tr -> is_final_ev x e = true -> is_good_ev e = false ->
    In et tr -> is_final_ev t et = true -> et = ESkipIgnore t \/ et = EFailure t kind_unmet.
Proof. exact serial_chain_report. Qed.
Print Assumptions C05_chain_report_serial.

(* ... and it is never executed; the first edge may be ANY effective dependency (setup-task, task
   returned by a calc_dep task, ...), the tasks in between may have any get_status verdict *)
Theorem C05_contained_chain_serial :
  forall tasks wake_rank calc_rank continue_ always fuel selection t y x e,
    let tr := fst (run_serial tasks wake_rank calc_rank continue_ always fuel selection) in
    eff_dep tasks t y -> reaches tasks y x ->
    In e tr -> is_final_ev x e = true -> is_good_ev e = false -> ~ In (EExecute t) tr.
Proof. exact serial_chain_never_runs. Qed.
Print Assumptions C05_contained_chain_serial.

(* the same for the parallel runners, every number of workers, every schedule *)
Theorem C05_chain_report_parallel :
  forall tasks wake_rank calc_rank continue_ always proc fuel nprocs sched selection t x e et,
    let log := fst (run_parallel tasks wake_rank calc_rank continue_ always proc fuel nprocs sched selection) in
    dchain tasks t x -> In (PE e) log -> is_final_ev x e = true -> is_good_ev e = false ->
    In (PE et) log -> is_final_ev t et = true -> et = ESkipIgnore t \/ et = EFailure t kind_unmet.
Proof. exact parallel_chain_report. Qed.
Print Assumptions C05_chain_report_parallel.

Theorem C05_contained_chain_parallel :
  forall tasks wake_rank calc_rank continue_ always proc fuel nprocs sched selection t w y x e,
    let log := fst (run_parallel tasks wake_rank calc_rank continue_ always proc fuel nprocs sched selection) in
    eff_dep tasks t y -> reaches tasks y x ->
    In (PE e) log -> is_final_ev x e = true -> is_good_ev e = false -> ~ In (PStart t w) log.
Proof. exact parallel_chain_never_runs. Qed.
Print Assumptions C05_contained_chain_parallel.

(* non-vacuity, the shape of the seeded regression: top (0) -> mid (1) -> gen (2), mid and the unrelated
   task 3 up-to-date by their own inputs, gen fails; --continue.  mid is reported unmet (NOT up-to-date),
   top is not executed, 3 is processed *)
Definition ex05_chain (n : Base.name) : option Dispatch.task :=
  match n with
  | 0 => Some (Build_task [1] [] [] false false CkRun false OOk [] [] [])
  | 1 => Some (Build_task [2] [] [] false false CkUpToDate false OOk [] [] [])
  | 2 => Some (Build_task [] [] [] false false CkRun false OFail [] [] [])
  | 3 => Some (Build_task [] [] [] false false CkUpToDate false OOk [] [] [])
  | _ => None end.
Example C05_chain_nonvacuous :
  dchain ex05_chain 0 2 /\
  fst (run_serial ex05_chain (fun _ _ => 0) (fun _ => 0) true false 100 [0; 3]) =
    [EGetStatus 2; EExecute 2; ERemove 2; EFailure 2 0; EGetStatus 1; ERemove 1; EFailure 1 kind_unmet;
     EGetStatus 0; ERemove 0; EFailure 0 kind_unmet; EGetStatus 3; ESkipUpToDate 3; EClose].
Proof.
  split; [|vm_compute; reflexivity].
  apply dch_step with (y := 1); [left; simpl; auto|apply dch_one; left; simpl; auto].
Qed.
