(* C19 -- What is reported is what happened (reports and exit code).
   Statements only.  Proofs: Proofs/RunnerTr.v (trace shape of the serial runner, no invariant of
   the dispatcher needed).  [code_of tr] is the documented exit code as a function of the failure
   reports in the trace: 0 nothing failed, 1 only task failures (TaskFailed), 2 some error. *)
From DoitV Require Import Base Dispatch Runner Parallel DispatchP DispatchInv RunnerTr RunnerP ParallelP.
Open Scope N_scope.

(* serial runner, every table / selection / flags / oracle / fuel: the trace is
     body ++ [DB closed] ++ teardown reports ++ [error marker],
   every failure report in it is immediately preceded by remove_success of that task and every
   success report by save_success, and the exit code is 0/1/2 by the failure reports of body,
   3 when a dependency cycle was diagnosed, 4 = KeyboardInterrupt escaping (not mapped by doit) *)
Theorem C19_serial_outcome :
  forall tasks wake_rank calc_rank continue_ always fuel selection,
  let res := run_serial tasks wake_rank calc_rank continue_ always fuel selection in
  exists body s,
    paired body /\ forallb (fun e => negb (is_fin_ev e)) body = true /\
    ((s = StopFuel /\ fst res = body /\ snd res = 99) \/
     (s <> StopFuel /\
      fst res = body ++ EClose :: map ETeardown (rev (filter (has_td tasks) (execs body))) ++ stop_marker s /\
      snd res = match s with StopNormal => code_of body | StopCycle _ | StopHold => 3 | StopInterrupt _ => 4 | StopFuel => 99 end)).
Proof. exact serial_shape. Qed.
Print Assumptions C19_serial_outcome.

(* the parallel runners (both flavours, any worker count, EVERY schedule): the exit code is the same
   function of the failure reports the main process made (whatever order the results arrived in), or one
   of the exception codes: 3 cyclic dependency, 4 interrupt, 98 = the model's marker for "main thread
   blocked for ever" (never observed on the implementation; C09), 99 = out of fuel *)
Theorem C19_parallel_exit_code :
  forall tasks wake_rank calc_rank continue_ always proc fuel nprocs sched selection,
  let res := run_parallel tasks wake_rank calc_rank continue_ always proc fuel nprocs sched selection in
  snd res = code_of (proj (fst res)) \/ In (snd res) [3; 4; 98; 99].
Proof. exact parallel_exit_code. Qed.
Print Assumptions C19_parallel_exit_code.

(* the exit-code table, spelled out *)
Theorem C19_exit_code_table : forall tr,
  (code_of tr = 0 <-> fail_kinds tr = []) /\
  (code_of tr = 1 <-> fail_kinds tr <> [] /\ forallb (N.eqb 0) (fail_kinds tr) = true) /\
  (code_of tr = 2 <-> fail_kinds tr <> [] /\ forallb (N.eqb 0) (fail_kinds tr) = false).
Proof.
  intro tr. unfold code_of. destruct (fail_kinds tr) as [|a l] eqn:E.
  - repeat split; intros; try discriminate; try tauto; destruct H; congruence.
  - destruct (forallb (N.eqb 0) (a :: l)) eqn:F; repeat split; intros; try discriminate; try congruence; try tauto;
      destruct H; congruence.
Qed.
Print Assumptions C19_exit_code_table.

Example C19_nonvacuous :
  code_of [EGetStatus 1; EExecute 1; ERemove 1; EFailure 1 0; EGetStatus 2; ERemove 2; EFailure 2 2] = 2 /\
  code_of [EGetStatus 1; EExecute 1; ERemove 1; EFailure 1 0; ERemove 3; EFailure 3 0] = 1 /\
  code_of [EGetStatus 1; EExecute 1; ESave 1; ESuccess 1] = 0.
Proof. vm_compute. auto. Qed.
