(* C19 -- What is reported is what happened (reports and exit code).
   Statements only.  Proofs: Proofs/RunnerTr.v (trace shape of the serial runner, no invariant of
   the dispatcher needed).  [code_of tr] is the documented exit code as a function of the failure
   reports in the trace: 0 nothing failed, 1 only task failures (TaskFailed), 2 some error. *)
From DoitV Require Import Base Dispatch Runner Parallel DispatchP DispatchInv RunnerTr RunnerP ParallelP.
Open Scope N_scope.

(* serial runner, every table / selection / flags / oracle / fuel: the trace is
     body ++ [DB closed] ++ teardown reports ++ [error marker],
   every failure report in it is immediately preceded by remove_success of that task and every
   success report by save_success, and the exit code is 0/1/2 by the failure reports of body,
   3 when a dependency cycle was diagnosed, 4 = KeyboardInterrupt escaping (not mapped by doit) *)
Theorem C19_serial_outcome :
  forall tasks wake_rank calc_rank continue_ always fuel selection,
  let res := run_serial tasks wake_rank calc_rank continue_ always fuel selection in
  exists body s,
    paired body /\ forallb (fun e => negb (is_fin_ev e)) body = true /\
    ((s = StopFuel /\ fst res = body /\ snd res = 99) \/
     (s <> StopFuel /\
      fst res = body ++ EClose :: map ETeardown (rev (filter (has_td tasks) (execs body))) ++ stop_marker s /\
      snd res = match s with StopNormal => code_of body | StopCycle _ | StopHold => 3 | StopInterrupt _ => 4 | StopFuel => 99 end)).
Proof. exact serial_shape. Qed.
Print Assumptions C19_serial_outcome.

(* the parallel runners (both flavours, any worker count, EVERY schedule): the exit code is the same
   function of the failure reports the main process made (whatever order the results arrived in), or one
   of the exception codes: 3 cyclic dependency, 4 interrupt, 98 = the model's marker for "main thread
   blocked for ever" (never observed on the implementation; C09), 99 = out of fuel *)
Theorem C19_parallel_exit_code :
  forall tasks wake_rank calc_rank continue_ always proc fuel nprocs sched selection,
  let res := run_parallel tasks wake_rank calc_rank continue_ always proc fuel nprocs sched selection in
  snd res = code_of (proj (fst res)) \/ In (snd res) [3; 4; 98; 99].
Proof. exact parallel_exit_code. Qed.
Print Assumptions C19_parallel_exit_code.

(* the exit-code table, spelled out *)
Theorem C19_exit_code_table : forall tr,
  (code_of tr = 0 <-> fail_kinds tr = []) /\
  (code_of tr = 1 <-> fail_kinds tr <> [] /\ forallb (N.eqb 0) (fail_kinds tr) = true) /\
  (code_of tr = 2 <-> fail_kinds tr <> [] /\ forallb (N.eqb 0) (fail_kinds tr) = false).
Proof.
  intro tr. unfold code_of. destruct (fail_kinds tr) as [|a l] eqn:E.
  - repeat split; intros; try discriminate; try tauto; destruct H; congruence.
  - destruct (forallb (N.eqb 0) (a :: l)) eqn:F; repeat split; intros; try discriminate; try congruence; try tauto;
      destruct H; congruence.
Qed.
Print Assumptions C19_exit_code_table.

Example C19_nonvacuous :
  code_of [EGetStatus 1; EExecute 1; ERemove 1; EFailure 1 0; EGetStatus 2; ERemove 2; EFailure 2 2] = 2 /\
  code_of [EGetStatus 1; EExecute 1; ERemove 1; EFailure 1 0; ERemove 3; EFailure 3 0] = 1 /\
  code_of [EGetStatus 1; EExecute 1; ESave 1; ESuccess 1] = 0.
Proof. vm_compute. auto. Qed.

(* ====================================================================================================
   Reporter layer (Model/Report.v, proofs in Proofs/ReportP.v): what the built-in reporters WRITE when
   they are driven by the callback sequences of the runner models above.
   [report ti proc kind fv tr] = state of reporter class [kind] and of the process's real stdout / stderr
   after `doit run` made the reports [tr] (Runner.finish order: close -> teardown -> complete_run, then
   the exception that leaves run_all, if any); [ti] = what the reporters read from the Task objects.
   ==================================================================================================== *)
From DoitV Require Import Report ReportP.

(* Every run of both runner models feeds a reporter with an event list of this shape:
     body ++ [DB closed] ++ teardowns of the main runner ++ [error marker],
   in which get_status(k) is reported once and before any other report about k ([gsok]), and every task
   has at most one final report ([fonce]).  Serial runner, any table / flags / oracles / selection, fuel
   not exhausted: *)
Theorem C19_serial_reporter_input :
  forall tasks wake_rank calc_rank continue_ always fuel selection,
  let res := run_serial tasks wake_rank calc_rank continue_ always fuel selection in
  snd res <> 99 ->
  exists body tds mk,
    (fst res = (body ++ EClose :: map ETeardown tds) ++ mk /\
     forallb (fun e => negb (is_close e)) body = true /\ marker mk /\
     gsok (body ++ EClose :: map ETeardown tds) /\ fonce (body ++ EClose :: map ETeardown tds)) /\
    (mk = [] \/ In (snd res) [3; 4]).
Proof. exact serial_run_events. Qed.
Print Assumptions C19_serial_reporter_input.

(* ... and the parallel runners (processes / threads), any number of workers, EVERY schedule (also the
   ones that end by fuel or in the model's hang marker: finish() runs in run_all's `finally`) *)
Theorem C19_parallel_reporter_input :
  forall tasks wake_rank calc_rank continue_ always proc fuel nprocs sched selection,
  let res := run_parallel tasks wake_rank calc_rank continue_ always proc fuel nprocs sched selection in
  exists body tds mk,
    (events_of (fst res) = (body ++ EClose :: map ETeardown tds) ++ mk /\
     forallb (fun e => negb (is_close e)) body = true /\ marker mk /\
     gsok (body ++ EClose :: map ETeardown tds) /\ fonce (body ++ EClose :: map ETeardown tds)) /\
    (mk = [] \/ In (snd res) [3; 4]).
Proof. exact parallel_run_events. Qed.
Print Assumptions C19_parallel_reporter_input.

(* `--reporter json`, EVERY event list of that shape (hence every run of both runner models), every task
   attribute table, both placements of the actions (main process / worker process):
   - the real stdout of the process is exactly ONE JSON document and nothing else;
   - the real stderr is empty, except for the message of the exception that leaves run_all (exit 3 / 4);
   - no callback raised (no KeyError in t_results);
   - the document lists a task once, and exactly the tasks get_status was reported for;
   - a task with a final report is listed with THAT result (success / fail / up-to-date / ignore), `started`
     iff an execute report was made, captured out/err of its actions iff it had been executed by then,
     `error` iff it failed; a task without final report (run cut short) is listed with result null;
   - what actions and teardowns wrote to sys.stdout / sys.stderr in the main process before complete_run,
     and every teardown / runtime error message, is inside the document (keys out / err). *)
Theorem C19_json_document :
  forall ti proc fv tr body tds mk,
  run_events tr body tds mk ->
  let trA := body ++ EClose :: map ETeardown tds in
  let st := report ti proc RJson fv tr in
  let doc := doc_of ti proc fv trA in
  w_stdout (snd st) = [ODoc doc] /\
  w_stderr (snd st) = map OChunk (main_toks SErr (cbs ti proc mk)) /\
  rp_crashed (fst st) = false /\
  NoDup (map fst (d_tasks doc)) /\
  (forall k, In k (map fst (d_tasks doc)) <-> In (EGetStatus k) trA) /\
  (forall k pre e post, trA = pre ++ e :: post -> is_final_ev k e = true ->
     In (k, Build_trec (res_of e) (mem k (execs trA))
                       (if mem k (execs pre) then ta_out (ti k) else [])
                       (if mem k (execs pre) then ta_err (ti k) else []) (err_of e)) (d_tasks doc)) /\
  (forall k, In (EGetStatus k) trA -> ~ finished_in trA k ->
     In (k, Build_trec None (mem k (execs trA)) [] [] None) (d_tasks doc)) /\
  d_out doc = main_toks SOut (cbs ti proc trA) /\
  d_err doc = main_toks SErr (cbs ti proc trA) ++ err_msgs (cbs ti proc trA).
Proof. exact json_of_run. Qed.
Print Assumptions C19_json_document.

(* the same composed with the serial runner and read over its whole trace: one document; nothing on
   stderr unless the run ended in an exception (exit 3 / 4); each task that got a final report is listed
   with that result; nothing is listed that was not processed; result null only without final report;
   every chunk the main process wrote during the run is in the document *)
Theorem C19_json_serial :
  forall tasks wake_rank calc_rank continue_ always fuel selection ti fv,
  let run := run_serial tasks wake_rank calc_rank continue_ always fuel selection in
  let st := report ti false RJson fv (fst run) in
  snd run <> 99 ->
  exists doc,
    w_stdout (snd st) = [ODoc doc] /\
    (w_stderr (snd st) = [] \/ In (snd run) [3; 4]) /\
    rp_crashed (fst st) = false /\
    NoDup (map fst (d_tasks doc)) /\
    (forall k e, In e (fst run) -> is_final_ev k e = true ->
       exists v, In (k, v) (d_tasks doc) /\ tr_result v = res_of e /\ tr_started v = mem k (execs (fst run)) /\
                 tr_error v = err_of e) /\
    (forall k v, In (k, v) (d_tasks doc) -> In (EGetStatus k) (fst run)) /\
    (forall k v, In (k, v) (d_tasks doc) -> tr_result v = None -> ~ finished_in (fst run) k).
Proof. exact json_serial. Qed.
Print Assumptions C19_json_serial.

(* ... and with the parallel runners, every schedule (reports crossing the result queue) *)
Theorem C19_json_parallel :
  forall tasks wake_rank calc_rank continue_ always proc fuel nprocs sched selection ti fv,
  let run := run_parallel tasks wake_rank calc_rank continue_ always proc fuel nprocs sched selection in
  let tr := events_of (fst run) in
  let st := report ti proc RJson fv tr in
  exists doc,
    w_stdout (snd st) = [ODoc doc] /\
    (w_stderr (snd st) = [] \/ In (snd run) [3; 4]) /\
    rp_crashed (fst st) = false /\
    NoDup (map fst (d_tasks doc)) /\
    (forall k e, In e tr -> is_final_ev k e = true ->
       exists v, In (k, v) (d_tasks doc) /\ tr_result v = res_of e /\ tr_started v = mem k (execs tr) /\
                 tr_error v = err_of e) /\
    (forall k v, In (k, v) (d_tasks doc) -> In (EGetStatus k) tr) /\
    (forall k v, In (k, v) (d_tasks doc) -> tr_result v = None -> ~ finished_in tr k).
Proof. exact json_parallel. Qed.
Print Assumptions C19_json_parallel.

(* whatever is written to sys.stdout / sys.stderr AFTER complete_run is outside the document: it follows
   the document on the real stdout, resp. lands on the real stderr (this is why Runner.finish must run
   the teardowns before complete_run; the harness checks that order on the implementation) *)
Theorem C19_json_write_after_complete_run_is_outside :
  forall ti proc fv trA s t,
  let st := run ti (jbefore ti proc fv trA) [CCompleteRun; CWrite s InMain t] in
  match s with SOut => w_stdout (snd st) | SErr => w_stderr (snd st) end =
  (match s with SOut => [ODoc (doc_of ti proc fv trA)] | SErr => [] end) ++ [OChunk (Raw t)].
Proof. exact json_write_after_complete. Qed.
Print Assumptions C19_json_write_after_complete_run_is_outside.

(* console-family reporters (console, executed-only, zero, error-only), EVERY event list: the result
   lines on the real stdout are, in order, exactly the lines that class shows for the reports made
   ([shown]: `.  name` for an execute report of a non-private task with actions; `-- name` / `!! name`
   for up-to-date / ignored (console only); the failure entry for a failure (console, executed-only,
   error-only) -- but only a failure whose `report` attribute is True ([fail_report]: every failure doit creates;
   a python-action may return TaskFailed(.., report=False)); nothing for ZeroReporter) *)
Theorem C19_console_result_lines :
  forall ti proc kind fv tr, kind <> RJson ->
  result_lines (w_stdout (snd (report ti proc kind fv tr))) = flat_map (shown ti kind) tr.
Proof. exact console_result_lines. Qed.
Print Assumptions C19_console_result_lines.

(* hence at most one final-result line (up-to-date / ignored / failed) and at most one `.  name` line per
   task in every serial run ... *)
Theorem C19_console_one_line_serial :
  forall tasks wake_rank calc_rank continue_ always fuel selection ti kind fv k, kind <> RJson ->
  (length (filter (final_line_of k)
     (result_lines (w_stdout (snd (fst (report_serial tasks wake_rank calc_rank continue_ always fuel selection ti kind fv)))))) <= 1)%nat /\
  (length (filter (exec_line_of k)
     (result_lines (w_stdout (snd (fst (report_serial tasks wake_rank calc_rank continue_ always fuel selection ti kind fv)))))) <= 1)%nat.
Proof. exact serial_console_one_final_line. Qed.
Print Assumptions C19_console_one_line_serial.

(* ... at most one final-result line per task in every parallel run, every schedule ... *)
Theorem C19_console_one_line_parallel :
  forall tasks wake_rank calc_rank continue_ always proc fuel nprocs sched selection ti kind fv k, kind <> RJson ->
  (length (filter (final_line_of k)
     (result_lines (w_stdout (snd (fst (report_parallel tasks wake_rank calc_rank continue_ always proc fuel nprocs sched selection ti kind fv)))))) <= 1)%nat.
Proof. exact parallel_console_one_final_line. Qed.
Print Assumptions C19_console_one_line_parallel.

(* ... and exactly one when the task has a final report of a kind the class shows *)
Theorem C19_console_final_line_shown :
  forall ti kind tr k e, fonce tr -> In e tr ->
  filter (final_line_of k) (shown ti kind e) <> [] ->
  length (filter (final_line_of k) (flat_map (shown ti kind) tr)) = 1%nat.
Proof. exact console_final_line_shown. Qed.
Print Assumptions C19_console_final_line_shown.

(* ZeroReporter writes no line at all on its outstream, whatever is reported *)
Theorem C19_zero_reporter_silent :
  forall ti proc fv tr, lines_of (w_stdout (snd (report ti proc RZero fv tr))) = [].
Proof. exact zero_no_lines. Qed.
Print Assumptions C19_zero_reporter_silent.

(* ---- the `report` attribute of a failure (BaseFail.report; [ta_report] of the task whose action returned it) ---- *)

(* `--reporter json` does not look at it: for two attribute tables that differ at most in the report flags,
   everything the reporter does -- its state, what reaches the real stdout / stderr, the document -- is the same,
   for every event list and both placements of the actions *)
Theorem C19_json_ignores_report_flag :
  forall ti ti', same_but_report ti ti' ->
  forall proc fv tr, report ti proc RJson fv tr = report ti' proc RJson fv tr.
Proof. exact json_ignores_report_flag. Qed.
Print Assumptions C19_json_ignores_report_flag.

(* ... so a task that failed is listed exactly once, as `fail`, with its error message and `started` iff its
   actions were started, whatever the report flag of the failure is ([ti] is arbitrary): serial runner ... *)
Theorem C19_json_failed_task_is_fail_serial :
  forall tasks wake_rank calc_rank continue_ always fuel selection ti fv k kd,
  let run := run_serial tasks wake_rank calc_rank continue_ always fuel selection in
  snd run <> 99 -> In (EFailure k kd) (fst run) ->
  exists doc v,
    w_stdout (snd (report ti false RJson fv (fst run))) = [ODoc doc] /\ NoDup (map fst (d_tasks doc)) /\
    In (k, v) (d_tasks doc) /\ tr_result v = Some JFail /\ tr_started v = mem k (execs (fst run)) /\ tr_error v = Some kd.
Proof. exact json_failed_serial. Qed.
Print Assumptions C19_json_failed_task_is_fail_serial.

(* ... and the parallel runners, every schedule (the failure object crosses the result queue) *)
Theorem C19_json_failed_task_is_fail_parallel :
  forall tasks wake_rank calc_rank continue_ always proc fuel nprocs sched selection ti fv k kd,
  let run := run_parallel tasks wake_rank calc_rank continue_ always proc fuel nprocs sched selection in
  let tr := events_of (fst run) in
  In (EFailure k kd) tr ->
  exists doc v,
    w_stdout (snd (report ti proc RJson fv tr)) = [ODoc doc] /\ NoDup (map fst (d_tasks doc)) /\
    In (k, v) (d_tasks doc) /\ tr_result v = Some JFail /\ tr_started v = mem k (execs tr) /\ tr_error v = Some kd.
Proof. exact json_failed_parallel. Qed.
Print Assumptions C19_json_failed_task_is_fail_parallel.

(* the exit code is the runner's alone: neither the report flags (no task attribute at all) nor the reporter class
   nor --failure-verbosity enter it *)
Theorem C19_exit_code_ignores_report_flag_serial :
  forall tasks wake_rank calc_rank continue_ always fuel selection ti kind fv,
  snd (report_serial tasks wake_rank calc_rank continue_ always fuel selection ti kind fv) =
  snd (run_serial tasks wake_rank calc_rank continue_ always fuel selection).
Proof. exact exit_code_ignores_reporter_serial. Qed.
Print Assumptions C19_exit_code_ignores_report_flag_serial.
Theorem C19_exit_code_ignores_report_flag_parallel :
  forall tasks wake_rank calc_rank continue_ always proc fuel nprocs sched selection ti kind fv,
  snd (report_parallel tasks wake_rank calc_rank continue_ always proc fuel nprocs sched selection ti kind fv) =
  snd (run_parallel tasks wake_rank calc_rank continue_ always proc fuel nprocs sched selection).
Proof. exact exit_code_ignores_reporter_parallel. Qed.
Print Assumptions C19_exit_code_ignores_report_flag_parallel.

(* the console family (console, executed-only, zero, error-only) does what the flag asks for, as the code does
   (ConsoleReporter.add_failure 47-52 neither prints nor remembers the failure, so complete_run 89-108 has no
   summary entry for it either; ErrorOnlyReporter.add_failure 153-155 returns): when the failures reported for
   task k are its own (TaskFailed 0 / TaskError 1, returned by its actions) and carry report=False, NO line about
   a failure of k reaches the real stdout -- no failure entry, no `<k> <stderr>:` / `<k> <stdout>:` summary.
   (The `.  k` line, what its actions echoed, and the exit code 1 / 2 are not affected: C19_console_result_lines,
   C19_exit_code_ignores_report_flag_*, Example C19_unreported_failure_nonvacuous.) *)
Theorem C19_console_unreported_failure_silent :
  forall ti proc kind fv tr k, kind <> RJson ->
  ta_report (ti k) = false -> (forall kd, In (EFailure k kd) tr -> kd = 0 \/ kd = 1) ->
  filter (about_failure k) (lines_of (w_stdout (snd (report ti proc kind fv tr)))) = [].
Proof. exact console_unreported_silent_attr. Qed.
Print Assumptions C19_console_unreported_failure_silent.

(* ---- non-vacuity and witnesses ---- *)
(* task 1 succeeds (prints 101 / 201, verbosity 2, teardown prints 301 and fails), task 2 fails (verbosity 0),
   task 3 depends on 2 (unmet dependency), --continue *)
Definition ex19 (n : name) : option task :=
  match n with
  | 1 => Some (Build_task [] [] [] true false CkRun false OOk [] [] [])
  | 2 => Some (Build_task [] [] [] false false CkRun false OFail [] [] [])
  | 3 => Some (Build_task [2] [] [] false false CkRun false OOk [] [] [])
  | _ => None end.
Definition ti19 (n : name) : tattr :=
  match n with
  | 1 => Build_tattr true false 2 [101] [201] [301] [] true true
  | 2 => Build_tattr true false 0 [102] [] [] [] false true
  | _ => Build_tattr true false 2 [] [] [] [] false true end.

Example C19_json_nonvacuous :
  let x := report_serial ex19 (fun _ _ => 0) (fun _ => 0) true false 200 [1; 3] ti19 RJson 0 in
  w_stdout (snd (fst x)) =
    [ODoc {| d_tasks := [(1, Build_trec (Some JSuccess) true [101] [201] None);
                         (2, Build_trec (Some JFail) true [102] [] (Some 0));
                         (3, Build_trec (Some JFail) false [] [] (Some 2))];
             d_out := [Raw 101; Raw 301];
             d_err := [Raw 201; Line (LCleanupMsg 1)] |}] /\
  w_stderr (snd (fst x)) = [] /\ snd x = 2.
Proof. vm_compute. auto. Qed.

(* the hypotheses of C19_json_document are met by that run *)
Example C19_reporter_input_nonvacuous :
  exists body tds mk,
    run_events (fst (run_serial ex19 (fun _ _ => 0) (fun _ => 0) true false 200 [1; 3])) body tds mk /\ mk = [].
Proof.
  destruct (serial_run_events ex19 (fun _ _ => 0) (fun _ => 0) true false 200 [1; 3]) as (body & tds & mk & H & Hc).
  - vm_compute. discriminate.
  - exists body, tds, mk. split; auto. destruct Hc as [Hc|Hc]; auto. vm_compute in Hc. destruct Hc as [Hc|[Hc|[]]]; discriminate.
Qed.

Example C19_console_nonvacuous :
  chunks_of (w_stdout (snd (fst (report_serial ex19 (fun _ _ => 0) (fun _ => 0) true false 200 [1; 3] ti19 RConsole 0)))) =
    [Line (LExec 1); Raw 101; Line (LExec 2); Line (LFail 2 0); Line (LFail 3 2); Raw 301;
     Line LSep; Line (LSumFail 2 0); Line (LSumErr 2); Line (LSumOut 2); Raw 102] /\
  chunks_of (w_stderr (snd (fst (report_serial ex19 (fun _ _ => 0) (fun _ => 0) true false 200 [1; 3] ti19 RConsole 0)))) =
    [Raw 201; Line (LCleanupMsg 1)].
Proof. vm_compute. auto. Qed.

(* task 2's failure carries report=False: same document, same exit code; the console reporter prints `.  2` and
   nothing else about task 2 (the unmet dependency of task 3, created by the runner, is reported as always);
   error-only prints the one failure that is to be reported *)
Definition ti19q (n : name) : tattr :=
  match n with 2 => Build_tattr true false 0 [102] [] [] [] false false | _ => ti19 n end.
Example C19_unreported_failure_nonvacuous :
  same_but_report ti19 ti19q /\
  (let x := report_serial ex19 (fun _ _ => 0) (fun _ => 0) true false 200 [1; 3] ti19q RJson 0 in
   w_stdout (snd (fst x)) =
     [ODoc {| d_tasks := [(1, Build_trec (Some JSuccess) true [101] [201] None);
                          (2, Build_trec (Some JFail) true [102] [] (Some 0));
                          (3, Build_trec (Some JFail) false [] [] (Some 2))];
              d_out := [Raw 101; Raw 301];
              d_err := [Raw 201; Line (LCleanupMsg 1)] |}] /\ snd x = 2) /\
  (let x := report_serial ex19 (fun _ _ => 0) (fun _ => 0) true false 200 [1; 3] ti19q RConsole 2 in
   chunks_of (w_stdout (snd (fst x))) = [Line (LExec 1); Raw 101; Line (LExec 2); Line (LFail 3 2); Raw 301] /\ snd x = 2) /\
  (let x := report_serial ex19 (fun _ _ => 0) (fun _ => 0) true false 200 [1; 3] ti19q RErrorOnly 0 in
   chunks_of (w_stdout (snd (fst x))) = [Raw 101; Line (LEFail 3 2); Raw 301] /\ snd x = 2) /\
  (* only the quiet failure: nothing but `.  2` on the console, exit code 1 *)
  (let x := report_serial ex19 (fun _ _ => 0) (fun _ => 0) false false 200 [2] ti19q RConsole 2 in
   chunks_of (w_stdout (snd (fst x))) = [Line (LExec 2)] /\ w_stderr (snd (fst x)) = [] /\ snd x = 1) /\
  (let x := report_serial ex19 (fun _ _ => 0) (fun _ => 0) false false 200 [2] ti19q RJson 0 in
   w_stdout (snd (fst x)) = [ODoc {| d_tasks := [(2, Build_trec (Some JFail) true [102] [] (Some 0))]; d_out := []; d_err := [] |}] /\
   snd x = 1).
Proof.
  split; [intros n; destruct n as [|p]; [reflexivity|]; do 3 (destruct p; try reflexivity)|].
  vm_compute. auto 20.
Qed.

(* REFUTED on the unchanged code (observation, no output is mixed in and no result is wrong): under the
   PROCESS runner with --reporter json, what a teardown (or an action, beyond the captured per-task
   out/err) echoes to sys.stdout / sys.stderr is written into the child's copy of JsonReporter's StringIO
   and reaches neither the document nor the real streams.  Witness: the same tasks, 2 processes. *)
Theorem C19_json_worker_output_lost_refuted :
  exists tasks ti sel,
  let x := report_parallel tasks (fun _ _ => 0) (fun _ => 0) true false true 200 2 [] sel ti RJson 0 in
  In (SOut, Raw 301) (w_lost (snd (fst x))) /\
  (forall d, In (ODoc d) (w_stdout (snd (fst x))) -> ~ In (Raw 301) (d_out d)) /\
  ~ In (OChunk (Raw 301)) (w_stdout (snd (fst x))) /\
  (* while the same teardown's ERROR does arrive (forwarded by MReporter.cleanup_error) *)
  (exists d, w_stdout (snd (fst x)) = [ODoc d] /\ In (Line (LCleanupMsg 1)) (d_err d)).
Proof.
  exists ex19, ti19, [1; 3]. vm_compute. split; [auto|]. split; [|split].
  - intros d [E|[]]. inversion E; subst. simpl. tauto.
  - intros [E|[]]. discriminate.
  - eexists. split; [reflexivity|]. simpl. auto.
Qed.
Print Assumptions C19_json_worker_output_lost_refuted.

(* doit before commit dcd2dce (fixed since; model of the old behaviour = calls_of_legacy): a teardown failing
   in a worker process made the run end with a traceback on the real stderr, outside the JSON document *)
Theorem C19_proc_teardown_error_legacy_refuted :
  exists tr,
  let st := run ti19 (init RJson 0) (CInitialize :: calls_of_legacy ti19 true tr) in
  In (OChunk (Raw tok_crash)) (w_stderr (snd st)) /\
  (forall d, In (ODoc d) (w_stdout (snd st)) -> ~ In (Line (LCleanupMsg 1)) (d_err d)).
Proof.
  exists [EGetStatus 1; EExecute 1; ESave 1; ESuccess 1; ETeardown 1; EClose]. vm_compute. split; [auto|].
  intros d [E|[]]. inversion E; subst. simpl. tauto.
Qed.
Print Assumptions C19_proc_teardown_error_legacy_refuted.

(* ====================================================================================================
   The CHARACTERS of the document (Model/JsonText.v, proofs in Proofs/JsonTextP.v): the last step of
   JsonReporter.complete_run, json.dump(json_data, self.outstream), with the texts as they are in the
   implementation -- lists of code points 0 .. 0x10FFFF, lone surrogates included -- and a text stream
   that raises UnicodeEncodeError on a character its codec does not have (errors='strict').
   [dumps_doc d] = the characters json.dump produces for the reporter's document [d] (task names, results,
   captured out / err, failure messages, start time, text of the elapsed time, run-level out / err);
   [write enc s] = (an exception was raised, the bytes that reached the stream).
   ==================================================================================================== *)
From DoitV Require Import JsonText JsonTextP.

(* whatever the tasks are called, wrote or failed with: every character of the document is printable
   ASCII ([nums_ok]: the text of a float is -- float.__repr__ is an oracle) *)
Theorem C19_json_text_is_ascii :
  forall d, nums_ok d = true -> forallb printable (dumps_doc d) = true.
Proof. exact dumps_doc_printable. Qed.
Print Assumptions C19_json_text_is_ascii.

(* ... so on a stream of ANY codec that maps ASCII to itself (ascii, latin-1, utf-8, cp1252, ... stdout
   under PYTHONIOENCODING / the C locale, the utf-8 file of -o) the write of the document never fails
   part-way, and what reaches the stream is the whole document, the same bytes for every such codec *)
Theorem C19_json_text_write_never_fails :
  forall enc : N -> option (list N),
  (forall c, c < 128 -> enc c = Some [c]) ->
  forall d, nums_ok d = true ->
  write enc (dumps_doc d) = (false, dumps_doc d).
Proof. exact write_doc. Qed.
Print Assumptions C19_json_text_write_never_fails.

(* the three codecs the correspondence check evaluates are such codecs *)
Theorem C19_json_text_codecs_ascii_compatible :
  forall k c, c < 128 -> codec k c = Some [c].
Proof. exact codec_ascii_compatible. Qed.
Print Assumptions C19_json_text_codecs_ascii_compatible.

(* content cannot break the document: the reader (json.decoder.py_scanstring, strict) started after the
   opening quote of an escaped string stops exactly at ITS closing quote, whatever follows and whatever
   the text contains (quotes, backslashes, look-alikes of the document), and gives back the text's code
   points -- [merge]: a high surrogate half directly followed by a low half reads back as the one
   character their \u notation denotes *)
Theorem C19_json_text_string_read_back :
  forall s rest, forallb code_point s = true ->
  scan (tl (esc_string s) ++ rest) = Some (merge s, rest).
Proof. exact scan_esc_string. Qed.
Print Assumptions C19_json_text_string_read_back.

(* ... exactly the text when it has no such pair (everything os.fsdecode can produce: its lone
   surrogates U+DC80..U+DCFF are all low halves) *)
Theorem C19_json_text_string_read_back_exact :
  forall s rest, forallb code_point s = true -> no_pair s = true ->
  scan (tl (esc_string s) ++ rest) = Some (s, rest).
Proof. exact scan_esc_string_exact. Qed.
Print Assumptions C19_json_text_string_read_back_exact.

(* non-vacuity: "found caf\udce9.txt\n" (a name that is not UTF-8, through os.fsdecode), U+00E9, U+1F600 and
   a quote, written to an ASCII-only stream: nothing raised, every byte below 128; a utf-8 stream gets the
   same bytes; without the escaping the same text cannot be written to either ([codec_utf8] has no lone
   surrogate); the text reads back as it was, two adjacent halves as one character *)
Example C19_json_text_nonvacuous :
  let s := [102; 111; 117; 110; 100; 32; 99; 97; 102; 56553; 46; 116; 120; 116; 10; 233; 128512; 34] in
  let d := Build_jtdoc [Build_jtask [116; 48] (Some [115; 117; 99; 99; 101; 115; 115]) (Some s) (Some []) None None None] s [] in
  nums_ok d = true /\
  fst (write codec_ascii (dumps_doc d)) = false /\
  forallb (fun b => b <? 128) (snd (write codec_ascii (dumps_doc d))) = true /\
  write codec_utf8 (dumps_doc d) = write codec_ascii (dumps_doc d) /\
  fst (write codec_ascii s) = true /\ fst (write codec_utf8 s) = true /\
  forallb code_point s = true /\ no_pair s = true /\
  scan (tl (esc_string s) ++ [44; 32]) = Some (s, [44; 32]) /\
  scan (tl (esc_string [55357; 56832])) = Some ([128512], []).
Proof. vm_compute. repeat split; reflexivity. Qed.
