(* C15 -- Delayed task creation happens once, after its trigger.
   Statements only; every proof is `exact <lemma of Proofs/DelayedP.v>` or a closed computation.
   Model: Model/Delayed.v (run_serial = TaskDispatcher with the loader branch + serial Runner on a
   task table that grows; process_sel = TaskControl._filter_tasks).  [init_ok d0] describes what
   TaskControl.process leaves: no ExecNode yet, empty trace, loader.basename only ever names a
   task carrying that loader object, loader.task_dep (`executed`) is a task_dep of every task carrying
   the loader (Task.__init__).  All theorems quantify over every table, creator output, oracle
   (set iteration orders), --continue/--always flag, fuel and selection satisfying that. *)
From DoitV Require Import Base Dispatch Runner Delayed DelayedP.
Open Scope N_scope.

(* each creator function is evaluated at most once in a run (repaired code, HEAD 0acbaec), whatever
   the number of placeholder tasks (`creates`), sub-task or regex placeholders that refer to it,
   also in runs that end with an error or run out of fuel *)
Theorem C15_creator_once : forall creators wake_rank calc_rank continue_ always fuel d0 c,
  init_ok d0 ->
  (n_create c (fst (run_serial false creators wake_rank calc_rank continue_ always fuel d0)) <= 1)%nat.
Proof. exact creator_once_init. Qed.
Print Assumptions C15_creator_once.

(* an evaluation of a creator through a loader whose `executed` is e comes after a final report
   (success, up-to-date, ignored or failure) of task e -- for the repaired and the legacy code *)
Theorem C15_after_trigger : forall legacy creators wake_rank calc_rank continue_ always fuel d0,
  init_ok d0 ->
  forall pre c l t post e,
    fst (run_serial legacy creators wake_rank calc_rank continue_ always fuel d0) = pre ++ ECreate c l t :: post ->
    l_executed (q_ld d0 l) = Some e -> final_in e pre.
Proof. exact after_trigger. Qed.
Print Assumptions C15_after_trigger.

(* PARTIAL.  Proved: the tasks a creator yields become table entries without a loader (so the
   ExecNode made for them runs _add_task exactly as for a static task: no loader branch), and an
   entry once present is never removed.  Missing: that the C01/C02 statements (dependencies before
   execution, executed at most once, up-to-date rule) of the static dispatcher model carry over to
   the growing table; they are only checked by the correspondence harness (oracle O3). *)
Theorem C15_created_tasks_ordinary_partial : forall d new n t,
  In (n, t) new ->
  q_tab (install d new) n <> None /\ dt_loader (tab_get (install d new) n) = None.
Proof. intros d new n t. exact (install_in new d n t). Qed.
Print Assumptions C15_created_tasks_ordinary_partial.

(* PARTIAL (three statements).  A command-line word f that is no task, no known target, whose
   basename is no task and that is matched by exactly one delayed task k (target_regex, or any
   delayed task with --auto-delayed-regex): *)
(* 1. _filter_tasks selects exactly one new task `_regex_target_f:k`, a placeholder with k's loader
      and file_dep [f], in a fresh RegexGroup {target f; tasks {k}; not found}, and sets loader.basename = k *)
Theorem C15_regex_target_select_partial : forall base_of is_rx rmatch rx_name auto s f k T,
  q_tab (ss_d s) f = None -> q_tg (ss_d s) f = None -> q_tab (ss_d s) (base_of f) = None ->
  matched is_rx rmatch auto (ss_d s) (ss_order s) f = [k] ->
  dt_loader (tab_get (ss_d s) k) = Some T ->
  exists s', filter_one base_of is_rx rmatch rx_name auto s f = Some s' /\
    let nm := rx_name f k in
    q_torun (ss_d s') = q_torun (ss_d s) ++ [nm] /\
    q_rxg (ss_d s') nm = Some (ss_gnext s) /\
    q_grp (ss_d s') (ss_gnext s) = Build_rgroup f [k] false /\
    l_basename (q_ld (ss_d s') T) = Some k /\
    (exists L, q_tab (ss_d s') nm = Some (placeholder L T [f]) /\ l_executed L = l_executed (q_ld (ss_d s) T)).
Proof. exact filter_one_single. Qed.
Print Assumptions C15_regex_target_select_partial.

(* 2. when that placeholder reaches the loader branch and, after the creator ran, some task p has f
      as a target: p becomes a pending task_dep of the placeholder (so p and what p depends on are
      dispatched before it), the group is marked found and the node restarts as an ordinary task *)
Theorem C15_regex_target_found_partial : forall legacy creators d me T d2 g f ks p,
  create_part legacy creators d me T = Some d2 ->
  q_rxg d2 me = Some g -> q_grp d2 g = Build_rgroup f ks false -> q_tg d2 f = Some p ->
  dt_loader (tab_get d2 me) = Some T -> dn_task (node_of d2 me) = tab_get d2 me -> In f (dt_file_dep (tab_get d2 me)) ->
  exists d', load_branch legacy creators d me T = LReset d' /\ g_found (q_grp d' g) = true /\
             In p (dn_pt (node_of d' me)) /\ dn_pc (node_of d' me) = QStart /\ dt_loader (dn_task (node_of d' me)) = None.
Proof. exact load_branch_found. Qed.
Print Assumptions C15_regex_target_found_partial.

(* 3. when nobody produces f: InvalidCommand(not_found=f) is raised, the exit status is 3.
   Missing for 1-3: that every run reaches the loader branch of the placeholder (progress: no earlier
   failure stop, no cycle, enough fuel) and that nothing outside the dependency closure of p and of the
   trigger is executed; the multi-match RegexGroup logic is modelled and tied, not proved. *)
Theorem C15_regex_target_missing_partial : forall legacy creators d me T d2 g f k r,
  create_part legacy creators d me T = Some d2 ->
  q_rxg d2 me = Some g -> q_grp d2 g = Build_rgroup f [k] false -> l_basename (q_ld d2 T) = Some k ->
  q_tg d2 f = None ->
  load_branch legacy creators d me T = LNotFound f d2 /\ exit_code r (StopNotFound f) = 3.
Proof.
  intros legacy creators d me T d2 g f k r H1 H2 H3 H4 H5.
  exact (conj (load_branch_not_found legacy creators d me T d2 g f k H1 H2 H3 H4 H5) (not_found_exit r f)).
Qed.
Print Assumptions C15_regex_target_missing_partial.

(* ------------------------------------------------------------------ examples (non-vacuity) *)
(* names: 1 = static task x, 2 = delayed task d (create_after(executed='x', target_regex=..)),
   3 = d:a (target 10, task_dep x), 4 = d:b (target 11), 5 = word 'd:7', 20/21 = '_regex_target_<w>:d' *)
Definition ex_x : dtask := {| dt := empty_task; dt_file_dep := []; dt_targets := []; dt_loader := None |}.
Definition ex_ph : dtask := {| dt := task_with_dep empty_task [1]; dt_file_dep := []; dt_targets := []; dt_loader := Some 2 |}.
Definition ex_tab (n : name) : option dtask := if n =? 1 then Some ex_x else if n =? 2 then Some ex_ph else None.
Definition ex_ld (n : name) : loader := if n =? 2 then Build_loader 0 (Some 1) None false true else empty_loader.
Definition ex_sub (deps tg : list name) : dtask :=
  {| dt := task_with_dep empty_task deps; dt_file_dep := []; dt_targets := tg; dt_loader := None |}.
Definition ex_creators (c : N) (t : name) : list (name * dtask) :=
  [(2, ex_sub [3; 4] []); (3, ex_sub [1] [10]); (4, ex_sub [] [11])].
Definition ex_d0 : dst := set_torun (loaded ex_tab ex_ld (fun _ => None)) [2].
Definition ex_run legacy d := run_serial legacy ex_creators (fun _ _ => 0) (fun x => x) false false 200 d.

Example C15_init_ok_nonvacuous : init_ok ex_d0.
Proof.
  constructor; try reflexivity.
  - intros T b. unfold ex_d0, ex_ld; simpl. destruct (T =? 2); simpl; discriminate.
  - intros k T e. unfold ex_d0, tab_get, ex_tab, ex_ld; simpl.
    destruct (k =? 1); simpl; [discriminate|]. destruct (k =? 2); simpl; [|discriminate].
    intro H; inversion H; subst. simpl. intro H2; inversion H2; subst. left; reflexivity.
Qed.

(* the run evaluates the creator (once), after x succeeded, then runs d:a, d:b and the group d *)
Example C15_trace_nonvacuous :
  enc_dtrace (fst (ex_run false ex_d0)) =
  [1;1; 5;1; 7;1; 6;1;  14;0;2;2;  1;3; 5;3; 7;3; 6;3;  1;4; 5;4; 7;4; 6;4;  1;2; 5;2; 7;2; 6;2;  10]%Z
  /\ snd (ex_run false ex_d0) = 0.
Proof. vm_compute. split; reflexivity. Qed.

(* selection by target: `doit run <10>` with target_regex matching: exactly the producer d:a, its
   dependency x and the placeholder are run; d:b is not *)
Definition ex_sel (w : name) := process_sel (fun n => if n =? 5 then 2 else n) (fun n => 20 <=? n)
                                            (fun T f => f <? 13) (fun f k => 10 + f) false
                                            (loaded ex_tab ex_ld (fun _ => None)) [1; 2] (Some [w]).
Example C15_regex_target_example :
  option_map (fun d => (enc_dtrace (fst (ex_run false d)), snd (ex_run false d))) (ex_sel 10) =
  Some ([1;1; 5;1; 7;1; 6;1;  14;0;2;2;  1;3; 5;3; 7;3; 6;3;  1;20; 5;20; 7;20; 6;20;  10]%Z, 0).
Proof. vm_compute. reflexivity. Qed.

(* a target that matches the regex but that no created task produces: InvalidCommand, exit status 3 *)
Example C15_regex_target_missing_example :
  option_map (fun d => (enc_dtrace (fst (ex_run false d)), snd (ex_run false d))) (ex_sel 12) =
  Some ([1;1; 5;1; 7;1; 6;1;  14;0;2;2;  10;  15;12]%Z, 3).
Proof. vm_compute. reflexivity. Qed.

(* a word nobody can produce is rejected by _filter_tasks *)
Example C15_unknown_word_example : ex_sel 13 = None.
Proof. vm_compute. reflexivity. Qed.

(* REFUTED for sub-task names (finding K3, shape 'delayed-subtask-never-created'): `doit run d:7`
   where the creator of d never yields d:7 -- the placeholder made by _filter_tasks runs as an
   empty task after the creator was evaluated; exit status 0, no error *)
Theorem C15_unknown_subtask_is_error_refuted :
  exists d, ex_sel 5 = Some d /\
            In (Ev (ESuccess 5)) (fst (ex_run false d)) /\ snd (ex_run false d) = 0 /\
            ~ In 5 (map fst (ex_creators 0 2)).
Proof.
  destruct (ex_sel 5) as [d|] eqn:E; [|vm_compute in E; discriminate].
  exists d. split; [reflexivity|].
  assert (H : Some d = ex_sel 5) by (symmetry; exact E). vm_compute in H. inversion H; subst. clear.
  split; [vm_compute; tauto|]. split; [vm_compute; reflexivity|]. vm_compute. intuition discriminate.
Qed.
Print Assumptions C15_unknown_subtask_is_error_refuted.

(* the code before the repair 0acbaec (shape 'creates-name-not-yielded'): a creator with
   creates=['a','b'] (names 2 and 6, one DelayedLoader copy each) that yields only 'a' is evaluated twice *)
Definition lg_tab (n : name) : option dtask :=
  if n =? 2 then Some {| dt := empty_task; dt_file_dep := []; dt_targets := []; dt_loader := Some 2 |}
  else if n =? 6 then Some {| dt := empty_task; dt_file_dep := []; dt_targets := []; dt_loader := Some 6 |} else None.
Definition lg_ld (n : name) : loader := Build_loader 0 None None false false.
Definition lg_creators (c : N) (t : name) : list (name * dtask) := [(2, ex_sub [] [])].
Definition lg_d0 : dst := set_torun (loaded lg_tab lg_ld (fun _ => None)) [2; 6].
Definition lg_run legacy := run_serial legacy lg_creators (fun _ _ => 0) (fun x => x) false false 200 lg_d0.

Theorem C15_creator_once_legacy_refuted :
  init_ok lg_d0 /\ n_create 0 (fst (lg_run true)) = 2%nat /\ n_create 0 (fst (lg_run false)) = 1%nat.
Proof.
  split; [|split; vm_compute; reflexivity].
  constructor; try reflexivity.
  - intros T b. simpl. discriminate.
  - intros k T e _. simpl. discriminate.
Qed.
Print Assumptions C15_creator_once_legacy_refuted.
