(* C15 -- Delayed task creation happens once, after its trigger.
   Statements only; every proof is `exact <lemma of Proofs/DelayedP.v>` or a closed computation.
   Model: Model/Delayed.v (run_serial = TaskDispatcher with the loader branch + serial Runner on a
   task table that grows; process_sel = TaskControl._filter_tasks).  [init_ok d0] describes what
   TaskControl.process leaves: no ExecNode yet, empty trace, loader.basename only ever names a
   task carrying that loader object, loader.task_dep (`executed`) is a task_dep of every task carrying
   the loader (Task.__init__).  All theorems quantify over every table, creator output, oracle
   (set iteration orders), --continue/--always flag, fuel and selection satisfying that.
   [keys_ok keys d0]: the list used to enumerate the task table (marking loop, control.py 497-499)
   contains every entry that has a loader.
   Runners: run_serial = the serial Runner.  run_script ops = ANY runner built on the same
   dispatcher generator and the same select_task/execute_task/process_task_result/finish (MRunner,
   MThreadRunner with any number of workers and any arrival order of results): ops is the sequence of
   its calls; the *_any_schedule theorems hold for every such sequence, well-formed or not.
   Several runs in one process (DoitMain.run twice, doit.api, %doit, a test-suite of a dodo file): every theorem above speaks
   about ONE run that starts from [loaded tab ld tg] -- from loaders as load_tasks hands them out.  They apply to the n-th run
   of a process because each run starts from fresh DelayedLoader copies: last section (C15_every_load_hands_out_fresh_copies,
   from the frame property of selections and runs; the seeded change C15e -- no copy for plain-function creators -- refuted). *)
From DoitV Require Import Base Dispatch Runner Delayed DelayedP DelayedFrameP.
Open Scope N_scope.

(* each creator function is evaluated at most once in a run (HEAD), whatever the number of
   placeholder tasks (several names in `creates`: one DelayedLoader copy each), sub-task or regex
   placeholders that refer to it, and whichever of their ExecNodes exist already when the creator is
   evaluated (nodes of the other names made earlier by a common parent keep their stale placeholder
   object and its own loader copy: see stale_node_no_evaluation below); also in runs that end with
   an error or run out of fuel *)
Theorem C15_creator_once : forall keys creators wake_rank calc_rank continue_ always fuel d0 c,
  init_ok d0 -> keys_ok keys d0 ->
  (n_create c (fst (run_serial VHead keys creators wake_rank calc_rank continue_ always fuel d0)) <= 1)%nat.
Proof. exact creator_once_init. Qed.
Print Assumptions C15_creator_once.

(* the same under every runner and schedule: e.g. executed=pre with 2 workers, where the nodes of all
   names of `creates` are instantiated while pre is still running *)
Theorem C15_creator_once_any_schedule : forall keys creators wake_rank calc_rank continue_ always fuel ops d0 c,
  init_ok d0 -> keys_ok keys d0 ->
  (n_create c (fst (run_script VHead keys creators wake_rank calc_rank continue_ always fuel ops d0)) <= 1)%nat.
Proof. exact creator_once_script_init. Qed.
Print Assumptions C15_creator_once_any_schedule.

(* why a pre-existing node of another name does not evaluate again: its table entry was replaced by
   the created task (no loader), and the flag that is tested is the one reachable through the table *)
Theorem C15_stale_node_no_evaluation : forall keys creators d me T,
  dt_loader (tab_get d (to_load_of d me T)) = None -> create_part VHead keys creators d me T = Some d.
Proof. exact stale_node_no_evaluation. Qed.
Print Assumptions C15_stale_node_no_evaluation.

(* an evaluation of a creator through a loader whose `executed` is e comes after a final report
   (success, up-to-date, ignored or failure) of task e -- for HEAD and both defective variants *)
Theorem C15_after_trigger : forall v keys creators wake_rank calc_rank continue_ always fuel d0,
  init_ok d0 ->
  forall pre c l t post e,
    fst (run_serial v keys creators wake_rank calc_rank continue_ always fuel d0) = pre ++ ECreate c l t :: post ->
    l_executed (q_ld d0 l) = Some e -> final_in e pre.
Proof. exact after_trigger. Qed.
Print Assumptions C15_after_trigger.

(* ... under every runner and schedule (a script that sends a node back before the runner gave it a
   status is stopped by the model: StopProtocol) *)
Theorem C15_after_trigger_any_schedule : forall v keys creators wake_rank calc_rank continue_ always fuel ops d0,
  init_ok d0 ->
  forall pre c l t post e,
    fst (run_script v keys creators wake_rank calc_rank continue_ always fuel ops d0) = pre ++ ECreate c l t :: post ->
    l_executed (q_ld d0 l) = Some e -> final_in e pre.
Proof. exact after_trigger_script. Qed.
Print Assumptions C15_after_trigger_any_schedule.

(* PARTIAL.  Proved: the tasks a creator yields become table entries without a loader (so the
   ExecNode made for them runs _add_task exactly as for a static task: no loader branch), and an
   entry once present is never removed.  Missing: that the C01/C02 statements (dependencies before
   execution, executed at most once, up-to-date rule) of the static dispatcher model carry over to
   the growing table; they are only checked by the correspondence harness (oracle O3). *)
Theorem C15_created_tasks_ordinary_partial : forall d new n t,
  In (n, t) new ->
  q_tab (install d new) n <> None /\ dt_loader (tab_get (install d new) n) = None.
Proof. intros d new n t. exact (install_in new d n t). Qed.
Print Assumptions C15_created_tasks_ordinary_partial.

(* ExecNode.reset_task (control.py 322-327): when the loader branch has run (creator evaluated or found evaluated) the node
   of the placeholder `me` restarts on tasks[me], which has no loader, and agrees with a FRESH node of that task
   (new_node: what ExecNode.__init__ builds for a statically defined task, whatever its parent) in everything the
   generator of _add_task reads to find the next dependency: task object, pending task_dep and pending calc_dep,
   accumulated task_dep / calc_dep, position.  (Kept from the placeholder: ancestors, waiting_me, run_status, bad_deps,
   ignored_deps.)  The seeded change C15c removes the calc_dep part of this: harness kind `calc`. *)
Theorem C15_reset_node_as_static : forall v keys creators d me T d',
  load_branch v keys creators d me T = LReset d' ->
  forall anc, let t := tab_get d' me in let nd := node_of d' me in let fresh := new_node anc me t in
  dt_loader t = None /\ dn_task nd = t /\
  dn_pt nd = dn_pt fresh /\ dn_pcl nd = dn_pcl fresh /\ dn_at nd = dn_at fresh /\ dn_ac nd = dn_ac fresh /\
  dn_pc nd = dn_pc fresh /\ dn_pcl nd = t_calc_dep (dt t) /\ dn_pt nd = t_task_dep (dt t).
Proof. exact load_branch_reset_fresh. Qed.
Print Assumptions C15_reset_node_as_static.

(* consequence: a created task with calc_dep that takes over its placeholder's node (creator returning one dict; plain task
   named like the creator or like an entry of `creates`; sub-task selected by name) is not handed to the runner first:
   the restarted generator first instantiates the node of its first calc_dep task (first in the iteration order of the set) *)
Theorem C15_reset_then_calc_dep_first : forall v keys creators calc_rank d me T d' c r fuel,
  load_branch v keys creators d me T = LReset d' ->
  sort_by calc_rank (t_calc_dep (dt (tab_get d' me))) = c :: r ->
  c <> me -> q_nodes d' c = None ->
  fst (gen_step v keys creators calc_rank (S (S (S fuel))) d' me) = YNode c.
Proof. exact reset_then_calc_dep_first. Qed.
Print Assumptions C15_reset_then_calc_dep_first.

(* PARTIAL (three statements).  A command-line word f that is no task, no known target, whose
   basename is no task and that is matched by exactly one delayed task k (target_regex, or any
   delayed task with --auto-delayed-regex): *)
(* 1. _filter_tasks selects exactly one new task `_regex_target_f:k`, a placeholder with k's loader
      and file_dep [f], in a fresh RegexGroup {target f; tasks {k}; not found}, and sets loader.basename = k *)
Theorem C15_regex_target_select_partial : forall sv base_of is_rx rmatch rx_name auto s f k T,
  q_tab (ss_d s) f = None -> q_tg (ss_d s) f = None -> q_tab (ss_d s) (base_of f) = None ->
  matched sv is_rx rmatch auto (ss_d s) (ss_order s) (ss_sub s) f = [k] ->
  dt_loader (tab_get (ss_d s) k) = Some T ->
  exists s', filter_one sv base_of is_rx rmatch rx_name auto s f = Some s' /\
    let nm := rx_name f k in
    q_torun (ss_d s') = q_torun (ss_d s) ++ [nm] /\
    q_rxg (ss_d s') nm = Some (ss_gnext s) /\
    q_grp (ss_d s') (ss_gnext s) = Build_rgroup f [k] false /\
    l_basename (q_ld (ss_d s') T) = Some k /\
    (exists L, q_tab (ss_d s') nm = Some (placeholder L T [f]) /\ l_executed L = l_executed (q_ld (ss_d s) T)).
Proof. exact filter_one_single. Qed.
Print Assumptions C15_regex_target_select_partial.

(* 2. when that placeholder reaches the loader branch and, after the creator ran, some task p has f
      as a target: p becomes a pending task_dep of the placeholder (so p and what p depends on are
      dispatched before it), the group is marked found and the node restarts as an ordinary task *)
Theorem C15_regex_target_found_partial : forall v keys creators d me T d2 g f ks p,
  create_part v keys creators d me T = Some d2 ->
  q_rxg d2 me = Some g -> q_grp d2 g = Build_rgroup f ks false -> q_tg d2 f = Some p ->
  dt_loader (tab_get d2 me) = Some T -> dn_task (node_of d2 me) = tab_get d2 me -> In f (dt_file_dep (tab_get d2 me)) ->
  exists d', load_branch v keys creators d me T = LReset d' /\ g_found (q_grp d' g) = true /\
             In p (dn_pt (node_of d' me)) /\ dn_pc (node_of d' me) = QStart /\ dt_loader (dn_task (node_of d' me)) = None.
Proof. exact load_branch_found. Qed.
Print Assumptions C15_regex_target_found_partial.

(* 3. when nobody produces f: InvalidCommand(not_found=f) is raised, the exit status is 3.
   Missing for 1-3: that every run reaches the loader branch of the placeholder (progress: no earlier
   failure stop, no cycle, enough fuel) and that nothing outside the dependency closure of p and of the
   trigger is executed; the multi-match RegexGroup logic is modelled and tied, not proved. *)
Theorem C15_regex_target_missing_partial : forall v keys creators d me T d2 g f k r,
  create_part v keys creators d me T = Some d2 ->
  q_rxg d2 me = Some g -> q_grp d2 g = Build_rgroup f [k] false -> l_basename (q_ld d2 T) = Some k ->
  q_tg d2 f = None ->
  load_branch v keys creators d me T = LNotFound f d2 /\ exit_code r (StopNotFound f) = 3.
Proof.
  intros v keys creators d me T d2 g f k r H1 H2 H3 H4 H5.
  exact (conj (load_branch_not_found v keys creators d me T d2 g f k H1 H2 H3 H4 H5) (not_found_exit r f)).
Qed.
Print Assumptions C15_regex_target_missing_partial.

(* _filter_tasks after the repair 01f48fb.  A word w selected as a sub-task of a delayed task (w is no task and no target,
   tasks[base_of w] has a loader: control.py 214-223 makes a placeholder that shares that loader OBJECT) is recorded, and
   whatever words follow: w is never matched by the target_regex / --auto-delayed-regex loop again, so it is a member of
   no RegexGroup (the group whose `tasks.remove(loader.basename)` raised KeyError had the placeholder as a member and
   `loader.basename` overwritten with its name) and gets no `_regex_target_<f>:w` task.  Not proved: that no run of the
   dispatcher can reach LKeyError at all (needs the run invariant group.tasks >= {basename of the loaders of the group's
   placeholders}); after this repair the correspondence check treats every escaped KeyError as a violation (oracle R1) *)
Theorem C15_subtask_placeholder_never_regex_matched : forall base_of is_rx rmatch rx_name auto s w tb T s1 fs s2,
  q_tab (ss_d s) w = None -> q_tg (ss_d s) w = None -> q_tab (ss_d s) (base_of w) = Some tb -> dt_loader tb = Some T ->
  (forall g, ~ In w (g_tasks (q_grp (ss_d s) g))) ->
  filter_one SelHead base_of is_rx rmatch rx_name auto s w = Some s1 ->
  filter_tasks SelHead base_of is_rx rmatch rx_name auto s1 fs = Some s2 ->
  In w (ss_sub s2) /\ (forall g, ~ In w (g_tasks (q_grp (ss_d s2) g))) /\
  (forall f, ~ In w (matched SelHead is_rx rmatch auto (ss_d s2) (ss_order s2) (ss_sub s2) f)).
Proof. exact subtask_word_never_in_regex_group. Qed.
Print Assumptions C15_subtask_placeholder_never_regex_matched.

(* WHO is asked for a command-line target (control.py 225-247).  A word f that is no task, no known target and whose basename
   is no task is accepted iff somebody is a candidate, and then the `_regex_target_<f>:<k>` tasks appended to the selection (one
   per candidate, in table order; names rx_name f k, all starting with '_regex_target') and the members of the fresh RegexGroup
   are EXACTLY the placeholders k (no `_regex_target` task, no by-name sub-task placeholder) whose loader DECLARES a target_regex
   that matches f, or declares none while --auto-delayed-regex is on.  In particular (last conjunct) a creator whose declared
   target_regex does not match f is never a candidate, whatever --auto-delayed-regex says: the option gives the implicit `.*`
   only to creators without a target_regex.  (The seeded change C15d flattens this test; the harness oracle RC judges the
   same rule on the real _filter_tasks from the creators' declarations, without the model.)  Not stated here: what the run then
   does with several candidates (asked in this order until one produces f: modelled and tied, C15_regex_target_*_partial) *)
Theorem C15_regex_candidates_exact : forall sv base_of is_rx rmatch rx_name auto s f s',
  q_tab (ss_d s) f = None -> q_tg (ss_d s) f = None -> q_tab (ss_d s) (base_of f) = None ->
  (forall k, is_rx (rx_name f k) = true) ->
  filter_one sv base_of is_rx rmatch rx_name auto s f = Some s' ->
  let ms := matched sv is_rx rmatch auto (ss_d s) (ss_order s) (ss_sub s) f in
  ms <> [] /\
  q_torun (ss_d s') = q_torun (ss_d s) ++ map (rx_name f) ms /\
  q_grp (ss_d s') (ss_gnext s) = Build_rgroup f ms false /\
  (forall k, In k ms <->
     In k (ss_order s) /\ is_rx k = false /\ skip_sub sv (ss_sub s) k = false /\
     exists T, dt_loader (tab_get (ss_d s) k) = Some T /\
               (if l_has_regex (q_ld (ss_d s) T) then rmatch T f = true else auto = true)) /\
  (forall k T, dt_loader (tab_get (ss_d s) k) = Some T -> l_has_regex (q_ld (ss_d s) T) = true -> rmatch T f = false -> ~ In k ms).
Proof. exact regex_candidates_exact. Qed.
Print Assumptions C15_regex_candidates_exact.

(* ------------------------------------------------------------------ examples (non-vacuity) *)
(* names: 1 = static task x, 2 = delayed task d (create_after(executed='x', target_regex=..)),
   3 = d:a (target 10, task_dep x), 4 = d:b (target 11), 5 = word 'd:7', 20/21 = '_regex_target_<w>:d' *)
Definition ex_x : dtask := {| dt := empty_task; dt_file_dep := []; dt_targets := []; dt_loader := None |}.
Definition ex_ph : dtask := {| dt := task_with_dep empty_task [1]; dt_file_dep := []; dt_targets := []; dt_loader := Some 2 |}.
Definition ex_tab (n : name) : option dtask := if n =? 1 then Some ex_x else if n =? 2 then Some ex_ph else None.
Definition ex_ld (n : name) : loader := if n =? 2 then Build_loader 0 (Some 1) None false true else empty_loader.
Definition ex_sub (deps tg : list name) : dtask :=
  {| dt := task_with_dep empty_task deps; dt_file_dep := []; dt_targets := tg; dt_loader := None |}.
Definition ex_creators (c : N) (t : name) : list (name * dtask) :=
  [(2, ex_sub [3; 4] []); (3, ex_sub [1] [10]); (4, ex_sub [] [11])].
Definition ex_d0 : dst := set_torun (loaded ex_tab ex_ld (fun _ => None)) [2].
Definition ex_keys : list name := [1; 2; 3; 4; 5; 20; 21; 22; 23].
Definition ex_run v d := run_serial v ex_keys ex_creators (fun _ _ => 0) (fun x => x) false false 200 d.

Example C15_init_ok_nonvacuous : init_ok ex_d0 /\ keys_ok ex_keys ex_d0.
Proof.
  split.
  - constructor; try reflexivity.
    + intros T b. unfold ex_d0, ex_ld; simpl. destruct (T =? 2); simpl; discriminate.
    + intros k T e. unfold ex_d0, tab_get, ex_tab, ex_ld; simpl.
      destruct (k =? 1); simpl; [discriminate|]. destruct (k =? 2); simpl; [|discriminate].
      intro H; inversion H; subst. simpl. intro H2; inversion H2; subst. left; reflexivity.
  - intros k T. unfold ex_d0, tab_get, ex_tab; simpl.
    destruct (k =? 1) eqn:E1; simpl; [discriminate|]. destruct (N.eqb_spec k 2) as [->|]; simpl; [|discriminate].
    intros _. simpl. auto.
Qed.

(* the run evaluates the creator (once), after x succeeded, then runs d:a, d:b and the group d *)
Example C15_trace_nonvacuous :
  enc_dtrace (fst (ex_run VHead ex_d0)) =
  [1;1; 5;1; 7;1; 6;1;  14;0;2;2;  1;3; 5;3; 7;3; 6;3;  1;4; 5;4; 7;4; 6;4;  1;2; 5;2; 7;2; 6;2;  10]%Z
  /\ snd (ex_run VHead ex_d0) = 0.
Proof. vm_compute. split; reflexivity. Qed.

(* selection by target: `doit run <10>` with target_regex matching: exactly the producer d:a, its
   dependency x and the placeholder are run; d:b is not *)
Definition ex_sel (w : name) := process_sel SelHead (fun n => if n =? 5 then 2 else n) (fun n => 20 <=? n)
                                            (fun T f => f <? 13) (fun f k => 10 + f) false
                                            (loaded ex_tab ex_ld (fun _ => None)) [1; 2] (Some [w]).
Example C15_regex_target_example :
  option_map (fun d => (enc_dtrace (fst (ex_run VHead d)), snd (ex_run VHead d))) (ex_sel 10) =
  Some ([1;1; 5;1; 7;1; 6;1;  14;0;2;2;  1;3; 5;3; 7;3; 6;3;  1;20; 5;20; 7;20; 6;20;  10]%Z, 0).
Proof. vm_compute. reflexivity. Qed.

(* a target that matches the regex but that no created task produces: InvalidCommand, exit status 3 *)
Example C15_regex_target_missing_example :
  option_map (fun d => (enc_dtrace (fst (ex_run VHead d)), snd (ex_run VHead d))) (ex_sel 12) =
  Some ([1;1; 5;1; 7;1; 6;1;  14;0;2;2;  10;  15;12]%Z, 3).
Proof. vm_compute. reflexivity. Qed.

(* a word nobody can produce is rejected by _filter_tasks *)
Example C15_unknown_word_example : ex_sel 13 = None.
Proof. vm_compute. reflexivity. Qed.

(* REFUTED for sub-task names (finding K3, shape 'delayed-subtask-never-created'): `doit run d:7`
   where the creator of d never yields d:7 -- the placeholder made by _filter_tasks runs as an
   empty task after the creator was evaluated; exit status 0, no error *)
Theorem C15_unknown_subtask_is_error_refuted :
  exists d, ex_sel 5 = Some d /\
            In (Ev (ESuccess 5)) (fst (ex_run VHead d)) /\ snd (ex_run VHead d) = 0 /\
            ~ In 5 (map fst (ex_creators 0 2)).
Proof.
  destruct (ex_sel 5) as [d|] eqn:E; [|vm_compute in E; discriminate].
  exists d. split; [reflexivity|].
  assert (H : Some d = ex_sel 5) by (symmetry; exact E). vm_compute in H. inversion H; subst. clear.
  split; [vm_compute; tauto|]. split; [vm_compute; reflexivity|]. vm_compute. intuition discriminate.
Qed.
Print Assumptions C15_unknown_subtask_is_error_refuted.

(* the code before the repair 0acbaec (shape 'creates-name-not-yielded'): a creator with
   creates=['a','b'] (names 2 and 6, one DelayedLoader copy each) that yields only 'a' is evaluated twice *)
Definition lg_tab (n : name) : option dtask :=
  if n =? 2 then Some {| dt := empty_task; dt_file_dep := []; dt_targets := []; dt_loader := Some 2 |}
  else if n =? 6 then Some {| dt := empty_task; dt_file_dep := []; dt_targets := []; dt_loader := Some 6 |} else None.
Definition lg_ld (n : name) : loader := Build_loader 0 None None false false.
Definition lg_creators (c : N) (t : name) : list (name * dtask) := [(2, ex_sub [] [])].
Definition lg_d0 : dst := set_torun (loaded lg_tab lg_ld (fun _ => None)) [2; 6].
Definition lg_run v := run_serial v [2; 6] lg_creators (fun _ _ => 0) (fun x => x) false false 200 lg_d0.

Theorem C15_creator_once_legacy_refuted :
  init_ok lg_d0 /\ n_create 0 (fst (lg_run VLegacy)) = 2%nat /\ n_create 0 (fst (lg_run VHead)) = 1%nat.
Proof.
  split; [|split; vm_compute; reflexivity].
  constructor; try reflexivity.
  - intros T b. simpl. discriminate.
  - intros k T e _. simpl. discriminate.
Qed.
Print Assumptions C15_creator_once_legacy_refuted.

(* ------------------------------------------------------------------ several names in `creates`, nodes made before the evaluation *)
(* names: 1 = pre, 2 = a, 3 = b: placeholders of ONE creator create_after(executed='pre', creates=['a','b']) (one loader
   copy each: 2 and 3), the creator yields a (target 10) and b (target 11); 4 = top with task_dep [a; b] *)
Definition mn_ph (T : name) : dtask :=
  {| dt := task_with_dep empty_task [1]; dt_file_dep := []; dt_targets := []; dt_loader := Some T |}.
Definition mn_tab (n : name) : option dtask :=
  if n =? 1 then Some (ex_sub [] []) else if n =? 2 then Some (mn_ph 2) else if n =? 3 then Some (mn_ph 3)
  else if n =? 4 then Some (ex_sub [2; 3] []) else None.
Definition mn_ld (n : name) : loader := Build_loader 0 (Some 1) None false false.
Definition mn_creators (c : N) (t : name) : list (name * dtask) := [(2, ex_sub [] [10]); (3, ex_sub [] [11])].
Definition mn_keys : list name := [1; 2; 3; 4].
Definition mn_d0 (sel : list name) : dst := set_torun (loaded mn_tab mn_ld (fun _ => None)) sel.
(* `doit run top`, serial runner: the nodes of a and b both exist (made by top) when the creator is evaluated *)
Definition mn_serial v := run_serial v mn_keys mn_creators (fun _ _ => 0) (fun x => x) false false 200 (mn_d0 [4]).
(* `doit run -n 2` (pre a b): worker 1 runs pre; meanwhile the dispatcher instantiates a and b (both wait for pre);
   the script is the sequence of calls MRunner makes *)
Definition mn_ops : list sop :=
  [OSend None; OSelect 1; OSend None; OExec 1; OResult 1; OSend (Some 1); OSelect 3; OSend None; OSelect 2; OExec 3; OExec 2;
   OResult 3; OSend (Some 3); OResult 2; OSend (Some 2); OFinish].
Definition mn_script v := run_script v mn_keys mn_creators (fun _ _ => 0) (fun x => x) false false 200 mn_ops (mn_d0 [1; 2; 3]).

Example C15_multi_names_init_ok_nonvacuous : forall sel, init_ok (mn_d0 sel) /\ keys_ok mn_keys (mn_d0 sel).
Proof.
  intro sel. split.
  - constructor; try reflexivity.
    + intros T b. simpl. discriminate.
    + intros k T e. unfold mn_d0, tab_get, mn_tab, mn_ld; simpl.
      destruct (k =? 1); simpl; [discriminate|].
      destruct (k =? 2); simpl; [intros _ H; inversion H; subst; left; reflexivity|].
      destruct (k =? 3); simpl; [intros _ H; inversion H; subst; left; reflexivity|].
      destruct (k =? 4); simpl; discriminate.
  - intros k T. unfold mn_d0, tab_get, mn_tab; simpl.
    destruct (N.eqb_spec k 1) as [->|]; simpl; [discriminate|].
    destruct (N.eqb_spec k 2) as [->|]; simpl; [intros _; simpl; auto|].
    destruct (N.eqb_spec k 3) as [->|]; simpl; [intros _; simpl; auto|].
    destruct (k =? 4); simpl; discriminate.
Qed.

(* HEAD: one evaluation (through the loader copy of b, whose node is resumed first), after pre; a, b and top succeed *)
Example C15_two_names_shared_parent_example :
  enc_dtrace (fst (mn_serial VHead)) =
  [1;1; 5;1; 7;1; 6;1;  14;0;3;3;  1;3; 5;3; 7;3; 6;3;  1;2; 5;2; 7;2; 6;2;  1;4; 5;4; 7;4; 6;4;  10]%Z
  /\ snd (mn_serial VHead) = 0.
Proof. vm_compute. split; reflexivity. Qed.
Example C15_two_names_trigger_two_workers_example :
  n_create 0 (fst (mn_script VHead)) = 1%nat /\ In (Ev (ESuccess 2)) (fst (mn_script VHead)) /\
  In (Ev (ESuccess 3)) (fst (mn_script VHead)) /\ snd (mn_script VHead) = 0.
Proof. vm_compute. intuition. Qed.

(* REFUTED for the seeded change C15b (the flag of the placeholder's own loader copy is tested instead of
   tasks[to_load].loader): on the same two inputs the stale node of a evaluates the creator a second time; the
   second evaluation registers the targets again -> InvalidTask, exit status 2; a is never executed *)
Theorem C15_creator_once_own_loader_refuted :
  n_create 0 (fst (mn_serial VOwn)) = 2%nat /\ snd (mn_serial VOwn) = 2 /\ ~ In (Ev (EExecute 2)) (fst (mn_serial VOwn)) /\
  n_create 0 (fst (mn_script VOwn)) = 2%nat /\ snd (mn_script VOwn) = 2.
Proof.
  split; [vm_compute; reflexivity|]. split; [vm_compute; reflexivity|].
  split; [vm_compute; intuition discriminate|]. split; vm_compute; reflexivity.
Qed.
Print Assumptions C15_creator_once_own_loader_refuted.

(* ------------------------------------------------------------------ a failed trigger stays on the node that materialises the task *)
(* names: 1 = f (its action fails), 2 = d = create_after(executed='f') yielding the group d with the sub-task d:0 (3),
   4 = z (task_dep d); --continue.  ExecNode.reset_task (nd_reset) keeps bad_deps / ignored_deps of the placeholder. *)
Definition ft_fail : dtask :=
  {| dt := Build_task [] [] [] false false CkRun false OFail [] [] []; dt_file_dep := []; dt_targets := []; dt_loader := None |}.
Definition ft_tab (n : name) : option dtask :=
  if n =? 1 then Some ft_fail
  else if n =? 2 then Some {| dt := task_with_dep empty_task [1]; dt_file_dep := []; dt_targets := []; dt_loader := Some 2 |}
  else if n =? 4 then Some (ex_sub [2] []) else None.
Definition ft_ld (n : name) : loader := Build_loader 0 (Some 1) None false false.
Definition ft_creators (c : N) (t : name) : list (name * dtask) := [(2, ex_sub [3] []); (3, ex_sub [] [])].
Definition ft_sel (ws : list name) :=
  process_sel SelHead (fun n => if n =? 3 then 2 else n) (fun _ => false) (fun _ _ => false) (fun f k => 0) false
              (loaded ft_tab ft_ld (fun _ => None)) [1; 2; 4] (Some ws).
Definition ft_run (ws : list name) :=
  option_map (fun d => run_serial VHead [1; 2; 3; 4] ft_creators (fun _ _ => 0) (fun x => x) true false 200 d) (ft_sel ws).

(* REFUTED for a sub-task selected by name (HEAD; finding c08:delayed-subtask-by-name-after-failed-trigger of C08, not
   repaired: clearing bad_deps in reset_task would also make the task d itself run after its failed trigger): the created
   task d:0 has no dependency, yet `doit run --continue d:0 z` reports it UnmetDependency without executing it (the node of
   the by-name placeholder d:0, which carries the failed trigger f, is the one that materialises it), while
   `doit run --continue z d:0` executes it with success (the node of d materialises it; d:0 gets a fresh node) *)
Theorem C15_created_subtask_keeps_failed_trigger_refuted :
  (exists r, ft_run [4; 3] = Some r /\ In (Ev (ESuccess 3)) (fst r)) /\
  (exists r, ft_run [3; 4] = Some r /\ In (Ev (EFailure 3 kind_unmet)) (fst r) /\ ~ In (Ev (EExecute 3)) (fst r)).
Proof.
  split.
  - destruct (ft_run [4; 3]) as [r|] eqn:E; [|vm_compute in E; discriminate].
    exists r. split; [reflexivity|].
    assert (H : Some r = ft_run [4; 3]) by (symmetry; exact E). vm_compute in H. inversion H; subst. clear.
    vm_compute. tauto.
  - destruct (ft_run [3; 4]) as [r|] eqn:E; [|vm_compute in E; discriminate].
    exists r. split; [reflexivity|].
    assert (H : Some r = ft_run [3; 4]) by (symmetry; exact E). vm_compute in H. inversion H; subst. clear.
    split; [vm_compute; tauto | vm_compute; intuition discriminate].
Qed.
Print Assumptions C15_created_subtask_keeps_failed_trigger_refuted.

(* ------------------------------------------------------------------ a created task with calc_dep that takes over its placeholder's node *)
(* names: 1 = x, 2 = d = create_after(executed='x') whose creator returns ONE dict (so the created task is called d)
   with calc_dep [k]; 6 = k, its action returns {'task_dep': ['h']}; 7 = h *)
Definition cd_prov : dtask :=
  {| dt := Build_task [] [] [] false false CkRun false OOk [7] [] []; dt_file_dep := []; dt_targets := []; dt_loader := None |}.
Definition cd_tab (n : name) : option dtask :=
  if n =? 1 then Some ex_x else if n =? 2 then Some ex_ph else if n =? 6 then Some cd_prov else if n =? 7 then Some ex_x else None.
Definition cd_made : dtask :=
  {| dt := Build_task [] [] [6] false false CkRun false OOk [] [] []; dt_file_dep := []; dt_targets := []; dt_loader := None |}.
Definition cd_creators (c : N) (t : name) : list (name * dtask) := [(2, cd_made)].
Definition cd_d0 : dst := set_torun (loaded cd_tab ex_ld (fun _ => None)) [2].
Definition cd_run := run_serial VHead [1; 2; 6; 7] cd_creators (fun _ _ => 0) (fun x => x) false false 200 cd_d0.

(* `doit run d`: x, the creator, then k (calc_dep of the created d), then h (task_dep computed by k), then d *)
Example C15_created_calc_dep_example :
  enc_dtrace (fst cd_run) =
  [1;1; 5;1; 7;1; 6;1;  14;0;2;2;  1;6; 5;6; 7;6; 6;6;  1;7; 5;7; 7;7; 6;7;  1;2; 5;2; 7;2; 6;2;  10]%Z /\ snd cd_run = 0.
Proof. vm_compute. split; reflexivity. Qed.

(* the hypotheses of C15_reset_node_as_static / C15_reset_then_calc_dep_first are satisfiable *)
Example C15_reset_node_nonvacuous :
  exists d', load_branch VHead [1; 2; 6; 7] cd_creators cd_d0 2 2 = LReset d' /\
             sort_by (fun x => x) (t_calc_dep (dt (tab_get d' 2))) = [6] /\ 6 <> 2 /\ q_nodes d' 6 = None.
Proof. eexists. split; [vm_compute; reflexivity|]. vm_compute. repeat split; discriminate. Qed.

(* ------------------------------------------------------------------ a sub-task selected by name together with a regex-resolved target *)
(* dodo: @create_after() def task_c(): yield sub-task 1 (target one.txt), sub-task 2 (target two.txt); --auto-delayed-regex.
   names: 2 = c, 3 = 'c:1', 4 = 'c:2', 5 = 'c:1:1', 6 = 'c:1:2', 10 = one.txt, 11 = two.txt, 12 = nothing.txt,
   10*f + k = '_regex_target_<f>:<k>'.  generate_tasks(to_load, ...): to_load = c gives c, c:1, c:2; to_load = 'c:1' (only
   reachable through the overwritten loader.basename) gives 'c:1', 'c:1:1', 'c:1:2' *)
Definition sp_tab (n : name) : option dtask :=
  if n =? 2 then Some {| dt := empty_task; dt_file_dep := []; dt_targets := []; dt_loader := Some 2 |} else None.
Definition sp_ld (n : name) : loader := Build_loader 0 None None false false.
Definition sp_creators (c : N) (t : name) : list (name * dtask) :=
  if t =? 2 then [(2, ex_sub [3; 4] []); (3, ex_sub [] [10]); (4, ex_sub [] [11])]
  else [(3, ex_sub [5; 6] []); (5, ex_sub [] [10]); (6, ex_sub [] [11])].
Definition sp_sel sv (ws : list name) :=
  process_sel sv (fun n => if (n =? 3) || (n =? 4) then 2 else n) (fun n => 100 <=? n) (fun _ _ => false) (fun f k => 10 * f + k) true
              (loaded sp_tab sp_ld (fun _ => None)) [2] (Some ws).
Definition sp_run sv (ws : list name) :=
  option_map (fun d => let r := run_serial VHead [2; 3; 4; 5; 6; 112; 113; 122; 123] sp_creators (fun _ _ => 0) (fun x => x) false false 200 d in
                       (enc_dtrace (fst r), snd r)) (sp_sel sv ws).

(* HEAD: `doit run --auto-delayed-regex c:1 nothing.txt`: the creator is evaluated for c, c:1 runs, then nothing.txt is
   reported as produced by nobody (InvalidCommand, exit status 3); `... c:1 two.txt`: exactly c:1 and c:2 (and the
   hidden _regex_target placeholder) run, exit status 0 *)
Example C15_subtask_and_regex_target_example :
  sp_run SelHead [3; 12] = Some ([14;0;2;2;  1;3; 5;3; 7;3; 6;3;  10;  15;12]%Z, 3) /\
  sp_run SelHead [3; 11] = Some ([14;0;2;2;  1;3; 5;3; 7;3; 6;3;  1;4; 5;4; 7;4; 6;4;  1;112; 5;112; 7;112; 6;112;  10]%Z, 0).
Proof. vm_compute. split; reflexivity. Qed.

(* REFUTED for the code before 01f48fb (shape 'subtask-placeholder-regex'): the placeholder c:1 is matched as if it were a
   task-creator, loader.basename becomes 'c:1', the creator is evaluated with that basename (tasks c:1:1 and c:1:2 -- both
   run, under wrong names), and with an unknown target the second `regex_group.tasks.remove('c:1')` raises KeyError
   ([16]) instead of the invalid-parameter error [15; 12] *)
Theorem C15_subtask_placeholder_regex_legacy_refuted :
  sp_run SelLegacy [3; 12] =
    Some ([14;0;2;3;  1;5; 5;5; 7;5; 6;5;  1;6; 5;6; 7;6; 6;6;  1;3; 5;3; 7;3; 6;3;  1;122; 5;122; 7;122; 6;122;  10;  16]%Z, 3) /\
  sp_run SelLegacy [3; 11] =
    Some ([14;0;2;3;  1;5; 5;5; 7;5; 6;5;  1;6; 5;6; 7;6; 6;6;  1;3; 5;3; 7;3; 6;3;  1;112; 5;112; 7;112; 6;112;  10]%Z, 0) /\
  (exists s, filter_tasks SelLegacy (fun n => if (n =? 3) || (n =? 4) then 2 else n) (fun n => 100 <=? n) (fun _ _ => false)
                          (fun f k => 10 * f + k) true
                          {| ss_d := loaded sp_tab sp_ld (fun _ => None); ss_order := [2]; ss_gnext := 0; ss_sub := [] |} [3; 12] = Some s /\
             In 3 (g_tasks (q_grp (ss_d s) 0)) /\ l_basename (q_ld (ss_d s) 2) = Some 3).
Proof.
  split; [vm_compute; reflexivity|]. split; [vm_compute; reflexivity|].
  eexists. split; [vm_compute; reflexivity|]. vm_compute. split; [tauto|reflexivity].
Qed.
Print Assumptions C15_subtask_placeholder_regex_legacy_refuted.

(* the hypotheses of C15_subtask_placeholder_never_regex_matched are satisfiable: the selection [c:1; nothing.txt] above *)
Example C15_subtask_placeholder_nonvacuous :
  let s0 := {| ss_d := loaded sp_tab sp_ld (fun _ => None); ss_order := [2]; ss_gnext := 0; ss_sub := [] |} in
  q_tab (ss_d s0) 3 = None /\ q_tg (ss_d s0) 3 = None /\ (exists tb, q_tab (ss_d s0) 2 = Some tb /\ dt_loader tb = Some 2) /\
  (exists s1 s2, filter_one SelHead (fun n => if (n =? 3) || (n =? 4) then 2 else n) (fun n => 100 <=? n) (fun _ _ => false)
                            (fun f k => 10 * f + k) true s0 3 = Some s1 /\
                 filter_tasks SelHead (fun n => if (n =? 3) || (n =? 4) then 2 else n) (fun n => 100 <=? n) (fun _ _ => false)
                              (fun f k => 10 * f + k) true s1 [12] = Some s2 /\ g_tasks (q_grp (ss_d s2) 0) = [2]).
Proof.
  cbv zeta. split; [reflexivity|]. split; [reflexivity|]. split; [eexists; split; reflexivity|].
  eexists. eexists. split; [vm_compute; reflexivity|]. split; vm_compute; reflexivity.
Qed.

(* ---- who is asked for a target: the dodo file of harness/c15.py e2e_rxcand_family.  1 = prep_a, 2 = a = create_after(executed=
   'prep_a', target_regex='gen_a/.*'), 3 = prep_b, 4 = b = create_after(executed='prep_b') (no regex); a yields 6 = a:x (target
   31 = gen_a/x.txt), b yields 5 = b:y (target 30 = out_b.txt); '_regex_target_<f>:<k>' = 100 + 10 (f - 30) + k *)
Definition rc_x : dtask := {| dt := empty_task; dt_file_dep := []; dt_targets := []; dt_loader := None |}.
Definition rc_ph (e T : name) : dtask :=
  {| dt := task_with_dep empty_task [e]; dt_file_dep := []; dt_targets := []; dt_loader := Some T |}.
Definition rc_tab (n : name) : option dtask :=
  if n =? 1 then Some rc_x else if n =? 2 then Some (rc_ph 1 2) else if n =? 3 then Some rc_x else if n =? 4 then Some (rc_ph 3 4) else None.
Definition rc_ld (n : name) : loader :=
  if n =? 2 then Build_loader 0 (Some 1) None false true else if n =? 4 then Build_loader 1 (Some 3) None false false else empty_loader.
Definition rc_creators (c : N) (t : name) : list (name * dtask) :=
  if c =? 0 then [(2, ex_sub [6] []); (6, ex_sub [] [31])] else [(4, ex_sub [5] []); (5, ex_sub [] [30])].
Definition rc_keys : list name := [1; 2; 3; 4; 5; 6; 102; 104; 112; 114].
Definition rc_s0 : sstate := {| ss_d := loaded rc_tab rc_ld (fun _ => None); ss_order := [1; 2; 3; 4]; ss_gnext := 0; ss_sub := [] |}.
Definition rc_rmatch (T f : name) : bool := (T =? 2) && (f =? 31).
Definition rc_rxn (f k : name) : name := 100 + 10 * (f - 30) + k.
Definition rc_run (auto : bool) (w : name) :=
  option_map (fun d => let r := run_serial VHead rc_keys rc_creators (fun _ _ => 0) (fun x => x) false false 200 d in
                       (enc_dtrace (fst r), snd r))
             (process_sel SelHead (fun n => n) (fun n => 100 <=? n) rc_rmatch rc_rxn auto (ss_d rc_s0) (ss_order rc_s0) (Some [w])).

(* `doit run --auto-delayed-regex out_b.txt`: only b is asked (a declares a regex that does not match): prep_b, creator b, b:y
   and the hidden placeholder run -- neither prep_a nor creator a; without the option the word is rejected;
   `doit run gen_a/x.txt`: only a; with the option both are candidates, a (defined first) produces it and b is never asked *)
Example C15_regex_candidates_example :
  matched SelHead (fun n => 100 <=? n) rc_rmatch true (ss_d rc_s0) (ss_order rc_s0) (ss_sub rc_s0) 30 = [4] /\
  rc_run true 30 = Some ([1;3; 5;3; 7;3; 6;3;  14;1;4;4;  1;5; 5;5; 7;5; 6;5;  1;104; 5;104; 7;104; 6;104;  10]%Z, 0) /\
  rc_run false 30 = None /\
  matched SelHead (fun n => 100 <=? n) rc_rmatch false (ss_d rc_s0) (ss_order rc_s0) (ss_sub rc_s0) 31 = [2] /\
  matched SelHead (fun n => 100 <=? n) rc_rmatch true (ss_d rc_s0) (ss_order rc_s0) (ss_sub rc_s0) 31 = [2; 4] /\
  rc_run false 31 = Some ([1;1; 5;1; 7;1; 6;1;  14;0;2;2;  1;6; 5;6; 7;6; 6;6;  1;112; 5;112; 7;112; 6;112;  10]%Z, 0) /\
  rc_run true 31 = rc_run false 31.
Proof. vm_compute. repeat split; reflexivity. Qed.

(* the hypotheses of C15_regex_candidates_exact are satisfiable: the word out_b.txt on that table, option on *)
Example C15_regex_candidates_nonvacuous :
  q_tab (ss_d rc_s0) 30 = None /\ q_tg (ss_d rc_s0) 30 = None /\ q_tab (ss_d rc_s0) ((fun n => n) 30) = None /\
  (forall k, (fun n => 100 <=? n) (rc_rxn 30 k) = true) /\
  exists s', filter_one SelHead (fun n => n) (fun n => 100 <=? n) rc_rmatch rc_rxn true rc_s0 30 = Some s' /\
             q_torun (ss_d s') = [104].
Proof.
  split; [reflexivity|]. split; [reflexivity|]. split; [reflexivity|]. split.
  - intro k. unfold rc_rxn. apply N.leb_le. lia.
  - eexists. split; vm_compute; reflexivity.
Qed.

(* ------------------------------------------------------------------ several runs in ONE process: each run starts from fresh DelayedLoader copies *)
(* [unref A d]: no ExecNode yet and no table entry refers to loader object A.  Frame property: _filter_tasks (loader.basename) and a
   run (loader.created) write loader objects only THROUGH the tasks that refer to them -- an unreferenced object is, after the
   selection and after the whole run (serial runner; any runner and schedule; every variant of the dispatcher; runs ending with an
   error or out of fuel included), what it was before *)
Theorem C15_selection_writes_only_referenced_loaders : forall sv base_of is_rx rmatch rx_name auto d order sel d0 A,
  unref A d -> process_sel sv base_of is_rx rmatch rx_name auto d order sel = Some d0 ->
  unref A d0 /\ q_ld d0 A = q_ld d A.
Proof. exact select_frame. Qed.
Print Assumptions C15_selection_writes_only_referenced_loaders.

Theorem C15_run_writes_only_referenced_loaders : forall v keys creators wake_rank calc_rank continue_ always fuel d0 A,
  unref A d0 -> heap_after_serial v keys creators wake_rank calc_rank continue_ always fuel d0 A = q_ld d0 A.
Proof. exact run_frame_serial. Qed.
Print Assumptions C15_run_writes_only_referenced_loaders.

Theorem C15_run_writes_only_referenced_loaders_any_schedule : forall v keys creators wake_rank calc_rank continue_ always fuel ops d0 A,
  unref A d0 -> heap_after_script v keys creators wake_rank calc_rank continue_ always fuel ops d0 A = q_ld d0 A.
Proof. exact run_frame_script. Qed.
Print Assumptions C15_run_writes_only_referenced_loaders_any_schedule.

(* after load_tasks (HEAD: copy.copy for every placeholder -- plain function, bound method, one per name in `creates`) the loader of a
   placeholder is never the object stored on the creator function: no task refers to it (restates, for the plain-function case too,
   "one DelayedLoader copy per placeholder" on which C15_creator_once and the C15b refutation above rest) *)
Theorem C15_placeholder_loader_is_a_copy : forall fobj owner shares statics,
  (forall c, owner (fobj c) = None) -> (forall k t, statics k = Some t -> dt_loader t = None) ->
  forall heap tg c, unref (fobj c) (load_state fobj owner shares LdCopy heap statics tg).
Proof. exact load_state_unref. Qed.
Print Assumptions C15_placeholder_loader_is_a_copy.

(* load_tasks as it is (Delayed.load_state LdCopy: every placeholder -- plain function, bound method, one per name in `creates` -- gets
   a copy; the object stored on the creator function, address fobj c, is no placeholder's loader; static tasks have no loader).
   Whatever is selected and however the run goes, the object stored on the function is not written ... *)
Theorem C15_function_loader_never_written : forall fobj owner shares statics,
  (forall c, owner (fobj c) = None) -> (forall k t, statics k = Some t -> dt_loader t = None) ->
  forall sv base_of is_rx rmatch rx_name auto v keys creators wake_rank calc_rank continue_ always fuel heap tg order sel d0 c,
  process_sel sv base_of is_rx rmatch rx_name auto (load_state fobj owner shares LdCopy heap statics tg) order sel = Some d0 ->
  heap_after_serial v keys creators wake_rank calc_rank continue_ always fuel d0 (fobj c) = heap (fobj c).
Proof. exact function_loader_never_written_serial. Qed.
Print Assumptions C15_function_loader_never_written.

Theorem C15_function_loader_never_written_any_schedule : forall fobj owner shares statics,
  (forall c, owner (fobj c) = None) -> (forall k t, statics k = Some t -> dt_loader t = None) ->
  forall sv base_of is_rx rmatch rx_name auto v keys creators wake_rank calc_rank continue_ always fuel ops heap tg order sel d0 c,
  process_sel sv base_of is_rx rmatch rx_name auto (load_state fobj owner shares LdCopy heap statics tg) order sel = Some d0 ->
  heap_after_script v keys creators wake_rank calc_rank continue_ always fuel ops d0 (fobj c) = heap (fobj c).
Proof. exact function_loader_never_written_script. Qed.
Print Assumptions C15_function_loader_never_written_any_schedule.

(* ... so the NEXT load_tasks of the process (on the heap the run left) gives every placeholder T of creator c a loader equal to
   what the function object held before this run -- `created` and `basename` written by this run cannot be seen by the next -- and
   the same placeholder task.  By induction over the runs of a process: with function objects as create_after makes them
   (created = False, basename = None) EVERY run starts from [loaded] with fresh loaders, which is the state the theorems above
   quantify over and the state the correspondence check renders for every run of a sequence (harness oracle LF) *)
Theorem C15_every_load_hands_out_fresh_copies : forall fobj owner shares statics,
  (forall c, owner (fobj c) = None) -> (forall k t, statics k = Some t -> dt_loader t = None) ->
  forall sv base_of is_rx rmatch rx_name auto v keys creators wake_rank calc_rank continue_ always fuel heap tg order sel d0,
  process_sel sv base_of is_rx rmatch rx_name auto (load_state fobj owner shares LdCopy heap statics tg) order sel = Some d0 ->
  let heap' := heap_after_serial v keys creators wake_rank calc_rank continue_ always fuel d0 in
  forall T c, owner T = Some c ->
    load_heap fobj owner shares LdCopy heap' T = heap (fobj c) /\
    load_tab fobj owner shares LdCopy heap' statics T = load_tab fobj owner shares LdCopy heap statics T.
Proof. exact every_load_fresh_serial. Qed.
Print Assumptions C15_every_load_hands_out_fresh_copies.

Theorem C15_every_load_hands_out_fresh_copies_any_schedule : forall fobj owner shares statics,
  (forall c, owner (fobj c) = None) -> (forall k t, statics k = Some t -> dt_loader t = None) ->
  forall sv base_of is_rx rmatch rx_name auto v keys creators wake_rank calc_rank continue_ always fuel ops heap tg order sel d0,
  process_sel sv base_of is_rx rmatch rx_name auto (load_state fobj owner shares LdCopy heap statics tg) order sel = Some d0 ->
  let heap' := heap_after_script v keys creators wake_rank calc_rank continue_ always fuel ops d0 in
  forall T c, owner T = Some c ->
    load_heap fobj owner shares LdCopy heap' T = heap (fobj c) /\
    load_tab fobj owner shares LdCopy heap' statics T = load_tab fobj owner shares LdCopy heap statics T.
Proof. exact every_load_fresh_script. Qed.
Print Assumptions C15_every_load_hands_out_fresh_copies_any_schedule.

(* the dodo file of seeded/C15e/demo_C15e.py.  1 = pre, 2 = build = create_after(executed='pre', target_regex='.*\.out') (a plain
   function, no `creates`), 9 = the DelayedLoader stored on the function task_build, 3 = build:a (target 10 = a.out, task_dep pre),
   4 = build:b (target 11 = b.out), 10 + f = '_regex_target_<f>:build' *)
Definition pr_fobj (c : N) : name := 9.
Definition pr_owner (T : name) : option N := if T =? 2 then Some 0 else None.
Definition pr_shares (T : name) : bool := true.
Definition pr_statics (k : name) : option dtask := if k =? 1 then Some ex_x else None.
Definition pr_heap0 : name -> loader := fun A => if A =? 9 then Build_loader 0 (Some 1) None false true else empty_loader.
Definition pr_creators (c : N) (t : name) : list (name * dtask) := [(2, ex_sub [3; 4] []); (3, ex_sub [1] [10]); (4, ex_sub [] [11])].
Definition pr_keys : list name := [1; 2; 3; 4; 9; 20; 21].
Definition pr_sel lv heap (sel : option (list name)) :=
  process_sel SelHead (fun n => n) (fun n => 20 <=? n) (fun T f => (f =? 10) || (f =? 11)) (fun f k => 10 + f) false
              (load_state pr_fobj pr_owner pr_shares lv heap pr_statics (fun _ => None)) [1; 2] sel.
Definition pr_run d := let r := run_serial VHead pr_keys pr_creators (fun _ _ => 0) (fun x => x) false false 200 d in (enc_dtrace (fst r), snd r).
Definition pr_heap_after d := heap_after_serial VHead pr_keys pr_creators (fun _ _ => 0) (fun x => x) false false 200 d.
(* two runs of one process: load_tasks + selection sel1 + run; then load_tasks on the heap that run left + selection sel2 + run *)
Definition pr_two lv (sel1 sel2 : option (list name)) :=
  match pr_sel lv pr_heap0 sel1 with None => None | Some d1 =>
  match pr_sel lv (pr_heap_after d1) sel2 with None => None | Some d2 => Some (pr_run d1, pr_run d2) end end.

(* the hypotheses of the theorems of this section are satisfiable, and the run they speak about does write loader objects:
   after `doit run a.out` the copy made for the placeholder (address 2) says created, basename build -- the function's object does not *)
Example C15_process_nonvacuous :
  (forall c, pr_owner (pr_fobj c) = None) /\ (forall k t, pr_statics k = Some t -> dt_loader t = None) /\
  exists d1, pr_sel LdCopy pr_heap0 (Some [10]) = Some d1 /\
             pr_heap_after d1 2 = Build_loader 0 (Some 1) (Some 2) true true /\ pr_heap_after d1 9 = pr_heap0 9 /\
             load_heap pr_fobj pr_owner pr_shares LdCopy (pr_heap_after d1) 2 = Build_loader 0 (Some 1) None false true.
Proof.
  split; [intro c; reflexivity|]. split.
  - intros k t. unfold pr_statics. destruct (k =? 1); [|discriminate]. intro H; inversion H; reflexivity.
  - eexists. split; [vm_compute; reflexivity|]. vm_compute. repeat split; reflexivity.
Qed.

(* HEAD: `doit run a.out` then, in the same process, `doit run b.out`: pre, the creator (once, after pre), build:b and the hidden
   placeholder; then `doit run`: pre, the creator, build:a, build:b, build -- each run as in a fresh process *)
Example C15_second_run_example :
  pr_two LdCopy (Some [10]) (Some [11]) =
    Some (([1;1; 5;1; 7;1; 6;1;  14;0;2;2;  1;3; 5;3; 7;3; 6;3;  1;20; 5;20; 7;20; 6;20;  10]%Z, 0),
          ([1;1; 5;1; 7;1; 6;1;  14;0;2;2;  1;4; 5;4; 7;4; 6;4;  1;21; 5;21; 7;21; 6;21;  10]%Z, 0)) /\
  option_map snd (pr_two LdCopy (Some [10]) None) =
    Some ([1;1; 5;1; 7;1; 6;1;  14;0;2;2;  1;3; 5;3; 7;3; 6;3;  1;4; 5;4; 7;4; 6;4;  1;2; 5;2; 7;2; 6;2;  10]%Z, 0).
Proof. vm_compute. split; reflexivity. Qed.

(* REFUTED for the seeded change C15e (LdShare: the placeholder of a plain-function creator without `creates` carries the object
   stored on the function, address 9): the first run is fine (the creator is evaluated through object 9), but it leaves created = True
   on the function (to which the placeholder of every later load refers); in the second run of the process the creator is never evaluated: `doit run b.out` ends with "target not found"
   ([15; 11], exit status 3) and `doit run` executes the placeholder build as an empty task -- build:a and build:b are missing -- with
   exit status 0 *)
Theorem C15_every_load_fresh_shared_loader_refuted :
  pr_two LdShare (Some [10]) (Some [11]) =
    Some (([1;1; 5;1; 7;1; 6;1;  14;0;9;2;  1;3; 5;3; 7;3; 6;3;  1;20; 5;20; 7;20; 6;20;  10]%Z, 0),
          ([1;1; 5;1; 7;1; 6;1;  10;  15;11]%Z, 3)) /\
  option_map snd (pr_two LdShare (Some [10]) None) = Some ([1;1; 5;1; 7;1; 6;1;  1;2; 5;2; 7;2; 6;2;  10]%Z, 0) /\
  dt_loader (tab_get (load_state pr_fobj pr_owner pr_shares LdShare pr_heap0 pr_statics (fun _ => None)) 2) = Some (pr_fobj 0) /\
  (exists d1, pr_sel LdShare pr_heap0 (Some [10]) = Some d1 /\ l_created (pr_heap_after d1 (pr_fobj 0)) = true /\
              l_created (load_heap pr_fobj pr_owner pr_shares LdShare (pr_heap_after d1) (loader_of pr_fobj pr_owner pr_shares LdShare 2)) = true).
Proof.
  split; [vm_compute; reflexivity|]. split; [vm_compute; reflexivity|]. split; [reflexivity|].
  eexists. split; [vm_compute; reflexivity|]. split; vm_compute; reflexivity.
Qed.
Print Assumptions C15_every_load_fresh_shared_loader_refuted.

(* ------------------------------------------------------------------ created tasks are ordinary tasks: the C01 / C02 / C05 statements on the growing table *)
(* (replaces the caveat above C15_created_tasks_ordinary_partial, which is kept as the statement about the table)
   Proofs: Proofs/DelayedStepP.v (the generator and the dispatcher loop cut into atomic transitions), Proofs/DelayedRunP.v
   (run_status <-> reports in the trace, position of a node's generator <-> run_status), Proofs/DelayedDepP.v (the accounting
   invariant of Proofs/DispatchInv.v on the growing table: every name in a node's task_dep / calc_dep lists is pending, being
   iterated, waited for, or finished and recorded; queue discipline).  Everything below holds for every variant of the loader
   branch, every table / creator output / oracle / flags / fuel (so for every prefix of a run), for tasks defined statically, tasks
   created at run time, and placeholders whose node was reset to the created task of the same name: ExecNode.reset_task happens
   while run_status is None, before anything of the node was handed to the runner.
   Hypotheses: [init_ok d0] (only "no ExecNode yet, empty trace" is used) and, for the ordering statements, [fresh_queues d0]:
   the dispatcher's ready / waiting queues are empty and no node is current -- what TaskControl.process leaves
   (C15_selection_leaves_fresh_queues).
   Runners: the serial runner unconditionally.  A script of runner calls may call execute_task twice for the same task, so for
   scripts the statements hold under [wf_script] (Proofs/DelayedRunP.v), a BOOLEAN function of the script and the initial state
   that checks the runner protocol against the answers the model computes: every OSelect k answers the DTask k the dispatcher
   just yielded (nothing is sent to the dispatcher in between), every OExec k uses up one OSelect k that answered True, every
   OResult k one OExec k -- what Runner, MRunner and MThreadRunner do (get_next_job / run_tasks); which node is sent back when,
   and how executions and results of different tasks interleave, is unconstrained. *)
From DoitV Require Import DelayedStepP DelayedRunP DelayedDepP DelayedCalcP DelayedRunEx.

(* ONCE ONLY.  serial runner: no task's actions are started twice in a run ... *)
Theorem C15_exec_once_serial : forall v keys creators wake_rank calc_rank continue_ always fuel d0,
  init_ok d0 -> forall pre k post,
  fst (run_serial v keys creators wake_rank calc_rank continue_ always fuel d0) = pre ++ Ev (EExecute k) :: post ->
  ~ In (Ev (EExecute k)) pre /\ ~ In (Ev (EExecute k)) post.
Proof. exact serial_exec_once. Qed.
Print Assumptions C15_exec_once_serial.

(* ... and every task gets at most one final report (success, failure, up-to-date, ignored) *)
Theorem C15_one_final_report_serial : forall v keys creators wake_rank calc_rank continue_ always fuel d0,
  init_ok d0 -> forall pre e post k,
  fst (run_serial v keys creators wake_rank calc_rank continue_ always fuel d0) = pre ++ e :: post ->
  is_final_of k e = true -> ~ final_in k pre /\ ~ final_in k post.
Proof. exact serial_one_final. Qed.
Print Assumptions C15_one_final_report_serial.

(* the same for every runner that follows the protocol, every schedule *)
Theorem C15_exec_once_any_schedule : forall v keys creators wake_rank calc_rank continue_ always fuel ops d0,
  init_ok d0 -> wf_script v keys creators wake_rank calc_rank continue_ always fuel ops d0 = true -> forall pre k post,
  fst (run_script v keys creators wake_rank calc_rank continue_ always fuel ops d0) = pre ++ Ev (EExecute k) :: post ->
  ~ In (Ev (EExecute k)) pre /\ ~ In (Ev (EExecute k)) post.
Proof. exact script_exec_once. Qed.
Print Assumptions C15_exec_once_any_schedule.

Theorem C15_one_final_report_any_schedule : forall v keys creators wake_rank calc_rank continue_ always fuel ops d0,
  init_ok d0 -> wf_script v keys creators wake_rank calc_rank continue_ always fuel ops d0 = true -> forall pre e post k,
  fst (run_script v keys creators wake_rank calc_rank continue_ always fuel ops d0) = pre ++ e :: post ->
  is_final_of k e = true -> ~ final_in k pre /\ ~ final_in k post.
Proof. exact script_one_final. Qed.
Print Assumptions C15_one_final_report_any_schedule.

(* DEPENDENCIES FIRST.  [node_after_serial .. k] is the ExecNode of k as the run leaves it; its task object [dn_task] is the one
   that was executed (a node's task object only changes in reset_task, before the node is handed over) -- for a placeholder
   that reached the loader branch: the CREATED task.  [deps_of nd] = the node's accumulated task_dep and calc_dep lists
   (ExecNode / task.task_dep as the dispatcher grows them: the task's declared task_dep and calc_dep -- including the implicit
   task_dep that set_implicit_deps / the loader branch derive from file_dep on targets -- plus everything finished calc_dep tasks
   returned), its setup-tasks, and (again) the declared task_dep / calc_dep of the task object.
   Whenever the actions of k start, every x of them has a success or up-to-date report earlier in the trace. *)
Theorem C15_created_deps_first_serial : forall v keys creators wake_rank calc_rank continue_ always fuel d0,
  init_ok d0 -> fresh_queues d0 ->
  forall pre k post x,
    fst (run_serial v keys creators wake_rank calc_rank continue_ always fuel d0) = pre ++ Ev (EExecute k) :: post ->
    In x (deps_of (node_after_serial v keys creators wake_rank calc_rank continue_ always fuel d0 k)) -> good_in x pre.
Proof. exact serial_deps_first. Qed.
Print Assumptions C15_created_deps_first_serial.

Theorem C15_created_deps_first_any_schedule : forall v keys creators wake_rank calc_rank continue_ always fuel ops d0,
  init_ok d0 -> fresh_queues d0 ->
  wf_script v keys creators wake_rank calc_rank continue_ always fuel ops d0 = true ->
  forall pre k post x,
    fst (run_script v keys creators wake_rank calc_rank continue_ always fuel ops d0) = pre ++ Ev (EExecute k) :: post ->
    In x (deps_of (node_after_script v keys creators wake_rank calc_rank continue_ always fuel ops d0 k)) -> good_in x pre.
Proof. exact script_deps_first. Qed.
Print Assumptions C15_created_deps_first_any_schedule.

(* ... and what the calc_dep tasks of k returned -- [returned ct]: values['task_dep'], the producers of values['file_dep'] and
   values['calc_dep'] of the task object ct of a calc_dep task c -- was merged into the node's lists before k was handed over
   (invariant MG of Proofs/DelayedCalcP.v, as ok_mrg of Proofs/DispatchInv.v), hence was reported good before k's actions start *)
Theorem C15_calc_dep_results_first_serial : forall v keys creators wake_rank calc_rank continue_ always fuel d0,
  init_ok d0 -> fresh_queues d0 ->
  forall pre k post c x,
    fst (run_serial v keys creators wake_rank calc_rank continue_ always fuel d0) = pre ++ Ev (EExecute k) :: post ->
    In c (dn_ac (node_after_serial v keys creators wake_rank calc_rank continue_ always fuel d0 k)) ->
    In x (returned (dt (dn_task (node_after_serial v keys creators wake_rank calc_rank continue_ always fuel d0 c)))) ->
    good_in x pre.
Proof. exact serial_calc_returned_first. Qed.
Print Assumptions C15_calc_dep_results_first_serial.

Theorem C15_calc_dep_results_first_any_schedule : forall v keys creators wake_rank calc_rank continue_ always fuel ops d0,
  init_ok d0 -> fresh_queues d0 ->
  wf_script v keys creators wake_rank calc_rank continue_ always fuel ops d0 = true ->
  forall pre k post c x,
    fst (run_script v keys creators wake_rank calc_rank continue_ always fuel ops d0) = pre ++ Ev (EExecute k) :: post ->
    In c (dn_ac (node_after_script v keys creators wake_rank calc_rank continue_ always fuel ops d0 k)) ->
    In x (returned (dt (dn_task (node_after_script v keys creators wake_rank calc_rank continue_ always fuel ops d0 c)))) ->
    good_in x pre.
Proof. exact script_calc_returned_first. Qed.
Print Assumptions C15_calc_dep_results_first_any_schedule.

(* non-vacuity: the run cd_run above (created d with calc_dep k, k returns task_dep h): the hypotheses hold, k is a calc_dep of the
   reset node of d and h is what k returned *)
Example C15_calc_dep_results_nonvacuous :
  init_ok cd_d0 /\ fresh_queues cd_d0 /\
  dn_ac (node_after_serial VHead [1; 2; 6; 7] cd_creators (fun _ _ => 0) (fun x => x) false false 200 cd_d0 2) = [6] /\
  returned (dt (dn_task (node_after_serial VHead [1; 2; 6; 7] cd_creators (fun _ _ => 0) (fun x => x) false false 200 cd_d0 6))) = [7].
Proof.
  split; [|split; [repeat split|vm_compute; split; reflexivity]].
  constructor; try reflexivity.
  - intros T b. unfold cd_d0, ex_ld; simpl. destruct (T =? 2); simpl; discriminate.
  - intros k T e. unfold cd_d0, tab_get, cd_tab, ex_ld; simpl.
    destruct (k =? 1); simpl; [discriminate|]. destruct (k =? 2); simpl.
    + intro H; inversion H; subst. simpl. intro H2; inversion H2; subst. left; reflexivity.
    + destruct (k =? 6); simpl; [discriminate|]. destruct (k =? 7); simpl; discriminate.
Qed.

(* what is executed is never a placeholder object: the task object of an executed node has loader = DelayedLoaded *)
Theorem C15_executed_task_is_no_placeholder_serial : forall v keys creators wake_rank calc_rank continue_ always fuel d0,
  init_ok d0 -> fresh_queues d0 -> forall k,
  In (Ev (EExecute k)) (fst (run_serial v keys creators wake_rank calc_rank continue_ always fuel d0)) ->
  dt_loader (dn_task (node_after_serial v keys creators wake_rank calc_rank continue_ always fuel d0 k)) = None.
Proof. exact serial_executed_no_loader. Qed.
Print Assumptions C15_executed_task_is_no_placeholder_serial.

Theorem C15_executed_task_is_no_placeholder_any_schedule : forall v keys creators wake_rank calc_rank continue_ always fuel ops d0,
  init_ok d0 -> fresh_queues d0 ->
  wf_script v keys creators wake_rank calc_rank continue_ always fuel ops d0 = true -> forall k,
  In (Ev (EExecute k)) (fst (run_script v keys creators wake_rank calc_rank continue_ always fuel ops d0)) ->
  dt_loader (dn_task (node_after_script v keys creators wake_rank calc_rank continue_ always fuel ops d0 k)) = None.
Proof. exact script_executed_no_loader. Qed.
Print Assumptions C15_executed_task_is_no_placeholder_any_schedule.

(* CONTAINMENT.  a task with a dependency that got a failure or ignore report -- anywhere in the run -- is never executed in
   that run, --continue or not (the trigger `executed` of a loader is a task_dep of the placeholder only: see
   C15_created_subtask_keeps_failed_trigger_refuted for what a failed trigger does to the created task) *)
Theorem C15_failed_dependency_never_runs_serial : forall v keys creators wake_rank calc_rank continue_ always fuel d0,
  init_ok d0 -> fresh_queues d0 ->
  forall k x e,
    let tr := fst (run_serial v keys creators wake_rank calc_rank continue_ always fuel d0) in
    In x (deps_of (node_after_serial v keys creators wake_rank calc_rank continue_ always fuel d0 k)) ->
    In e tr -> is_final_of x e = true -> is_good_of x e = false -> ~ In (Ev (EExecute k)) tr.
Proof. exact serial_bad_dep_never_runs. Qed.
Print Assumptions C15_failed_dependency_never_runs_serial.

Theorem C15_failed_dependency_never_runs_any_schedule : forall v keys creators wake_rank calc_rank continue_ always fuel ops d0,
  init_ok d0 -> fresh_queues d0 ->
  wf_script v keys creators wake_rank calc_rank continue_ always fuel ops d0 = true ->
  forall k x e,
    let tr := fst (run_script v keys creators wake_rank calc_rank continue_ always fuel ops d0) in
    In x (deps_of (node_after_script v keys creators wake_rank calc_rank continue_ always fuel ops d0 k)) ->
    In e tr -> is_final_of x e = true -> is_good_of x e = false -> ~ In (Ev (EExecute k)) tr.
Proof. exact script_bad_dep_never_runs. Qed.
Print Assumptions C15_failed_dependency_never_runs_any_schedule.

(* the queue hypothesis is what every selection on a freshly loaded table leaves *)
Theorem C15_selection_leaves_fresh_queues : forall sv base_of is_rx rmatch rx_name auto tab ld tg order sel d0,
  process_sel sv base_of is_rx rmatch rx_name auto (loaded tab ld tg) order sel = Some d0 -> fresh_queues d0.
Proof. exact process_sel_fresh_queues. Qed.
Print Assumptions C15_selection_leaves_fresh_queues.

(* non-vacuity (Proofs/DelayedRunEx.v).  1 = pre, 2 = d = create_after(executed='pre'), 5 = lib (static); the creator yields the
   group d (task_dep d:a), 3 = d:a (task_dep lib, file_dep 20) and 4 = d:b (target 20): d:a depends on d:b implicitly *)
Example C15_created_deps_hypotheses_nonvacuous : init_ok rx_d0 /\ fresh_queues rx_d0 /\ keys_ok rx_keys rx_d0.
Proof. exact rx_hypotheses. Qed.

(* the run: pre, the creator, lib and d:b (the dependencies of the created d:a), d:a, the created group d last;
   the reset node of d depends on d:a (the created task's task_dep), its task object has no loader *)
Example C15_created_deps_trace_nonvacuous :
  enc_dtrace (fst (run_serial VHead rx_keys rx_creators (fun _ _ => 0) (fun x => x) false false 200 rx_d0)) =
  [1;1; 5;1; 7;1; 6;1;  14;0;2;2;  1;5; 5;5; 7;5; 6;5;  1;4; 5;4; 7;4; 6;4;  1;3; 5;3; 7;3; 6;3;  1;2; 5;2; 7;2; 6;2;  10]%Z
  /\ snd (run_serial VHead rx_keys rx_creators (fun _ _ => 0) (fun x => x) false false 200 rx_d0) = 0.
Proof. exact rx_trace. Qed.

Example C15_created_deps_of_nonvacuous :
  deps_of (node_after_serial VHead rx_keys rx_creators (fun _ _ => 0) (fun x => x) false false 200 rx_d0 3) = [5; 4; 5; 4] /\
  deps_of (node_after_serial VHead rx_keys rx_creators (fun _ _ => 0) (fun x => x) false false 200 rx_d0 2) = [3; 3] /\
  dt_loader (dn_task (node_after_serial VHead rx_keys rx_creators (fun _ _ => 0) (fun x => x) false false 200 rx_d0 2)) = None.
Proof. exact rx_deps. Qed.

(* a two-worker script on the same table (lib and d:b in flight together) follows the protocol; one that calls execute_task twice
   does not -- and does execute twice: the protocol hypothesis of the *_any_schedule theorems above cannot be dropped *)
Example C15_protocol_check_nonvacuous :
  wf_script VHead rx_keys rx_creators (fun _ _ => 0) (fun x => x) false false 200 rx_ops rx_d0 = true /\
  filter (fun e => match e with Ev (EExecute _) => true | _ => false end)
         (fst (run_script VHead rx_keys rx_creators (fun _ _ => 0) (fun x => x) false false 200 rx_ops rx_d0)) =
  [Ev (EExecute 1); Ev (EExecute 5); Ev (EExecute 4); Ev (EExecute 3); Ev (EExecute 2)] /\
  snd (run_script VHead rx_keys rx_creators (fun _ _ => 0) (fun x => x) false false 200 rx_ops rx_d0) = 0.
Proof. exact rx_script_wf. Qed.

Theorem C15_exec_once_without_protocol_refuted :
  let ops := [OSend None; OSelect 1; OExec 1; OExec 1] in
  wf_script VHead rx_keys rx_creators (fun _ _ => 0) (fun x => x) false false 200 ops rx_d0 = false /\
  n_exec 1 (fst (run_script VHead rx_keys rx_creators (fun _ _ => 0) (fun x => x) false false 200 ops rx_d0)) = 2%nat.
Proof. exact rx_script_not_wf. Qed.
Print Assumptions C15_exec_once_without_protocol_refuted.

(* the scripts of the earlier examples of this file follow the protocol as well *)
Example C15_protocol_check_two_workers_example :
  wf_script VHead mn_keys mn_creators (fun _ _ => 0) (fun x => x) false false 200 mn_ops (mn_d0 [1; 2; 3]) = true.
Proof. vm_compute. reflexivity. Qed.
