(* LoaderEntry.v -- the ENTRY POINTS through which a namespace of task-creators reaches loader.load_tasks
   (doit/doit_cmd.py, doit/api.py, doit/cmd_base.py), on top of Model/Loader.v.

   Whatever the entry point, the task loader is configured by cmd_base.get_loader, which is where the loader learns the
   command names a task-creator must not be called like (loader.py 270: `if task_name in command_names`). *)
From DoitV Require Import Base Loader.
Open Scope Z_scope.

Inductive entry :=
| EMainRun        (* DoitMain(loader).run(argv)                       doit_cmd.py 231-310 *)
| EDoitRun        (* doit.run(ns) = DoitMain(ModuleTaskLoader(ns)).run(sys.argv[1:]) + sys.exit   api.py 16-21 *)
| ERunTasks       (* doit.api.run_tasks(loader, tasks, extra_config)  api.py 26-56 *)
| EDodoLoader     (* DoitMain().run(argv): no loader given, no [GLOBAL] loader: DodoTaskLoader    cmd_base.py 424-425 *)
| EPluginLoader.  (* DoitMain().run(argv): the LOADER plugin named by [GLOBAL] loader             cmd_base.py 416-422 *)

(* DoitMain.get_cmds (doit_cmd.py 195-205): the core commands, then the COMMAND plugins of the configuration (a
   PluginDict: a plugin of the name of a core command replaces the value, the set of keys is the union) *)
Definition get_cmds (core plugin : list string) : list string := core ++ plugin.

(* cmd_base.get_loader (404-430): `if cmds: loader.cmd_names = list(sorted(cmds.keys()))`; without commands the loader
   keeps the [] of TaskLoader2.__init__ (310).  cmd_names is only used for `task_name in command_names`: its order
   is not observable and the model keeps the one of get_cmds.  The loader OBJECT (given through the API, the plugin,
   DodoTaskLoader) is chosen before and independently of this assignment. *)
Definition get_loader (cmds : option (list string)) : list string :=
  match cmds with
  | Some (c :: r) => c :: r
  | _ => []
  end.

(* what each entry point hands to get_loader *)
Definition entry_cmds (e : entry) (core plugin : list string) : option (list string) :=
  match e with
  | EMainRun | EDodoLoader | EPluginLoader => Some (get_cmds core plugin)    (* doit_cmd.py 247-248 *)
  | EDoitRun => Some (get_cmds core plugin)                                  (* api.py 21: DoitMain.run *)
  | ERunTasks => Some (get_cmds core plugin)                                 (* api.py 36-37 *)
  end.

Definition entry_cmd_names (e : entry) (core plugin : list string) : list string :=
  get_loader (entry_cmds e core plugin).

Section Oracles.
Variable fmt : val -> string.
Variable fnmatch : string -> string -> bool.
Variable lv : level.

(* NamespaceTaskLoader.load_tasks (cmd_base.py 357-360): loader.load_tasks(self.namespace, self.cmd_names, ..); a
   TaskLoader2 plugin that loads a namespace passes self.cmd_names the same way *)
Definition entry_load_tasks (e : entry) (core plugin : list string) (allow : bool) (cs : list creator) : res (list task) :=
  load_tasks fmt lv (entry_cmd_names e core plugin) allow cs.
(* ... followed by TaskControl(task_list) for the commands that build the task graph *)
Definition entry_load (e : entry) (core plugin : list string) (allow : bool) (cs : list creator) : res (list task) :=
  load fmt fnmatch lv (entry_cmd_names e core plugin) allow cs.
End Oracles.

(* How the outcome of loading is reported: [exit code; 1 = internal traceback].
   DoitMain.run (doit_cmd.py 293-310): InvalidTask / InvalidDodoFile / InvalidCommand -> "ERROR: ..." and 3, any other
   exception -> traceback and 3; doit.run exits with that code; api.run_tasks (api.py 49-56) re-raises the user errors
   (the check writes a re-raised user error as [3; 0], any other exception as [3; 1]).  0 = the command succeeded (the
   tasks the check generates do). *)
Definition entry_report {A : Type} (e : entry) (r : res A) : list Z :=
  match r with
  | Ok _ => [0; 0]
  | Invalid _ => [3; 0]
  | Crash _ => [3; 1]
  end.
