(* Clean.v -- model of doit/cmd_clean.py (Clean._execute, Clean._expand, Clean.clean_tasks,
   CleanDepTree.build_nodes_with_deps / build_nodes / flat / _get_leafs) and of
   doit/task.py Task.clean (493-520) and clean_targets (601-616) over an abstract file system.
   Definitions only.

   Input of the model = the task table as it is AFTER `TaskControl(self.task_list)` ran
   (cmd_clean.py 90): wild-card task_dep expanded, implicit task_dep (file_dep that is another
   task's target) appended, names unique, every task_dep/setup name checked to exist.  The model
   does not assume the last two: a missing name is the KeyError Python raises.

   Task names are [N]; paths are lists of components compared lexicographically, which is how
   Python compares the target strings as long as no component contains a character below '/'
   (the harness uses fixed-width alphanumeric components); in every case a path sorts before
   anything inside it, as a string sorts before every string it is a proper prefix of. *)
From DoitV Require Export Base.
Open Scope Z_scope.

(* ------------------------------------------------------------------ paths and the file system *)
Definition path := list N.

Fixpoint path_cmp (a b : path) : comparison :=
  match a, b with
  | [], [] => Eq
  | [], _ :: _ => Lt
  | _ :: _, [] => Gt
  | x :: a', y :: b' => match N.compare x y with Eq => path_cmp a' b' | c => c end
  end.
Definition path_eqb (a b : path) : bool := list_eqb N.eqb a b.
Definition path_ltb (a b : path) : bool := match path_cmp a b with Lt => true | _ => false end.

Inductive kind := KFile | KDir.
(* what exists: one entry per existing path (regular file or directory; symlinks, devices and
   permission failures are outside the model) *)
Definition fsys := list (path * kind).

Fixpoint fs_get (fs : fsys) (p : path) : option kind :=
  match fs with
  | [] => None
  | (q, k) :: r => if path_eqb q p then Some k else fs_get r p
  end.
(* q is directly inside p *)
Definition is_child (p q : path) : bool :=
  match q with [] => false | _ :: _ => path_eqb (removelast q) p end.
Definition fs_nonempty (fs : fsys) (p : path) : bool := existsb (fun e => is_child p (fst e)) fs. (* os.listdir(p) *)
Definition fs_remove (fs : fsys) (p : path) : fsys := filter (fun e => negb (path_eqb (fst e) p)) fs.

(* sorted(task.targets, reverse=True), task.py 603 *)
Fixpoint insert_desc (p : path) (l : list path) : list path :=
  match l with
  | [] => [p]
  | q :: r => if path_ltb p q then q :: insert_desc p r else p :: l
  end.
Definition sort_desc (l : list path) : list path := fold_right insert_desc [] l.

(* ------------------------------------------------------------------ tasks *)
(* t_clean: None = `clean: True` (task._remove_targets); Some flags = the list of clean actions,
   flag = the action is a python-action whose callable has a parameter named `dryrun`. *)
Record task := {
  t_name : name;
  t_task_dep : list name;
  t_setup : list name;
  t_subtask_of : option name;
  t_clean : option (list bool);
  t_targets : list path
}.
Definition table := list task.     (* self.task_list, in definition order *)

Fixpoint lookup (tb : table) (n : name) : option task :=
  match tb with
  | [] => None
  | t :: r => if N.eqb (t_name t) n then Some t else lookup r n
  end.
Definition names (tb : table) : list name := map t_name tb.

(* ------------------------------------------------------------------ observable world *)
Inductive event :=
| EClean (t : name)                                   (* Task.clean(t) entered *)
| EAnnounce (t : name) (i : nat)                      (* outstream: "<t> - executing '<action i>'" *)
| EExec (t : name) (i : nat) (dry : option bool)      (* action i executed; Some d = got kwarg dryrun=d *)
| EMsgFile (t : name) (p : path)                      (* stdout: "<t> - removing file '<p>'" *)
| EMsgDir (t : name) (p : path)                       (* stdout: "<t> - removing dir '<p>'" *)
| EMsgNotEmpty (t : name) (p : path)                  (* stdout: "<t> - cannot remove (it is not empty) '<p>'" *)
| ERead (t : name) (i : nat) (u : name) (found : bool). (* action i of t asked Globals.dep_manager for the saved
                                                          state of task u (get_result / get_values / get_value /
                                                          _in); found = a record of u was there.  Only emitted
                                                          by the functions of section WithReads below *)

(* w_db = the task ids that have saved state in the dependency DB *)
Record world := { w_fs : fsys; w_db : list name; w_ev : list event }.
Definition emit (w : world) (e : event) : world :=
  {| w_fs := w_fs w; w_db := w_db w; w_ev := w_ev w ++ [e] |}.
Definition set_fs (w : world) (fs : fsys) : world := {| w_fs := fs; w_db := w_db w; w_ev := w_ev w |}.
Definition db_remove (w : world) (n : name) : world :=
  {| w_fs := w_fs w; w_db := rem n (w_db w); w_ev := w_ev w |}.

(* task.py 601-616, one iteration of the loop *)
Definition clean_target (t : name) (dry : bool) (w : world) (p : path) : world :=
  match fs_get (w_fs w) p with
  | Some KFile =>                                                   (* os.path.isfile *)
      let w1 := emit w (EMsgFile t p) in
      if dry then w1 else set_fs w1 (fs_remove (w_fs w1) p)         (* os.remove *)
  | Some KDir =>                                                    (* os.path.isdir *)
      if fs_nonempty (w_fs w) p then emit w (EMsgNotEmpty t p)
      else let w1 := emit w (EMsgDir t p) in
           if dry then w1 else set_fs w1 (fs_remove (w_fs w1) p)    (* os.rmdir *)
  | None => w
  end.
Definition clean_targets (t : task) (dry : bool) (w : world) : world :=
  fold_left (clean_target (t_name t) dry) (sort_desc (t_targets t)) w.

(* task.py 505-520: every clean action is announced; it is executed unless dry-run, and even in
   dry-run when it is a python-action with a `dryrun` parameter (which then receives the flag).
   What the user's action does to files is the user's business: no effect on w_fs / w_db here.
   A failing action is reported on stderr and the loop goes on. *)
Fixpoint clean_actions (t : name) (dry : bool) (i : nat) (acts : list bool) (w : world) : world :=
  match acts with
  | [] => w
  | takes_dry :: r =>
      let w1 := emit w (EAnnounce t i) in
      let w2 := if negb dry || takes_dry
                then emit w1 (EExec t i (if takes_dry then Some dry else None)) else w1 in
      clean_actions t dry (S i) r w2
  end.

Definition task_clean (t : task) (dry : bool) (w : world) : world :=
  let w0 := emit w (EClean (t_name t)) in
  match t_clean t with
  | None => clean_targets t dry w0
  | Some acts => clean_actions (t_name t) dry 0 acts w0
  end.

(* Clean.clean_tasks, cmd_clean.py 55-65; returns the names whose Task.clean ran, in order *)
Fixpoint clean_tasks (dry forget : bool) (ts : list task) (cleaned : list name) (w : world)
  : list name * world :=
  match ts with
  | [] => ([], w)
  | t :: r =>
      if mem (t_name t) cleaned then clean_tasks dry forget r cleaned w
      else
        let w1 := task_clean t dry w in
        let w2 := if forget && negb dry then db_remove w1 (t_name t) else w1 in
        let '(l, w3) := clean_tasks dry forget r (t_name t :: cleaned) w2 in
        (t_name t :: l, w3)
  end.

(* ------------------------------------------------------------------ clean actions that look at the DB *)
(* doc/globals.rst: a clean action may ask `doit.Globals.dep_manager` for the state saved by the last
   run (get_result, get_values, ...), of its own task or of another one.  [rd t i] = the tasks whose
   saved state action i of task t looks up, in order.  A look-up does not change what is saved
   (dependency.py: get only fills the backend's cache); what it finds is what is saved at that moment: a
   record forgotten earlier in the same command is not found.
   The functions below are clean_actions / task_clean / clean_tasks with the look-ups added (and nothing
   else changed: Proofs/CleanP.v [strip]); the versions above are kept as they are for Model/Introspect.v. *)
Section WithReads.
  Variable rd : name -> nat -> list name.

  Fixpoint do_reads (t : name) (i : nat) (us : list name) (w : world) : world :=
    match us with
    | [] => w
    | u :: r => do_reads t i r (emit w (ERead t i u (mem u (w_db w))))
    end.

  Fixpoint clean_actions_rd (t : name) (dry : bool) (i : nat) (acts : list bool) (w : world) : world :=
    match acts with
    | [] => w
    | takes_dry :: r =>
        let w1 := emit w (EAnnounce t i) in
        let w2 := if negb dry || takes_dry
                  then do_reads t i (rd t i) (emit w1 (EExec t i (if takes_dry then Some dry else None)))
                  else w1 in
        clean_actions_rd t dry (S i) r w2
    end.

  Definition task_clean_rd (t : task) (dry : bool) (w : world) : world :=
    let w0 := emit w (EClean (t_name t)) in
    match t_clean t with
    | None => clean_targets t dry w0
    | Some acts => clean_actions_rd (t_name t) dry 0 acts w0
    end.

  Fixpoint clean_tasks_rd (dry forget : bool) (ts : list task) (cleaned : list name) (w : world)
    : list name * world :=
    match ts with
    | [] => ([], w)
    | t :: r =>
        if mem (t_name t) cleaned then clean_tasks_rd dry forget r cleaned w
        else
          let w1 := task_clean_rd t dry w in
          let w2 := if forget && negb dry then db_remove w1 (t_name t) else w1 in
          let '(l, w3) := clean_tasks_rd dry forget r (t_name t :: cleaned) w2 in
          (t_name t :: l, w3)
    end.
End WithReads.

(* ------------------------------------------------------------------ CleanDepTree *)
Inductive res (A : Type) := Ok (a : A) | KeyErr | InvalidCmd | OutOfFuel.
Arguments Ok {A} a. Arguments KeyErr {A}. Arguments InvalidCmd {A}. Arguments OutOfFuel {A}.

(* self.nodes : OrderedDict name -> list of names (tasks that depend on the key) *)
Definition nodes := list (name * list name).
Definition keys (ns : nodes) : list name := map fst ns.
Definition has_key (k : name) (ns : nodes) : bool := mem k (keys ns).
Definition setdefault (k : name) (ns : nodes) : nodes := if has_key k ns then ns else ns ++ [(k, [])].
Fixpoint append_child (k c : name) (ns : nodes) : nodes :=
  match ns with
  | [] => []
  | (k', l) :: r => if N.eqb k' k then (k', l ++ [c]) :: r else (k', l) :: append_child k c r
  end.
Fixpoint children_of (ns : nodes) (k : name) : list name :=
  match ns with
  | [] => []
  | (k', l) :: r => if N.eqb k' k then l else children_of r k
  end.
(* self.nodes.pop(k) *)
Fixpoint pop (k : name) (ns : nodes) : option (list name * nodes) :=
  match ns with
  | [] => None
  | (k', l) :: r =>
      if N.eqb k' k then Some (l, r)
      else match pop k r with Some (l', r') => Some (l', (k', l) :: r') | None => None end
  end.

(* (self.nodes, self._processed) *)
Definition tstate := (nodes * list name)%type.

(* the for-loop of build_nodes_with_deps (147-150); [rec] is the recursive call *)
Fixpoint bwd_list (rec : tstate -> name -> res tstate) (n : name) (st : tstate) (ds : list name)
  : res tstate :=
  match ds with
  | [] => Ok st
  | d :: r =>
      match rec (append_child d n (setdefault d (fst st)), snd st) d with
      | Ok st' => bwd_list rec n st' r
      | e => e
      end
  end.

Definition deps_followed (t : task) : list name := t_setup t ++ t_task_dep t.

(* build_nodes_with_deps (136-150).  Python recursion depth = fuel; S (length tb) always suffices
   (CleanP.bwd_fuel_adequate) *)
Fixpoint bwd (fuel : nat) (tb : table) (st : tstate) (n : name) : res tstate :=
  match fuel with
  | O => OutOfFuel
  | S f =>
      if mem n (snd st) then Ok st
      else match lookup tb n with
           | None => KeyErr                                         (* tasks[task_name] *)
           | Some t => bwd_list (bwd f tb) n (setdefault n (fst st), n :: snd st) (rev (deps_followed t))
           end
  end.

Fixpoint bwd_all (fuel : nat) (tb : table) (st : tstate) (cl : list name) : res tstate :=
  match cl with
  | [] => Ok st
  | n :: r => match bwd fuel tb st n with Ok st' => bwd_all fuel tb st' r | e => e end
  end.

(* build_nodes (152-162): sub-tasks only *)
Fixpoint bn_deps (tb : table) (n : name) (ns : nodes) (ds : list name) : res nodes :=
  match ds with
  | [] => Ok ns
  | d :: r =>
      match lookup tb d with
      | None => KeyErr
      | Some td =>
          match t_subtask_of td with
          | Some g => if N.eqb g n then bn_deps tb n (append_child d n (setdefault d ns)) r
                      else bn_deps tb n ns r
          | None => bn_deps tb n ns r
          end
      end
  end.
Fixpoint build_nodes (tb : table) (ns : nodes) (cl : list name) : res nodes :=
  match cl with
  | [] => Ok ns
  | n :: r =>
      match lookup tb n with
      | None => KeyErr
      | Some t => match bn_deps tb n (setdefault n ns) (rev (t_task_dep t)) with
                  | Ok ns' => build_nodes tb ns' r
                  | e => e
                  end
      end
  end.

(* the for-loop of _get_leafs (173-176) *)
Fixpoint leafs_list (rec : nodes -> name -> list name -> res (list name * nodes))
                    (ns : nodes) (cs : list name) : res (list name * nodes) :=
  match cs with
  | [] => Ok ([], ns)
  | c :: r =>
      match pop c ns with
      | None => leafs_list rec ns r
      | Some (grand, ns1) =>
          match rec ns1 c grand with
          | Ok (o1, ns2) =>
              match leafs_list rec ns2 r with
              | Ok (o2, ns3) => Ok (o1 ++ o2, ns3)
              | e => e
              end
          | e => e
          end
      end
  end.

(* _get_leafs (172-177); the generator is consumed completely and immediately by flat, so it is
   an ordinary recursion.  fuel > length ns always suffices *)
Fixpoint get_leafs (fuel : nat) (ns : nodes) (n : name) (children : list name)
  : res (list name * nodes) :=
  match fuel with
  | O => OutOfFuel
  | S f =>
      match leafs_list (get_leafs f) ns children with
      | Ok (o, ns') => Ok (o ++ [n], ns')
      | e => e
      end
  end.

(* flat (164-170); fuel >= length ns suffices *)
Fixpoint flat (fuel : nat) (ns : nodes) : res (list name) :=
  match ns with
  | [] => Ok []
  | (h, ch) :: rest =>
      match fuel with
      | O => OutOfFuel
      | S f =>
          match get_leafs fuel rest h ch with
          | Ok (o, ns') => match flat f ns' with Ok r => Ok (o ++ r) | e => e end
          | KeyErr => KeyErr | InvalidCmd => InvalidCmd | OutOfFuel => OutOfFuel
          end
      end
  end.

(* ------------------------------------------------------------------ Clean._execute *)
Section WithFnmatch.
  (* fnmatch.fnmatch(task name, pattern) -- oracle; patterns are the arguments containing '*' *)
  Variable pat : Type.
  Variable fnmatch : name -> pat -> bool.

  Inductive sel := SName (n : name) | SPat (p : pat).

  (* Clean._expand (67-75) *)
  Definition expand (tb : table) (l : list sel) : list name :=
    flat_map (fun s => match s with
                       | SName n => [n]
                       | SPat p => names (filter (fun t => fnmatch (t_name t) p) tb)
                       end) l.

  (* check_tasks_exist(tasks, pos_args, skip_wildcard=True), cmd_base.py 577-586 *)
  Definition check_exist (tb : table) (l : list sel) : bool :=
    forallb (fun s => match s with SName n => mem n (names tb) | SPat _ => true end) l.

  (* o_pos = positional arguments (None and [] behave alike); o_sel = self.sel_tasks, which is
     `args or DOIT_CONFIG['default_tasks']` (None when neither is given) *)
  Record opts := {
    o_dryrun : bool; o_cleandep : bool; o_cleanall : bool; o_forget : bool;
    o_pos : list sel; o_sel : option (list sel)
  }.

  (* 96-111: (effective cleandep, clean_list) *)
  Definition clean_list (tb : table) (o : opts) : bool * list name :=
    if o_cleanall o then (true, names tb)
    else if negb (is_nil (o_pos o)) then (o_cleandep o, expand tb (o_pos o))
    else (true, rev (match o_sel o with Some s => expand tb s | None => names tb end)).

  Definition build_tree (tb : table) (cleandep : bool) (cl : list name) : res nodes :=
    if cleandep then
      match bwd_all (S (length tb)) tb ([], []) cl with
      | Ok st => Ok (fst st) | KeyErr => KeyErr | InvalidCmd => InvalidCmd | OutOfFuel => OutOfFuel
      end
    else build_nodes tb [] cl.

  Fixpoint lookup_all (tb : table) (l : list name) : option (list task) :=
    match l with
    | [] => Some []
    | n :: r => match lookup tb n, lookup_all tb r with
                | Some t, Some ts => Some (t :: ts)
                | _, _ => None
                end
    end.

  (* the order in which the command hands tasks to clean_tasks *)
  Definition clean_order (tb : table) (o : opts) : res (list name) :=
    if negb (check_exist tb (o_pos o)) then InvalidCmd
    else let '(cd, cl) := clean_list tb o in
         match build_tree tb cd cl with
         | Ok ns => flat (length ns) ns
         | KeyErr => KeyErr | InvalidCmd => InvalidCmd | OutOfFuel => OutOfFuel
         end.

  (* Clean._execute (77-123): result = (names whose Task.clean ran, in order; final world) *)
  Definition clean_execute (tb : table) (o : opts) (w : world) : res (list name * world) :=
    match clean_order tb o with
    | Ok order =>
        match lookup_all tb order with
        | Some ts => Ok (clean_tasks (o_dryrun o) (o_forget o) ts [] w)
        | None => KeyErr
        end
    | KeyErr => KeyErr | InvalidCmd => InvalidCmd | OutOfFuel => OutOfFuel
    end.
  (* Clean._execute with clean actions that look at the DB (section WithReads) *)
  Definition clean_execute_rd (rd : name -> nat -> list name) (tb : table) (o : opts) (w : world)
    : res (list name * world) :=
    match clean_order tb o with
    | Ok order =>
        match lookup_all tb order with
        | Some ts => Ok (clean_tasks_rd rd (o_dryrun o) (o_forget o) ts [] w)
        | None => KeyErr
        end
    | KeyErr => KeyErr | InvalidCmd => InvalidCmd | OutOfFuel => OutOfFuel
    end.
End WithFnmatch.
Arguments SName {pat} n. Arguments SPat {pat} p.
Arguments o_dryrun {pat} o. Arguments o_cleandep {pat} o. Arguments o_cleanall {pat} o.
Arguments o_forget {pat} o. Arguments o_pos {pat} o. Arguments o_sel {pat} o.

(* ------------------------------------------------------------------ encoding for the correspondence check *)
Definition enc_path (p : path) : list Z := map zN p ++ [-2].
Definition enc_event (e : event) : list Z :=
  match e with
  | EClean t => [1; zN t]
  | EAnnounce t i => [2; zN t; znat i]
  | EExec t i d => [3; zN t; znat i; match d with None => 2 | Some b => zb b end]
  | EMsgFile t p => 4 :: zN t :: enc_path p
  | EMsgDir t p => 5 :: zN t :: enc_path p
  | EMsgNotEmpty t p => 6 :: zN t :: enc_path p
  | ERead t i u b => [7; zN t; znat i; zN u; zb b]
  end.
Definition enc_kind (k : kind) : Z := match k with KFile => 0 | KDir => 1 end.
Definition enc_world (w : world) : list Z :=
  flat_map enc_event (w_ev w) ++ [-1] ++
  flat_map (fun e => enc_kind (snd e) :: enc_path (fst e)) (w_fs w) ++ [-1] ++ map zN (w_db w).
Definition enc_res (r : res (list name * world)) : list Z :=
  match r with
  | Ok (l, w) => 0 :: map zN l ++ [-1] ++ enc_world w
  | KeyErr => [97]
  | InvalidCmd => [96]
  | OutOfFuel => [95]
  end.
