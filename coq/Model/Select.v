(* Select.v -- model of task selection:
     doit/control.py  TaskControl.__init__ (43-75), _check_dep_names (78-95), set_implicit_deps (98-120),
                      add_implicit_task_dep (123-133), _get_wild_tasks (136-142), _process_filter (145-187),
                      _filter_tasks (190-255), process (258-269)
     doit/cmd_base.py DoitCmdBase.execute 533-534   (sel_tasks = args or default_tasks)
     doit/cmd_run.py  Run._execute 205-219          (process; --single)
     doit/doit_cmd.py DoitMain.process_args 208-221, run 273-297   (Section Cli at the end: variables `x=y` removed,
                      the word `run`, the options of `doit run`; what is left is the selection)
   Definitions only.

   Every string the code handles here (task name, target / file name, wild-card pattern, element of the
   command line selection, regular expression) is an id of type [name]; the string functions are oracles
   (Section variables): '*' in s, fnmatch.fnmatch, s.split(':',1)[0], re.match, the format string that
   names a regex placeholder, s.startswith('_regex_target').

   Input = the attributes of the Task objects as Task.__init__ leaves them (task.py 205-241: task_dep
   holds the entries without '*', wild_dep the ones with; a loader's `executed` task is already appended
   to task_dep), in task_list order.  file_dep and calc_dep are Python sets: the lists here are their
   iteration order.
   Per-task command line arguments (add_filtered_task, control.py 153-174; Task.init_options, task.py
   375-398) are modelled as far as they decide which elements of the command line are selection
   elements: a task may declare `pos_arg` and options (`params`).  The VALUES parsed are not modelled.
   Domain of the option model: a token starting with '-' is the exact spelling of a short ('-c') or
   long ('--word') option, without '=value', clusters, '-' or '--'; valued options are of type str. *)
From DoitV Require Export Base.
Open Scope N_scope.

(* DelayedLoader (task.py 27-48): the task named by create_after(executed=), the target_regex *)
Record loader := { l_executed : option name; l_regex : option name }.

Record stask := {
  s_task_dep : list name;
  s_wild_dep : list name;
  s_setup : list name;
  s_calc_dep : list name;
  s_file_dep : list name;
  s_targets : list name;
  s_has_subtask : bool;
  s_subtask_of : option name;
  s_loader : option loader;
  s_pos_arg : bool;                  (* task.pos_arg is not None *)
  s_opts : list (name * bool) }.     (* spellings of the task's options ('-c', '--word'); true = takes a value *)

Definition with_task_dep (t : stask) (td : list name) : stask :=
  {| s_task_dep := td; s_wild_dep := s_wild_dep t; s_setup := s_setup t; s_calc_dep := s_calc_dep t;
     s_file_dep := s_file_dep t; s_targets := s_targets t; s_has_subtask := s_has_subtask t;
     s_subtask_of := s_subtask_of t; s_loader := s_loader t; s_pos_arg := s_pos_arg t; s_opts := s_opts t |}.

(* TaskControl.tasks: an OrderedDict name -> Task *)
Definition table := list (name * stask).
Fixpoint lookup (tb : table) (k : name) : option stask :=
  match tb with
  | [] => None
  | (k', t) :: r => if k' =? k then Some t else lookup r k
  end.
Definition has (tb : table) (k : name) : bool := match lookup tb k with Some _ => true | None => false end.
(* OrderedDict.__setitem__: an existing key keeps its position *)
Fixpoint set_task (tb : table) (k : name) (t : stask) : table :=
  match tb with
  | [] => [(k, t)]
  | (k', t') :: r => if k' =? k then (k', t) :: r else (k', t') :: set_task r k t
  end.
Definition task_dep_of (tb : table) (k : name) : list name :=
  match lookup tb k with Some t => s_task_dep t | None => [] end.

(* TaskControl.targets: dict file name -> task name *)
Definition tmap := list (name * name).
Fixpoint tg_get (tg : tmap) (f : name) : option name :=
  match tg with
  | [] => None
  | (f', p) :: r => if f' =? f then Some p else tg_get r f
  end.

Inductive ierr :=
| EDupName (n : name)                 (* InvalidDodoFile "Task names must be unique" *)
| EBadTaskDep (t d : name)            (* InvalidTask "Task dependency 'd' does not exist" *)
| EBadSetup (t d : name)              (* InvalidTask "invalid setup task" *)
| EBadCalc (t d : name)               (* InvalidTask "Calc dependency 'd' does not exist" *)
| EDupTarget (f t other : name).      (* InvalidTask "Two different tasks can't have a common target" *)

Record ctl := { c_tasks : table; c_targets : tmap; c_order : list name }.   (* tasks, targets, _def_order *)

Inductive result :=
| RInitErr (e : ierr)                               (* TaskControl(...) raised *)
| RNotFound (f : name)                              (* InvalidCommand(not_found=f) *)
| RParseErr                                         (* CmdParseError from a task's option parser *)
| ROk (tb : table) (tg : tmap) (selected : list name).

Section Model.
Variable has_star : name -> bool.              (* '*' in s *)
Variable matches : name -> name -> bool.       (* matches pattern s = fnmatch.fnmatch(s, pattern) *)
Variable basename_of : name -> name.           (* s.split(':', 1)[0] *)
Variable re_match : name -> name -> bool.      (* re_match regex s = bool(re.match(regex, s)) *)
Variable regex_name : name -> name -> name.    (* regex_name f t = '_regex_target_<f>:<t>' *)
Variable is_regex_name : name -> bool.         (* s.startswith('_regex_target') *)
Variable is_opt : name -> bool.                (* s.startswith('-'): getopt takes it for an option *)

(* _get_wild_tasks (136-142) *)
Definition get_wild (order : list name) (pattern : name) : list name := filter (matches pattern) order.

(* __init__ 56-67: the first name that was seen before *)
Fixpoint first_dup (seen l : list name) : option name :=
  match l with
  | [] => None
  | x :: r => if mem x seen then Some x else first_dup (x :: seen) r
  end.

(* __init__ 70-72 *)
Definition expand_wild (order : list name) (t : stask) : stask :=
  with_task_dep t (s_task_dep t ++ flat_map (get_wild order) (s_wild_dep t)).

(* _check_dep_names (78-95) *)
Definition first_missing (all : table) (l : list name) : option name := find (fun d => negb (has all d)) l.
Fixpoint check_deps (tb all : table) : option ierr :=
  match tb with
  | [] => None
  | (n, t) :: r =>
    match first_missing all (s_task_dep t) with Some d => Some (EBadTaskDep n d) | None =>
    match first_missing all (s_setup t) with Some d => Some (EBadSetup n d) | None =>
    match first_missing all (s_calc_dep t) with Some d => Some (EBadCalc n d) | None =>
    check_deps r all end end end
  end.

(* set_implicit_deps, part 1 (106-112) *)
Fixpoint add_targets (tg : tmap) (n : name) (l : list name) : ierr + tmap :=
  match l with
  | [] => inr tg
  | f :: r => match tg_get tg f with
              | Some o => inl (EDupTarget f n o)
              | None => add_targets (tg ++ [(f, n)]) n r
              end
  end.
Fixpoint build_targets (tg : tmap) (tb : table) : ierr + tmap :=
  match tb with
  | [] => inr tg
  | (n, t) :: r => match add_targets tg n (s_targets t) with
                   | inl e => inl e
                   | inr tg' => build_targets tg' r
                   end
  end.

(* add_implicit_task_dep (123-133) *)
Definition add_implicit_one (tg : tmap) (td : list name) (dep : name) : list name :=
  match tg_get tg dep with
  | Some p => if mem p td then td else td ++ [p]
  | None => td
  end.
Definition add_implicit (tg : tmap) (t : stask) (deps : list name) : stask :=
  with_task_dep t (fold_left (add_implicit_one tg) deps (s_task_dep t)).

(* TaskControl.__init__ *)
Definition init (tb : table) : ierr + ctl :=
  let order := map fst tb in
  match first_dup [] order with
  | Some n => inl (EDupName n)
  | None =>
    let tb1 := map (fun nt => (fst nt, expand_wild order (snd nt))) tb in
    match check_deps tb1 tb1 with
    | Some e => inl e
    | None =>
      match build_targets [] tb1 with
      | inl e => inl e
      | inr tg => inr {| c_tasks := map (fun nt => (fst nt, add_implicit tg (snd nt) (s_file_dep (snd nt)))) tb1;
                         c_targets := tg; c_order := order |}
      end
    end
  end.

(* the selection when nothing on the command line is an argument of a task: every pattern is replaced
   by the tasks it matches, in definition order *)
Definition expand_sel (order : list name) (sel : list name) : list name :=
  flat_map (fun f => if has_star f then get_wild order f else [f]) sel.

(* _process_filter (145-187) with add_filtered_task (153-174).  The loop pops a name; a pattern adds the
   tasks it matches, each through add_filtered_task((), name): the rest of the command line is NOT
   offered to them; any other name is added through add_filtered_task(seq, name), which for a task
     1. runs the_task.init_options(seq): the first time for this task object (task.options is None) the
        task's option parser (getopt: stops at the first non-option) strips the leading option tokens,
        an unknown option or a missing value raises CmdParseError; later calls return seq untouched;
     2. if the task declares pos_arg and pos_arg_val is still None: pos_arg_val = the whole rest, seq = [].
   State: the tasks whose options are initialised / whose pos_arg_val is set (a pattern does both to the
   tasks it matches: options from (), pos_arg_val = ()).
   The walk over the command line is an automaton so that the recursion is structural:
   MName: next token is a name;  MOpts o sw: stripping options o of the task just named, sw = it takes the
   rest as positional values afterwards;  MVal: the value of a valued option;  (swallowing = stop). *)
Record pstate := { p_inited : list name; p_posset : list name }.
Definition pstate0 : pstate := {| p_inited := []; p_posset := [] |}.
Inductive mode := MName | MOpts (o : list (name * bool)) (sw : bool) | MVal (o : list (name * bool)) (sw : bool).

Fixpoint opt_kind (o : list (name * bool)) (x : name) : option bool :=
  match o with [] => None | (y, v) :: r => if y =? x then Some v else opt_kind r x end.

Definition mark_glob (tb : table) (st : pstate) (w : list name) : pstate :=
  fold_left (fun st x =>
    match lookup tb x with
    | Some t => {| p_inited := addset x (p_inited st);
                   p_posset := if s_pos_arg t then addset x (p_posset st) else p_posset st |}
    | None => st end) w st.

(* what popping the name x does: (names added to filter_list, what the following tokens are, state);
   None in second position = the rest of the command line is consumed (pos_arg) *)
Definition name_action (order : list name) (tb : table) (st : pstate) (x : name)
  : list name * option mode * pstate :=
  if has_star x then (get_wild order x, Some MName, mark_glob tb st (get_wild order x))
  else match lookup tb x with
  | None => ([x], Some MName, st)
  | Some t =>
    let sw := s_pos_arg t && negb (mem x (p_posset st)) in
    let st' := {| p_inited := addset x (p_inited st);
                  p_posset := if sw then addset x (p_posset st) else p_posset st |} in
    if mem x (p_inited st) then ([x], if sw then None else Some MName, st')
    else ([x], Some (MOpts (s_opts t) sw), st')
  end.

(* None = CmdParseError *)
Fixpoint process_filter (order : list name) (tb : table) (m : mode) (st : pstate) (seq : list name)
  : option (list name * pstate) :=
  match seq with
  | [] => match m with MVal _ _ => None | _ => Some ([], st) end
  | x :: r =>
    let as_name :=
      match name_action order tb st x with
      | (emit, None, st') => Some (emit, st')
      | (emit, Some m', st') =>
        match process_filter order tb m' st' r with
        | None => None
        | Some (fl, st'') => Some (emit ++ fl, st'')
        end
      end in
    match m with
    | MName => as_name
    | MVal o sw => process_filter order tb (MOpts o sw) st r
    | MOpts o sw =>
      if is_opt x then
        match opt_kind o x with
        | None => None
        | Some false => process_filter order tb (MOpts o sw) st r
        | Some true => process_filter order tb (MVal o sw) st r
        end
      else if sw then Some ([], st) else as_name
    end
  end.

(* The code before the repair 3703f81, kept so that the defect stays stated (C12_repeat_legacy_refuted):
   Task.init_options returned the remaining arguments only the first time it ran on a task object and
   None afterwards, and `seq = None` ended the `while seq` loop of _process_filter: the rest of the
   command line was dropped.  [inited] = the tasks whose options are initialised; a pattern initialises
   every task it matches and ignores the return value.  (Run._execute also processed the selection twice
   under --single, the second time with every selected task initialised.) *)
Definition mark_inited (tb : table) (inited w : list name) : list name :=
  fold_left (fun i x => if has tb x then addset x i else i) w inited.
Fixpoint process_filter_legacy (order : list name) (tb : table) (inited sel : list name) : list name * list name :=
  match sel with
  | [] => ([], inited)
  | f :: r =>
    if has_star f then
      let w := get_wild order f in
      let res := process_filter_legacy order tb (mark_inited tb inited w) r in (w ++ fst res, snd res)
    else if has tb f then
      if mem f inited then ([f], inited)
      else let res := process_filter_legacy order tb (addset f inited) r in (f :: fst res, snd res)
    else let res := process_filter_legacy order tb inited r in (f :: fst res, snd res)
  end.

(* the Task created for a name given on the command line that only a delayed creator can provide
   (220 and 248): Task(name, None, loader=loader[, file_dep=[filter_]]) *)
Definition placeholder (l : loader) (fd : list name) : stask :=
  {| s_task_dep := match l_executed l with Some e => [e] | None => [] end;
     s_wild_dep := []; s_setup := []; s_calc_dep := []; s_file_dep := fd; s_targets := [];
     s_has_subtask := false; s_subtask_of := None; s_loader := Some l; s_pos_arg := false; s_opts := [] |}.

(* 224-239: the delayed tasks whose target_regex matches (all of them under --auto-delayed-regex when
   they have no regex), in the order of tasks.values().  Skipped: the `_regex_target..` placeholders and
   (repair 01f48fb, lines 197-199, 221, 232-233) the names in [ph] = `subtask_placeholders`, the placeholder
   tasks this very call of _filter_tasks created for `basename:sub` names: they share the creator's loader
   but are not task-creators *)
Definition delayed_matched (auto : bool) (ph : list name) (tb : table) (f : name) : list (name * loader) :=
  flat_map (fun nt =>
    match s_loader (snd nt) with
    | None => []
    | Some l =>
      if is_regex_name (fst nt) then []
      else if mem (fst nt) ph then []
      else match l_regex l with
           | Some rx => if re_match rx f then [(fst nt, l)] else []
           | None => if auto then [(fst nt, l)] else []
           end
    end) tb.

Definition add_regex_task (f : name) (tb : table) (nl : name * loader) : table :=
  set_task tb (regex_name f (fst nl)) (placeholder (snd nl) [f]).

(* one turn of the loop of _filter_tasks (203-254) in the state (subtask_placeholders, tasks):
   the new state and what is appended to selected_task; None = raise InvalidCommand(not_found=f) *)
Definition filter_one (auto : bool) (tg : tmap) (ph : list name) (tb : table) (f : name)
  : option (list name * table * list name) :=
  if has tb f then Some (ph, tb, [f])                               (* by task name *)
  else match tg_get tg f with
  | Some p => Some (ph, tb, [p])                                    (* by target *)
  | None =>
    match lookup tb (basename_of f) with
    | Some bt =>                                                    (* sub-task of a delayed creator *)
        match s_loader bt with
        | None => None
        | Some l => Some (f :: ph, set_task tb f (placeholder l []), [f])
        end
    | None =>                                                       (* target of a delayed creator *)
        let dm := delayed_matched auto ph tb f in
        if is_nil dm then None
        else Some (ph, fold_left (add_regex_task f) dm tb, map (fun nl => regex_name f (fst nl)) dm)
    end
  end.

Fixpoint filter_list (auto : bool) (tg : tmap) (ph : list name) (tb : table) (fl : list name)
  : name + (list name * table * list name) :=
  match fl with
  | [] => inr (ph, tb, [])
  | f :: r =>
    match filter_one auto tg ph tb f with
    | None => inl f
    | Some (ph1, tb1, s) =>
      match filter_list auto tg ph1 tb1 r with
      | inl e => inl e
      | inr (ph2, tb2, s') => inr (ph2, tb2, s ++ s')
      end
    end
  end.

(* The loop before the repair 01f48fb, kept so that the defect stays stated
   (C12_subtask_placeholder_legacy_refuted): no `subtask_placeholders`, i.e. the regex matching saw every
   task with a loader that is not named `_regex_target..` -- also the placeholder of a `basename:sub`
   name selected earlier on the same command line (it shares the creator's loader): a later element
   resolved through target_regex / --auto-delayed-regex got a `_regex_target_<f>:<basename:sub>` task
   as well and loader.basename was overwritten with `basename:sub` (tasks named c:1:1, or a KeyError). *)
Definition filter_one_legacy (auto : bool) (tg : tmap) (tb : table) (f : name) : option (table * list name) :=
  match filter_one auto tg [] tb f with
  | Some (_, tb1, s) => Some (tb1, s)
  | None => None
  end.
Fixpoint filter_list_legacy (auto : bool) (tg : tmap) (tb : table) (fl : list name) : name + (table * list name) :=
  match fl with
  | [] => inr (tb, [])
  | f :: r =>
    match filter_one_legacy auto tg tb f with
    | None => inl f
    | Some (tb1, s) =>
      match filter_list_legacy auto tg tb1 r with
      | inl e => inl e
      | inr (tb2, s') => inr (tb2, s ++ s')
      end
    end
  end.

(* _filter_tasks: (tasks', selected) or the exception *)
Inductive perr := PNotFound (f : name) | PParse.
Definition filter_tasks (auto : bool) (c : ctl) (sel : list name) : perr + (table * list name) :=
  match process_filter (c_order c) (c_tasks c) MName pstate0 sel with
  | None => inl PParse
  | Some (fl, _) =>
    match filter_list auto (c_targets c) [] (c_tasks c) fl with      (* 199: subtask_placeholders = set() *)
    | inl f => inl (PNotFound f)
    | inr (_, tb1, selected) => inr (tb1, selected)
    end
  end.

(* process (258-269): None = no selection at all *)
Definition process (auto : bool) (c : ctl) (sel : option (list name)) : perr + (table * list name) :=
  match sel with
  | Some s => filter_tasks auto c s
  | None => inr (c_tasks c, c_order c)
  end.

(* cmd_base.py 534: args or params.get('default_tasks') *)
Definition sel_tasks (args : list name) (default_tasks : option (list name)) : option (list name) :=
  match args with [] => default_tasks | _ => Some args end.

(* cmd_run.py 210-222: --single.  A selected group keeps, of its task_dep, the tasks that are its
   sub-tasks (subtask_of == the group) and these lose their task_dep; any other selected task loses
   its task_dep. *)
Definition clear_dep (tb : table) (k : name) : table :=
  match lookup tb k with Some t => set_task tb k (with_task_dep t []) | None => tb end.
Definition is_sub_of (tb : table) (g k : name) : bool :=
  match lookup tb k with
  | Some t => match s_subtask_of t with Some p => p =? g | None => false end
  | None => false
  end.
Definition single_one (tb : table) (k : name) : table :=
  match lookup tb k with
  | Some t =>
    if s_has_subtask t then
      let subs := filter (is_sub_of tb k) (s_task_dep t) in
      set_task (fold_left clear_dep subs tb) k (with_task_dep t subs)
    else clear_dep tb k
  | None => tb
  end.
Definition single_step (tb : table) (selected : list name) : table := fold_left single_one selected tb.

(* Run._execute 205-222: TaskControl(task_list); process(sel); with --single clear the task_dep *)
Definition select_core (auto single : bool) (sel : option (list name)) (tb : table) : result :=
  match init tb with
  | inl e => RInitErr e
  | inr c =>
    match process auto c sel with
    | inl (PNotFound f) => RNotFound f
    | inl PParse => RParseErr
    | inr (tb1, selected) =>
      ROk (if single then single_step tb1 selected else tb1) (c_targets c) selected
    end
  end.

(* `doit run [--single] [--auto-delayed-regex] args` with DOIT_CONFIG['default_tasks'] *)
Definition cmd_run_select (auto single : bool) (args : list name) (default_tasks : option (list name))
           (tb : table) : result :=
  select_core auto single (sel_tasks args default_tasks) tb.

End Model.

(* ---- the command line in front of the selection ----
     doit/doit_cmd.py  DoitMain.process_args (208-221), DoitMain.run (273-297: variables removed, sub-command
                       chosen, command.parse_execute(args))
     doit/cmd_base.py  Command.parse_execute 161-167 -> CmdParse.parse (cmdparse.py 349-373: getopt.getopt, which
                       stops at the first token that is no option)
   Every argument is an opaque [name] -- the empty string, a blank, 'A' next to 'a', 'a ' are names like any other.
   Oracles: is_var s = (not s.startswith('-')) and '=' in s   (such an argument sets a command line variable,
   doit.get_var, by documented design and is no element of the selection);  is_run s = (s == 'run');
   run_flag s = the option of `doit run` the token s spells.
   Domain: the only sub-command name that occurs is 'run'; the tokens in option position (after the optional
   'run', before the first token not starting with '-') are exact spellings of the bool options --single / -s and
   --auto-delayed-regex or unknown options (CmdParseError: exit code 3); no '--', no '-', no option values, no
   '--version' / '--help'; the loader has no command line options of its own. *)
Inductive rflag := FSingle | FAuto.

Section Cli.
Variable has_star : name -> bool.
Variable matches : name -> name -> bool.
Variable basename_of : name -> name.
Variable re_match : name -> name -> bool.
Variable regex_name : name -> name -> name.
Variable is_regex_name : name -> bool.
Variable is_opt : name -> bool.
Variable is_var : name -> bool.
Variable is_run : name -> bool.
Variable run_flag : name -> option rflag.

(* process_args (208-221): every argument that is no variable is kept, in order *)
Definition process_args (argv : list name) : list name := filter (fun a => negb (is_var a)) argv.

(* run 277-282: `args[0] in sub_cmds` -> that command, popped; else the default command 'run' *)
Definition strip_cmd (args : list name) : list name :=
  match args with
  | x :: r => if is_run x then r else args
  | [] => []
  end.

(* CmdParse.parse of the Run command: leading option tokens; None = CmdParseError *)
Fixpoint run_opts (single auto : bool) (l : list name) : option (bool * bool * list name) :=
  match l with
  | [] => Some (single, auto, [])
  | x :: r =>
    if is_opt x then
      match run_flag x with
      | Some FSingle => run_opts true auto r
      | Some FAuto => run_opts single true r
      | None => None
      end
    else Some (single, auto, l)
  end.

(* (--single, --auto-delayed-regex, positional arguments of the run command) *)
Definition cli_split (argv : list name) : option (bool * bool * list name) :=
  run_opts false false (strip_cmd (process_args argv)).

(* `doit <argv>` with DOIT_CONFIG['default_tasks'] up to the point where the runner would be started *)
Definition doit_main (argv : list name) (default_tasks : option (list name)) (tb : table) : result :=
  match cli_split argv with
  | None => RParseErr
  | Some (single, auto, pos) =>
    cmd_run_select has_star matches basename_of re_match regex_name is_regex_name is_opt auto single pos default_tasks tb
  end.
End Cli.

(* ---- encoding for the correspondence check ---- *)
Definition enc_ierr (e : ierr) : list Z :=
  match e with
  | EDupName n => [0; zN n; 0; 0]
  | EBadTaskDep t d => [1; zN t; zN d; 0]
  | EBadSetup t d => [2; zN t; zN d; 0]
  | EBadCalc t d => [3; zN t; zN d; 0]
  | EDupTarget f t o => [4; zN f; zN t; zN o]
  end%Z.
Definition enc_table (tb : table) : list Z :=
  flat_map (fun nt => zN (fst nt) :: map zN (s_task_dep (snd nt)) ++ [-1]%Z) tb.
Definition enc_result (r : result) : list Z :=
  match r with
  | RInitErr e => 1%Z :: enc_ierr e
  | RNotFound f => [2; zN f]%Z
  | RParseErr => [4%Z]
  | ROk tb tg sel => (0%Z :: map zN sel) ++ (-1)%Z :: enc_table tb ++ (-2)%Z :: flat_map (fun fp => [zN (fst fp); zN (snd fp)]) tg
  end.
(* what `doit run` shows of a failed selection is only the exit code 3 *)
Definition enc_cmd (r : result) : list Z :=
  match r with ROk _ _ _ => enc_result r | _ => [3%Z] end.
