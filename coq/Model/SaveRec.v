(* Model/SaveRec.v -- Dependency.save_success on ONE task's record, with the guard against a record that was written
   under another `--check_file_uptodate` setting (doit/dependency.py, save_success):

       checker_name = self.checker.__class__.__name__
       previous = self._get(task.name, 'checker:')
       if previous and previous != checker_name:
           self.remove(task.name)                        # [save_base]: the whole old record is dropped FIRST
       self._set(task.name, "_values_:", task.values)    # then every pair of the completed execution is set
       ... "result:" ... 'checker:' ... one pair per file_dep whose state get_state returns ... 'deps:'

   A record is a [trec] of Model/Backends.v (key id -> value id); the pairs save_success hands to backend.set -- everything
   but the 'checker:' pair, which the model adds itself -- are an input ([pairs], logged by harness/c06_history.py from the
   real call).  [save_success_late_guard] is the same code with the guard moved after the values / result pairs (the
   regression seeded/C06g): it exists only to show that the theorems of Proofs/SaveRecP.v distinguish the two orders.
   Definitions only. *)
From DoitV Require Export Base Backends Crash.

Definition KCHK : N := 2%N.       (* the key 'checker:' (harness: KEYS = ['_values_:', 'result:', 'checker:', 'deps:', 'ignore:'] ++ file_deps) *)

(* the record the sets of save_success are applied to *)
Definition save_base (chk : Z) (old : option trec) : trec :=
  match rget old KCHK with
  | Some c => if Z.eqb c chk then orempty old else empty       (* previous and previous != checker_name: remove *)
  | None => orempty old                                        (* no record / a record without 'checker:' *)
  end.

Definition set_all (r : trec) (l : list (N * Z)) : trec := fold_left (fun r kv => rset r (fst kv) (snd kv)) l r.

Definition save_success (chk : Z) (old : option trec) (pairs : list (N * Z)) : trec :=
  set_all (save_base chk old) (pairs ++ [(KCHK, chk)]).

(* seeded/C06g: "_values_:" / "result:" ([pre]) are set on the OLD record, then the guard, then the rest ([post]) *)
Definition save_success_late_guard (chk : Z) (old : option trec) (pre post : list (N * Z)) : trec :=
  set_all (save_base chk (Some (set_all (orempty old) pre))) (post ++ [(KCHK, chk)]).
