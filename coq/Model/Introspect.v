(* Introspect.v -- model of the read-only commands `list` (doit/cmd_list.py) and `info`
   (doit/cmd_info.py) over Model/Status.v's [get_status], and of the decision `run` takes for a
   task whose dependencies are all up-to-date (Runner.select_task, first pass, runner.py 101-150).
   Definitions only.

   What is modelled
   * cmd_list.py List._execute (127-170): selection of the tasks to print (_list_all 118-125,
     _list_filtered 103-115 with check_tasks_exist and subtasks_iter of cmd_base.py 581-592 /
     611-619), --private filter, --sort name|definition, and List._print_task (84-100): the status
     letter (status_is_ignore -> 'I', else get_status(task, tasks).status through STATUS_MAP, 81)
     and the --deps lines.  --quiet and --template only change the layout of a line: not modelled.
   * cmd_info.py Info._execute (27-86): exactly one positional argument, tasks[name] (KeyError for an
     unknown name: there is no check_tasks_exist), get_status(task, tasks, get_log=True) unless
     --no-status, "status : <status>", the reasons when the status is not up-to-date, return code;
     Info.get_reasons (88-121): which lines are printed, in which order.  The attribute listing
     printed afterwards (file_dep, task_dep, ... 76-86) shows fields of the Task object: not modelled.
   * Both commands get self.task_list straight from the loader (no TaskControl, no setup-task runs).
     Before get_status they call cmd_base.merge_calc_dep (cmd_base.py 611-626): the values saved by the
     task's calc_dep tasks are merged into the Task object (Task.update_deps), which is what `run`
     does (control.py TaskDispatcher._process_calc_dep_results) with the values of an up-to-date
     calc_dep task: [run_def].  The values a calc task saved can name file_dep, task_dep and further
     calc_dep of the task that depends on it (Task.update_deps, task.py 379-390); those further calc_dep
     tasks contribute in turn, to any depth, with sharing and repeats: merge_calc_dep is a fix-point loop,
     [merge_loop] (fuel; out of fuel = None, excluded by IntrospectP.merged_some), as is the dispatcher's
     (control.py 457-475 with 614-628).  [cv] oracle: the 'file_dep' / 'calc_dep' / 'task_dep' lists in
     the saved values of a task; [saved_cv]: nothing when the task has no record.  The 'uptodate' key of
     such values is not modelled, nor are '*' patterns in a contributed task_dep (wild_dep), nor the
     implicit task_dep `run` adds when a contributed file_dep is another task's target.
     `info` tests status_is_ignore first and prints "status : ignored".
     [iver] selects the code version: [icurrent] is HEAD (after a4fdc5e and 33e694f), [ilegacy] the
     code before them (no merge; info never looked at the ignore flag), kept so that the two defects
     stay stated (Properties/C20.v, `..._legacy_refuted`).
   * Neither command calls dep_manager.close().  The one mutation get_status can make (the record of
     a task whose stored checker differs from the configured one is removed, dependency.py 680-689)
     therefore reaches the disk only with the backend whose `remove` writes through (DbmDB:
     `del self._dbm[task_id]`, dependency.py 226-233); JsonDB keeps it in memory and SqliteDB in a
     transaction that is never committed: [persisted].
   help, dumpdb, tabcompletion: no transition of (file system, DB) -- tied by the correspondence
   check only ([noop_cmd]).
   * clean [--dry-run] (last part of this file): Task.clean (task.py 513-541) over clean LISTS mixing
     every kind of clean action (clean_targets, python callables with / without a `dryrun` parameter,
     shell commands), with what the actions do to files, the dependency DB (--forget) and the record of
     which action is invoked with which flag: [cclean_cmd].  The order in which the command hands the
     tasks to Task.clean is Model/Clean.v's [clean_order] (C14), reused unchanged.

   Line numbers: doit/cmd_list.py, doit/cmd_info.py, doit/runner.py at HEAD. *)
From DoitV Require Export Base Status History.
From DoitV Require Runner Clean.
Open Scope Z_scope.

(* ------------------------------------------------------------------ tasks as the loader leaves them *)
Record ltask := {
  l_name : name;
  l_private : bool;                 (* task.name.startswith('_') *)
  l_subtask_of : option name;       (* task.subtask_of *)
  l_task_dep : list name;           (* task.task_dep as written (nothing expands or checks it here) *)
  l_calc_dep : list name;           (* task.calc_dep: never looked at by list / info *)
  l_def : tdef                      (* what Dependency looks at, before any calc_dep result is merged *)
}.
Definition table := list ltask.     (* self.task_list, in definition order *)

(* tasks = dict([(t.name, t) for t in self.task_list]): the last task of a name wins *)
Fixpoint lookup (tb : table) (n : name) : option ltask :=
  match tb with
  | [] => None
  | t :: r => match lookup r n with
              | Some x => Some x
              | None => if N.eqb (l_name t) n then Some t else None
              end
  end.

Inductive letter := LtI | LtU | LtR | LtE.       (* List.STATUS_MAP, cmd_list.py 81 *)
Definition letter_z (l : letter) : Z := match l with LtI => 1 | LtU => 2 | LtR => 3 | LtE => 4 end.
(* None: get_status raised TypeError (state saved by another checker; Status.v [Crash]) *)
Definition status_letter (s : status) : option letter :=
  match s with UpToDate => Some LtU | Run => Some LtR | Error => Some LtE | Crash => None end.

Inductive pres (A : Type) := POk (a : A) | PInvalid (n : name) | PKeyErr (n : name).
Arguments POk {A} a. Arguments PInvalid {A} n. Arguments PKeyErr {A} n.

(* ------------------------------------------------------------------ what `run` decides *)
Inductive decision := DIgnore | DError | DUpToDate | DRun | DCrash.
Definition decision_z (x : decision) : Z :=
  match x with DIgnore => 1 | DUpToDate => 2 | DRun => 3 | DError => 4 | DCrash => 98 end.
Definition decision_letter (x : decision) : option letter :=
  match x with DIgnore => Some LtI | DUpToDate => Some LtU | DRun => Some LtR | DError => Some LtE | DCrash => None end.
Definition decision_of_status (s : status) : decision :=
  match s with UpToDate => DUpToDate | Run => DRun | Error => DError | Crash => DCrash end.
(* Dependency.get_status(...).status as Model/Dispatch.v abstracts it *)
Definition check_of (s : status) : option Dispatch.check :=
  match s with UpToDate => Some Dispatch.CkUpToDate | Run => Some Dispatch.CkRun | Error => Some Dispatch.CkError | Crash => None end.

(* Task.update_deps({'file_dep': extra}) (task.py 333-345, 385-390): file_dep is a set *)
Definition add_file_deps (df : tdef) (extra : list file) : tdef :=
  {| file_dep := fold_left (fun acc f => if mem f acc then acc else acc ++ [f]) extra (file_dep df);
     targets := targets df; uptodate := uptodate df; act_values := act_values df; act_result := act_result df |}.

Inductive backend := BJson | BDbm | BSqlite.
Definition backend_z (b : backend) : Z := match b with BJson => 1 | BDbm => 2 | BSqlite => 3 end.
(* what is on disk after a command that never calls dep_manager.close(): [d] before, [d'] in memory *)
Definition persisted (b : backend) (d d' : db) : db := match b with BDbm => d' | _ => d end.

Record iver := { fixCalc : bool; fixIgn : bool }.
Definition icurrent : iver := {| fixCalc := true; fixIgn := true |}.
Definition ilegacy : iver := {| fixCalc := false; fixIgn := false |}.

(* the part of dep_manager.get_values(c) that Task.update_deps looks at (task.py 379-390, _expand_map) *)
Record cvals := {
  cv_file_dep : list file;          (* values['file_dep'] *)
  cv_calc_dep : list name;          (* values['calc_dep'] *)
  cv_task_dep : list name           (* values['task_dep'] *)
}.
Definition no_cvals : cvals := {| cv_file_dep := []; cv_calc_dep := []; cv_task_dep := [] |}.
(* dep_manager.get_values(c) : {} without a record *)
Definition saved_cv (cv : name -> cvals) (d : db) (c : name) : cvals :=
  match d c with Some _ => cv c | None => no_cvals end.

(* the Task object while calc_dep results are merged into it: what get_status looks at ([m_def]), the set
   task.calc_dep (insertion order; the iteration order of the Python set is not modelled) and the list
   task.task_dep *)
Record mtask := { m_def : tdef; m_calc : list name; m_task_dep : list name }.
(* Task.update_deps(values) (task.py 385-390): _expand_file_dep (set.add), _expand_calc_dep (365-370, set.add),
   _expand_task_dep (355-362: list.append, duplicates are kept) *)
Definition update_deps (m : mtask) (x : cvals) : mtask :=
  {| m_def := add_file_deps (m_def m) (cv_file_dep x);
     m_calc := fold_left (fun acc c => addset c acc) (cv_calc_dep x) (m_calc m);
     m_task_dep := m_task_dep m ++ cv_task_dep x |}.
(* the Task object as the loader leaves it (Task._init_deps 266-283: calc_dep is a set) *)
Definition minit (t : ltask) : mtask :=
  {| m_def := l_def t; m_calc := fold_left (fun acc c => addset c acc) (l_calc_dep t) []; m_task_dep := l_task_dep t |}.

(* cmd_base.merge_calc_dep (cmd_base.py 611-626):
     done = set()
     while True:
         todo = [n for n in task.calc_dep if n not in done and n in tasks]
         if not todo: break
         for name in todo: done.add(name); task.update_deps(dep_manager.get_values(name))
   [vals c] = get_values(c).  None = out of fuel. *)
Definition merge_todo (tb : table) (done : list name) (m : mtask) : list name :=
  filter (fun n => negb (mem n done) && match lookup tb n with Some _ => true | None => false end) (m_calc m).
Fixpoint merge_loop (fuel : nat) (tb : table) (vals : name -> cvals) (done : list name) (m : mtask) : option mtask :=
  match fuel with
  | O => None
  | S k => match merge_todo tb done m with
           | [] => Some m
           | todo => merge_loop k tb vals (done ++ todo) (fold_left (fun m' c => update_deps m' (vals c)) todo m)
           end
  end.
(* every round but the last marks a task not marked before: one more round than there are tasks is enough *)
Definition merged (tb : table) (vals : name -> cvals) (t : ltask) : option mtask :=
  merge_loop (S (length tb)) tb vals [] (minit t).

(* help / dumpdb / tabcompletion *)
Definition noop_cmd (d : db) : db := d.

Section Introspect.
Variable md5 : N -> N.
Variable v : ver.
Variable name_ltb : name -> name -> bool.     (* oracle: Python's `<` on the task-name strings (Task.__lt__, task.py 556-558) *)
Variable iv : iver.
Variable cv : name -> cvals.                  (* oracle: the dependency lists in the values a task saved *)

(* ---- the decision of Runner.select_task for a task not selected before, with
   node.ignored_deps = node.bad_deps = [] and without --always (runner.py 113-150):
   status_is_ignore -> skip_ignore; get_status 'error' -> DependencyError; 'up-to-date' ->
   skip_uptodate; else run_status = 'run' ---- *)
Definition run_decision (c : ck) (fs : fsys) (d : db) (n : name) (df : tdef) : decision :=
  if status_is_ignore d n then DIgnore
  else decision_of_status (g_status (get_status md5 v c fs d n df false)).

(* the Task object `run` hands to get_status when every calc_dep task it meets is up-to-date: the values
   saved by the task's calc_dep tasks (those that are tasks at all) are merged first, then those of the
   calc_dep tasks named by these values, and so on until nothing is left (TaskDispatcher._add_task,
   control.py 457-475: "calc_dep may add more deps so need to loop until nothing left", with
   _process_calc_dep_results 614-628); [vals c] = the values of calc task c.
   cmd_base.merge_calc_dep does the same for list / info.  The out-of-fuel branch is dead code
   (IntrospectP.merged_some). *)
Definition run_task (tb : table) (vals : name -> cvals) (t : ltask) : mtask :=
  match merged tb vals t with Some m => m | None => minit t end.
Definition run_def (tb : table) (vals : name -> cvals) (t : ltask) : tdef := m_def (run_task tb vals t).

(* the Task object / definition list and info hand to get_status when the DB is [d] *)
Definition shown_task (tb : table) (d : db) (t : ltask) : mtask :=
  if fixCalc iv then run_task tb (saved_cv cv d) t else minit t.
Definition shown_def (tb : table) (d : db) (t : ltask) : tdef :=
  if fixCalc iv then run_def tb (saved_cv cv d) t else l_def t.

(* ------------------------------------------------------------------ list *)
(* List._print_task 86-94: (letter, DB afterwards) *)
Definition task_status (tb : table) (c : ck) (fs : fsys) (d : db) (t : ltask) : option letter * db :=
  if status_is_ignore d (l_name t) then (Some LtI, d)
  else let g := get_status md5 v c fs d (l_name t) (shown_def tb d t) false in
       (status_letter (g_status g), g_db g).
(* task.file_dep as --deps prints it: the Task object was updated by merge_calc_dep iff its status was computed *)
Definition printed_def (tb : table) (status : bool) (d : db) (t : ltask) : tdef :=
  if status && negb (status_is_ignore d (l_name t)) then shown_def tb d t else l_def t.

Record lopts := {
  o_subtasks : bool;      (* --all *)
  o_status : bool;        (* -s / --status *)
  o_private : bool;       (* -p / --private *)
  o_list_deps : bool;     (* --deps *)
  o_sort_name : bool;     (* --sort name (default) | definition *)
  o_pos : list name       (* positional arguments *)
}.

Inductive lline := LTask (n : name) (st : option letter) | LDep (f : file) | LBlank.
Inductive lres :=
| LOk (lines : list lline) (d : db)
| LInvalid (n : name)                        (* InvalidCommand "'%s' is not a task." *)
| LKeyErr (n : name)                         (* KeyError escaping subtasks_iter *)
| LCrash (lines : list lline) (d : db).      (* TypeError escaping get_status after these lines were written *)

(* check_tasks_exist (cmd_base.py 581-592): the first name that is not a task *)
Fixpoint first_unknown (tb : table) (l : list name) : option name :=
  match l with
  | [] => None
  | n :: r => match lookup tb n with None => Some n | Some _ => first_unknown tb r end
  end.

(* subtasks_iter (cmd_base.py 611-619) *)
Fixpoint subtasks_iter (tb : table) (parent : name) (deps : list name) : pres (list ltask) :=
  match deps with
  | [] => POk []
  | n :: r =>
      match lookup tb n with
      | None => PKeyErr n
      | Some x =>
          match subtasks_iter tb parent r with
          | POk l => POk (match l_subtask_of x with
                          | Some p => if N.eqb p parent then x :: l else l
                          | None => l
                          end)
          | e => e
          end
      end
  end.

(* List._list_filtered 103-115, after check_tasks_exist *)
Fixpoint list_filtered (tb : table) (include_subtasks : bool) (l : list name) : pres (list ltask) :=
  match l with
  | [] => POk []
  | n :: r =>
      match lookup tb n with
      | None => PKeyErr n
      | Some t =>
          match (if include_subtasks then subtasks_iter tb (l_name t) (l_task_dep t) else POk []) with
          | POk subs => match list_filtered tb include_subtasks r with
                        | POk rest => POk (t :: subs ++ rest)
                        | e => e
                        end
          | PInvalid n' => PInvalid n'
          | PKeyErr n' => PKeyErr n'
          end
      end
  end.

(* List._list_all 118-125 *)
Definition list_all (tb : table) (include_subtasks : bool) : list ltask :=
  filter (fun t => include_subtasks || match l_subtask_of t with Some _ => false | None => true end) tb.

(* sorted(print_list): stable, uses only `<` *)
Fixpoint insert_task (x : ltask) (l : list ltask) : list ltask :=
  match l with
  | [] => [x]
  | y :: r => if name_ltb (l_name x) (l_name y) then x :: l else y :: insert_task x r
  end.
Definition sort_tasks (l : list ltask) : list ltask := fold_left (fun acc x => insert_task x acc) l [].

(* 131-163: the tasks printed, in order *)
Definition print_list (tb : table) (o : lopts) : pres (list ltask) :=
  let sel :=
    match o_pos o with
    | [] => POk (list_all tb (o_subtasks o))
    | pos => match first_unknown tb pos with
             | Some n => PInvalid n
             | None => list_filtered tb (o_subtasks o) pos
             end
    end in
  match sel with
  | POk l =>
      let l1 := if o_private o then l else filter (fun t => negb (l_private t)) l in
      POk (if o_sort_name o then sort_tasks l1 else l1)
  | e => e
  end.

Definition dep_lines (tb : table) (o : lopts) (d : db) (t : ltask) : list lline :=
  if o_list_deps o then map LDep (file_dep (printed_def tb (o_status o) d t)) ++ [LBlank] else [].
Definition prepend (ls : list lline) (r : lres) : lres :=
  match r with
  | LOk l d => LOk (ls ++ l) d
  | LCrash l d => LCrash (ls ++ l) d
  | e => e
  end.

(* 166-169: the loop over print_list, threading the DB through the get_status calls *)
Fixpoint print_tasks (tb : table) (c : ck) (fs : fsys) (o : lopts) (pl : list ltask) (d : db) : lres :=
  match pl with
  | [] => LOk [] d
  | t :: r =>
      if o_status o then
        match task_status tb c fs d t with
        | (Some l, d') => prepend (LTask (l_name t) (Some l) :: dep_lines tb o d t) (print_tasks tb c fs o r d')
        | (None, d') => LCrash [] d'
        end
      else prepend (LTask (l_name t) None :: dep_lines tb o d t) (print_tasks tb c fs o r d)
  end.

Definition list_cmd (tb : table) (o : lopts) (c : ck) (fs : fsys) (d : db) : lres :=
  match print_list tb o with
  | POk pl => print_tasks tb c fs o pl d
  | PInvalid n => LInvalid n
  | PKeyErr n => LKeyErr n
  end.

(* the letters `list --status` shows, with the DB each task was examined in *)
Fixpoint status_letters (tb : table) (c : ck) (fs : fsys) (pl : list ltask) (d : db) : list (name * option letter * db) :=
  match pl with
  | [] => []
  | t :: r => (l_name t, fst (task_status tb c fs d t), d) :: status_letters tb c fs r (snd (task_status tb c fs d t))
  end.

(* ------------------------------------------------------------------ info *)
Inductive rkind := KMissingTarget | KChanged | KMissingDep | KRemoved | KAdded.   (* order of the `sentences` dict, 108-114 *)
Definition rkind_z (k : rkind) : Z :=
  match k with KMissingTarget => 0 | KChanged => 1 | KMissingDep => 2 | KRemoved => 3 | KAdded => 4 end.
Inductive iline :=
| INoDeps                          (* " * The task has no dependencies." *)
| IUtdHeader                       (* " * The following uptodate objects evaluate to false:" *)
| IUtdItem (pos : nat)             (* "    - <utd> (args=.., kwargs=..)" *)
| IChecker (p c : ck)              (* " * The file_dep checker changed from <p> to <c>." *)
| IHeader (k : rkind)              (* " * The following ...:" *)
| IItem (k : rkind) (f : file).    (* "    - <path>" *)

(* sorted(): added_file_dep / removed_file_dep are sorted lists of paths (dependency.py 695-696;
   Status.v leaves the two lists in set-difference order, so the sort is applied where they are
   rendered); path order = order of the file numbers *)
Fixpoint insert_file (x : file) (l : list file) : list file :=
  match l with
  | [] => [x]
  | y :: r => if N.ltb x y then x :: l else y :: insert_file x r
  end.
Definition sort_files (l : list file) : list file := fold_left (fun acc x => insert_file x acc) l [].

Definition entries (r : reasons) (k : rkind) : list file :=
  match k with
  | KMissingTarget => rs_missing_target r
  | KChanged => rs_changed_file_dep r
  | KMissingDep => rs_missing_file_dep r
  | KRemoved => match rs_removed r with Some l => sort_files l | None => [] end
  | KAdded => match rs_added r with Some l => sort_files l | None => [] end
  end.
Definition all_kinds : list rkind := [KMissingTarget; KChanged; KMissingDep; KRemoved; KAdded].

(* Info.get_reasons 88-121: a reason is printed iff its entry is truthy *)
Definition get_reasons (r : reasons) : list iline :=
  (if rs_no_deps r then [INoDeps] else []) ++
  (match rs_uptodate_false r with [] => [] | l => IUtdHeader :: map IUtdItem l end) ++
  (match rs_checker_changed r with Some (p, c) => [IChecker p c] | None => [] end) ++
  flat_map (fun k => match entries r k with [] => [] | l => IHeader k :: map (IItem k) l end) all_kinds.

Inductive istatus := IHidden | IIgnored | IStatus (s : status).   (* --no-status | "ignored" | get_status(...).status *)
Definition istatus_z (x : istatus) : Z := match x with IHidden => -1 | IIgnored => 3 | IStatus s => status_z s end.
Definition istatus_decision (x : istatus) : option decision :=
  match x with IHidden => None | IIgnored => Some DIgnore | IStatus s => Some (decision_of_status s) end.
Inductive ires :=
| IOk (st : istatus) (lines : list iline) (retcode : Z) (d : db)
| IInvalidCmd                       (* "`info` failed, must select *one* task." *)
| IKeyErr (n : name)                (* tasks[task_name] *)
| ICrash (d : db).                  (* TypeError escaping get_status *)

(* Info._execute 27-89 *)
Definition info_cmd (tb : table) (pos : list name) (hide_status : bool) (c : ck) (fs : fsys) (d : db) : ires :=
  match pos with
  | [n] =>
      match lookup tb n with
      | None => IKeyErr n
      | Some t =>
          if hide_status then IOk IHidden [] 0 d else
          if fixIgn iv && status_is_ignore d (l_name t) then IOk IIgnored [] 0 d else
          let g := get_status md5 v c fs d (l_name t) (shown_def tb d t) true in
          match g_status g with
          | Crash => ICrash (g_db g)
          | UpToDate => IOk (IStatus UpToDate) [] 0 (g_db g)
          | s => IOk (IStatus s) (get_reasons (g_reasons g)) 1 (g_db g)
          end
      end
  | _ => IInvalidCmd
  end.

(* the file_dep / task_dep / calc_dep entries of the attribute listing `info` prints afterwards (cmd_info.py
   76-86): fields of the Task object, which merge_calc_dep updated iff the status was computed (62-66) *)
Definition info_attrs (tb : table) (hide_status : bool) (d : db) (t : ltask) : mtask :=
  if hide_status || (fixIgn iv && status_is_ignore d (l_name t)) then minit t else shown_task tb d t.

(* ------------------------------------------------------------------ the commands as histories:
   the operations of Model/History.v a command amounts to *)
Definition list_ops (d : db) (status : bool) (pl : list ltask) : list op :=
  if status then flat_map (fun t => if status_is_ignore d (l_name t) then [] else [Check (l_name t)]) pl else [].
Definition info_ops (hide_status : bool) (n : name) : list op := if hide_status then [] else [CheckLog n].
(* the operations that are status queries *)
Definition query_op (o : op) : bool := match o with Check _ | CheckLog _ => true | _ => false end.

End Introspect.

(* ------------------------------------------------------------------ encodings for the correspondence check *)
Definition enc_letter (l : option letter) : Z := match l with Some x => letter_z x | None => 0 end.
Definition enc_lline (l : lline) : list Z :=
  match l with LTask n st => [1; zN n; enc_letter st] | LDep f => [2; zN f] | LBlank => [3] end.
(* the order in which a Python set is iterated is not modelled: runs of --deps lines (and, below, the
   items of one reason) are compared as sorted lists *)
Fixpoint canon_l (ls : list lline) (pending : list file) : list lline :=
  match ls with
  | LDep f :: r => canon_l r (f :: pending)
  | x :: r => map LDep (sort_files pending) ++ x :: canon_l r []
  | [] => map LDep (sort_files pending)
  end.
(* [0] lines -7 DB | [1; n] invalid | [2; n] KeyError | [98] lines -7 DB *)
Definition enc_lres (b : backend) (tasks : list name) (files : list file) (d0 : db) (r : lres) : list Z :=
  match r with
  | LOk l d => [0] ++ flat_map enc_lline (canon_l l []) ++ [-7] ++ db_z tasks files (persisted b d0 d)
  | LInvalid n => [1; zN n]
  | LKeyErr n => [2; zN n]
  | LCrash l d => [98] ++ flat_map enc_lline (canon_l l []) ++ [-7] ++ db_z tasks files (persisted b d0 d)
  end.
Definition enc_iline (l : iline) : list Z :=
  match l with
  | INoDeps => [10] | IUtdHeader => [11] | IUtdItem _ => [12]
  | IChecker p c => [13; 10 * ck_z p + ck_z c]
  | IHeader k => [20 + rkind_z k] | IItem k f => [30 + rkind_z k; zN f]
  end.
Fixpoint canon_i (ls : list iline) (pk : rkind) (pending : list file) : list iline :=
  match ls with
  | IItem k f :: r => canon_i r k (f :: pending)
  | x :: r => map (IItem pk) (sort_files pending) ++ x :: canon_i r pk []
  | [] => map (IItem pk) (sort_files pending)
  end.
(* [0; status (3 ignored, -1 hidden); retcode] lines -7 DB | [1] invalid command | [2; n] KeyError | [98] -7 DB *)
Definition enc_ires (b : backend) (tasks : list name) (files : list file) (d0 : db) (r : ires) : list Z :=
  match r with
  | IOk st l rc d => [0; istatus_z st; rc] ++ flat_map enc_iline (canon_i l KMissingTarget [])
                     ++ [-7] ++ db_z tasks files (persisted b d0 d)
  | IInvalidCmd => [1]
  | IKeyErr n => [2; zN n]
  | ICrash d => [98; -7] ++ db_z tasks files (persisted b d0 d)
  end.

(* a Task object's dependency fields: [0] file_dep -1 calc_dep -1 task_dep, each sorted (the two sets have no
   order; task_dep is compared as a multiset: its order follows the iteration order of a Python set);
   [95] out of fuel *)
Definition enc_mtask (m : option mtask) : list Z :=
  match m with
  | Some x => [0] ++ map zN (sort_files (file_dep (m_def x))) ++ [-1] ++ map zN (sort_files (m_calc x)) ++ [-1]
              ++ map zN (sort_files (m_task_dep x))
  | None => [95]
  end.

(* ================================================================== clean [--dry-run] over clean lists
   doit/task.py at HEAD:
     513  def clean(self, outstream, dryrun):
     519      self.init_options()
     521      if self._remove_targets is True:              # `clean: True`
     522          clean_targets(self, dryrun)
     523      else:
     525          for action in self.clean_actions:         # `clean: [a0, a1, ...]`
     526              msg = "%s - executing '%s'\n"
     527              outstream.write(msg % (self.name, action))
     530              execute_on_dryrun = False             # afresh for EVERY action
     531              if isinstance(action, PythonAction):
     532                  action_sig = inspect.signature(action.py_callable)
     533                  if 'dryrun' in action_sig.parameters:
     534                      execute_on_dryrun = True
     535                      action.kwargs['dryrun'] = dryrun
     537              if (not dryrun) or execute_on_dryrun:
     538                  result = action.execute(out=outstream)
     539                  if isinstance(result, BaseFail): sys.stderr.write(str(result))   # the loop goes on
     621-638  clean_targets(task, dryrun): for target in sorted(task.targets, reverse=True): a regular
              file is announced ("<task> - removing file '<target>'") and, unless dryrun, removed.
   doit/cmd_clean.py 55-65 Clean.clean_tasks (each task once; --forget only when not --dry-run;
   dep_manager.close()), 77-123 Clean._execute (which tasks, in which order: Model/Clean.v).

   Files here are regular files or absent (directories as targets: Model/Clean.v, C14); a file system
   is the list of the files that exist.  What an action written by the user does to files when it is
   really executed is an oracle carried by the action ([fop] lists); a python callable that has a
   `dryrun` parameter is user code too: its effect is a function of the flag it receives, and whether
   it honours the flag ([honours]) is a hypothesis of the frame theorem, not something doit ensures. *)
Inductive fop := FRemove (f : file) | FCreate (f : file).

Inductive cact :=
| CTargets                          (* doit.task.clean_targets as a clean action: python-action, parameters (task, dryrun) *)
| CPyDry (ops : bool -> list fop)   (* python-action whose callable has a parameter named `dryrun`; ops = what it does, given the flag *)
| CPyPlain (ops : list fop)         (* python-action whose callable has no such parameter *)
| CCmd (ops : list fop).            (* cmd-action (shell command / argument list) *)

(* 531-534: isinstance(action, PythonAction) and 'dryrun' in inspect.signature(py_callable).parameters *)
Definition takes_dryrun (a : cact) : bool :=
  match a with CTargets | CPyDry _ => true | CPyPlain _ | CCmd _ => false end.
Definition honours (a : cact) : Prop := match a with CPyDry ops => ops true = [] | _ => True end.

Definition cfs := list file.
Definition apply_op (fs : cfs) (o : fop) : cfs :=
  match o with FRemove f => rem f fs | FCreate f => addset f fs end.
Definition apply_ops (fs : cfs) (ops : list fop) : cfs := fold_left apply_op ops fs.

Inductive cevent :=
| VClean (t : name) (dry : bool)                      (* Task.clean(outstream, dryrun) of task t entered *)
| VAnnounce (t : name) (i : nat)                      (* outstream: "<t> - executing '<action i>'" *)
| VExec (t : name) (i : nat) (flag : option bool)     (* action i .execute() called; Some d: the callable received dryrun=d *)
| VMsg (t : name) (f : file).                         (* clean_targets printed "<t> - removing file '<f>'" *)

Record cworld := { c_fs : cfs; c_db : db; c_ev : list cevent }.
Definition cemit (w : cworld) (e : cevent) : cworld := {| c_fs := c_fs w; c_db := c_db w; c_ev := c_ev w ++ [e] |}.
Definition cset_fs (w : cworld) (fs : cfs) : cworld := {| c_fs := fs; c_db := c_db w; c_ev := c_ev w |}.
Definition cset_db (w : cworld) (d : db) : cworld := {| c_fs := c_fs w; c_db := d; c_ev := c_ev w |}.

(* task.py 621-638, regular files only *)
Definition ctarget (t : name) (dry : bool) (w : cworld) (f : file) : cworld :=
  if mem f (c_fs w) then                                   (* os.path.isfile *)
    let w1 := cemit w (VMsg t f) in
    if dry then w1 else cset_fs w1 (rem f (c_fs w1))       (* os.remove *)
  else w.
Definition ctargets (t : name) (targets : list file) (dry : bool) (w : cworld) : cworld :=
  fold_left (ctarget t dry) (rev (sort_files targets)) w.

(* 538: action.execute().  A callable receives `dryrun` iff it has the parameter (535) *)
Definition exec_act (t : name) (targets : list file) (i : nat) (dry : bool) (a : cact) (w : cworld) : cworld :=
  match a with
  | CTargets => ctargets t targets dry (cemit w (VExec t i (Some dry)))
  | CPyDry ops => let w1 := cemit w (VExec t i (Some dry)) in cset_fs w1 (apply_ops (c_fs w1) (ops dry))
  | CPyPlain ops => let w1 := cemit w (VExec t i None) in cset_fs w1 (apply_ops (c_fs w1) ops)
  | CCmd ops => let w1 := cemit w (VExec t i None) in cset_fs w1 (apply_ops (c_fs w1) ops)
  end.

(* 525-539 *)
Fixpoint cclean_actions (t : name) (targets : list file) (dry : bool) (i : nat) (acts : list cact) (w : cworld) : cworld :=
  match acts with
  | [] => w
  | a :: r =>
      let w1 := cemit w (VAnnounce t i) in
      let execute_on_dryrun := takes_dryrun a in            (* 530-535: decided for this action alone *)
      let w2 := if negb dry || execute_on_dryrun then exec_act t targets i dry a w1 else w1 in
      cclean_actions t targets dry (S i) r w2
  end.

(* ct_clean: None = `clean: True`; Some acts = the list of clean actions ([] when the task has no `clean`) *)
Record ctask := {
  ct_name : name; ct_task_dep : list name; ct_setup : list name; ct_subtask_of : option name;
  ct_clean : option (list cact); ct_targets : list file
}.
Definition ctable := list ctask.     (* self.task_list after TaskControl, as in Model/Clean.v *)

(* 513-539 *)
Definition ctask_clean (t : ctask) (dry : bool) (w : cworld) : cworld :=
  let w0 := cemit w (VClean (ct_name t) dry) in
  match ct_clean t with
  | None => ctargets (ct_name t) (ct_targets t) dry w0
  | Some acts => cclean_actions (ct_name t) (ct_targets t) dry 0 acts w0
  end.

(* Clean.clean_tasks, cmd_clean.py 55-65 *)
Fixpoint cclean_tasks (dry forget : bool) (ts : list ctask) (cleaned : list name) (w : cworld) : list name * cworld :=
  match ts with
  | [] => ([], w)
  | t :: r =>
      if mem (ct_name t) cleaned then cclean_tasks dry forget r cleaned w
      else
        let w1 := ctask_clean t dry w in
        let w2 := if forget && negb dry then cset_db w1 (remove (c_db w1) (ct_name t)) else w1 in   (* dep_manager.remove *)
        let '(l, w3) := cclean_tasks dry forget r (ct_name t :: cleaned) w2 in
        (ct_name t :: l, w3)
  end.

(* what Model/Clean.v looks at: names, dependencies, sub-task relation *)
Definition to_clean_task (t : ctask) : Clean.task :=
  {| Clean.t_name := ct_name t; Clean.t_task_dep := ct_task_dep t; Clean.t_setup := ct_setup t;
     Clean.t_subtask_of := ct_subtask_of t; Clean.t_clean := option_map (map takes_dryrun) (ct_clean t);
     Clean.t_targets := map (fun f => [f]) (ct_targets t) |}.

Fixpoint clookup (tb : ctable) (n : name) : option ctask :=
  match tb with
  | [] => None
  | t :: r => if N.eqb (ct_name t) n then Some t else clookup r n
  end.
Fixpoint clookup_all (tb : ctable) (l : list name) : option (list ctask) :=
  match l with
  | [] => Some []
  | n :: r => match clookup tb n, clookup_all tb r with
              | Some t, Some ts => Some (t :: ts)
              | _, _ => None
              end
  end.

(* Clean._execute, cmd_clean.py 77-123 *)
Definition cclean_cmd (pat : Type) (fnmatch : name -> pat -> bool) (tb : ctable) (o : Clean.opts pat) (w : cworld)
  : Clean.res (list name * cworld) :=
  match Clean.clean_order pat fnmatch (map to_clean_task tb) o with
  | Clean.Ok order =>
      match clookup_all tb order with
      | Some ts => Clean.Ok (cclean_tasks (Clean.o_dryrun o) (Clean.o_forget o) ts [] w)
      | None => Clean.KeyErr
      end
  | Clean.KeyErr => Clean.KeyErr | Clean.InvalidCmd => Clean.InvalidCmd | Clean.OutOfFuel => Clean.OutOfFuel
  end.

(* ---- vocabulary of the frame theorem (Properties/C20.v) ---- *)
(* the events a dry-run may add: announcements, messages, Task.clean entered with dryrun=True, and the
   invocation, with dryrun=True, of an action of the task's own clean list that takes `dryrun` *)
Definition dry_ok (tb : list ctask) (e : cevent) : Prop :=
  match e with
  | VExec n i fl => fl = Some true /\
                    exists t acts a, In t tb /\ ct_name t = n /\ ct_clean t = Some acts /\
                                     nth_error acts i = Some a /\ takes_dryrun a = true
  | VClean _ d => d = true
  | _ => True
  end.
Definition honest (t : ctask) : Prop := forall acts a, ct_clean t = Some acts -> In a acts -> honours a.

(* encoding: [0] cleaned -1 events -1 one 0/1 per file of [cfiles] -7 DB | [96] InvalidCommand | [97] KeyError | [95] *)
Definition enc_cevent (e : cevent) : list Z :=
  match e with
  | VClean t d => [1; zN t; zb d]
  | VAnnounce t i => [2; zN t; znat i]
  | VExec t i fl => [3; zN t; znat i; match fl with None => 2 | Some b => zb b end]
  | VMsg t f => [4; zN t; zN f]
  end.
Definition enc_cres (tasks : list name) (dfiles cfiles : list file) (r : Clean.res (list name * cworld)) : list Z :=
  match r with
  | Clean.Ok (l, w) => 0 :: map zN l ++ [-1] ++ flat_map enc_cevent (c_ev w) ++ [-1]
                       ++ map (fun f => zb (mem f (c_fs w))) cfiles ++ [-7] ++ db_z tasks dfiles (c_db w)
  | Clean.KeyErr => [97]
  | Clean.InvalidCmd => [96]
  | Clean.OutOfFuel => [95]
  end.
