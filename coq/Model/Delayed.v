(* Delayed.v -- model of delayed task creation (create_after):
     doit/task.py     DelayedLoader (27-48), Task.__init__ 225-228 (loader.task_dep becomes a task_dep)
     doit/loader.py   load_tasks/_add_delayed 174-229 (one COPY of the DelayedLoader per placeholder task)
     doit/control.py  (line numbers of 0acbaec; the repair 01f48fb adds 6 lines inside _filter_tasks, so everything below
                      it is 6 lines further down in HEAD) TaskControl._filter_tasks 190-250 (placeholders for `basename:sub`, `_regex_target_<t>:<task>`
                      tasks and RegexGroup), TaskControl.set_implicit_deps / add_implicit_task_dep 98-133,
                      ExecNode.reset_task 322-327, TaskDispatcher._add_task 435-547 with the loader branch
                      450-455 and 482-524, _dispatcher_generator 632-678 ("reset generator")
     doit/runner.py   Runner (serial) as in Model/Runner.v, plus run_all's `except InvalidTask` (273-275).
   Definitions only.

   Difference to Model/Dispatch.v: the task table is part of the state and grows.  A task is an
   object in Python: an ExecNode keeps the object it was created with even when tasks[name] is
   replaced later, so a node carries its own task value [dn_task]; the placeholder object is mutated
   by the loader branch and is (still) tasks[name] exactly when tasks[name] has a loader (every
   replacement installs a task whose loader is DelayedLoaded), which is how [load_branch] decides
   whether the mutation is visible through the table.
   A DelayedLoader object is identified by the name of the task load_tasks created it for
   (loader.py 180: one copy per placeholder: create_after(creates=[a,b]) gives two objects, each with
   its own `created` flag).  The loader branch reads TWO loader objects: the placeholder's own one
   (this_task.loader: creator, basename, and the flag it sets at 518) and the one reachable through
   the table, tasks[to_load].loader (486-487: the flag it tests); they differ exactly when the node
   still holds a placeholder object whose table entry was replaced meanwhile (the node of b was made
   before a's evaluation installed the real b).  Creators are data: [creators c to_load] is the list
   of tasks generate_tasks(to_load, creator_c()) returns.
   Restrictions (inputs the model does not cover): created tasks have no loader of their own;
   names used as dependencies of created tasks exist; creators do not raise. *)
From DoitV Require Export Base Dispatch Runner.
Open Scope N_scope.

(* one string space: task names, file names and command-line words are all [name] *)
Record dtask := { dt : task; dt_file_dep : list name; dt_targets : list name; dt_loader : option name }.
Definition empty_dtask : dtask := {| dt := empty_task; dt_file_dep := []; dt_targets := []; dt_loader := None |}.

Definition task_with_dep (t : task) (l : list name) : task :=
  Build_task l (t_setup t) (t_calc_dep t) (t_teardown t) (t_dbignore t) (t_check t) (t_argerr t) (t_outcome t)
             (t_calc_new_task t) (t_calc_new_impl t) (t_calc_new_calc t).
Definition dt_with (t : dtask) (deps fdep : list name) (ld : option name) : dtask :=
  {| dt := task_with_dep (dt t) deps; dt_file_dep := fdep; dt_targets := dt_targets t; dt_loader := ld |}.

(* DelayedLoader (task.py 27-48) *)
Record loader := { l_creator : N; l_executed : option name; l_basename : option name;
                   l_created : bool; l_has_regex : bool }.
Definition empty_loader : loader := Build_loader 0 None None false false.
Definition ld_basename (l : loader) (b : option name) : loader :=
  Build_loader (l_creator l) (l_executed l) b (l_created l) (l_has_regex l).
Definition ld_created (l : loader) : loader :=
  Build_loader (l_creator l) (l_executed l) (l_basename l) true (l_has_regex l).

(* RegexGroup (control.py 12-22) *)
Record rgroup := { g_target : name; g_tasks : list name; g_found : bool }.
Definition empty_group : rgroup := Build_rgroup 0 [] false.

Inductive dpc :=
| QStart                                           (* generator created, not started: regex-group check (450-455) *)
| QLoop | QCalc (rest calcs tasks : list name) | QTask (rest tasks : list name)
| QSelf | QAfterSelf | QAfterSelWait | QSetup (rest : list name) | QSetupWaited | QDone.

Record dnode := {
  dn_task : dtask;                                   (* ExecNode.task (the object, by value) *)
  dn_pt : list name; dn_pcl : list name;             (* ExecNode.task_dep / .calc_dep: not processed yet *)
  dn_at : list name; dn_ac : list name;              (* task.task_dep / task.calc_dep as they grow *)
  dn_anc : list name;
  dn_wsel : bool; dn_wrun : list name; dn_wcalc : list name; dn_wme : list name;
  dn_st : status; dn_bad : list name; dn_ign : list name; dn_pc : dpc }.

Definition nd_pc (nd : dnode) (p : dpc) : dnode :=
  {| dn_task := dn_task nd; dn_pt := dn_pt nd; dn_pcl := dn_pcl nd; dn_at := dn_at nd; dn_ac := dn_ac nd; dn_anc := dn_anc nd;
     dn_wsel := dn_wsel nd; dn_wrun := dn_wrun nd; dn_wcalc := dn_wcalc nd; dn_wme := dn_wme nd;
     dn_st := dn_st nd; dn_bad := dn_bad nd; dn_ign := dn_ign nd; dn_pc := p |}.
Definition nd_st (nd : dnode) (s : status) : dnode :=
  {| dn_task := dn_task nd; dn_pt := dn_pt nd; dn_pcl := dn_pcl nd; dn_at := dn_at nd; dn_ac := dn_ac nd; dn_anc := dn_anc nd;
     dn_wsel := dn_wsel nd; dn_wrun := dn_wrun nd; dn_wcalc := dn_wcalc nd; dn_wme := dn_wme nd;
     dn_st := s; dn_bad := dn_bad nd; dn_ign := dn_ign nd; dn_pc := dn_pc nd |}.
Definition nd_wsel (nd : dnode) (b : bool) : dnode :=
  {| dn_task := dn_task nd; dn_pt := dn_pt nd; dn_pcl := dn_pcl nd; dn_at := dn_at nd; dn_ac := dn_ac nd; dn_anc := dn_anc nd;
     dn_wsel := b; dn_wrun := dn_wrun nd; dn_wcalc := dn_wcalc nd; dn_wme := dn_wme nd;
     dn_st := dn_st nd; dn_bad := dn_bad nd; dn_ign := dn_ign nd; dn_pc := dn_pc nd |}.
Definition nd_wait (nd : dnode) (wr wc : list name) : dnode :=
  {| dn_task := dn_task nd; dn_pt := dn_pt nd; dn_pcl := dn_pcl nd; dn_at := dn_at nd; dn_ac := dn_ac nd; dn_anc := dn_anc nd;
     dn_wsel := dn_wsel nd; dn_wrun := wr; dn_wcalc := wc; dn_wme := dn_wme nd;
     dn_st := dn_st nd; dn_bad := dn_bad nd; dn_ign := dn_ign nd; dn_pc := dn_pc nd |}.
Definition nd_wme (nd : dnode) (w : list name) : dnode :=
  {| dn_task := dn_task nd; dn_pt := dn_pt nd; dn_pcl := dn_pcl nd; dn_at := dn_at nd; dn_ac := dn_ac nd; dn_anc := dn_anc nd;
     dn_wsel := dn_wsel nd; dn_wrun := dn_wrun nd; dn_wcalc := dn_wcalc nd; dn_wme := w;
     dn_st := dn_st nd; dn_bad := dn_bad nd; dn_ign := dn_ign nd; dn_pc := dn_pc nd |}.
Definition nd_bad (nd : dnode) (b i : list name) : dnode :=
  {| dn_task := dn_task nd; dn_pt := dn_pt nd; dn_pcl := dn_pcl nd; dn_at := dn_at nd; dn_ac := dn_ac nd; dn_anc := dn_anc nd;
     dn_wsel := dn_wsel nd; dn_wrun := dn_wrun nd; dn_wcalc := dn_wcalc nd; dn_wme := dn_wme nd;
     dn_st := dn_st nd; dn_bad := b; dn_ign := i; dn_pc := dn_pc nd |}.
Definition nd_deps (nd : dnode) (pt pcl at_ ac : list name) : dnode :=
  {| dn_task := dn_task nd; dn_pt := pt; dn_pcl := pcl; dn_at := at_; dn_ac := ac; dn_anc := dn_anc nd;
     dn_wsel := dn_wsel nd; dn_wrun := dn_wrun nd; dn_wcalc := dn_wcalc nd; dn_wme := dn_wme nd;
     dn_st := dn_st nd; dn_bad := dn_bad nd; dn_ign := dn_ign nd; dn_pc := dn_pc nd |}.
(* ExecNode.reset_task (322-327): new task object, fresh copies of its deps, new generator *)
Definition nd_reset (nd : dnode) (t : dtask) : dnode :=
  {| dn_task := t; dn_pt := t_task_dep (dt t); dn_pcl := t_calc_dep (dt t); dn_at := t_task_dep (dt t); dn_ac := t_calc_dep (dt t);
     dn_anc := dn_anc nd; dn_wsel := dn_wsel nd; dn_wrun := dn_wrun nd; dn_wcalc := dn_wcalc nd; dn_wme := dn_wme nd;
     dn_st := dn_st nd; dn_bad := dn_bad nd; dn_ign := dn_ign nd; dn_pc := QStart |}.

(* what is observed: the runner events of Model/Runner.v plus *)
Inductive dev :=
| Ev (e : event)
| ECreate (c : N) (l : name) (to_load : name)   (* creator c called through loader object l; generate_tasks(to_load, ...) *)
| ERuntimeError                                  (* reporter.runtime_error: InvalidTask caught by run_all *)
| ENotFound (f : name)                           (* InvalidCommand(not_found=f) escaping run_all *)
| EKeyError                                      (* KeyError from regex_group.tasks.remove escaping run_all *)
| EOp (code arg : N).                            (* scripted runs only: a call of the runner / a yield of the dispatcher *)

Record dst := {
  q_nodes : name -> option dnode;
  q_ready : list name; q_waiting : list name; q_torun : list name; q_cur : option name;
  q_tab : name -> option dtask;          (* TaskDispatcher.tasks (same dict as TaskControl.tasks) *)
  q_ld : name -> loader;                 (* the DelayedLoader objects, by the placeholder they were made for *)
  q_tg : name -> option name;            (* targets: file name -> task name *)
  q_rxg : name -> option N;              (* loader.regex_groups, all loaders merged (keys are task names) *)
  q_grp : N -> rgroup;                   (* the RegexGroup objects *)
  q_tr : list dev }.

Definition set_node (d : dst) (k : name) (nd : dnode) : dst :=
  {| q_nodes := upd (q_nodes d) k (Some nd); q_ready := q_ready d; q_waiting := q_waiting d; q_torun := q_torun d; q_cur := q_cur d;
     q_tab := q_tab d; q_ld := q_ld d; q_tg := q_tg d; q_rxg := q_rxg d; q_grp := q_grp d; q_tr := q_tr d |}.
Definition set_ready (d : dst) (r : list name) : dst :=
  {| q_nodes := q_nodes d; q_ready := r; q_waiting := q_waiting d; q_torun := q_torun d; q_cur := q_cur d;
     q_tab := q_tab d; q_ld := q_ld d; q_tg := q_tg d; q_rxg := q_rxg d; q_grp := q_grp d; q_tr := q_tr d |}.
Definition set_waiting (d : dst) (w : list name) : dst :=
  {| q_nodes := q_nodes d; q_ready := q_ready d; q_waiting := w; q_torun := q_torun d; q_cur := q_cur d;
     q_tab := q_tab d; q_ld := q_ld d; q_tg := q_tg d; q_rxg := q_rxg d; q_grp := q_grp d; q_tr := q_tr d |}.
Definition set_torun (d : dst) (w : list name) : dst :=
  {| q_nodes := q_nodes d; q_ready := q_ready d; q_waiting := q_waiting d; q_torun := w; q_cur := q_cur d;
     q_tab := q_tab d; q_ld := q_ld d; q_tg := q_tg d; q_rxg := q_rxg d; q_grp := q_grp d; q_tr := q_tr d |}.
Definition set_cur (d : dst) (c : option name) : dst :=
  {| q_nodes := q_nodes d; q_ready := q_ready d; q_waiting := q_waiting d; q_torun := q_torun d; q_cur := c;
     q_tab := q_tab d; q_ld := q_ld d; q_tg := q_tg d; q_rxg := q_rxg d; q_grp := q_grp d; q_tr := q_tr d |}.
Definition set_tab (d : dst) (k : name) (t : dtask) : dst :=
  {| q_nodes := q_nodes d; q_ready := q_ready d; q_waiting := q_waiting d; q_torun := q_torun d; q_cur := q_cur d;
     q_tab := upd (q_tab d) k (Some t); q_ld := q_ld d; q_tg := q_tg d; q_rxg := q_rxg d; q_grp := q_grp d; q_tr := q_tr d |}.
Definition set_ld (d : dst) (k : name) (l : loader) : dst :=
  {| q_nodes := q_nodes d; q_ready := q_ready d; q_waiting := q_waiting d; q_torun := q_torun d; q_cur := q_cur d;
     q_tab := q_tab d; q_ld := upd (q_ld d) k l; q_tg := q_tg d; q_rxg := q_rxg d; q_grp := q_grp d; q_tr := q_tr d |}.
Definition set_lds (d : dst) (ld : name -> loader) : dst :=
  {| q_nodes := q_nodes d; q_ready := q_ready d; q_waiting := q_waiting d; q_torun := q_torun d; q_cur := q_cur d;
     q_tab := q_tab d; q_ld := ld; q_tg := q_tg d; q_rxg := q_rxg d; q_grp := q_grp d; q_tr := q_tr d |}.
Definition set_tg (d : dst) (tg : name -> option name) : dst :=
  {| q_nodes := q_nodes d; q_ready := q_ready d; q_waiting := q_waiting d; q_torun := q_torun d; q_cur := q_cur d;
     q_tab := q_tab d; q_ld := q_ld d; q_tg := tg; q_rxg := q_rxg d; q_grp := q_grp d; q_tr := q_tr d |}.
Definition set_rxg (d : dst) (k : name) (g : N) : dst :=
  {| q_nodes := q_nodes d; q_ready := q_ready d; q_waiting := q_waiting d; q_torun := q_torun d; q_cur := q_cur d;
     q_tab := q_tab d; q_ld := q_ld d; q_tg := q_tg d; q_rxg := upd (q_rxg d) k (Some g); q_grp := q_grp d; q_tr := q_tr d |}.
Definition set_grp (d : dst) (g : N) (r : rgroup) : dst :=
  {| q_nodes := q_nodes d; q_ready := q_ready d; q_waiting := q_waiting d; q_torun := q_torun d; q_cur := q_cur d;
     q_tab := q_tab d; q_ld := q_ld d; q_tg := q_tg d; q_rxg := q_rxg d; q_grp := upd (q_grp d) g r; q_tr := q_tr d |}.
Definition emitd (d : dst) (e : list dev) : dst :=
  {| q_nodes := q_nodes d; q_ready := q_ready d; q_waiting := q_waiting d; q_torun := q_torun d; q_cur := q_cur d;
     q_tab := q_tab d; q_ld := q_ld d; q_tg := q_tg d; q_rxg := q_rxg d; q_grp := q_grp d; q_tr := q_tr d ++ e |}.

Definition tab_get (d : dst) (k : name) : dtask := match q_tab d k with Some t => t | None => empty_dtask end.

(* ExecNode.__init__ (290-320) *)
Definition new_node (parent_anc : list name) (k : name) (t : dtask) : dnode :=
  {| dn_task := t; dn_pt := t_task_dep (dt t); dn_pcl := t_calc_dep (dt t); dn_at := t_task_dep (dt t); dn_ac := t_calc_dep (dt t);
     dn_anc := parent_anc ++ [k]; dn_wsel := false; dn_wrun := []; dn_wcalc := []; dn_wme := [];
     dn_st := SNone; dn_bad := []; dn_ign := []; dn_pc := QStart |}.
Definition node_of (d : dst) (k : name) : dnode :=
  match q_nodes d k with Some nd => nd | None => new_node [] k (tab_get d k) end.
Definition st_of (d : dst) (k : name) : status := dn_st (node_of d k).
Definition set_pc (d : dst) (me : name) (p : dpc) : dst := set_node d me (nd_pc (node_of d me) p).

(* TaskControl.add_implicit_task_dep (123-133): deps_list in iteration order *)
Definition impl_deps (tg : name -> option name) (files : list name) (deps : list name) : list name :=
  fold_left (fun acc f => match tg f with Some p => if mem p acc then acc else acc ++ [p] | None => acc end) files deps.

(* TaskControl.set_implicit_deps part 1 (106-112): None = InvalidTask "common target" *)
Fixpoint add_targets_of (tg : name -> option name) (k : name) (ts : list name) : option (name -> option name) :=
  match ts with
  | [] => Some tg
  | f :: r => match tg f with Some _ => None | None => add_targets_of (upd tg f (Some k)) k r end
  end.
Fixpoint add_targets (tg : name -> option name) (new : list (name * dtask)) : option (name -> option name) :=
  match new with
  | [] => Some tg
  | (k, t) :: r => match add_targets_of tg k (dt_targets t) with None => None | Some tg1 => add_targets tg1 r end
  end.
(* part 2 (119-120) and _add_task 491-494 (install): implicit deps, loader := DelayedLoaded, tasks[name] := task *)
Definition finish_new (tg : name -> option name) (t : dtask) : dtask :=
  dt_with t (impl_deps tg (dt_file_dep t) (t_task_dep (dt t))) (dt_file_dep t) None.
Definition install (d : dst) (new : list (name * dtask)) : dst :=
  fold_left (fun d kt => set_tab d (fst kt) (finish_new (q_tg d) (snd kt))) new d.

(* which code: HEAD; the code before the repair 0acbaec (no marking of the other loader copies of the
   same creator, control.py 495-499); the seeded change C15b (the `created` flag tested is the one of
   the placeholder's own loader copy instead of tasks[to_load].loader).  The two non-HEAD variants
   are kept so that the defects stay stated next to the theorems (Properties/C15.v, *_refuted) *)
Inductive variant := VHead | VLegacy | VOwn.

Section Model.
Variable v : variant.
(* a list containing every key of the task table (TaskDispatcher.tasks); used only to enumerate
   `self.tasks.values()` at 497-499.  Names that are no key are harmless: they have no loader *)
Variable keys : list name.
Variable creators : N -> name -> list (name * dtask).
Variable wake_rank : name -> name -> N.
Variable calc_rank : name -> N.
Definition wake_order (p : name) (l : list name) : list name := sort_by (wake_rank p) l.

(* TaskDispatcher._gen_node (386-401) *)
Definition gen_node (d : dst) (parent_anc : option (list name)) (k : name) : gen_res * dst :=
  match q_nodes d k with
  | None => (GNew, set_node d k (new_node (match parent_anc with Some a => a | None => [] end) k (tab_get d k)))
  | Some _ => match parent_anc with
              | Some a => if mem k a then (GCycle, d) else (GOld, d)
              | None => (GOld, d) end
  end.

Definition parent_status (nd : dnode) (dep : name) (dst_ : status) : dnode :=
  match dst_ with
  | SFailure | SFailureV => nd_bad nd (dn_bad nd ++ [dep]) (dn_ign nd)
  | SIgnore => nd_bad nd (dn_bad nd) (dn_ign nd ++ [dep])
  | _ => nd end.

(* _process_calc_dep_results (614-628); [ct] = the calc task object (node.task of the calc_dep) *)
Definition process_calc (nd : dnode) (ct : task) (cst : status) : dnode :=
  if calc_values_visible cst then
    let all1 := dn_at nd ++ t_calc_new_task ct in
    let impl := fold_left add_if_new (t_calc_new_impl ct) all1 in
    let newt := skipn (length (dn_at nd)) impl in
    let newc := filter (fun x => negb (mem x (dn_ac nd))) (fold_left add_if_new (t_calc_new_calc ct) []) in
    nd_deps nd (dn_pt nd ++ newt) (dn_pcl nd ++ newc) impl (dn_ac nd ++ newc)
  else nd.

(* _node_add_wait_run (404-432) *)
Definition add_wait_one (d : dst) (me x : name) (calc : bool) : dst :=
  let sx := st_of d x in
  if unfinished sx then
    let nx := node_of d x in
    let d1 := set_node d x (nd_wme nx (addset me (dn_wme nx))) in
    let nd1 := node_of d1 me in
    set_node d1 me (if calc then nd_wait nd1 (dn_wrun nd1) (addset x (dn_wcalc nd1))
                    else nd_wait nd1 (addset x (dn_wrun nd1)) (dn_wcalc nd1))
  else
    let nd1 := parent_status (node_of d me) x sx in
    set_node d me (if calc then process_calc nd1 (dt (dn_task (node_of d x))) sx else nd1).
Fixpoint add_wait_run (d : dst) (me : name) (l : list name) (calc : bool) : dst :=
  match l with
  | [] => d
  | x :: r => add_wait_run (add_wait_one d me x calc) me r calc
  end.

(* ---- the loader branch of _add_task (482-524), entered with all dependencies processed ---- *)
Inductive lres := LReset (d : dst) | LInvalidTask (d : dst) | LNotFound (f : name) (d : dst) | LKeyError (d : dst).

Definition to_load_of (d : dst) (me T : name) : name :=
  match l_basename (q_ld d T) with Some b => b | None => me end.

(* 495-499: every task of the table (after the new tasks were installed) whose loader refers to the
   same creator function gets loader.created = True.  A loader object that no table entry refers to
   any more (the copy held by a stale placeholder node) is NOT marked. *)
Definition referenced (d : dst) (T : name) : bool :=
  existsb (fun k => match dt_loader (tab_get d k) with Some T' => T' =? T | None => false end) keys.
Definition mark_creator (d : dst) (c : N) : dst :=
  set_lds d (fun T => if (l_creator (q_ld d T) =? c) && referenced d T then ld_created (q_ld d T) else q_ld d T).

(* 483-487: the loader object whose `created` flag decides: tasks[to_load].loader (None = DelayedLoaded) *)
Definition loader_read (d : dst) (me T : name) : option name :=
  match v with
  | VOwn => Some T                                   (* seeded change C15b: this_task.loader *)
  | _ => dt_loader (tab_get d (to_load_of d me T))
  end.

(* 484-499: run the creator unless tasks[to_load].loader is gone or says created *)
Definition create_part (d : dst) (me T : name) : option dst :=
  let L := q_ld d T in
  let to_load := to_load_of d me T in
  match loader_read d me T with
  | None => Some d
  | Some T' =>
    if l_created (q_ld d T') then Some d
    else
      let d1 := emitd d [ECreate (l_creator L) T to_load] in
      let new := creators (l_creator L) to_load in
      match add_targets (q_tg d1) new with
      | None => None
      | Some tg' => let d2 := install (set_tg d1 tg') new in
                    Some (match v with VLegacy => d2 | _ => mark_creator d2 (l_creator L) end)
      end
  end.

Definition load_branch (d : dst) (me T : name) : lres :=
  match create_part d me T with
  | None => LInvalidTask (emitd d [ECreate (l_creator (q_ld d T)) T (to_load_of d me T)])
  | Some d2 =>
    let this := dn_task (node_of d2 me) in
    (* 501-502 *)
    let deps1 := impl_deps (q_tg d2) (dt_file_dep this) (t_task_dep (dt this)) in
    (* 506-515 *)
    let r :=
      match q_rxg d2 me with
      | None => inl (d2, dt_file_dep this)
      | Some g =>
        let G := q_grp d2 g in
        match q_tg d2 (g_target G) with
        | Some _ => inl (set_grp d2 g (Build_rgroup (g_target G) (g_tasks G) true), [])
        | None =>
          match l_basename (q_ld d2 T) with
          | Some b =>
            if mem b (g_tasks G) then
              let ts := rem b (g_tasks G) in
              if is_nil ts then inr (LNotFound (g_target G) d2)
              else inl (set_grp d2 g (Build_rgroup (g_target G) ts (g_found G)), [])
            else inr (LKeyError d2)
          | None => inr (LKeyError d2)
          end
        end
      end in
    match r with
    | inr e => e
    | inl (d3, fdep) =>
      (* 518-519: this_task.loader.created = True; this_task.loader = DelayedLoaded *)
      let d4 := set_ld d3 T (ld_created (q_ld d3 T)) in
      let this' := dt_with this deps1 fdep None in
      (* the placeholder object is still tasks[me] iff tasks[me] has a loader *)
      let d5 := match dt_loader (tab_get d4 me) with Some _ => set_tab d4 me this' | None => d4 end in
      (* 523 + _dispatcher_generator 670-672 *)
      LReset (set_node d5 me (nd_reset (node_of d5 me) (tab_get d5 me)))
    end
  end.

Inductive gyield := YNode (k : name) | YWait | YSelf | YEnd | YCycle (path : list name)
                  | YInvalidTask | YNotFound (f : name) | YKeyError | YFuel.

(* one resumption of node.step() (435-547, and the "reset generator" arm of _dispatcher_generator) *)
Fixpoint gen_step (fuel : nat) (d : dst) (me : name) : gyield * dst :=
  match fuel with O => (YFuel, d) | S fuel =>
  let nd := node_of d me in
  match dn_pc nd with
  | QStart =>
      let skip := match dt_loader (dn_task nd) with
                  | Some _ => match q_rxg d me with Some g => g_found (q_grp d g) | None => false end
                  | None => false end in
      if skip then (YEnd, set_pc d me QDone) else gen_step fuel (set_pc d me QLoop) me
  | QLoop =>
      let calcs := sort_by calc_rank (dn_pcl nd) in let tks := dn_pt nd in
      let nd' := nd_pc (nd_deps nd [] [] (dn_at nd) (dn_ac nd)) (QCalc calcs calcs tks) in
      gen_step fuel (set_node d me nd') me
  | QCalc [] calcs tks =>
      let d1 := add_wait_run d me calcs true in
      gen_step fuel (set_pc d1 me (QTask tks tks)) me
  | QCalc (c :: r) calcs tks =>
      match gen_node d (Some (dn_anc nd)) c with
      | (GCycle, _) => (YCycle (dn_anc nd ++ [c]), d)
      | (GNew, d1) => (YNode c, set_pc d1 me (QCalc r calcs tks))
      | (GOld, d1) => gen_step fuel (set_pc d1 me (QCalc r calcs tks)) me
      end
  | QTask [] tks =>
      let d1 := add_wait_run d me tks false in
      let nd1 := node_of d1 me in
      if negb (is_nil (dn_pcl nd1)) || negb (is_nil (dn_pt nd1)) then
        gen_step fuel (set_pc d1 me QLoop) me
      else if negb (is_nil (dn_wrun nd1)) || negb (is_nil (dn_wcalc nd1)) then
        (YWait, set_pc d1 me QLoop)
      else match dt_loader (dn_task nd1) with
           | Some T =>
               match load_branch d1 me T with
               | LReset d2 => gen_step fuel d2 me
               | LInvalidTask d2 => (YInvalidTask, d2)
               | LNotFound f d2 => (YNotFound f, d2)
               | LKeyError d2 => (YKeyError, d2)
               end
           | None => gen_step fuel (set_pc d1 me QSelf) me
           end
  | QTask (c :: r) tks =>
      match gen_node d (Some (dn_anc nd)) c with
      | (GCycle, _) => (YCycle (dn_anc nd ++ [c]), d)
      | (GNew, d1) => (YNode c, set_pc d1 me (QTask r tks))
      | (GOld, d1) => gen_step fuel (set_pc d1 me (QTask r tks)) me
      end
  | QSelf => (YSelf, set_pc d me QAfterSelf)
  | QAfterSelf =>
      if is_nil (t_setup (dt (dn_task nd))) then (YEnd, set_pc d me QDone)
      else match dn_st nd with
           | SNone => (YWait, set_node d me (nd_pc (nd_wsel nd true) QAfterSelWait))
           | _ => gen_step fuel (set_pc d me QAfterSelWait) me end
  | QAfterSelWait =>
      match dn_st nd with
      | SRun => gen_step fuel (set_pc d me (QSetup (t_setup (dt (dn_task nd))))) me
      | _ => (YEnd, set_pc d me QDone) end
  | QSetup [] =>
      let d1 := add_wait_run d me (t_setup (dt (dn_task nd))) false in
      if is_nil (dn_wrun (node_of d1 me)) then (YSelf, set_pc d1 me QDone)
      else (YWait, set_pc d1 me QSetupWaited)
  | QSetup (c :: r) =>
      match gen_node d (Some (dn_anc nd)) c with
      | (GCycle, _) => (YCycle (dn_anc nd ++ [c]), d)
      | (GNew, d1) => (YNode c, set_pc d1 me (QSetup r))
      | (GOld, d1) => gen_step fuel (set_pc d1 me (QSetup r)) me
      end
  | QSetupWaited => (YSelf, set_pc d me QDone)
  | QDone => (YEnd, d)
  end end.

(* _update_waiting (565-611) *)
Definition wake_node (nd : dnode) (fin : name) (ft : task) (fst_ : status) : dnode :=
  let nw := parent_status nd fin fst_ in
  let nw1 := nd_wait nw (rem fin (dn_wrun nw)) (rem fin (dn_wcalc nw)) in
  if mem fin (dn_wcalc nd) then process_calc nw1 ft fst_ else nw1.
Definition wake_ready (nd : dnode) (fin : name) (nw2 : dnode) : bool :=
  if mem fin (dn_wcalc nd) then true else is_nil (dn_wrun nw2) && is_nil (dn_wcalc nw2).
Definition wake_one (d : dst) (fin : name) (ft : task) (fst_ : status) (w : name) : dst :=
  let nd := node_of d w in
  let nw2 := wake_node nd fin ft fst_ in
  let d1 := set_node d w nw2 in
  if wake_ready nd fin nw2 && mem w (q_waiting d1)
  then set_waiting (set_ready d1 (q_ready d1 ++ [w])) (rem w (q_waiting d1)) else d1.
Fixpoint wake (d : dst) (fin : name) (ft : task) (fst_ : status) (l : list name) : dst :=
  match l with
  | [] => d
  | w :: r => wake (wake_one d fin ft fst_ w) fin ft fst_ r
  end.

Definition update_waiting (d : dst) (processed : option name) : dst :=
  match processed with
  | None => d
  | Some p =>
    let np := node_of d p in
    let d1 := if dn_wsel np then
                let d0 := set_node d p (nd_wsel np false) in
                set_waiting (set_ready d0 (q_ready d0 ++ [p])) (rem p (q_waiting d0))
              else d in
    match dn_st np with
    | SRun => d1
    | s => wake d1 p (dt (dn_task np)) s (wake_order p (dn_wme np))
    end
  end.

Inductive dyield := DTask (k : name) | DHold | DStop | DCycle (path : list name)
                  | DInvalidTask | DNotFound (f : name) | DKeyError | DFuel.

Fixpoint next_from_torun (d : dst) (l : list name) : option name * dst :=
  match l with
  | [] => (None, set_torun d [])
  | x :: r => match gen_node d None x with
              | (GNew, d1) => (Some x, set_torun d1 r)
              | (_, d1) => next_from_torun d1 r end
  end.

(* _dispatcher_generator (632-678) from one yield to the next *)
Fixpoint disp_run (fuel : nat) (d : dst) : dyield * dst :=
  match fuel with O => (DFuel, d) | S fuel =>
  match q_cur d with
  | None =>
    match q_ready d with
    | x :: r => disp_run fuel (set_cur (set_ready d r) (Some x))
    | [] => match next_from_torun d (q_torun d) with
            | (Some x, d1) => disp_run fuel (set_cur d1 (Some x))
            | (None, d1) => if is_nil (q_waiting d1) then (DStop, d1) else (DHold, d1)
            end
    end
  | Some me =>
    match gen_step (S (S fuel)) d me with
    | (YEnd, d1) => disp_run fuel (set_cur d1 None)
    | (YSelf, d1) => (DTask me, d1)
    | (YNode k, d1) => disp_run fuel (set_ready d1 (q_ready d1 ++ [k]))
    | (YWait, d1) => disp_run fuel (set_cur (set_waiting d1 (addset me (q_waiting d1))) None)
    | (YCycle p, d1) => (DCycle p, d1)
    | (YInvalidTask, d1) => (DInvalidTask, d1)
    | (YNotFound f, d1) => (DNotFound f, d1)
    | (YKeyError, d1) => (DKeyError, d1)
    | (YFuel, d1) => (DFuel, d1)
    end
  end end.

Definition disp_send (fuel : nat) (d : dst) (processed : option name) : dyield * dst :=
  disp_run fuel (update_waiting d processed).

(* ---------------- Runner (serial), as Model/Runner.v but on the growing state ---------------- *)
Variable continue_ always : bool.

Record rstate := { r_d : dst; r_final : N; r_stop : bool; r_td : list name }.
Definition with_d (r : rstate) (d : dst) : rstate := {| r_d := d; r_final := r_final r; r_stop := r_stop r; r_td := r_td r |}.
Definition emit (r : rstate) (e : list event) : rstate := with_d r (emitd (r_d r) (map Ev e)).
Definition set_status (d : dst) (k : name) (s : status) : dst := set_node d k (nd_st (node_of d k) s).
Definition task_of (r : rstate) (k : name) : task := dt (dn_task (node_of (r_d r) k)).

(* [st] = SFailure, or SFailureV when the task's values are set (see Model/Runner.v) *)
Definition handle_error_gen (st : status) (r : rstate) (k : name) (kind : N) : rstate :=
  {| r_d := emitd (set_status (r_d r) k st) [Ev (ERemove k); Ev (EFailure k kind)];
     r_final := if (kind =? kind_failed) && negb (r_final r =? 2) then 1 else 2;
     r_stop := if continue_ then r_stop r else true;
     r_td := r_td r |}.
Definition handle_error := handle_error_gen SFailure.

Definition get_args (r : rstate) (k : name) : bool * rstate :=
  if t_argerr (task_of r k) then (false, handle_error r k kind_dep) else (true, r).

Definition select_task (r : rstate) (k : name) : bool * rstate :=
  let nd := node_of (r_d r) k in let t := task_of r k in
  match dn_st nd with
  | SNone =>
    let r := emit r [EGetStatus k] in
    if negb (is_nil (dn_ign nd)) || t_dbignore t
    then (false, emit (with_d r (set_status (r_d r) k SIgnore)) [ESkipIgnore k])
    else if negb (is_nil (dn_bad nd)) then (false, handle_error r k kind_unmet)
    else match t_check t with
      | CkError => (false, handle_error r k kind_dep)
      | ck =>
        let st := if always then SRun else match ck with CkUpToDate => SUpToDate | _ => SRun end in
        let r := with_d r (set_status (r_d r) k st) in
        match st with
        | SUpToDate => (false, emit r [ESkipUpToDate k])
        | _ => if is_nil (t_setup t) then get_args r k else (false, r)
        end
      end
  | _ =>
    if negb (is_nil (dn_ign nd))
    then (false, emit (with_d r (set_status (r_d r) k SIgnore)) [ESkipIgnore k])
    else if negb (is_nil (dn_bad nd)) then (false, handle_error r k kind_unmet)
    else get_args r k
  end.

Definition start_task (r : rstate) (k : name) : rstate :=
  {| r_d := emitd (r_d r) [Ev (EExecute k)]; r_final := r_final r; r_stop := r_stop r;
     r_td := if t_teardown (task_of r k) then r_td r ++ [k] else r_td r |}.

Definition process_result (r : rstate) (k : name) : rstate :=
  match t_outcome (task_of r k) with
  | OOk => emit (with_d r (set_status (r_d r) k SSuccess)) [ESave k; ESuccess k]
  | OFail => handle_error r k kind_failed
  | OError => handle_error r k kind_error
  | OSaveErr => handle_error_gen SFailureV r k kind_dep
  | OInterrupt => r
  | OFailV => handle_error_gen SFailureV r k kind_failed
  end.
Definition is_interrupt (r : rstate) (k : name) : bool :=
  match t_outcome (task_of r k) with OInterrupt => true | _ => false end.

Definition finish (r : rstate) : rstate := emit r (EClose :: map ETeardown (rev (r_td r))).

Inductive stop := StopNormal | StopCycle (path : list name) | StopHold | StopInterrupt (k : name)
                | StopInvalidTask | StopNotFound (f : name) | StopKeyError | StopFuel
                | StopProtocol.   (* scripted runs only: a node was sent back to the dispatcher before the runner gave it a status *)
(* exit status of `doit run`: run_all's result; InvalidDodoFile / InvalidCommand escaping -> 3
   (doit_cmd.py DoitMain.run); KeyError -> unexpected-error status 3 as well *)
Definition exit_code (r : rstate) (s : stop) : N :=
  match s with
  | StopNormal => r_final r | StopCycle _ | StopHold => 3 | StopInterrupt _ => 4
  | StopInvalidTask => 2 | StopNotFound _ => 3 | StopKeyError => 3 | StopFuel => 99 | StopProtocol => 98 end.
Definition stop_marker (s : stop) : list dev :=
  match s with
  | StopCycle p => [Ev (ECycleError p)] | StopHold => [Ev EHoldError] | StopInterrupt k => [Ev (EInterrupt k)]
  | StopNotFound f => [ENotFound f] | StopKeyError => [EKeyError] | _ => [] end.

Fixpoint serial (fuel : nat) (r : rstate) (last : option name) : rstate * stop :=
  match fuel with O => (r, StopFuel) | S fuel' =>
  if r_stop r then (finish r, StopNormal) else
  match disp_send fuel (r_d r) last with
  | (DStop, d) => (finish (with_d r d), StopNormal)
  | (DTask k, d) =>
      match select_task (with_d r d) k with
      | (false, r1) => serial fuel' r1 (Some k)
      | (true, r1) =>
          let r2 := start_task r1 k in
          if is_interrupt r2 k then (finish r2, StopInterrupt k)
          else serial fuel' (process_result r2 k) (Some k)
      end
  | (DHold, d) => (finish (with_d r d), StopHold)
  | (DCycle p, d) => (finish (with_d r d), StopCycle p)
  (* run_all 273-277: InvalidTask is reported, result ERROR, then finish *)
  | (DInvalidTask, d) => (finish (with_d r (emitd d [ERuntimeError])), StopInvalidTask)
  | (DNotFound f, d) => (finish (with_d r d), StopNotFound f)
  | (DKeyError, d) => (finish (with_d r d), StopKeyError)
  | (DFuel, d) => (with_d r d, StopFuel)
  end end.

Definition r_init (d : dst) : rstate := {| r_d := d; r_final := 0; r_stop := false; r_td := [] |}.

Definition run_serial (fuel : nat) (d : dst) : list dev * N :=
  let '(r, s) := serial fuel (r_init d) None in (q_tr (r_d r) ++ stop_marker s, exit_code r s).

(* ---------------- any runner: the run as a script of the runner's calls ----------------
   MRunner / MThreadRunner (runner.py 358-625) use the same dispatcher generator and the same
   select_task / execute_task / process_task_result / finish as the serial Runner, but WHEN they send
   which finished node back (get_next_job 400-432, run_tasks 489-553) depends on the number of
   workers and on the order in which results arrive.  [run_ops] does what the script says, whatever
   the script: OSend p = generator.send(node of p); the others are the runner's own methods.  After a
   dispatcher error only `finish` has an effect (run_all 270-286: finally self.finish()).
   Markers (EOp) make the calls and the dispatcher's answers part of the compared trace. *)
Inductive sop := OSend (p : option name) | OSelect (k : name) | OExec (k : name) | OResult (k : name)
               | OHoldErr       (* run_tasks 505/537: all workers on hold -> cyclic_hold_error() *)
               | OFinish.

Definition emitr (r : rstate) (e : list dev) : rstate := with_d r (emitd (r_d r) e).

Definition sent_ok (d : dst) (p : option name) : bool :=
  match p with None => true | Some k => match st_of d k with SNone => false | _ => true end end.

Definition run_op (fuel : nat) (r : rstate) (o : sop) : rstate * option stop :=
  match o with
  | OSend p =>
      let r0 := emitr r [EOp 70 (match p with Some k => k | None => 0 end)] in
      if sent_ok (r_d r) p then
        match disp_send fuel (r_d r0) p with
        | (DTask k, d) => (emitr (with_d r0 d) [EOp 60 k], None)
        | (DHold, d) => (emitr (with_d r0 d) [EOp 61 0], None)
        | (DStop, d) => (emitr (with_d r0 d) [EOp 62 0], Some StopNormal)
        | (DCycle p, d) => (with_d r0 d, Some (StopCycle p))
        | (DInvalidTask, d) => (with_d r0 (emitd d [ERuntimeError]), Some StopInvalidTask)
        | (DNotFound f, d) => (with_d r0 d, Some (StopNotFound f))
        | (DKeyError, d) => (with_d r0 d, Some StopKeyError)
        | (DFuel, d) => (with_d r0 d, Some StopFuel)
        end
      else (r0, Some StopProtocol)
  | OSelect k =>
      let '(b, r1) := select_task (emitr r [EOp 71 k]) k in (emitr r1 [EOp 63 (if b then 1 else 0)], None)
  | OExec k => (start_task r k, None)
  | OResult k => (process_result (emitr r [EOp 72 k]) k, None)
  | OHoldErr => (r, Some StopHold)
  | OFinish => (finish (emitr r [EOp 73 0]), None)
  end.

(* [live]: the run goes on (None), or the generator is exhausted but results may still arrive (StopNormal) *)
Definition live (s : option stop) : bool := match s with None | Some StopNormal => true | Some _ => false end.
Definition merge_stop (s s1 : option stop) : option stop := match s1 with Some x => Some x | None => s end.

Definition step_op (fuel : nat) (rs : rstate * option stop) (o : sop) : rstate * option stop :=
  let '(r, s) := rs in
  if live s then
    match s, o with
    (* the generator is exhausted: get_next_job 411-419 gets StopIteration again, nothing else happens *)
    | Some _, OSend p => (emitr r [EOp 70 (match p with Some k => k | None => 0 end); EOp 62 0], s)
    | _, _ => let '(r1, s1) := run_op fuel r o in (r1, merge_stop s s1)
    end
  else match o with OFinish => (fst (run_op fuel r OFinish), s) | _ => (r, s) end.

Definition run_ops (fuel : nat) (ops : list sop) (r : rstate) : rstate * option stop :=
  fold_left (step_op fuel) ops (r, None).

Definition stop_of (s : option stop) : stop := match s with Some x => x | None => StopNormal end.

Definition run_script (fuel : nat) (ops : list sop) (d : dst) : list dev * N :=
  let '(r, s) := run_ops fuel ops (r_init d) in (q_tr (r_d r) ++ stop_marker (stop_of s), exit_code r (stop_of s)).

End Model.

(* ---------------- TaskControl._filter_tasks (190-250) on a loaded table ---------------- *)
(* ss_order: key order of the tasks dict; ss_sub: `subtask_placeholders` (196-199 as of 01f48fb): the placeholders made for
   `basename:sub` words, which share the loader OBJECT of the task called basename *)
Record sstate := { ss_d : dst; ss_order : list name; ss_gnext : N; ss_sub : list name }.

(* which _filter_tasks: HEAD (repair 01f48fb: the target_regex / --auto-delayed-regex loop skips the by-name sub-task
   placeholders, 232-233), or the code before it (a placeholder `c:1` was taken for a task-creator: it became a member of
   the RegexGroup, got its own `_regex_target_<w>:c:1` task and overwrote loader.basename of the loader it shares with c).
   The legacy variant is kept so that the defect stays stated (Properties/C15.v, *_legacy_refuted) *)
Inductive selver := SelHead | SelLegacy.

(* Task(name, None, loader=loader [, file_dep=[target]]) : task.py 225-228 *)
Definition placeholder (L : loader) (T : name) (fdep : list name) : dtask :=
  {| dt := task_with_dep empty_task (match l_executed L with Some e => [e] | None => [] end);
     dt_file_dep := fdep; dt_targets := []; dt_loader := Some T |}.

Section Select.
Variable sv : selver.
Variable base_of : name -> name.            (* word.split(':', 1)[0] *)
Variable is_rx : name -> bool.              (* name.startswith('_regex_target') *)
Variable rmatch : name -> name -> bool.     (* re.match(loader.target_regex, word), by loader *)
Variable rx_name : name -> name -> name.    (* '_regex_target_' + word + ':' + task name *)
Variable auto : bool.                       (* --auto-delayed-regex *)

Definition add_order (o : list name) (k : name) : list name := if mem k o then o else o ++ [k].

(* 225-238 (01f48fb) *)
Definition skip_sub (sub : list name) (k : name) : bool := match sv with SelHead => mem k sub | SelLegacy => false end.
Definition matched (d : dst) (order sub : list name) (f : name) : list name :=
  filter (fun k => match dt_loader (tab_get d k) with
                   | None => false
                   | Some T => if is_rx k then false
                               else if skip_sub sub k then false
                               else if l_has_regex (q_ld d T) then rmatch T f else auto
                   end) order.

(* 237-245, one matched task *)
Definition add_rx (g : N) (f : name) (s : sstate) (k : name) : sstate :=
  let d := ss_d s in
  match dt_loader (tab_get d k) with
  | None => s
  | Some T =>
    let d1 := set_ld d T (ld_basename (q_ld d T) (Some k)) in
    let nm := rx_name f k in
    let d2 := set_rxg d1 nm g in
    let d3 := set_tab d2 nm (placeholder (q_ld d2 T) T [f]) in
    {| ss_d := set_torun d3 (q_torun d3 ++ [nm]); ss_order := add_order (ss_order s) nm; ss_gnext := ss_gnext s; ss_sub := ss_sub s |}
  end.

(* one word of the selection; None = InvalidCommand(not_found) *)
Definition filter_one (s : sstate) (f : name) : option sstate :=
  let d := ss_d s in
  match q_tab d f with
  | Some _ => Some {| ss_d := set_torun d (q_torun d ++ [f]); ss_order := ss_order s; ss_gnext := ss_gnext s; ss_sub := ss_sub s |}
  | None =>
    match q_tg d f with
    | Some t => Some {| ss_d := set_torun d (q_torun d ++ [t]); ss_order := ss_order s; ss_gnext := ss_gnext s; ss_sub := ss_sub s |}
    | None =>
      let b := base_of f in
      match q_tab d b with
      | Some tb =>
        match dt_loader tb with
        | None => None
        | Some T =>
          let d1 := set_ld d T (ld_basename (q_ld d T) (Some b)) in
          let d2 := set_tab d1 f (placeholder (q_ld d1 T) T []) in
          Some {| ss_d := set_torun d2 (q_torun d2 ++ [f]); ss_order := add_order (ss_order s) f; ss_gnext := ss_gnext s;
                  ss_sub := f :: ss_sub s |}
        end
      | None =>
        let ms := matched d (ss_order s) (ss_sub s) f in
        if is_nil ms then None
        else
          let g := ss_gnext s in
          let d1 := set_grp d g (Build_rgroup f ms false) in
          Some (fold_left (add_rx g f) ms {| ss_d := d1; ss_order := ss_order s; ss_gnext := g + 1; ss_sub := ss_sub s |})
      end
    end
  end.

Fixpoint filter_tasks (s : sstate) (fs : list name) : option sstate :=
  match fs with
  | [] => Some s
  | f :: r => match filter_one s f with None => None | Some s1 => filter_tasks s1 r end
  end.
End Select.

(* the state TaskControl.__init__ leaves: table, loaders, targets; nothing selected yet *)
Definition loaded (tab : name -> option dtask) (ld : name -> loader) (tg : name -> option name) : dst :=
  {| q_nodes := fun _ => None; q_ready := []; q_waiting := []; q_torun := []; q_cur := None;
     q_tab := tab; q_ld := ld; q_tg := tg; q_rxg := fun _ => None; q_grp := fun _ => empty_group; q_tr := [] |}.

(* TaskControl.process (253-264): None = run everything in definition order *)
Definition process_sel sv base_of is_rx rmatch rx_name auto (d : dst) (order : list name) (sel : option (list name)) : option dst :=
  match sel with
  | None => Some (set_torun d order)
  | Some fs => match filter_tasks sv base_of is_rx rmatch rx_name auto {| ss_d := d; ss_order := order; ss_gnext := 0; ss_sub := [] |} fs with
               | Some s => Some (ss_d s) | None => None end
  end.

(* ---- encoding of traces for the correspondence check ---- *)
Definition enc_dev (e : dev) : list Z :=
  match e with
  | Ev e => enc_event e
  | ECreate c l t => [14; zN c; zN l; zN t]
  | ERuntimeError => [30]
  | ENotFound f => [15; zN f]
  | EKeyError => [16]
  | EOp c a => [zN c; zN a]
  end%Z.
Definition enc_dtrace (tr : list dev) : list Z := flat_map enc_dev tr.

(* executable form, over a finite universe of names, of the hypothesis [init_ok] of the theorems
   (Proofs/DelayedP.v): evaluated by the correspondence check on every state process_sel yields *)
Definition opt_name_eqb (a b : option name) : bool :=
  match a, b with Some x, Some y => N.eqb x y | None, None => true | _, _ => false end.
Definition init_okb (names : list name) (d : dst) : bool :=
  is_nil (q_tr d) &&
  forallb (fun k => match dt_loader (tab_get d k) with Some _ => mem k names | None => true end) names &&
  forallb (fun k => match q_nodes d k with None => true | Some _ => false end) names &&
  forallb (fun T => match l_basename (q_ld d T) with
                    | Some b => opt_name_eqb (dt_loader (tab_get d b)) (Some T) | None => true end) names &&
  forallb (fun k => match dt_loader (tab_get d k) with
                    | Some T => match l_executed (q_ld d T) with
                                | Some e => mem e (t_task_dep (dt (tab_get d k))) | None => true end
                    | None => true end) names.

(* whole command: selection then serial run; selection error = [40], exit 3;
   the last two numbers: -2, init_okb of the selected state over the names 0..nmax;
   the key list given to the model (mark_creator) is the same list of all names *)
Definition run_cmd v sv creators wake_rank calc_rank cont always base_of is_rx rmatch rx_name auto
                   (fuel : nat) (d : dst) (order : list name) (sel : option (list name)) (nmax : nat) : list Z :=
  let names := map N.of_nat (seq 0 (S nmax)) in
  match process_sel sv base_of is_rx rmatch rx_name auto d order sel with
  | None => [40; -1; 3]%Z
  | Some d0 => let r := run_serial v names creators wake_rank calc_rank cont always fuel d0 in
               (enc_dtrace (fst r) ++ [-1; zN (snd r); -2; zb (init_okb names d0)])%Z
  end.
(* the same with a parallel runner: selection, then the recorded script of the runner's calls *)
Definition run_script_cmd v sv creators wake_rank calc_rank cont always base_of is_rx rmatch rx_name auto
                   (fuel : nat) (d : dst) (order : list name) (sel : option (list name)) (ops : list sop) (nmax : nat) : list Z :=
  let names := map N.of_nat (seq 0 (S nmax)) in
  match process_sel sv base_of is_rx rmatch rx_name auto d order sel with
  | None => [40; -1; 3]%Z
  | Some d0 => let r := run_script v names creators wake_rank calc_rank cont always fuel ops d0 in
               (enc_dtrace (fst r) ++ [-1; zN (snd r); -2; zb (init_okb names d0)])%Z
  end.

(* ---------------- several runs in ONE process: which DelayedLoader object a placeholder task gets ----------------
   doit/loader.py create_after (17-38) stores ONE DelayedLoader on the creator function (func.doit_create_after); it lives as
   long as the function object: across every load_tasks / TaskControl / run of the process (DoitMain.run twice, doit.api, the
   IPython %doit magic, a test-suite of a dodo file).  load_tasks._add_delayed (174-186) gives every placeholder task an object
   of its own: copy.copy of the function's loader (every attribute: creator, task_dep, basename, created, target_regex), then
   creator := the reference found at load time.  Loader objects are the addresses of the heap [q_ld]; _filter_tasks writes
   loader.basename (control.py 219, 245) and the dispatcher writes loader.created (505, 524) through the objects the TASKS refer to.
   [fobj c] = the address of the object stored on creator function c; the copy made for the placeholder named T has the address T
   (the convention of everything above: "one DelayedLoader per placeholder, identified by the name of the task load_tasks created
   it for").  A run of the model starts from [loaded tab ld tg]: the theorems on runs speak about a process only if what
   load_tasks hands out does not depend on earlier runs -- each run starts from fresh DelayedLoader copies -- which is what
   [load_heap LdCopy] does and what C15_function_loader_never_written (Properties/C15.v) proves from the frame property of runs.
   [LdShare] = the seeded change C15e: a plain-function creator without `creates` gets the function's object itself. *)
Inductive loadver := LdCopy | LdShare.

Section Process.
Variable fobj : N -> name.              (* creator function c |-> address of func.doit_create_after *)
Variable owner : name -> option N.      (* Some c: load_tasks makes a placeholder task of this name for creator function c
                                           (the function's name, or an entry of `creates`) *)
Variable shares : name -> bool.         (* that creator declares no `creates` and `delayed.creator is ref` (plain function) *)

(* the loader object of the placeholder named T after load_tasks (180-182) *)
Definition loader_of (lv : loadver) (T : name) : name :=
  match lv with
  | LdCopy => T
  | LdShare => match owner T with Some c => if shares T then fobj c else T | None => T end
  end.

(* the heap after load_tasks: every new object is a copy of the object stored on the function; all other objects untouched *)
Definition load_heap (lv : loadver) (heap : name -> loader) : name -> loader :=
  fun A => match owner A with
           | Some c => if loader_of lv A =? A then heap (fobj c) else heap A
           | None => heap A end.

(* the task list of load_tasks as TaskControl.__init__ stores it: Task(tname, None, loader=this_delayed) per placeholder
   (task.py 225-228: loader.task_dep becomes a task_dep), the static tasks as they are *)
Definition load_tab (lv : loadver) (heap : name -> loader) (statics : name -> option dtask) : name -> option dtask :=
  fun k => match owner k with
           | Some _ => Some (placeholder (load_heap lv heap (loader_of lv k)) (loader_of lv k) [])
           | None => statics k end.

(* what load_tasks + TaskControl.__init__ leave in a process whose loader objects are [heap] *)
Definition load_state (lv : loadver) (heap : name -> loader) (statics : name -> option dtask) (tg : name -> option name) : dst :=
  loaded (load_tab lv heap statics) (load_heap lv heap) tg.
End Process.

(* the loader objects as a run leaves them (the final state of the serial runner / of a script of runner calls) *)
Definition heap_after_serial v keys creators wake_rank calc_rank cont always (fuel : nat) (d0 : dst) : name -> loader :=
  q_ld (r_d (fst (serial v keys creators wake_rank calc_rank cont always fuel (r_init d0) None))).
Definition heap_after_script v keys creators wake_rank calc_rank cont always (fuel : nat) (ops : list sop) (d0 : dst) : name -> loader :=
  q_ld (r_d (fst (run_ops v keys creators wake_rank calc_rank cont always fuel ops (r_init d0)))).
