(* Parallel.v -- model of doit/runner.py MRunner / MThreadRunner: get_next_job,
   _run_start_processes, run_tasks (main loop over the result queue), execute_task_subprocess
   (worker loop), MReporter forwarding, and finish.  Definitions only.

   Concurrency model: the main thread runs atomically between two blocking points
   (result_q.get(), Child.join()); a worker runs atomically from one blocking point
   (job_q.get(), or inside an action) to the next.  At each blocking point of the main thread the
   oracle [sched] picks one enabled step: "main dequeues" (if the result queue is not empty) or
   "worker w steps" (an idle worker takes the next job / a busy worker finishes its task).
   [proc] = true selects the multiprocessing flavour (each worker has its own runner copy: own
   teardown list, reports forwarded through the result queue), false the thread flavour
   (shared runner object). *)
From DoitV Require Export Base Dispatch Runner.
Open Scope N_scope.

Inductive job := JTask (k : name) | JHold | JNone.
Inductive wst := WIdle | WBusy (k : name) | WExited.
Inductive msg := MResult (k : name) | MReport (k : name) | MTeardown (k : name) | MExit (k : name).
Inductive pevent :=
| PE (e : event)                       (* a reporter / dep_manager event, as in the serial runner *)
| PStart (k : name) (w : nat)          (* actions of k start in worker w *)
| PEnd (k : name) (w : nat)            (* ... and finish *)
| PTdRun (k : name) (w : nat)          (* teardown actions of k run in worker w (process flavour) *)
| PTerminate                           (* proc.terminate() on all children (process flavour) *)
| PHang.                               (* main blocked for ever: nothing to dequeue, no worker can step *)

Record pstate := {
  p_r : rstate;                 (* main runner (thread flavour: the shared runner) *)
  p_free : nat;                 (* self.free_proc *)
  p_count : nat;                (* proc_count *)
  p_workers : list wst;
  p_wtd : list (list name);     (* per-worker teardown_list (process flavour) *)
  p_jobs : list job;            (* job_q, FIFO *)
  p_results : list msg;         (* result_q, FIFO *)
  p_sched : list nat;
  p_log : list pevent;
  p_seen : nat }.               (* #events of r_tr already copied into p_log *)

Definition with_r (p : pstate) (r : rstate) : pstate :=
  {| p_r := r; p_free := p_free p; p_count := p_count p; p_workers := p_workers p; p_wtd := p_wtd p;
     p_jobs := p_jobs p; p_results := p_results p; p_sched := p_sched p; p_log := p_log p; p_seen := p_seen p |}.
Definition with_counts (p : pstate) (free cnt : nat) : pstate :=
  {| p_r := p_r p; p_free := free; p_count := cnt; p_workers := p_workers p; p_wtd := p_wtd p;
     p_jobs := p_jobs p; p_results := p_results p; p_sched := p_sched p; p_log := p_log p; p_seen := p_seen p |}.
Definition with_workers (p : pstate) (ws : list wst) (td : list (list name)) : pstate :=
  {| p_r := p_r p; p_free := p_free p; p_count := p_count p; p_workers := ws; p_wtd := td;
     p_jobs := p_jobs p; p_results := p_results p; p_sched := p_sched p; p_log := p_log p; p_seen := p_seen p |}.
Definition with_jobs (p : pstate) (js : list job) : pstate :=
  {| p_r := p_r p; p_free := p_free p; p_count := p_count p; p_workers := p_workers p; p_wtd := p_wtd p;
     p_jobs := js; p_results := p_results p; p_sched := p_sched p; p_log := p_log p; p_seen := p_seen p |}.
Definition with_results (p : pstate) (rs : list msg) : pstate :=
  {| p_r := p_r p; p_free := p_free p; p_count := p_count p; p_workers := p_workers p; p_wtd := p_wtd p;
     p_jobs := p_jobs p; p_results := rs; p_sched := p_sched p; p_log := p_log p; p_seen := p_seen p |}.
Definition with_sched (p : pstate) (s : list nat) : pstate :=
  {| p_r := p_r p; p_free := p_free p; p_count := p_count p; p_workers := p_workers p; p_wtd := p_wtd p;
     p_jobs := p_jobs p; p_results := p_results p; p_sched := s; p_log := p_log p; p_seen := p_seen p |}.

(* copy the runner events emitted since the last sync into the merged log *)
Definition sync (p : pstate) : pstate :=
  let tr := r_tr (p_r p) in
  {| p_r := p_r p; p_free := p_free p; p_count := p_count p; p_workers := p_workers p; p_wtd := p_wtd p;
     p_jobs := p_jobs p; p_results := p_results p; p_sched := p_sched p;
     p_log := p_log p ++ map PE (skipn (p_seen p) tr); p_seen := length tr |}.
Definition plog (p : pstate) (e : list pevent) : pstate :=
  let p := sync p in
  {| p_r := p_r p; p_free := p_free p; p_count := p_count p; p_workers := p_workers p; p_wtd := p_wtd p;
     p_jobs := p_jobs p; p_results := p_results p; p_sched := p_sched p; p_log := p_log p ++ e; p_seen := p_seen p |}.

Fixpoint set_nth {A} (l : list A) (i : nat) (v : A) : list A :=
  match l, i with [], _ => [] | _ :: r, O => v :: r | x :: r, S i => x :: set_nth r i v end.

(* consumes a choice only when there is more than one option *)
Definition choose (n : nat) (s : list nat) : nat * list nat :=
  match n with 0%nat | 1%nat => (0%nat, s) | _ =>
  match s with [] => (0%nat, []) | c :: r => (Nat.modulo c n, r) end end.

Section Model.
Variable tasks : name -> option task.
Variable wake_rank : name -> name -> N.
Variable calc_rank : name -> N.
Variable continue_ always : bool.
Variable proc : bool.

Notation get_task := (get_task tasks).
Notation select_task := (select_task tasks continue_ always).
Notation process_result := (process_result tasks continue_).

(* ---- workers: execute_task_subprocess (510-560) ---- *)
(* one step of worker w; enabled iff (idle and a job is queued) or busy *)
Definition worker_enabled (p : pstate) (w : nat) : bool :=
  match nth w (p_workers p) WExited with
  | WIdle => negb (is_nil (p_jobs p))
  | WBusy _ => true
  | WExited => false end.

Definition worker_step (p : pstate) (w : nat) : pstate :=
  match nth w (p_workers p) WExited with
  | WExited => p
  | WBusy k =>
      let p1 := plog p [PEnd k w] in
      if is_interrupt tasks k
      then with_results (with_workers p1 (set_nth (p_workers p1) w WExited) (p_wtd p1)) (p_results p1 ++ [MExit k])
      else with_results (with_workers p1 (set_nth (p_workers p1) w WIdle) (p_wtd p1)) (p_results p1 ++ [MResult k])
  | WIdle =>
      match p_jobs p with
      | [] => p
      | JHold :: js => with_jobs p js
      | JNone :: js =>
          let p1 := with_jobs p js in
          let mine := rev (nth w (p_wtd p1) []) in
          let p2 := if proc then
                      (* self.teardown() on this process's own list; reports go through result_q *)
                      with_results (plog p1 (map (fun k => PTdRun k w) mine)) (p_results p1 ++ map MTeardown mine)
                    else p1 in
          with_workers p2 (set_nth (p_workers p2) w WExited) (p_wtd p2)
      | JTask k :: js =>
          let p1 := with_jobs p js in
          let td := t_teardown (get_task k) in
          let p2 :=
            if proc then
              (* own runner copy: own teardown_list; MReporter forwards execute_task *)
              with_results (with_workers p1 (p_workers p1)
                              (if td then set_nth (p_wtd p1) w (nth w (p_wtd p1) [] ++ [k]) else p_wtd p1))
                           (p_results p1 ++ [MReport k])
            else with_r p1 (start_task tasks (p_r p1) k) in
          plog (with_workers p2 (set_nth (p_workers p2) w (WBusy k)) (p_wtd p2)) [PStart k w]
      end
  end.

Fixpoint enabled_workers (p : pstate) (n i : nat) : list nat :=
  match n with O => [] | S n' => (if worker_enabled p i then [i] else []) ++ enabled_workers p n' (S i) end.

(* the main thread blocks in result_q.get(): scheduler steps until main dequeues.
   None = nothing can ever happen (hang) *)
Fixpoint main_get (fuel : nat) (p : pstate) : option msg * pstate :=
  match fuel with O => (None, p) | S fuel =>
  let ws := enabled_workers p (length (p_workers p)) 0 in
  let can_deq := negb (is_nil (p_results p)) in
  let nopt := ((if can_deq then 1 else 0) + length ws)%nat in
  match nopt with
  | O => (None, plog p [PHang])
  | _ =>
    let (c, s) := choose nopt (p_sched p) in
    let p := with_sched p s in
    if can_deq && Nat.eqb c 0 then
      match p_results p with
      | m :: rs => (Some m, with_results p rs)
      | [] => (None, p) end
    else
      let w := nth (if can_deq then pred c else c) ws 0%nat in
      main_get fuel (worker_step p w)
  end end.

(* Child.join() on every worker: only workers can step *)
Fixpoint join_all (fuel : nat) (p : pstate) : pstate :=
  match fuel with O => p | S fuel =>
  let ws := enabled_workers p (length (p_workers p)) 0 in
  match ws with
  | [] => p
  | _ => let (c, s) := choose (length ws) (p_sched p) in
         join_all fuel (worker_step (with_sched p s) (nth c ws 0%nat))
  end end.

(* ---- MRunner.get_next_job (372-402) ---- *)
Inductive gnj := GJob (j : job) | GEnd | GCycle (path : list name) | GFuel.
Fixpoint next_job_loop (fuel : nat) (p : pstate) (completed : option name) : gnj * pstate :=
  match fuel with O => (GFuel, p) | S fuel' =>
  match disp_send tasks wake_rank calc_rank fuel (r_d (p_r p)) completed with
  | (DHold, d) => (GJob JHold, with_counts (with_r p (with_d (p_r p) d)) (S (p_free p)) (p_count p))
  | (DStop, d) => (GEnd, with_r p (with_d (p_r p) d))
  | (DTask k, d) =>
      match select_task (with_d (p_r p) d) k with
      | (true, r1) => (GJob (JTask k), with_r p r1)
      | (false, r1) => next_job_loop fuel' (with_r p r1) (Some k)
      end
  | (DCycle path, d) => (GCycle path, with_r p (with_d (p_r p) d))
  | (DFuel, d) => (GFuel, p)
  end end.
(* _stop_running is only looked at on entry: once inside the loop, tasks keep being selected
   (and one more may be dispatched) even after a failure without --continue *)
Definition get_next_job (fuel : nat) (p : pstate) (completed : option name) : gnj * pstate :=
  if r_stop (p_r p) then (GEnd, p) else next_job_loop fuel p completed.

Definition put_job (p : pstate) (j : job) : pstate := with_jobs p (p_jobs p ++ [j]).
Definition start_worker (p : pstate) : pstate := with_workers p (p_workers p ++ [WIdle]) (p_wtd p ++ [[]]).
Definition terminate (p : pstate) : pstate :=
  if proc && negb (is_nil (p_workers p))
  then plog (with_workers p (map (fun _ => WExited) (p_workers p)) (p_wtd p)) [PTerminate] else p.

(* how run_tasks ended *)
Inductive pend := PNormal | PCycleErr (path : list name) | PHoldErr | PInterrupt (k : name) | PHung | PFuel.

(* _run_start_processes (411-441, incl. terminating started children on error) *)
Fixpoint start_procs (fuel n : nat) (p : pstate) : pend * pstate :=
  match n with O => (PNormal, p) | S n =>
  match get_next_job fuel p None with
  | (GEnd, p1) => (PNormal, p1)
  | (GJob j, p1) => start_procs fuel n (start_worker (put_job p1 j))
  | (GCycle path, p1) => (PCycleErr path, terminate p1)
  | (GFuel, p1) => (PFuel, p1)
  end end.

(* the `for _ in range(free_proc)` loop of run_tasks (485-490) *)
Fixpoint hand_out (fuel n : nat) (p : pstate) (completed : option name) : pend * pstate :=
  match n with O => (PNormal, p) | S n =>
  match get_next_job fuel p completed with
  | (GEnd, p1) => hand_out fuel n (put_job (with_counts p1 (p_free p1) (pred (p_count p1))) JNone) None
  | (GJob j, p1) => hand_out fuel n (put_job p1 j) None
  | (GCycle path, p1) => (PCycleErr path, p1)
  | (GFuel, p1) => (PFuel, p1)
  end end.

Definition deadlocked (p : pstate) : bool :=
  negb (Nat.eqb (p_count p) 0) && Nat.leb (p_count p) (p_free p).

(* the `while proc_count` loop of run_tasks (467-497) *)
Fixpoint main_loop (fuel : nat) (p : pstate) : pend * pstate :=
  match fuel with O => (PFuel, p) | S fuel' =>
  match p_count p with O => (PNormal, p) | _ =>
  match main_get (fuel * 4) p with
  | (None, p1) => (PHung, terminate p1)
  | (Some (MExit k), p1) => (PInterrupt k, terminate p1)
  | (Some (MReport k), p1) => main_loop fuel' (with_r p1 (emit (p_r p1) [EExecute k]))
  | (Some (MTeardown k), p1) => main_loop fuel' (with_r p1 (emit (p_r p1) [ETeardown k]))
  | (Some (MResult k), p1) =>
      let p2 := with_r p1 (process_result (p_r p1) k) in
      let free := S (p_free p2) in
      match hand_out fuel free (with_counts p2 0 (p_count p2)) (Some k) with
      | (PNormal, p3) => if deadlocked p3 then (PHoldErr, terminate p3) else main_loop fuel' p3
      | (e, p3) => (e, terminate p3)
      end
  end end end.

(* after the loop: join, then drain the teardown reports (498-507) *)
Definition drain (p : pstate) : pstate :=
  let evs := flat_map (fun m => match m with MTeardown k => [ETeardown k] | MReport k => [EExecute k] | _ => [] end) (p_results p) in
  with_results (with_r p (emit (p_r p) evs)) [].

Definition p_init (sched : list nat) (selected : list name) : pstate :=
  {| p_r := r_init selected; p_free := 0; p_count := 0; p_workers := []; p_wtd := []; p_jobs := [];
     p_results := []; p_sched := sched; p_log := []; p_seen := 0 |}.

(* MRunner.run_tasks (454-507) then Runner.finish via run_all's `finally` *)
Definition run_parallel (fuel nprocs : nat) (sched : list nat) (selected : list name) : list pevent * N :=
  let '(e1, p1) := start_procs fuel nprocs (p_init sched selected) in
  let '(e2, p2) :=
    match e1 with
    | PNormal =>
        let p1 := with_counts p1 (p_free p1) (length (p_workers p1)) in
        if deadlocked p1 then (PHoldErr, terminate p1)
        else match main_loop fuel p1 with
             | (PNormal, p2) => (PNormal, drain (join_all (fuel * 4) p2))
             | r => r end
    | _ => (e1, p1)
    end in
  (* finish(): close DB, run main's teardown list (empty in the process flavour); then the
     exception (if any) reaches the caller of run_all *)
  let p3 := sync (with_r p2 (finish (p_r p2))) in
  (p_log p3 ++ match e2 with
               | PCycleErr path => [PE (ECycleError path)] | PHoldErr => [PE EHoldError]
               | PInterrupt k => [PE (EInterrupt k)] | _ => [] end,
   match e2 with
   | PNormal => r_final (p_r p3) | PCycleErr _ | PHoldErr => 3 | PInterrupt _ => 4 | PHung => 98 | PFuel => 99 end).

End Model.

Definition enc_pevent (e : pevent) : list Z :=
  match e with
  | PE e => enc_event e
  | PStart k w => [20; zN k; znat w] | PEnd k w => [21; zN k; znat w] | PTdRun k w => [22; zN k; znat w]
  | PTerminate => [23] | PHang => [24]
  end%Z.
Definition enc_ptrace (tr : list pevent) : list Z := flat_map enc_pevent tr.
