(* History.v -- histories over the per-task operation alphabet of DESIGN 4.5, on top of Status.v.
   A history is a list of operations applied to (file system, clock, DB, task definitions,
   configured checker).  The GHOST [s_last_ok] remembers what the last successful execution /
   reset-dep of each task observed (definition, checker, file system); it is never read by the
   transitions of the modelled code.  Definitions only.

   File system.  Writes may carry ANY mtime ([WriteAt]/[TouchAt]: cp -p, tar, rsync -t, os.utime,
   restoring a backup -- older or newer than anything recorded); [Write]/[Touch] are the special
   case that takes the mtime from a forward-only clock.  The hypothesis FS-fresh that the md5
   checker's documented optimisation ("same timestamp: same content") rests on is NOT monotonicity
   but: one file never carries the same mtime with two different contents.  The GHOST [s_seen]
   records every (file, mtime) -> (size, content) a history has produced; [op_ok] says that the
   version an operation writes agrees with it, [hist_ok] that every operation of a history does.
   [fs_fresh] (only forward-clock writes) implies it (Proofs/HistoryP.v fresh_hist_ok).  The weaker
   reading "a write never leaves the mtime unchanged" ([hist_changes_mtime]) is not enough: see
   C03_mtime_reuse_refuted.  [WriteSameMtime] (content replaced, mtime and size kept) is the
   simplest operation that breaks it.  [size_of] is an oracle (size of the bytes behind a content id). *)
From DoitV Require Export Base Status.
Open Scope Z_scope.

Record snapshot := { g_def : tdef; g_ck : ck; g_fs : fsys; g_values : vals }.   (* g_values: the values that were saved with it *)

Inductive op :=
| Write (f : file) (c : N)            (* create / overwrite with content c, fresh mtime *)
| Touch (f : file)                    (* same content, fresh mtime (no-op when missing) *)
| Delete (f : file)
| WriteAt (f : file) (c : N) (m : Z)  (* create / overwrite with content c and mtime m (any m) *)
| TouchAt (f : file) (m : Z)          (* same content, mtime set to m (no-op when missing) *)
| WriteSameMtime (f : file) (c : N)   (* NOT FS-fresh: other content, same mtime and size (no-op when missing) *)
| SetDef (t : name) (d : tdef)        (* the dodo file changed: file_dep / targets / uptodate / what the actions return *)
| SetChecker (c : ck)                 (* check_file_uptodate changed *)
| SaveOk (t : name)                   (* a successful execution is recorded: Runner.process_task_result(node, None) *)
| Remove (t : name)                   (* failure (Runner._handle_task_error) or `forget t`: remove_success *)
| Ignore (t : name)                   (* `ignore t` *)
| ResetDep (t : name)                 (* `reset-dep t` *)
| ForgetAll                           (* `forget --all`: remove_all *)
| Check (t : name)                    (* get_status(get_log=False) -- what run / list --status ask *)
| CheckLog (t : name).                (* get_status(get_log=True)  -- what info asks *)

(* what an operation lets the outside see *)
Inductive obs :=
| OCheck (t : name) (log : bool) (r : gs_result)
| OSave (t : name) (o : save_out)
| OReset (t : name) (code : Z).

Record state := {
  s_fs : fsys;
  s_clock : Z;
  s_seen : file -> Z -> option (Z * N);  (* ghost: every version (mtime -> size, content) each file ever had *)
  s_db : db;
  s_defs : name -> tdef;
  s_ck : ck;
  s_last_ok : name -> option snapshot;   (* ghost *)
  s_crashed : bool;                      (* some operation so far ended in the TypeError of Status.v *)
  s_log : list obs                       (* newest first *)
}.

Definition init : state :=
  {| s_fs := fun _ => None; s_clock := 1; s_seen := fun _ _ => None; s_db := empty_db; s_defs := fun _ => empty_def; s_ck := MD5;
     s_last_ok := fun _ => None; s_crashed := false; s_log := [] |}.

Section History.
Variable md5 : N -> N.
Variable size_of : N -> Z.
Variable v : ver.

Definition see (sn : file -> Z -> option (Z * N)) (f : file) (m : meta) : file -> Z -> option (Z * N) :=
  fun f' t' => if N.eqb f' f && Z.eqb t' (mtime m) then Some (size m, content m) else sn f' t'.
(* the file system after f became version m *)
Definition put (s : state) (f : file) (m : meta) (clk : Z) : state :=
  {| s_fs := upd (s_fs s) f (Some m); s_clock := clk; s_seen := see (s_seen s) f m; s_db := s_db s; s_defs := s_defs s;
     s_ck := s_ck s; s_last_ok := s_last_ok s; s_crashed := s_crashed s; s_log := s_log s |}.
Definition with_fs (s : state) (fs : fsys) (clk : Z) : state :=
  {| s_fs := fs; s_clock := clk; s_seen := s_seen s; s_db := s_db s; s_defs := s_defs s; s_ck := s_ck s;
     s_last_ok := s_last_ok s; s_crashed := s_crashed s; s_log := s_log s |}.
Definition with_db (s : state) (d : db) (g : name -> option snapshot) (crash : bool) (o : list obs) : state :=
  {| s_fs := s_fs s; s_clock := s_clock s; s_seen := s_seen s; s_db := d; s_defs := s_defs s; s_ck := s_ck s;
     s_last_ok := g; s_crashed := s_crashed s || crash; s_log := o ++ s_log s |}.

Definition snap (s : state) (t : name) (values : vals) : snapshot :=
  {| g_def := s_defs s t; g_ck := s_ck s; g_fs := s_fs s; g_values := values |}.
(* the ghost of a task without record is forgotten *)
Definition prune (d : db) (g : name -> option snapshot) (t : name) : name -> option snapshot :=
  match d t with None => upd g t None | Some _ => g end.

(* the version of a file an operation writes, if any *)
Definition new_version (s : state) (o : op) : option (file * meta) :=
  match o with
  | Write f c => Some (f, {| mtime := s_clock s; size := size_of c; content := c |})
  | WriteAt f c m => Some (f, {| mtime := m; size := size_of c; content := c |})
  | Touch f => match s_fs s f with Some x => Some (f, {| mtime := s_clock s; size := size x; content := content x |}) | None => None end
  | TouchAt f m => match s_fs s f with Some x => Some (f, {| mtime := m; size := size x; content := content x |}) | None => None end
  | WriteSameMtime f c => match s_fs s f with Some x => Some (f, {| mtime := mtime x; size := size x; content := c |}) | None => None end
  | _ => None
  end.
Definition ticks (o : op) : bool := match o with Write _ _ | Touch _ => true | _ => false end.
Definition step_write (s : state) (o : op) : state :=
  let clk := if ticks o then s_clock s + 1 else s_clock s in
  match new_version s o with
  | Some (f, m) => put s f m clk
  | None => with_fs s (s_fs s) clk
  end.

Definition step (s : state) (o : op) : state :=
  match o with
  | Write _ _ | Touch _ | WriteAt _ _ _ | TouchAt _ _ | WriteSameMtime _ _ => step_write s o
  | Delete f => with_fs s (upd (s_fs s) f None) (s_clock s)
  | SetDef t d =>
      {| s_fs := s_fs s; s_clock := s_clock s; s_seen := s_seen s; s_db := s_db s; s_defs := upd (s_defs s) t d; s_ck := s_ck s;
         s_last_ok := s_last_ok s; s_crashed := s_crashed s; s_log := s_log s |}
  | SetChecker c =>
      {| s_fs := s_fs s; s_clock := s_clock s; s_seen := s_seen s; s_db := s_db s; s_defs := s_defs s; s_ck := c;
         s_last_ok := s_last_ok s; s_crashed := s_crashed s; s_log := s_log s |}
  | SaveOk t =>
      let '(d, o) := process_success md5 v (s_ck s) (s_fs s) (s_db s) t (s_defs s t) in
      let g := match o with
               | SaveDone => upd (s_last_ok s) t (Some (snap s t (save_extra_values (s_db s) (s_defs s t))))
               | _ => upd (s_last_ok s) t None
               end in
      with_db s d g (match o with SaveCrash => true | _ => false end) [OSave t o]
  | Remove t => with_db s (remove_success (s_db s) t) (upd (s_last_ok s) t None) false []
  | Ignore t => with_db s (ignore (s_db s) t) (s_last_ok s) false []
  | ResetDep t =>
      let '(d, code) := reset_dep md5 v (s_ck s) (s_fs s) (s_db s) t (s_defs s t) in
      let g := if code =? 2 then upd (s_last_ok s) t (Some (snap s t (get_values (s_db s) t)))   (* reset-dep keeps the values *)
               else if code =? 98 then upd (s_last_ok s) t None
               else prune d (s_last_ok s) t in
      with_db s d g (code =? 98) [OReset t code]
  | ForgetAll => with_db s (remove_all (s_db s)) (fun _ => None) false []
  | Check t =>
      let r := get_status md5 v (s_ck s) (s_fs s) (s_db s) t (s_defs s t) false in
      with_db s (g_db r) (prune (g_db r) (s_last_ok s) t) (status_eqb (g_status r) Crash) [OCheck t false r]
  | CheckLog t =>
      let r := get_status md5 v (s_ck s) (s_fs s) (s_db s) t (s_defs s t) true in
      with_db s (g_db r) (prune (g_db r) (s_last_ok s) t) (status_eqb (g_status r) Crash) [OCheck t true r]
  end.

Definition run_from (s : state) (ops : list op) : state := fold_left step ops s.
Definition run (ops : list op) : state := run_from init ops.

(* the verdict `Check t` would give in state s *)
Definition check (s : state) (t : name) : gs_result :=
  get_status md5 v (s_ck s) (s_fs s) (s_db s) t (s_defs s t) false.

(* FS-fresh: the version an operation writes agrees with every version of that file seen so far under the same mtime *)
Definition consistent (sn : file -> Z -> option (Z * N)) (f : file) (m : meta) : bool :=
  match sn f (mtime m) with None => true | Some (sz, c) => Z.eqb sz (size m) && N.eqb c (content m) end.
Definition op_ok (s : state) (o : op) : bool :=
  match new_version s o with Some (f, m) => consistent (s_seen s) f m | None => true end.
Fixpoint hist_ok_from (s : state) (ops : list op) : bool :=
  match ops with [] => true | o :: r => op_ok s o && hist_ok_from (step s o) r end.
Definition hist_ok (ops : list op) : bool := hist_ok_from init ops.

(* the special case: only forward-clock writes *)
Definition fresh_op (o : op) : bool := match o with WriteSameMtime _ _ | WriteAt _ _ _ | TouchAt _ _ => false | _ => true end.
Definition fs_fresh (ops : list op) : bool := forallb fresh_op ops.

(* the weaker reading of FS-fresh (not sufficient): every write changes the file's mtime *)
Definition op_changes_mtime (s : state) (o : op) : bool :=
  match new_version s o with
  | Some (f, m) => match s_fs s f with Some old => negb (Z.eqb (mtime old) (mtime m)) | None => true end
  | None => true
  end.
Fixpoint hist_changes_mtime_from (s : state) (ops : list op) : bool :=
  match ops with [] => true | o :: r => op_changes_mtime s o && hist_changes_mtime_from (step s o) r end.
Definition hist_changes_mtime (ops : list op) : bool := hist_changes_mtime_from init ops.

(* ---- what the runner does with one task (Runner.select_task + process_task_result, without
   setup-tasks/getargs), as the operations it amounts to.  [fail]: the actions fail. ---- *)
Definition run_task_ops (s : state) (t : name) (always fail : bool) : list op :=
  if status_is_ignore (s_db s) t then [] else
  Check t ::
  match g_status (check s t) with
  | Error => [Remove t]                       (* DependencyError -> _handle_task_error *)
  | Crash => []
  | UpToDate => if always then (if fail then [Remove t] else [SaveOk t]) else []
  | Run => if fail then [Remove t] else [SaveOk t]
  end.
Definition run_task (s : state) (t : name) (always fail : bool) : state :=
  run_from s (run_task_ops s t always fail).
(* a whole run in which no action fails *)
Definition run_all (s : state) (ts : list name) : state := fold_left (fun s t => run_task s t false false) ts s.
(* was t executed by run_task in state s? *)
Definition executes (s : state) (t : name) (always : bool) : bool :=
  negb (status_is_ignore (s_db s) t) &&
  match g_status (check s t) with Run => true | UpToDate => always | _ => false end.

End History.

(* ---- encodings for the correspondence check ---- *)
Definition reasons_z (r : reasons) : list Z :=
  [ znat (length (rs_uptodate_false r)); zb (rs_no_deps r); bitmask (rs_missing_target r);
    match rs_checker_changed r with Some (p, c) => 10 * ck_z p + ck_z c | None => 0 end;
    match rs_added r with Some l => bitmask l | None => -1 end;
    match rs_removed r with Some l => bitmask l | None => -1 end;
    bitmask (rs_missing_file_dep r); bitmask (rs_changed_file_dep r) ].
Definition obs_z (o : obs) : list Z :=
  match o with
  | OCheck t false r => [1; zN t; status_z (g_status r); bitmask (g_changed r)]
  | OCheck t true r => [2; zN t; status_z (g_status r); bitmask (g_changed r)] ++ reasons_z (g_reasons r)
  | OSave t o => [3; zN t; match o with SaveDone => 0 | SaveMissing f => 10 + zN f | SaveCrash => 98 end]
  | OReset t c => [4; zN t; c]
  end.
Definition log_z (s : state) : list Z := flat_map obs_z (rev (s_log s)).

Definition vkeys : list N := [0; 1; 2; 4; 6; 3; 5; 7]%N.   (* run-once, _config_changed, user keys 0-2, _result: of tasks 0-2 *)
Definition val_z (x : option (option N)) : Z := match x with None => -2 | Some None => -1 | Some (Some n) => zN n end.
Definition rec_z (files : list file) (r : option rec) : list Z :=
  match r with
  | None => [0]
  | Some r =>
      [1; match r_deps r with Some l => bitmask l | None => -1 end;
          match r_deps r with Some l => znat (length l) | None => -1 end;
          match r_checker r with Some c => ck_z c | None => 0 end;
          match r_result r with Some n => zN n | None => -1 end; zb (r_ignore r)]
      ++ flat_map (fun f => fstate_z (r_saved r f)) files
      ++ map (fun k => val_z (vget (r_values r) k)) vkeys
  end.
Definition db_z (tasks : list name) (files : list file) (d : db) : list Z := flat_map (fun t => rec_z files (d t)) tasks.
(* everything the harness compares: the log, then the logical DB content, then the crash flag *)
Definition observe (tasks : list name) (files : list file) (s : state) : list Z :=
  log_z s ++ [-7] ++ db_z tasks files (s_db s) ++ [-7; zb (s_crashed s)].
