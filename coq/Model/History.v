(* History.v -- histories over the per-task operation alphabet of DESIGN 4.5, on top of Status.v.
   A history is a list of operations applied to (file system, clock, DB, task definitions,
   configured checker).  The GHOST [s_last_ok] remembers what the last successful execution /
   reset-dep of each task observed (definition, checker, file system); it is never read by the
   transitions of the modelled code.  Definitions only.

   File system: a global clock hands out mtimes; [Write]/[Touch] always take a fresh one
   (hypothesis FS-fresh built into their semantics); [WriteSameMtime] is the operation that breaks
   it (content replaced, mtime and size kept), excluded from the theorems by [fs_fresh] and used in
   the `_refuted` companion.  [size_of] is an oracle (size of the byte string behind a content id). *)
From DoitV Require Export Base Status.
Open Scope Z_scope.

Record snapshot := { g_def : tdef; g_ck : ck; g_fs : fsys; g_values : vals }.   (* g_values: the values that were saved with it *)

Inductive op :=
| Write (f : file) (c : N)            (* create / overwrite with content c, fresh mtime *)
| Touch (f : file)                    (* same content, fresh mtime (no-op when missing) *)
| Delete (f : file)
| WriteSameMtime (f : file) (c : N)   (* NOT FS-fresh: other content, same mtime and size (no-op when missing) *)
| SetDef (t : name) (d : tdef)        (* the dodo file changed: file_dep / targets / uptodate / what the actions return *)
| SetChecker (c : ck)                 (* check_file_uptodate changed *)
| SaveOk (t : name)                   (* a successful execution is recorded: Runner.process_task_result(node, None) *)
| Remove (t : name)                   (* failure (Runner._handle_task_error) or `forget t`: remove_success *)
| Ignore (t : name)                   (* `ignore t` *)
| ResetDep (t : name)                 (* `reset-dep t` *)
| ForgetAll                           (* `forget --all`: remove_all *)
| Check (t : name)                    (* get_status(get_log=False) -- what run / list --status ask *)
| CheckLog (t : name).                (* get_status(get_log=True)  -- what info asks *)

(* what an operation lets the outside see *)
Inductive obs :=
| OCheck (t : name) (log : bool) (r : gs_result)
| OSave (t : name) (o : save_out)
| OReset (t : name) (code : Z).

Record state := {
  s_fs : fsys;
  s_clock : Z;
  s_db : db;
  s_defs : name -> tdef;
  s_ck : ck;
  s_last_ok : name -> option snapshot;   (* ghost *)
  s_crashed : bool;                      (* some operation so far ended in the TypeError of Status.v *)
  s_log : list obs                       (* newest first *)
}.

Definition init : state :=
  {| s_fs := fun _ => None; s_clock := 1; s_db := empty_db; s_defs := fun _ => empty_def; s_ck := MD5;
     s_last_ok := fun _ => None; s_crashed := false; s_log := [] |}.

Section History.
Variable md5 : N -> N.
Variable size_of : N -> Z.
Variable v : ver.

Definition with_fs (s : state) (fs : fsys) (clk : Z) : state :=
  {| s_fs := fs; s_clock := clk; s_db := s_db s; s_defs := s_defs s; s_ck := s_ck s;
     s_last_ok := s_last_ok s; s_crashed := s_crashed s; s_log := s_log s |}.
Definition with_db (s : state) (d : db) (g : name -> option snapshot) (crash : bool) (o : list obs) : state :=
  {| s_fs := s_fs s; s_clock := s_clock s; s_db := d; s_defs := s_defs s; s_ck := s_ck s;
     s_last_ok := g; s_crashed := s_crashed s || crash; s_log := o ++ s_log s |}.

Definition snap (s : state) (t : name) (values : vals) : snapshot :=
  {| g_def := s_defs s t; g_ck := s_ck s; g_fs := s_fs s; g_values := values |}.
(* the ghost of a task without record is forgotten *)
Definition prune (d : db) (g : name -> option snapshot) (t : name) : name -> option snapshot :=
  match d t with None => upd g t None | Some _ => g end.

Definition step (s : state) (o : op) : state :=
  match o with
  | Write f c =>
      with_fs s (upd (s_fs s) f (Some {| mtime := s_clock s; size := size_of c; content := c |})) (s_clock s + 1)
  | Touch f =>
      match s_fs s f with
      | Some m => with_fs s (upd (s_fs s) f (Some {| mtime := s_clock s; size := size m; content := content m |})) (s_clock s + 1)
      | None => with_fs s (s_fs s) (s_clock s + 1)
      end
  | Delete f => with_fs s (upd (s_fs s) f None) (s_clock s)
  | WriteSameMtime f c =>
      match s_fs s f with
      | Some m => with_fs s (upd (s_fs s) f (Some {| mtime := mtime m; size := size m; content := c |})) (s_clock s)
      | None => s
      end
  | SetDef t d =>
      {| s_fs := s_fs s; s_clock := s_clock s; s_db := s_db s; s_defs := upd (s_defs s) t d; s_ck := s_ck s;
         s_last_ok := s_last_ok s; s_crashed := s_crashed s; s_log := s_log s |}
  | SetChecker c =>
      {| s_fs := s_fs s; s_clock := s_clock s; s_db := s_db s; s_defs := s_defs s; s_ck := c;
         s_last_ok := s_last_ok s; s_crashed := s_crashed s; s_log := s_log s |}
  | SaveOk t =>
      let '(d, o) := process_success md5 v (s_ck s) (s_fs s) (s_db s) t (s_defs s t) in
      let g := match o with
               | SaveDone => upd (s_last_ok s) t (Some (snap s t (save_extra_values (s_db s) (s_defs s t))))
               | _ => upd (s_last_ok s) t None
               end in
      with_db s d g (match o with SaveCrash => true | _ => false end) [OSave t o]
  | Remove t => with_db s (remove_success (s_db s) t) (upd (s_last_ok s) t None) false []
  | Ignore t => with_db s (ignore (s_db s) t) (s_last_ok s) false []
  | ResetDep t =>
      let '(d, code) := reset_dep md5 v (s_ck s) (s_fs s) (s_db s) t (s_defs s t) in
      let g := if code =? 2 then upd (s_last_ok s) t (Some (snap s t (get_values (s_db s) t)))   (* reset-dep keeps the values *)
               else if code =? 98 then upd (s_last_ok s) t None
               else prune d (s_last_ok s) t in
      with_db s d g (code =? 98) [OReset t code]
  | ForgetAll => with_db s (remove_all (s_db s)) (fun _ => None) false []
  | Check t =>
      let r := get_status md5 v (s_ck s) (s_fs s) (s_db s) t (s_defs s t) false in
      with_db s (g_db r) (prune (g_db r) (s_last_ok s) t) (status_eqb (g_status r) Crash) [OCheck t false r]
  | CheckLog t =>
      let r := get_status md5 v (s_ck s) (s_fs s) (s_db s) t (s_defs s t) true in
      with_db s (g_db r) (prune (g_db r) (s_last_ok s) t) (status_eqb (g_status r) Crash) [OCheck t true r]
  end.

Definition run_from (s : state) (ops : list op) : state := fold_left step ops s.
Definition run (ops : list op) : state := run_from init ops.

(* the verdict `Check t` would give in state s *)
Definition check (s : state) (t : name) : gs_result :=
  get_status md5 v (s_ck s) (s_fs s) (s_db s) t (s_defs s t) false.

Definition fresh_op (o : op) : bool := match o with WriteSameMtime _ _ => false | _ => true end.
Definition fs_fresh (ops : list op) : bool := forallb fresh_op ops.

(* ---- what the runner does with one task (Runner.select_task + process_task_result, without
   setup-tasks/getargs), as the operations it amounts to.  [fail]: the actions fail. ---- *)
Definition run_task_ops (s : state) (t : name) (always fail : bool) : list op :=
  if status_is_ignore (s_db s) t then [] else
  Check t ::
  match g_status (check s t) with
  | Error => [Remove t]                       (* DependencyError -> _handle_task_error *)
  | Crash => []
  | UpToDate => if always then (if fail then [Remove t] else [SaveOk t]) else []
  | Run => if fail then [Remove t] else [SaveOk t]
  end.
Definition run_task (s : state) (t : name) (always fail : bool) : state :=
  run_from s (run_task_ops s t always fail).
(* a whole run in which no action fails *)
Definition run_all (s : state) (ts : list name) : state := fold_left (fun s t => run_task s t false false) ts s.
(* was t executed by run_task in state s? *)
Definition executes (s : state) (t : name) (always : bool) : bool :=
  negb (status_is_ignore (s_db s) t) &&
  match g_status (check s t) with Run => true | UpToDate => always | _ => false end.

End History.

(* ---- encodings for the correspondence check ---- *)
Definition reasons_z (r : reasons) : list Z :=
  [ znat (length (rs_uptodate_false r)); zb (rs_no_deps r); bitmask (rs_missing_target r);
    match rs_checker_changed r with Some (p, c) => 10 * ck_z p + ck_z c | None => 0 end;
    match rs_added r with Some l => bitmask l | None => -1 end;
    match rs_removed r with Some l => bitmask l | None => -1 end;
    bitmask (rs_missing_file_dep r); bitmask (rs_changed_file_dep r) ].
Definition obs_z (o : obs) : list Z :=
  match o with
  | OCheck t false r => [1; zN t; status_z (g_status r); bitmask (g_changed r)]
  | OCheck t true r => [2; zN t; status_z (g_status r); bitmask (g_changed r)] ++ reasons_z (g_reasons r)
  | OSave t o => [3; zN t; match o with SaveDone => 0 | SaveMissing f => 10 + zN f | SaveCrash => 98 end]
  | OReset t c => [4; zN t; c]
  end.
Definition log_z (s : state) : list Z := flat_map obs_z (rev (s_log s)).

Definition vkeys : list N := [0; 1; 2; 4; 6; 3; 5; 7]%N.   (* run-once, _config_changed, user keys 0-2, _result: of tasks 0-2 *)
Definition val_z (x : option (option N)) : Z := match x with None => -2 | Some None => -1 | Some (Some n) => zN n end.
Definition rec_z (files : list file) (r : option rec) : list Z :=
  match r with
  | None => [0]
  | Some r =>
      [1; match r_deps r with Some l => bitmask l | None => -1 end;
          match r_deps r with Some l => znat (length l) | None => -1 end;
          match r_checker r with Some c => ck_z c | None => 0 end;
          match r_result r with Some n => zN n | None => -1 end; zb (r_ignore r)]
      ++ flat_map (fun f => fstate_z (r_saved r f)) files
      ++ map (fun k => val_z (vget (r_values r) k)) vkeys
  end.
Definition db_z (tasks : list name) (files : list file) (d : db) : list Z := flat_map (fun t => rec_z files (d t)) tasks.
(* everything the harness compares: the log, then the logical DB content, then the crash flag *)
Definition observe (tasks : list name) (files : list file) (s : state) : list Z :=
  log_z s ++ [-7] ++ db_z tasks files (s_db s) ++ [-7; zb (s_crashed s)].
