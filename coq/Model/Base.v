(* Base.v -- shared definitions of the doit model: names, finite-list sets, pointwise maps.
   Definitions only (plus the few characterising lemmas every file needs). *)
From Coq Require Export List NArith ZArith Bool Arith Lia.
Export ListNotations.

Definition name := N.

Definition mem (x : name) (l : list name) : bool := existsb (N.eqb x) l.
Definition rem (x : name) (l : list name) : list name := filter (fun y => negb (N.eqb x y)) l.
Definition addset (x : name) (l : list name) : list name := if mem x l then l else l ++ [x].
Definition is_nil {A} (l : list A) : bool := match l with [] => true | _ => false end.

Definition upd {A} (f : name -> A) (k : name) (v : A) : name -> A :=
  fun x => if N.eqb x k then v else f x.

Fixpoint list_eqb {A} (eqb : A -> A -> bool) (a b : list A) : bool :=
  match a, b with
  | [], [] => true
  | x :: a', y :: b' => eqb x y && list_eqb eqb a' b'
  | _, _ => false
  end.

(* result comparison used by the correspondence check: None = agree *)
Definition cmpZ (model expected : list Z) : option (list Z) :=
  if list_eqb Z.eqb model expected then None else Some model.

Definition zN (n : N) : Z := Z.of_N n.
Definition zb (b : bool) : Z := if b then 1%Z else 0%Z.
Definition znat (n : nat) : Z := Z.of_nat n.

(* ---- characterising lemmas ---- *)
Lemma mem_In x l : mem x l = true <-> In x l.
Proof.
  unfold mem. rewrite existsb_exists. split.
  - intros [y [H1 H2]]. apply N.eqb_eq in H2. subst; auto.
  - intros H. exists x. split; auto. apply N.eqb_refl.
Qed.

Lemma mem_false_In x l : mem x l = false <-> ~ In x l.
Proof.
  split; intros H.
  - intros Hin. apply mem_In in Hin. congruence.
  - destruct (mem x l) eqn:E; auto. apply mem_In in E. contradiction.
Qed.

Lemma addset_In x y l : In y (addset x l) <-> y = x \/ In y l.
Proof.
  unfold addset. destruct (mem x l) eqn:E.
  - apply mem_In in E. split; [auto | intros [->|]; auto].
  - rewrite in_app_iff. simpl. split; intros; intuition auto.
Qed.

Lemma rem_In x y l : In y (rem x l) <-> In y l /\ y <> x.
Proof.
  unfold rem. rewrite filter_In. split; intros [H1 H2]; split; auto.
  - intros ->. rewrite N.eqb_refl in H2. discriminate.
  - apply negb_true_iff. apply N.eqb_neq. auto.
Qed.

Lemma upd_same {A} (f : name -> A) k v : upd f k v k = v.
Proof. unfold upd. rewrite N.eqb_refl. reflexivity. Qed.

Lemma upd_other {A} (f : name -> A) k v x : x <> k -> upd f k v x = f x.
Proof. unfold upd. intros H. apply N.eqb_neq in H. rewrite H. reflexivity. Qed.

Lemma is_nil_true {A} (l : list A) : is_nil l = true <-> l = [].
Proof. destruct l; simpl; split; congruence. Qed.

Lemma list_eqb_Z_eq a b : list_eqb Z.eqb a b = true <-> a = b.
Proof.
  revert b; induction a as [|x a IH]; intros [|y b]; simpl; split; try congruence; auto.
  - intros H. apply andb_true_iff in H. destruct H as [H1 H2].
    apply Z.eqb_eq in H1. apply IH in H2. congruence.
  - intros H. inversion H; subst. rewrite Z.eqb_refl. simpl. apply IH. reflexivity.
Qed.
