(* ActionClass.v -- WHICH action class executes the user's callable (C06: "... raised inside ANY action").
   Model of the `execute` methods doit ships for actions whose work is a python callable, as far as they decide
   what becomes of the way the callable ended:
     CPython        doit/action.py 429-513  PythonAction.execute  (a callable, a (callable, args, kwargs) tuple or
                                            a PythonAction object in `actions`: create_action 524-557 builds the
                                            same class for all three) = Action.py_classify
     CPyInteractive doit/tools.py 215-231   PythonInteractiveAction.execute: `except Exception` -> TaskError;
                                            a returned str / dict sets result / values; EVERY other returned value
                                            (False, a TaskFailed object, ...) is a success ("it is successful unless
                                            a exception is raised")
     CCmdCallable   doit/action.py 148-156, 185-203, 273-324  CmdAction(callable): the callable computes the command;
                                            `except Exception` around expand_action -> TaskError; a returned value
                                            that is no str makes `self.action % subs_dict` raise TypeError (-> TaskError);
                                            a str is run by the shell: Action.cmd_classify of its exit status
   In all three a BaseException that is no Exception (KeyboardInterrupt, SystemExit, GeneratorExit, a user's own
   subclass) is caught by NO clause: it leaves execute, Task.execute (task.py 487-499) and Runner.execute_task.
   NOT modelled: doit.tools.LongRunning, whose documentation announces that a KeyboardInterrupt arriving while doit
   waits for the command is swallowed and the task is successful (the interrupt is not raised by the user's code).
   Definitions only. *)
From DoitV Require Export Action Dispatch.
Open Scope Z_scope.

Inductive acls := CPython | CPyInteractive | CCmdCallable.
Definition all_acls := [CPython; CPyInteractive; CCmdCallable].
Definition acls_z (c : acls) : Z := match c with CPython => 0 | CPyInteractive => 1 | CCmdCallable => 2 end.

(* tools.py 221-231 *)
Definition pyi_classify (t : rtag) : aout :=
  match t with
  | RRaises => AError            (* except Exception -> TaskError("PythonAction Error") *)
  | RBaseExc => APropagates      (* not caught *)
  | _ => AOk                     (* no test of the returned value but str / dict *)
  end.

(* CmdAction(callable): what computing the command string did, from the way the callable ended *)
Definition xtag_of (t : rtag) : xtag :=
  match t with
  | RStr => XString
  | RBaseExc => XBaseExc
  | _ => XRaises                 (* the callable raised, or `<not a str> % subs_dict` raised TypeError *)
  end.

(* one action: its class, how its callable ended, and (CCmdCallable, RStr only) the exit status of the command *)
Record cact := { ca_cls : acls; ca_tag : rtag; ca_rc : Z }.

Definition cls_execute (a : cact) : aout :=
  match ca_cls a with
  | CPython => py_classify (ca_tag a)
  | CPyInteractive => pyi_classify (ca_tag a)
  | CCmdCallable => cmd_execute (xtag_of (ca_tag a)) (ca_rc a)
  end.
(* does the action object get `result` / `values` from the value the callable returned?  (CmdAction: result is the
   captured output of the command, never the callable's value; values only with save_out -- both outside this model) *)
Definition cls_sets_result (a : cact) : bool :=
  match ca_cls a with CCmdCallable => false | _ => py_sets_result (ca_tag a) end.
Definition cls_sets_values (a : cact) : bool :=
  match ca_cls a with CCmdCallable => false | _ => py_sets_values (ca_tag a) end.

(* Task.execute (task.py 494-499): the loop ends at the first action that does not succeed *)
Fixpoint cls_task_outcome (acts : list cact) : aout :=
  match acts with
  | [] => AOk
  | a :: r => match cls_execute a with AOk => cls_task_outcome r | o => o end
  end.
(* how many callables were started *)
Fixpoint cls_started (acts : list cact) : nat :=
  match acts with
  | [] => 0%nat
  | a :: r => S (match cls_execute a with AOk => cls_started r | _ => 0%nat end)
  end.

(* what Runner.execute_task / process_task_result make of it: the `outcome` of Model/Dispatch.v (save_success is
   assumed to work: OSaveErr / OFailV are refinements the C06 statements do not need) *)
Definition outcome_of (o : aout) : outcome :=
  match o with AOk => OOk | AFailed => OFail | AError => OError | APropagates => OInterrupt end.

(* encoding for the correspondence check: [aout; sets result?; sets values?] *)
Definition enc_cls (a : cact) : list Z :=
  [aout_z (cls_execute a); if cls_sets_result a then 1 else 0; if cls_sets_values a then 1 else 0].
Definition enc_cls_task (acts : list cact) : list Z :=
  [aout_z (cls_task_outcome acts); Z.of_nat (cls_started acts)].
